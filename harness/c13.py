"""C13 — row-level filtering returns exactly the rows that satisfy the predicate.

Datasets: several row groups of unequal size (so that pruning changes offsets), multi-page chunks
(small writer.MAX_PAGE_SIZE), nulls / NaN, v1 and v2 data pages, hive partitions.  Programs: the
filter grammar of C05 as flat lists (= AND) and OR-of-AND lists, with `row_filter=True`; arbitrary
boolean masks.  Output columns with and without the filter columns.
Oracle: brute force on the full read (SQL null semantics; null cells are don't-care for != and
`not in`, where pandas and SQL differ); all requested columns aligned; count(filters, row_filter)
equals the number of rows.  Correspondence `rowfilter.eval`: Impl.RowFilter (the evaluation order
of `_column_filter` and the page-wise / row-group-wise mask slicing) vs the real selection.
"""
import math, os, shutil
import numpy as np
import pandas as pd
from .common import parse_reply, parse_list, canon_err, short_tb, fmt_list
from .gen_tables import diff_frames
from .c05 import sat, OPS, enc_op

ASSUMPTIONS = ["page decode itself is C01/C03's subject", "comparisons are on linearly ordered scalars (rank-mapped for the model)"]


def make_ds(ctx, rng, d):
    import fastparquet
    from fastparquet import writer
    sizes = rng.choice([[4, 8, 8], [7, 1, 5], [20], [3, 3, 3, 3], [8, 7]])
    if d == 0:
        sizes = [4, 8, 8]
    if d == 1:
        sizes = [40, 10]          # directed: a row group of several v1 pages (see the page-gap programs)
    n = sum(sizes)
    df = pd.DataFrame({"rid": np.arange(n, dtype="int64")})
    df["i"] = np.array([rng.randrange(0, 12) for _ in range(n)], dtype="int64")
    if rng.random() < 0.5:
        df["i"] = np.sort(df["i"].values)      # sorted => pruning removes leading/trailing row groups
    df["f"] = np.array([rng.choice([float(rng.randrange(0, 6)), float("nan")]) for _ in range(n)], dtype="float64")
    df["s"] = pd.Series([rng.choice(["a", "b", "c", None]) for _ in range(n)], dtype=object)
    df["flag"] = np.array([rng.randrange(0, 2) for _ in range(n)], dtype="int64")
    # output-only columns of the kinds that take other decode paths (masked arrays, categorical codes)
    df["nI"] = pd.array([None if rng.random() < 0.3 else rng.randrange(0, 50) for _ in range(n)], dtype="Int64")
    df["nb"] = pd.array([None if rng.random() < 0.3 else bool(rng.randrange(0, 2)) for _ in range(n)], dtype="boolean")
    df["cat"] = pd.Categorical([rng.choice(["x", "y", "z"]) for _ in range(n)])
    parts = []
    layout = rng.choice(["simple", "simple", "hive", "hive-part"])
    if layout == "hive-part":
        df["p"] = np.array([rng.randrange(0, 3) for _ in range(n)], dtype="int64")
        parts = ["p"]
    pagesize = rng.choice([None, None, 64, 200])
    version = rng.choice([1, 1, 2])
    if d == 1:
        layout, parts, pagesize, version = "simple", [], 64, 1
        df = df.drop(columns=["p"], errors="ignore")
    if d == 2:
        pagesize, version = 64, 2
    if d == 3:
        # directed: a partitioned dataset for AND groups that mix partition and ordinary conditions in either order
        # every (incoming row group, partition) piece holds small and large `i`, so that no piece is pruned by the statistics of `i`
        df["p"] = np.array([r % 3 for r in range(n)], dtype="int64")
        df["i"] = np.array([(r * 5) % 12 for r in range(n)], dtype="int64")
        layout, parts = "hive-part", ["p"]
    path = os.path.join(ctx.workdir("c13"), f"d{d}")
    shutil.rmtree(path, ignore_errors=True)
    if os.path.isfile(path):
        os.remove(path)
    offs = [0]
    for s in sizes[:-1]:
        offs.append(offs[-1] + s)
    old_ps, old_v = writer.MAX_PAGE_SIZE, writer.DATAPAGE_VERSION
    try:
        if pagesize:
            writer.MAX_PAGE_SIZE = pagesize
        writer.DATAPAGE_VERSION = version
        kw = dict(row_group_offsets=offs, write_index=False, stats=True)
        if layout == "simple":
            fastparquet.write(path, df, **kw)
        else:
            fastparquet.write(path, df, file_scheme="hive", partition_on=parts, **kw)
    finally:
        writer.MAX_PAGE_SIZE, writer.DATAPAGE_VERSION = old_ps, old_v
    return path, df, {"sizes": sizes, "layout": layout, "pagesize": pagesize, "page_version": version, "parts": parts}


def rand_cond(rng, full, cols):
    c = rng.choice(cols)
    op = rng.choice(OPS)
    vals = [v for v in full[c].tolist() if not (v is None or (isinstance(v, float) and math.isnan(v)))]
    pool = sorted(set(vals)) or [0]
    if c in ("i", "p", "flag", "rid"):
        pool = [int(x) for x in pool] + [int(pool[0]) - 1, int(pool[-1]) + 1]
    if op in ("in", "not in"):
        return (c, op, [rng.choice(pool) for _ in range(rng.choice([0, 1, 2, 3]))])
    return (c, op, rng.choice(pool))


def run(ctx, report):
    import fastparquet
    rng = ctx.rng
    report.rule = ("datasets with unequal row groups, multi-page chunks, nulls, v1/v2 pages, partitions x filter programs (flat = AND, "
                   "nested = OR of ANDs) with row_filter=True, and arbitrary boolean masks; non-trivial = predicate keeps >=1 and drops "
                   ">=1 row; distinct by (dataset, program)")
    nds = 8 if ctx.quick else 60
    nprog = 20 if ctx.quick else 50
    reqs = []
    for d in range(nds):
        try:
            path, df, desc = make_ds(ctx, rng, d)
        except Exception as e:  # noqa
            report.notes.append("dataset write failed: " + canon_err(e) + str(e)[:80])
            continue
        pf = fastparquet.ParquetFile(path)
        try:
            full = pf.to_pandas()
        except Exception as e:  # noqa
            report.violation({"check": "full-read", "dataset": desc, "what": "full read raised " + canon_err(e) + " " + str(e)[:100],
                              "sig": "full-read:" + canon_err(e)})
            continue
        records = full.to_dict("records")
        cols = ["i", "f", "s", "flag"] + desc["parts"]
        report.count("layout:" + desc["layout"])
        report.count(f"pages:{desc['pagesize']}:v{desc['page_version']}")
        for p in range(nprog):
            kind = rng.choice(["flat1", "flat2", "flat3", "or2", "or3", "mask", "mask"])
            outcols = rng.choice([None, ["rid"], ["rid", "s"], ["rid", "f", "i"], ["rid", "nI"], ["rid", "cat", "nb"]])
            rec = {"check": "rowfilter", "dataset": desc, "program": kind, "out_columns": outcols}
            ctx.crumb(rec)
            try:
                gap = d in (1, 2) and p < 4
                mixed = d == 3 and p < 4 and "p" in desc["parts"]
                ponly = d == 3 and p in (4, 5) and "p" in desc["parts"]
                orpart = d == 3 and p in (6, 7) and "p" in desc["parts"]
                if mixed or ponly:
                    kind = "flat2"
                if orpart:
                    kind = "or2"
                if gap:
                    # directed: rows selected in the first and in later pages of a row group, none in the page(s) between
                    kind = "mask" if p % 2 == 0 else "or2"
                if kind == "mask":
                    mask = np.array([rng.random() < rng.choice([0.1, 0.5, 0.9]) for _ in range(len(full))], dtype=bool)
                    if rng.random() < 0.2:
                        mask[: len(mask) // 2] = False
                    if gap:
                        lo, hi = (5, 20) if p == 0 else (2, 33)
                        mask = np.array([(r < lo or r >= hi) for r in range(len(full))], dtype=bool)
                    rec["mask_true"] = int(mask.sum())
                    got = pf.to_pandas(columns=outcols, row_filter=mask) if outcols else pf.to_pandas(row_filter=mask)
                    want_rids = [int(r) for r, m in zip(full["rid"], mask) if m]
                    dontcare = set()
                    cnt = None
                else:
                    if kind.startswith("flat"):
                        filt = [rand_cond(rng, full, cols) for _ in range(int(kind[-1]))]
                        if mixed:
                            filt = [[("p", "==", 1), ("i", ">", 4)], [("i", ">", 4), ("p", "==", 1)],
                                    [("p", "in", [0, 2]), ("flag", "==", 1), ("i", "<", 9)], [("i", "<", 8), ("p", "!=", 0), ("flag", "==", 0)]][p]
                        if ponly:
                            # an AND group naming partition columns only: nothing is left to test row by row, so every row of the
                            # retained row groups qualifies
                            filt = [[("p", "==", 1)], [("p", "in", [0, 2]), ("p", "!=", 2)]][p - 4]
                        dnf = [filt]
                    else:
                        dnf = [[rand_cond(rng, full, cols) for _ in range(rng.choice([1, 2]))] for _ in range(int(kind[-1]))]
                        if gap:
                            lo, hi = (5, 20) if p == 1 else (1, 26)
                            dnf = [[("rid", "<", lo)], [("rid", ">=", hi)]]
                        if orpart:
                            # an OR of AND groups one of which names the partition column: rows of OTHER partitions that satisfy the
                            # rest of that group must not come back
                            dnf = [[[("p", "==", 1), ("i", ">", 4)], [("i", "<", 2)]],
                                   [[("i", "<", 2)], [("p", "in", [0, 2]), ("flag", "==", 1)]]][p - 6]
                        filt = dnf
                    rec["filters"] = repr(filt)
                    rec["mentions_partition_in_or"] = bool(desc["parts"]) and len(dnf) > 1 and any(c[0] in desc["parts"] for g in dnf for c in g)
                    got = pf.to_pandas(columns=outcols, filters=filt, row_filter=True) if outcols else pf.to_pandas(filters=filt, row_filter=True)
                    cnt = int(pf.count(filters=filt, row_filter=True))
                    # correspondence: the real _column_filter on the frame of filter columns vs Impl.RowFilter.columnFilter
                    if ctx.model_ok:
                        try:
                            req = model_req(pf, full, filt, dnf, kind.startswith("flat"), desc["parts"])
                            if req:
                                reqs.append((req[0], req[1], dict(rec)))
                        except TypeError:
                            pass

                    def row_sat(r, strict):
                        def c_sat(c, op, v):
                            x = r[c]
                            isnull = x is None or (isinstance(x, float) and math.isnan(x))
                            if isnull:
                                return (not strict) and op in ("!=", "not in")
                            return sat(op, v, x)
                        return any(all(c_sat(*c) for c in g) for g in dnf)
                    want_rids = [int(r["rid"]) for r in records if row_sat(r, True)]
                    dontcare = {int(r["rid"]) for r in records if row_sat(r, False)} - set(want_rids)
            except TypeError as e:
                # a refusal only when the predicate itself compares incomparable values (the oracle cannot evaluate it either)
                incomparable = False
                if kind != "mask":
                    try:
                        def _c(r, c, op, v):
                            x = r[c]
                            if x is None or (isinstance(x, float) and math.isnan(x)):
                                return False
                            return sat(op, v, x)
                        for r_ in records:
                            any(all(_c(r_, *c) for c in g) for g in dnf)
                    except TypeError:
                        incomparable = True
                # ... or when an ordering comparison meets a missing value in an object column (pandas refuses to order None
                # against text): an explicit refusal, not a wrong answer
                if "not supported between instances of 'NoneType'" in str(e) and kind != "mask":
                    incomparable = True
                if incomparable:
                    report.count("refused:type")
                    continue
                report.violation({**rec, "what": "row-filtered read raised: " + canon_err(e) + " " + str(e)[:120], "multi_page": desc["pagesize"] is not None,
                                  "page_version": desc["page_version"], "sig": f"raised:{kind}:TypeError:{'mp' if desc['pagesize'] else 'sp'}:v{desc['page_version']}"})
                continue
            except Exception as e:  # noqa
                report.violation({**rec, "what": "row-filtered read raised: " + canon_err(e) + " " + str(e)[:120], "multi_page": desc["pagesize"] is not None,
                                  "page_version": desc["page_version"], "sig": f"raised:{kind}:{canon_err(e)}:{'mp' if desc['pagesize'] else 'sp'}:v{desc['page_version']}"})
                continue
            probs = []
            if "rid" in got.columns:
                got_rids = [int(x) for x in got["rid"]]
                core = [r for r in got_rids if r not in dontcare]
                if core != want_rids:
                    probs.append(f"rows {got_rids[:12]} returned; exactly {want_rids[:12]} satisfy the predicate")
                else:
                    # alignment of every requested column
                    exp = full.iloc[[int(r) for r in got_rids]] if list(full["rid"]) == list(range(len(full))) else full[full["rid"].isin(got_rids)]
                    cc = list(got.columns)
                    dd = diff_frames(exp[cc].reset_index(drop=True), got.reset_index(drop=True))
                    if dd:
                        probs.append("columns not aligned with the selected rows: " + "; ".join(dd)[:200])
                if cnt is not None and cnt != len(got):
                    probs.append(f"count(filters, row_filter=True) = {cnt} but {len(got)} rows are returned")
            if probs and kind != "mask" and any(c[1] == "not in" for g in dnf for c in g):
                # is the loss already there without row filtering (row-group pruning by `not in`)?
                try:
                    coarse = set(int(x) for x in pf.to_pandas(columns=["rid"], filters=filt)["rid"])
                    rec["pruned_by_not_in"] = bool(set(want_rids) - coarse)
                except Exception:
                    pass
            if probs:
                flat_multi = kind in ("flat2", "flat3")
                report.violation({**rec, "what": "; ".join(probs)[:400], "flat_multi": flat_multi,
                                  "multi_page": desc["pagesize"] is not None, "page_version": desc["page_version"],
                                  "sig": f"wrong:{kind}:{'mp' if desc['pagesize'] else 'sp'}:v{desc['page_version']}:{'part' if rec.get('mentions_partition_in_or') else ''}"})
            nontrivial = 0 < len(want_rids) < len(full)
            report.case(("prog", d, p), nontrivial, sample=rec if nontrivial and len(report.samples) < 5 else None)
            report.count("program:" + kind)
            report.stream("rowfilter.eval")
        shutil.rmtree(path, ignore_errors=True) if os.path.isdir(path) else (os.path.exists(path) and os.remove(path))
    if reqs and ctx.model_ok:
        reps = ctx.driver.ask([r[0] for r in reqs])
        for (req, real, rec), rep in zip(reqs, reps):
            head, dd = parse_reply(rep)
            m = parse_list(dd["sel"]) if head == "ok" else None
            if m != real:
                report.corr_break("rowfilter.eval", {**rec, "model": str(m)[:200], "real": str(real)[:200], "request": req[:300], "explained_by_known": False})
        report.count("model_requests", len(reqs))


def model_req(pf, full, filt, dnf, is_flat, parts):
    """request for `rowfilter eval` + the real selection computed by ParquetFile._column_filter"""
    cs = pf._columns_from_filters(filt)
    frame = full[cs] if cs else full[[]]
    sizes = [int(rg.num_rows) for rg in pf.row_groups]
    try:
        # as repaired: conditions on partition columns are evaluated per row group
        real = [int(x) for x in pf._column_filter(frame, filters=filt, rgs=list(pf.row_groups))]
        sizes_txt = f" sizes={fmt_list(sizes)}"
    except TypeError:
        real = [int(x) for x in pf._column_filter(frame, filters=filt)]
        sizes_txt = ""
    allcols = sorted({c[0] for g in dnf for c in g})
    colid = {c: k for k, c in enumerate(allcols)}
    rank = {}
    for c in allcols:
        consts = set()
        for g in dnf:
            for (cc, op, v) in g:
                if cc == c:
                    consts |= set(v if isinstance(v, list) else [v])
        if c in full.columns:
            consts |= {v for v in full[c].tolist() if not (v is None or (isinstance(v, float) and math.isnan(v)))}
        rank[c] = {x: i for i, x in enumerate(sorted(consts))}
    rows = []
    for r in full.to_dict("records"):
        cells = []
        for c in allcols:
            x = r.get(c)
            cells.append("n" if (x is None or (isinstance(x, float) and math.isnan(x))) else str(rank[c][x]))
        rows.append("[" + ",".join(cells) + "]")
    groups = []
    for g in dnf:
        cs_ = []
        for (c, op, v) in g:
            if isinstance(v, list):
                cs_.append(f"[{colid[c]},{enc_op(op)},0,{fmt_list([rank[c][x] for x in v])}]")
            else:
                cs_.append(f"[{colid[c]},{enc_op(op)},{rank[c][v]},[]]")
        groups.append("[" + ",".join(cs_) + "]")
    pids = [colid[p] for p in parts if p in colid]
    return (f"rowfilter eval flat={1 if is_flat else 0} parts={fmt_list(pids)}{sizes_txt} filters=[{','.join(groups)}] rows=[{','.join(rows)}]", real)


def search(ctx, report):
    old = ctx.tier
    ctx.tier = "thorough"
    try:
        run(ctx, report)
    finally:
        ctx.tier = old


def replay(ctx, rec, report):
    r2 = type(report)(report.prop, report.tier, report.seed)
    run(ctx, r2)
    return any(v.get("sig") == rec.get("sig") for v in r2.violations)
