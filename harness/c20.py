"""C20 — concurrent reads and derived handles give the same results as sequential use.

1. `sched.writeset`: every handle operation is run ALONE; deep snapshots of the shared state (the
   FileMetaData contents: schema-element dictionaries with their `children` trees, statistics
   objects with memo keys) before and after give its write set, which must equal the model's
   classification: read-only operations write nothing but memo keys (`converted_min/max`); an
   operation that derives a handle must leave the parent's shared state equal.
2. Search / oracle: thread pools of 2..16 issuing the property's operations on ONE shared handle
   with sys.setswitchinterval(1e-6) and randomised start barriers; each result is compared with
   its sequential twin and no call may fail.  Part-file writers sharing one schema object must
   produce the same bytes as one after another.
"""
import copy, hashlib, io, os, pickle, random, shutil, sys, threading, time
import numpy as np
import pandas as pd
from .common import canon_err, short_tb
from .gen_tables import diff_frames

ASSUMPTIONS = ["the GIL makes single dict/list reads and writes atomic (steps of the model)",
               "the observed write sets are complete for the operations exercised (measured, not proved)"]


def make_ds(ctx):
    import fastparquet
    n = 60
    rng = ctx.rng
    df = pd.DataFrame({"rid": np.arange(n, dtype="int64"),
                       "i": np.array(sorted(rng.randrange(0, 30) for _ in range(n)), dtype="int64"),
                       "f": np.array([rng.random() for _ in range(n)], dtype="float64"),
                       "s": pd.Series([rng.choice(["a", "b", "c"]) for _ in range(n)], dtype=object),
                       "c": pd.Categorical([rng.choice(["x", "y"]) for _ in range(n)]),
                       # columns whose statistics need a converted-type conversion before they can be compared
                       "u": np.array([2 ** 31 + 7 * k for k in range(n)], dtype="uint32"),
                       "t": pd.to_datetime("2020-01-01") + pd.to_timedelta(np.arange(n), unit="D")})
    path = os.path.join(ctx.workdir("c20"), "ds.parq")
    fastparquet.write(path, df, row_group_offsets=list(range(0, n, 10)), stats=True, write_index=False)
    return path, df


def freeze(o, depth=0):
    """deep, order-insensitive rendering of thrift-ish state (dicts / lists / ThriftObject / scalars)"""
    from fastparquet.cencoding import ThriftObject
    if isinstance(o, ThriftObject):
        o = o.contents
    if isinstance(o, dict):
        return ("d", tuple(sorted(((repr(k), freeze(v, depth + 1)) for k, v in o.items() if k != "children" or depth < 6), key=lambda t: t[0])))
    if isinstance(o, (list, tuple)):
        return ("l", tuple(freeze(v, depth + 1) for v in o))
    if isinstance(o, np.ndarray):
        return ("a", o.tobytes(), str(o.dtype))
    if isinstance(o, (bytes, str, int, float, bool, type(None))):
        return o
    return repr(o)


def diff_state(a, b, path="fmd"):
    out = []
    if type(a) != type(b) or (isinstance(a, tuple) and a and b and a[0] != b[0]):
        return [path]
    if isinstance(a, tuple) and a and a[0] == "d":
        da, db = dict(a[1]), dict(b[1])
        for k in sorted(set(da) | set(db)):
            if k not in da or k not in db:
                out.append(f"{path}[{k}]")
            elif da[k] != db[k]:
                out += diff_state(da[k], db[k], f"{path}[{k}]")
        return out
    if isinstance(a, tuple) and a and a[0] == "l":
        if len(a[1]) != len(b[1]):
            return [path + ".len"]
        for i, (x, y) in enumerate(zip(a[1], b[1])):
            if x != y:
                out += diff_state(x, y, f"{path}[{i}]")
        return out
    return [path] if a != b else []


OPS = {
    "to_pandas": lambda pf: pf.to_pandas(),
    "to_pandas_cols": lambda pf: pf.to_pandas(columns=["f", "rid"]),
    "to_pandas_filter": lambda pf: pf.to_pandas(filters=[("i", ">", 10)]),
    "to_pandas_filter_u": lambda pf: pf.to_pandas(filters=[("u", ">", 100)], columns=["rid", "u"]),
    "to_pandas_filter_t": lambda pf: pf.to_pandas(filters=[("t", ">=", np.datetime64("2020-01-15"))], columns=["rid", "t"]),
    "to_pandas_cat": lambda pf: pf.to_pandas(columns=["c", "rid"], categories=["c"]),
    "slice": lambda pf: pf[1:4].to_pandas(),
    "pick": lambda pf: pf[2].to_pandas(columns=["rid", "s"]),
    "iter": lambda pf: pd.concat(list(pf.iter_row_groups(columns=["rid", "i"])), ignore_index=True),
    "head": lambda pf: pf.head(13),
    "statistics": lambda pf: pd.DataFrame({k: pd.Series([repr(x) for x in v["i"]]) for k, v in pf.statistics.items() if k in ("min", "max")}),
    "pickle": lambda pf: pickle.loads(pickle.dumps(pf)).to_pandas(columns=["rid"]),
    "count": lambda pf: pd.DataFrame({"n": [pf.count(filters=[("i", "<", 20)])]}),
}
DERIVING = {"slice", "pick", "iter", "head"}
MEMO_OK = ("converted_min", "converted_max")


MUTATORS = {"append", "extend", "update", "pop", "popitem", "setdefault", "insert", "remove", "clear", "sort", "reverse", "add",
            "discard", "__setitem__", "__delitem__", "__setattr__", "_set_attrs", "setattr", "delattr"}
_STORE_LINES = {}


def store_lines(filename):
    """line numbers (first line of the statement) of statements that can write into an existing object: stores to an
    attribute or subscript, `del`, calls of mutating methods / setattr"""
    import ast
    if filename in _STORE_LINES:
        return _STORE_LINES[filename]
    out = set()
    try:
        tree = ast.parse(open(filename).read())
    except Exception:  # noqa
        _STORE_LINES[filename] = None       # unknown: treat every line as a store
        return None
    for node in ast.walk(tree):
        if isinstance(node, ast.stmt) and not isinstance(node, (ast.FunctionDef, ast.ClassDef, ast.If, ast.For, ast.While, ast.With, ast.Try)):
            hit = False
            for sub in ast.walk(node):
                if isinstance(sub, (ast.Attribute, ast.Subscript)) and isinstance(sub.ctx, (ast.Store, ast.Del)):
                    hit = True
                elif isinstance(sub, ast.Call):
                    f = sub.func
                    if (isinstance(f, ast.Attribute) and f.attr in MUTATORS) or (isinstance(f, ast.Name) and f.id in MUTATORS):
                        hit = True
            if hit:
                out.add(node.lineno)
    _STORE_LINES[filename] = out
    return out


def module_buffers():
    """module-level buffers of fastparquet's Python modules (numpy arrays, bytearrays): scratch space every thread shares.
    Dicts are left out: those are memo tables, whose entries are published whole."""
    out = {}
    for mname, mod in list(sys.modules.items()):
        if not (mname == "fastparquet" or mname.startswith("fastparquet.")) or not str(getattr(mod, "__file__", "")).endswith(".py"):
            continue
        for k, v in list(vars(mod).items()):
            if isinstance(v, (np.ndarray, bytearray)) and not k.startswith("__"):
                out[f"{mname}.{k}"] = v
    return out


def buffers_sig(bufs):
    return tuple((k, bytes(v) if isinstance(v, bytearray) else v.tobytes()) for k, v in sorted(bufs.items()))


def trace_changes(fn, shared, pkgdir, buffers=None):
    """Run fn() under a line tracer and record every CHANGE of the frozen shared state as it becomes visible.  The state is
    re-examined after every statement of fastparquet's Python files that can store into an existing object (see
    store_lines) and at the end.  Returns (result, [(event_index, file, line, paths)]); event indices count ALL line/return
    events in fastparquet's files, so they can be used by run_paused."""
    last = [freeze(shared)]
    changes, idx = [], [0]
    pending = {}
    buffers = buffers or {}
    last_b = [buffers_sig(buffers)]
    prev_line = {}

    def look(fn_, lineno):
        cur = freeze(shared)
        if cur != last[0]:
            changes.append((idx[0], os.path.basename(fn_), lineno, diff_state(last[0], cur)[:6]))
            last[0] = cur

    def look_buffers(fn_, lineno):
        # cheap, after EVERY statement: native calls write into buffers without any store syntax
        cur = buffers_sig(buffers)
        if cur != last_b[0]:
            names = [a[0] for a, b in zip(cur, last_b[0]) if a != b]
            changes.append((idx[0], os.path.basename(fn_), lineno, [f"buffer[{n}]" for n in names][:6]))
            last_b[0] = cur

    def tracer(frame, event, arg):
        fn_ = frame.f_code.co_filename
        if not fn_.startswith(pkgdir):
            return None
        if event in ("line", "return"):
            idx[0] += 1
            key = id(frame)
            if buffers:
                look_buffers(fn_, prev_line.get(key, frame.f_lineno))
                prev_line[key] = frame.f_lineno
            if pending.get(key):
                look(fn_, frame.f_lineno)
            if event == "line":
                sl = store_lines(fn_)
                pending[key] = sl is None or frame.f_lineno in sl
            else:
                pending.pop(key, None)
        return tracer
    sys.settrace(tracer)
    try:
        out = fn()
    finally:
        sys.settrace(None)
    idx[0] += 1
    look("<end>", 0)
    if buffers:
        look_buffers("<end>", 0)
    return out, changes


def run_paused(fn_a, pause_at, pkgdir, while_paused):
    """Forced schedule: run fn_a in a thread, stop it at line event number `pause_at` (inside fastparquet's Python files),
    run `while_paused()` in the calling thread, then let fn_a finish.  Returns (result_a | exception, result of while_paused)."""
    reached, go = threading.Event(), threading.Event()
    box = {}

    def tracer_factory():
        idx = [0]

        def tracer(frame, event, arg):
            if not frame.f_code.co_filename.startswith(pkgdir):
                return None
            if event in ("line", "return"):
                idx[0] += 1
                if idx[0] == pause_at:
                    reached.set()
                    go.wait(20)
            return tracer
        return tracer

    def body():
        sys.settrace(tracer_factory())
        try:
            box["a"] = ("ok", fn_a())
        except Exception as e:  # noqa
            box["a"] = ("exc", canon_err(e) + " " + str(e)[:80])
        finally:
            sys.settrace(None)
            reached.set()
    t = threading.Thread(target=body)
    t.start()
    reached.wait(20)
    try:
        mid = ("ok", while_paused())
    except Exception as e:  # noqa
        mid = ("exc", canon_err(e) + " " + str(e)[:80])
    go.set()
    t.join(30)
    return box.get("a"), mid


def run_two_paused(fn_a, k1, fn_b, k2, pkgdir):
    """Forced schedule with two preemptions: A runs to its line event k1 and stops; B runs to its line event k2 and stops;
    A finishes; B finishes.  Returns (result_a, result_b)."""
    evs = {n: (threading.Event(), threading.Event()) for n in "ab"}
    box = {}

    def mk(name, fn, k):
        reached, go = evs[name]

        def tracer_factory():
            idx = [0]

            def tracer(frame, event, arg):
                if not frame.f_code.co_filename.startswith(pkgdir):
                    return None
                if event in ("line", "return"):
                    idx[0] += 1
                    if idx[0] == k:
                        reached.set()
                        go.wait(20)
                return tracer
            return tracer

        def body():
            sys.settrace(tracer_factory())
            try:
                box[name] = ("ok", fn())
            except Exception as e:  # noqa
                box[name] = ("exc", canon_err(e) + " " + str(e)[:80])
            finally:
                sys.settrace(None)
                reached.set()
        return threading.Thread(target=body)
    ta, tb = mk("a", fn_a, k1), mk("b", fn_b, k2)
    ta.start()
    evs["a"][0].wait(20)
    tb.start()
    evs["b"][0].wait(20)
    evs["a"][1].set()
    ta.join(30)
    evs["b"][1].set()
    tb.join(30)
    return box.get("a"), box.get("b")


def shared_state(pf):
    """what threads using one handle share: the metadata tree and the handle's own cached attributes"""
    extra = {k: v for k, v in vars(pf).items() if k not in ("fmd", "fs", "open", "remove", "mkdirs", "_schema", "schema", "helper")
             and not callable(v)}
    return {"fmd": pf.fmd, "handle": {k: repr(v)[:200] for k, v in extra.items()}}


def run(ctx, report):
    import fastparquet
    rng = ctx.rng
    report.rule = ("write sets of every operation run alone (deep snapshot diff of the shared metadata); then pools of 2..16 threads issuing "
                   "random operations on one shared handle with setswitchinterval(1e-6) and start barriers, each compared with its "
                   "sequential result; non-trivial = a run with >=1 handle-deriving operation concurrent with a read; distinct by the "
                   "operation multiset and seed")
    path, df = make_ds(ctx)
    # ---- 1. write sets
    for name, op in OPS.items():
        pf = fastparquet.ParquetFile(path)
        before = freeze(pf.fmd)
        try:
            op(pf)
        except Exception as e:  # noqa
            report.violation({"check": "alone", "op": name, "what": f"{name} alone raised {canon_err(e)} {str(e)[:80]}", "sig": "alone:" + name})
            continue
        after = freeze(pf.fmd)
        changed = diff_state(before, after)
        unexpected = [c for c in changed if not any(m in c for m in MEMO_OK)]
        report.case(("writeset", name), nontrivial=True, sample={"op": name, "write_set": changed[:6]} if len(report.samples) < 3 else None)
        report.stream("sched.writeset")
        report.count("alone:" + name)
        if unexpected:
            # the model says: read-only operations write only memo keys; deriving operations leave the parent's state EQUAL
            report.corr_break("sched.writeset", {"op": name, "model": "memo keys only", "real": unexpected[:6], "explained_by_known": False})
    # ---- 1b. TRANSIENT write sets: the model's steps are atomic publications - every path of the shared state changes at
    # most once during an operation (absent -> final value) and only memo / cache paths change.  A path that changes twice, or
    # a non-memo path that changes at all (even if restored), is a state other threads can observe half-way: the
    # correspondence with the model is broken and a forced schedule (pause there, run another operation) looks for the failure.
    pkgdir = os.path.dirname(fastparquet.__file__)
    pkgdir = os.path.realpath(pkgdir) if not os.path.islink(os.path.join(pkgdir, "api.py")) else pkgdir
    seq0 = {}
    for name, op in OPS.items():
        try:
            seq0[name] = op(fastparquet.ParquetFile(path))
        except Exception:
            seq0[name] = None
    for name, op in OPS.items():
        pf = fastparquet.ParquetFile(path)
        try:
            _, changes = trace_changes(lambda: op(pf), shared_state(pf), pkgdir, buffers=module_buffers())
        except Exception as e:  # noqa
            report.notes.append(f"trace of {name} failed: {canon_err(e)} {str(e)[:60]}")
            continue
        report.stream("sched.transient")
        report.count("traced:" + name)
        seen, suspicious = {}, []
        for (k, fl, ln, paths) in changes:
            for pth in paths:
                memo = (any(m in pth for m in MEMO_OK) or pth.startswith("fmd[\'handle\']") or "['handle']" in pth) and not pth.startswith("buffer[")
                seen[pth] = seen.get(pth, 0) + 1
                if not memo or seen[pth] > 1:
                    suspicious.append((k, fl, ln, pth, "non-memo shared state written" if not memo else "memo written twice"))
        report.case(("transient", name, len(changes)), nontrivial=True)
        if suspicious:
            k, fl, ln, pth, why = suspicious[0]
            rec = {"check": "transient", "op": name, "at": f"{fl}:{ln}", "path": pth, "why": why}
            report.corr_break("sched.transient", {**rec, "model": "every shared path is published at most once, memo keys only",
                                                  "real": [list(x[1:]) for x in suspicious[:4]], "explained_by_known": False})
            # forced schedule: stop the operation exactly where the half-written state is visible, run every other operation
            for other, op2 in OPS.items():
                if seq0.get(other) is None:
                    continue
                shared = fastparquet.ParquetFile(path)
                ra, rb = run_paused(lambda: op(shared), k, pkgdir, lambda: op2(shared))
                bad = []
                if rb[0] == "exc":
                    bad.append(f"{other} failed while {name} was paused at {fl}:{ln}: {rb[1]}")
                elif diff_frames(seq0[other].reset_index(drop=True), rb[1].reset_index(drop=True)):
                    bad.append(f"{other} returned a different result than alone while {name} was paused at {fl}:{ln} ({pth} half-written): "
                               + diff_frames(seq0[other].reset_index(drop=True), rb[1].reset_index(drop=True))[0])
                if ra is None or ra[0] == "exc":
                    bad.append(f"{name} failed after {other} ran in its pause: {ra[1] if ra else 'no result'}")
                elif seq0.get(name) is not None and diff_frames(seq0[name].reset_index(drop=True), ra[1].reset_index(drop=True)):
                    bad.append(f"{name} returned a different result than alone after {other} ran in its pause")
                report.evaluations += 1
                if bad:
                    report.violation({**rec, "schedule": f"{name} paused at line event {k} ({fl}:{ln}); {other} runs to completion; {name} resumes",
                                      "what": "; ".join(bad)[:400], "sig": "forced:" + name})
                    break
    # ---- 1c. per-call file handles: two reads through ONE handle whose file positioning is forced to interleave.  Every file
    # the handle opens is wrapped; `seek` of the two threads is synchronised pairwise (both seek, then both read), which is
    # harmless with a file object per call and exposes any file object shared between calls (one position for two readers).
    class _Ctl:
        def __init__(self):
            self.armed = False
            self.barrier = threading.Barrier(2)
            self.opened = 0

        def after_seek(self):
            if not self.armed:
                return
            try:
                self.barrier.wait(0.25)
            except threading.BrokenBarrierError:
                try:
                    self.barrier.reset()
                except Exception:  # noqa
                    pass

    class _SyncFile:
        def __init__(self, f, ctl):
            self._f, self._ctl = f, ctl

        def seek(self, *a):
            r = self._f.seek(*a)
            self._ctl.after_seek()
            return r

        def __getattr__(self, k):
            return getattr(self._f, k)

        def __enter__(self):
            return self

        def __exit__(self, *a):
            self._f.close()

    ctl = _Ctl()

    def open_sync(fn, mode="rb"):
        ctl.opened += 1
        return _SyncFile(open(fn, mode), ctl)
    pairs = [("to_pandas_cols", "to_pandas_cat"), ("to_pandas_filter", "pick"), ("to_pandas", "head")]
    for na, nb in pairs:
        try:
            want_a, want_b = OPS[na](fastparquet.ParquetFile(path)), OPS[nb](fastparquet.ParquetFile(path))
            shared = fastparquet.ParquetFile(path, open_with=open_sync)
            OPS[na](shared)                      # a first call alone (whatever the handle caches is cached now)
            res = {}

            def runner(tag, fn_):
                try:
                    res[tag] = ("ok", fn_(shared))
                except Exception as e:  # noqa
                    res[tag] = ("exc", canon_err(e) + " " + str(e)[:80])
            ctl.armed = True
            ta = threading.Thread(target=runner, args=("a", OPS[na]))
            tb = threading.Thread(target=runner, args=("b", OPS[nb]))
            ta.start(); tb.start(); ta.join(); tb.join()
            ctl.armed = False
        except Exception as e:  # noqa
            ctl.armed = False
            report.notes.append(f"seek-interleaving run of {na}/{nb} failed: {canon_err(e)} {str(e)[:80]}")
            continue
        report.evaluations += 1
        report.count("seek-interleaved-pair")
        report.case(("seek-interleave", na, nb), nontrivial=True)
        bad = []
        for tag, nm, want in (("a", na, want_a), ("b", nb, want_b)):
            r = res.get(tag)
            if r is None or r[0] == "exc":
                bad.append(f"{nm} failed: {r[1] if r else 'no result'}")
            elif diff_frames(want, r[1]):
                bad.append(f"{nm} returned a different result: {diff_frames(want, r[1])[0][:100]}")
        if bad:
            report.violation({"check": "seek-interleave", "ops": [na, nb],
                              "schedule": "both calls position their file before either reads (seek calls synchronised pairwise)",
                              "what": "; ".join(bad)[:400], "sig": "seek-interleave"})
    # ---- 2. concurrent search
    seq = {}
    pf = fastparquet.ParquetFile(path)
    for name, op in OPS.items():
        try:
            seq[name] = op(fastparquet.ParquetFile(path))
        except Exception:
            seq[name] = None
    rounds = 25 if ctx.quick else 250
    old = sys.getswitchinterval()
    sys.setswitchinterval(1e-6)
    try:
        for rd in range(rounds):
            nthreads = rng.choice([2, 3, 4, 8, 16])
            names = [rng.choice(list(OPS)) for _ in range(nthreads)]
            if rd % 2 == 0:
                names[0] = rng.choice(sorted(DERIVING))
                names[1] = rng.choice(["to_pandas_cols", "to_pandas", "to_pandas_filter", "to_pandas_cat"])
            shared = fastparquet.ParquetFile(path)
            barrier = threading.Barrier(nthreads)
            results = [None] * nthreads
            delays = [rng.random() * 0.002 for _ in range(nthreads)]

            def work(k):
                try:
                    barrier.wait()
                    time.sleep(delays[k])
                    reps = 3
                    out = None
                    for _ in range(reps):
                        out = OPS[names[k]](shared)
                    results[k] = ("ok", out)
                except Exception as e:  # noqa
                    results[k] = ("exc", canon_err(e) + " " + str(e)[:80] + " | " + short_tb(e)[-200:])
            ths = [threading.Thread(target=work, args=(k,)) for k in range(nthreads)]
            for t in ths:
                t.start()
            for t in ths:
                t.join()
            rec = {"check": "concurrent", "threads": nthreads, "ops": names, "has_deriving": any(n in DERIVING for n in names)}
            bad = []
            for k, r in enumerate(results):
                if r is None or r[0] == "exc":
                    bad.append(f"{names[k]} failed: {r[1] if r else 'no result'}")
                elif seq[names[k]] is not None:
                    d = diff_frames(seq[names[k]].reset_index(drop=True), r[1].reset_index(drop=True))
                    if d:
                        bad.append(f"{names[k]} returned a different result than alone: {d[0]}")
            if bad:
                report.violation({**rec, "what": "; ".join(bad)[:400], "sig": "concurrent:" + ("derive" if rec["has_deriving"] else "readonly")})
            report.case(("conc", tuple(sorted(names)), rd), nontrivial=rec["has_deriving"], sample=rec if len(report.samples) < 5 else None)
            report.count(f"threads:{nthreads}")
        # deriving a handle must not disturb the parent (sequential form)
        parent = fastparquet.ParquetFile(path)
        a = parent.to_pandas()
        child = parent[1:3]
        _ = child.to_pandas()
        b = parent.to_pandas()
        if diff_frames(a, b):
            report.violation({"check": "derive", "what": "deriving a sliced handle changed what the parent reads", "sig": "derive-disturbs"})
        report.evaluations += 1
        # ---- part-file writers sharing one schema object
        from fastparquet import writer
        fmd = writer.make_metadata(df, object_encoding="infer") if hasattr(writer, "make_metadata") else None
        if fmd is not None:
            # parts of different lengths: their level-run headers and page sizes differ
            cuts = [0, 7, 17, 30, 39, 50, 60]
            chunks = [df.iloc[a:b] for a, b in zip(cuts, cuts[1:])]

            def write_part(ch):
                buf = io.BytesIO()

                class NoClose(io.BytesIO):
                    def close(self_inner):
                        pass
                f = NoClose()
                writer.make_part_file(f, ch, fmd.schema, fmd=fmd)
                return hashlib.sha1(f.getvalue()).hexdigest()
            seq_h = [write_part(c) for c in chunks]
            # transient write set of the part-file writer on the SHARED metadata object: it must not be written at all
            try:
                _, wch = trace_changes(lambda: write_part(chunks[0]), {"fmd": fmd}, pkgdir, buffers=module_buffers())
            except Exception as e:  # noqa
                wch = []
                report.notes.append("trace of make_part_file failed: " + canon_err(e))
            report.stream("sched.transient")
            report.count("traced:make_part_file")
            report.case(("transient", "make_part_file", len(wch)), nontrivial=True)
            if wch:
                k, fl, ln, paths = wch[0]
                rec = {"check": "transient", "op": "make_part_file", "at": f"{fl}:{ln}", "path": paths[0] if paths else "?",
                       "why": ("a module-level buffer (scratch space every thread shares) is written while a part file is produced"
                               if paths and paths[0].startswith("buffer[") else
                               "the shared FileMetaData is written while a part file is produced")}
                report.corr_break("sched.transient", {**rec, "model": "part-file writers only read the shared metadata",
                                                      "real": [list(x[1:]) for x in wch[:4]], "explained_by_known": False})
                ra, rb = run_paused(lambda: write_part(chunks[0]), k, pkgdir, lambda: write_part(chunks[1]))
                report.evaluations += 1
                got = (ra[1] if ra and ra[0] == "ok" else ra, rb[1] if rb[0] == "ok" else rb)
                if got == (seq_h[0], seq_h[1]):
                    # two preemptions: A stops inside its window, B stops inside its own, A finishes, B finishes
                    pts = sorted({c[0] for c in wch} | {c[0] - 1 for c in wch} | {c[0] + 1 for c in wch})[:8]
                    for k1 in pts:
                        for k2 in pts:
                            ra, rb = run_two_paused(lambda: write_part(chunks[0]), k1, lambda: write_part(chunks[1]), k2, pkgdir)
                            report.evaluations += 1
                            got = (ra[1] if ra and ra[0] == "ok" else ra, rb[1] if rb and rb[0] == "ok" else rb)
                            if got != (seq_h[0], seq_h[1]):
                                k, fl, ln = k1, fl, ln
                                rec["two_preemptions"] = [k1, k2]
                                rec["schedule2"] = (f"writer of part 0 runs to its line event {k1} and stops; writer of part 1 runs to its line "
                                                    f"event {k2} and stops; writer 0 finishes; writer 1 finishes")
                                break
                        if got != (seq_h[0], seq_h[1]):
                            break
                if got != (seq_h[0], seq_h[1]):
                    report.violation({**rec, "schedule": rec.get("schedule2") or f"writer of part 0 paused at line event {k} ({fl}:{ln}); writer of "
                                                         "part 1 runs to completion; writer 0 resumes",
                                      "what": "part files written under this schedule differ from those written one after another "
                                              f"(part 0 {'same' if got[0] == seq_h[0] else 'DIFFERS'}, part 1 {'same' if got[1] == seq_h[1] else 'DIFFERS'})",
                                      "sig": "forced:make_part_file"})
            for _ in range(3 if ctx.quick else 20):
                out = [None] * len(chunks)

                def w(k):
                    try:
                        out[k] = write_part(chunks[k])
                    except Exception as e:  # noqa
                        out[k] = "exc:" + canon_err(e)
                ths = [threading.Thread(target=w, args=(k,)) for k in range(len(chunks))]
                for t in ths:
                    t.start()
                for t in ths:
                    t.join()
                report.evaluations += 1
                report.stream("sched.writers")
                if out != seq_h:
                    report.violation({"check": "writers", "what": "part files written from several threads differ from those written one after another",
                                      "sig": "writers"})
                    break
    finally:
        sys.setswitchinterval(old)
    os.remove(path)


def search(ctx, report):
    old = ctx.tier
    ctx.tier = "thorough"
    try:
        run(ctx, report)
    finally:
        ctx.tier = old


def replay(ctx, rec, report):
    r2 = type(report)(report.prop, report.tier, report.seed)
    run(ctx, r2)
    return any(v.get("sig") == rec.get("sig") for v in r2.violations)
