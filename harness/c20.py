"""C20 — concurrent reads and derived handles give the same results as sequential use.

1. `sched.writeset`: every handle operation is run ALONE; deep snapshots of the shared state (the
   FileMetaData contents: schema-element dictionaries with their `children` trees, statistics
   objects with memo keys) before and after give its write set, which must equal the model's
   classification: read-only operations write nothing but memo keys (`converted_min/max`); an
   operation that derives a handle must leave the parent's shared state equal.
2. Search / oracle: thread pools of 2..16 issuing the property's operations on ONE shared handle
   with sys.setswitchinterval(1e-6) and randomised start barriers; each result is compared with
   its sequential twin and no call may fail.  Part-file writers sharing one schema object must
   produce the same bytes as one after another.
"""
import copy, hashlib, io, os, pickle, random, shutil, sys, threading, time
import numpy as np
import pandas as pd
from .common import canon_err, short_tb
from .gen_tables import diff_frames

ASSUMPTIONS = ["the GIL makes single dict/list reads and writes atomic (steps of the model)",
               "the observed write sets are complete for the operations exercised (measured, not proved)"]


def make_ds(ctx):
    import fastparquet
    n = 60
    rng = ctx.rng
    df = pd.DataFrame({"rid": np.arange(n, dtype="int64"),
                       "i": np.array(sorted(rng.randrange(0, 30) for _ in range(n)), dtype="int64"),
                       "f": np.array([rng.random() for _ in range(n)], dtype="float64"),
                       "s": pd.Series([rng.choice(["a", "b", "c"]) for _ in range(n)], dtype=object),
                       "c": pd.Categorical([rng.choice(["x", "y"]) for _ in range(n)])})
    path = os.path.join(ctx.workdir("c20"), "ds.parq")
    fastparquet.write(path, df, row_group_offsets=list(range(0, n, 10)), stats=True, write_index=False)
    return path, df


def freeze(o, depth=0):
    """deep, order-insensitive rendering of thrift-ish state (dicts / lists / ThriftObject / scalars)"""
    from fastparquet.cencoding import ThriftObject
    if isinstance(o, ThriftObject):
        o = o.contents
    if isinstance(o, dict):
        return ("d", tuple(sorted(((repr(k), freeze(v, depth + 1)) for k, v in o.items() if k != "children" or depth < 6), key=lambda t: t[0])))
    if isinstance(o, (list, tuple)):
        return ("l", tuple(freeze(v, depth + 1) for v in o))
    if isinstance(o, np.ndarray):
        return ("a", o.tobytes(), str(o.dtype))
    if isinstance(o, (bytes, str, int, float, bool, type(None))):
        return o
    return repr(o)


def diff_state(a, b, path="fmd"):
    out = []
    if type(a) != type(b) or (isinstance(a, tuple) and a and b and a[0] != b[0]):
        return [path]
    if isinstance(a, tuple) and a and a[0] == "d":
        da, db = dict(a[1]), dict(b[1])
        for k in sorted(set(da) | set(db)):
            if k not in da or k not in db:
                out.append(f"{path}[{k}]")
            elif da[k] != db[k]:
                out += diff_state(da[k], db[k], f"{path}[{k}]")
        return out
    if isinstance(a, tuple) and a and a[0] == "l":
        if len(a[1]) != len(b[1]):
            return [path + ".len"]
        for i, (x, y) in enumerate(zip(a[1], b[1])):
            if x != y:
                out += diff_state(x, y, f"{path}[{i}]")
        return out
    return [path] if a != b else []


OPS = {
    "to_pandas": lambda pf: pf.to_pandas(),
    "to_pandas_cols": lambda pf: pf.to_pandas(columns=["f", "rid"]),
    "to_pandas_filter": lambda pf: pf.to_pandas(filters=[("i", ">", 10)]),
    "to_pandas_cat": lambda pf: pf.to_pandas(columns=["c", "rid"], categories=["c"]),
    "slice": lambda pf: pf[1:4].to_pandas(),
    "pick": lambda pf: pf[2].to_pandas(columns=["rid", "s"]),
    "iter": lambda pf: pd.concat(list(pf.iter_row_groups(columns=["rid", "i"])), ignore_index=True),
    "head": lambda pf: pf.head(13),
    "statistics": lambda pf: pd.DataFrame({k: pd.Series([repr(x) for x in v["i"]]) for k, v in pf.statistics.items() if k in ("min", "max")}),
    "pickle": lambda pf: pickle.loads(pickle.dumps(pf)).to_pandas(columns=["rid"]),
    "count": lambda pf: pd.DataFrame({"n": [pf.count(filters=[("i", "<", 20)])]}),
}
DERIVING = {"slice", "pick", "iter", "head"}
MEMO_OK = ("converted_min", "converted_max")


def run(ctx, report):
    import fastparquet
    rng = ctx.rng
    report.rule = ("write sets of every operation run alone (deep snapshot diff of the shared metadata); then pools of 2..16 threads issuing "
                   "random operations on one shared handle with setswitchinterval(1e-6) and start barriers, each compared with its "
                   "sequential result; non-trivial = a run with >=1 handle-deriving operation concurrent with a read; distinct by the "
                   "operation multiset and seed")
    path, df = make_ds(ctx)
    # ---- 1. write sets
    for name, op in OPS.items():
        pf = fastparquet.ParquetFile(path)
        before = freeze(pf.fmd)
        try:
            op(pf)
        except Exception as e:  # noqa
            report.violation({"check": "alone", "op": name, "what": f"{name} alone raised {canon_err(e)} {str(e)[:80]}", "sig": "alone:" + name})
            continue
        after = freeze(pf.fmd)
        changed = diff_state(before, after)
        unexpected = [c for c in changed if not any(m in c for m in MEMO_OK)]
        report.case(("writeset", name), nontrivial=True, sample={"op": name, "write_set": changed[:6]} if len(report.samples) < 3 else None)
        report.stream("sched.writeset")
        report.count("alone:" + name)
        if unexpected:
            # the model says: read-only operations write only memo keys; deriving operations leave the parent's state EQUAL
            report.corr_break("sched.writeset", {"op": name, "model": "memo keys only", "real": unexpected[:6], "explained_by_known": False})
    # ---- 2. concurrent search
    seq = {}
    pf = fastparquet.ParquetFile(path)
    for name, op in OPS.items():
        try:
            seq[name] = op(fastparquet.ParquetFile(path))
        except Exception:
            seq[name] = None
    rounds = 25 if ctx.quick else 250
    old = sys.getswitchinterval()
    sys.setswitchinterval(1e-6)
    try:
        for rd in range(rounds):
            nthreads = rng.choice([2, 3, 4, 8, 16])
            names = [rng.choice(list(OPS)) for _ in range(nthreads)]
            if rd % 2 == 0:
                names[0] = rng.choice(sorted(DERIVING))
                names[1] = rng.choice(["to_pandas_cols", "to_pandas", "to_pandas_filter", "to_pandas_cat"])
            shared = fastparquet.ParquetFile(path)
            barrier = threading.Barrier(nthreads)
            results = [None] * nthreads
            delays = [rng.random() * 0.002 for _ in range(nthreads)]

            def work(k):
                try:
                    barrier.wait()
                    time.sleep(delays[k])
                    reps = 3
                    out = None
                    for _ in range(reps):
                        out = OPS[names[k]](shared)
                    results[k] = ("ok", out)
                except Exception as e:  # noqa
                    results[k] = ("exc", canon_err(e) + " " + str(e)[:80] + " | " + short_tb(e)[-200:])
            ths = [threading.Thread(target=work, args=(k,)) for k in range(nthreads)]
            for t in ths:
                t.start()
            for t in ths:
                t.join()
            rec = {"check": "concurrent", "threads": nthreads, "ops": names, "has_deriving": any(n in DERIVING for n in names)}
            bad = []
            for k, r in enumerate(results):
                if r is None or r[0] == "exc":
                    bad.append(f"{names[k]} failed: {r[1] if r else 'no result'}")
                elif seq[names[k]] is not None:
                    d = diff_frames(seq[names[k]].reset_index(drop=True), r[1].reset_index(drop=True))
                    if d:
                        bad.append(f"{names[k]} returned a different result than alone: {d[0]}")
            if bad:
                report.violation({**rec, "what": "; ".join(bad)[:400], "sig": "concurrent:" + ("derive" if rec["has_deriving"] else "readonly")})
            report.case(("conc", tuple(sorted(names)), rd), nontrivial=rec["has_deriving"], sample=rec if len(report.samples) < 5 else None)
            report.count(f"threads:{nthreads}")
        # deriving a handle must not disturb the parent (sequential form)
        parent = fastparquet.ParquetFile(path)
        a = parent.to_pandas()
        child = parent[1:3]
        _ = child.to_pandas()
        b = parent.to_pandas()
        if diff_frames(a, b):
            report.violation({"check": "derive", "what": "deriving a sliced handle changed what the parent reads", "sig": "derive-disturbs"})
        report.evaluations += 1
        # ---- part-file writers sharing one schema object
        from fastparquet import writer
        fmd = writer.make_metadata(df, object_encoding="infer") if hasattr(writer, "make_metadata") else None
        if fmd is not None:
            chunks = [df.iloc[i:i + 10] for i in range(0, 60, 10)]

            def write_part(ch):
                buf = io.BytesIO()

                class NoClose(io.BytesIO):
                    def close(self_inner):
                        pass
                f = NoClose()
                writer.make_part_file(f, ch, fmd.schema, fmd=fmd)
                return hashlib.sha1(f.getvalue()).hexdigest()
            seq_h = [write_part(c) for c in chunks]
            for _ in range(3 if ctx.quick else 20):
                out = [None] * len(chunks)

                def w(k):
                    try:
                        out[k] = write_part(chunks[k])
                    except Exception as e:  # noqa
                        out[k] = "exc:" + canon_err(e)
                ths = [threading.Thread(target=w, args=(k,)) for k in range(len(chunks))]
                for t in ths:
                    t.start()
                for t in ths:
                    t.join()
                report.evaluations += 1
                report.stream("sched.writers")
                if out != seq_h:
                    report.violation({"check": "writers", "what": "part files written from several threads differ from those written one after another",
                                      "sig": "writers"})
                    break
    finally:
        sys.setswitchinterval(old)
    os.remove(path)


def search(ctx, report):
    old = ctx.tier
    ctx.tier = "thorough"
    try:
        run(ctx, report)
    finally:
        ctx.tier = old


def replay(ctx, rec, report):
    r2 = type(report)(report.prop, report.tier, report.seed)
    run(ctx, r2)
    return any(v.get("sig") == rec.get("sig") for v in r2.violations)
