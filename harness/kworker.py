"""Worker process that executes kernel cases on the *real* compiled extension.

usage: kworker.py <scratch-dir> <cases.jsonl> <results.jsonl> <start-index>
Each case is a JSON object {"k": kernel, ...}; one result object per line is appended (flushed)
to results.jsonl so that a crash (segfault, sanitizer abort) identifies the case that caused it.
"""
import json, sys, os

scratch, cases_p, results_p, start = sys.argv[1], sys.argv[2], sys.argv[3], int(sys.argv[4])
sys.path.insert(0, scratch)
import numpy as np  # noqa: E402
import importlib.util, glob  # noqa: E402


def _load(mod):
    """load an extension module of the scratch package directly (fast restart: no pandas import)"""
    path = glob.glob(os.path.join(scratch, "fastparquet", mod + ".*.so"))[0]
    spec = importlib.util.spec_from_file_location("fastparquet." + mod, path)
    m = importlib.util.module_from_spec(spec)
    spec.loader.exec_module(m)
    return m


ce = _load("cencoding")
sp = _load("speedups")


class _LazyEnc:
    def __getattr__(self, name):
        from fastparquet import encoding as _e
        return getattr(_e, name)


enc = _LazyEnc()


EXACT = bool(os.environ.get("VERIF_EXACT"))


def inbuf(hexs_):
    """input buffer; under the sanitizer build an exactly sized heap array so that any over-read is seen"""
    b = bytes.fromhex(hexs_)
    if EXACT:
        a = np.empty(len(b), dtype="uint8")
        a[:] = np.frombuffer(b, dtype="uint8")
        return a
    return np.frombuffer(b, dtype="uint8")


def u(items, item):
    return [int(x) for x in items]


def out_items(o_arr, nbytes, item):
    if item == 4:
        return [int(x) for x in o_arr[:nbytes - nbytes % 4].view("uint32")[: nbytes // 4]]
    return [int(x) for x in o_arr[:nbytes]]


def run(c):
    k = c["k"]
    if k == "uvarint":
        buf = inbuf(c["in"])
        io = ce.NumpyIO(buf)
        io.seek(c.get("loc", 0))
        v = ce.read_unsigned_var_int(io)
        return {"val": int(v), "loc": io.tell()}
    if k == "width_from_max_int":
        return {"val": int(ce.width_from_max_int(c["n"]))}
    if k == "uvarint_enc":
        o = np.zeros(16, dtype="uint8")
        io = ce.NumpyIO(o)
        ce.encode_unsigned_varint(c["x"], io)
        return {"out": bytes(o[: io.tell()]).hex()}
    if k in ("read_rle", "read_bitpacked", "read_bitpacked1", "hybrid"):
        buf = inbuf(c["in"])
        io = ce.NumpyIO(buf)
        io.seek(c.get("loc", 0))
        o = np.zeros(max(c["cap"], 1), dtype="uint8")[: c["cap"]] if c["cap"] == 0 else np.zeros(c["cap"], dtype="uint8")
        if c["cap"] == 0:
            # NumpyIO cannot wrap an empty array (takes &data[0]); use 1 byte and seek to the end
            o = np.zeros(1, dtype="uint8")
            oio = ce.NumpyIO(o)
            oio.seek(1)
            base = 1
        else:
            oio = ce.NumpyIO(o)
            base = 0
        item = c.get("item", 4)
        if k == "read_rle":
            ce.read_rle(io, c["header"], c["width"], oio, item)
        elif k == "read_bitpacked":
            ce.read_bitpacked(io, c["header"], c["width"], oio, item)
        elif k == "read_bitpacked1":
            ce.read_bitpacked1(io, c["count"], oio)
            item = 1
        else:
            ce.read_rle_bit_packed_hybrid(io, c["width"], c["length"], oio, item)
        n = oio.tell() - base
        return {"out": out_items(o[base:], n, item), "loc": io.tell()}
    if k == "enc_bitpacked":
        vals = np.array(c["vals"], dtype="uint32").view("int32")
        o = np.zeros(len(vals) * 5 + 32, dtype="uint8")
        io = ce.NumpyIO(o)
        ce.encode_bitpacked(vals, c["width"], io)
        return {"out": bytes(o[: io.tell()]).hex()}
    if k == "delta":
        buf = inbuf(c["in"])
        io = ce.NumpyIO(buf)
        longval = c.get("long", 0)
        o = np.zeros(max(c["cap"], 1), dtype="int64" if longval else "int32")
        oio = ce.NumpyIO(o.view("uint8"))
        ce.delta_binary_unpack(io, oio, longval)
        return {"out": [int(x) for x in o.view("uint64" if longval else "uint32")[: c["cap"]]], "loc": io.tell()}
    if k == "pack_ba":
        items = [bytes.fromhex(x) for x in c["items"]]
        return {"out": bytes(sp.pack_byte_array(items)).hex()}
    if k == "unpack_ba":
        raw = inbuf(c["in"])
        res = sp.unpack_byte_array(raw, c["n"])
        return {"out": [None if x is None else bytes(x).hex() for x in res]}
    if k == "plain_bool":
        raw = bytes.fromhex(c["in"])
        res = enc.read_plain_boolean(raw, c["count"])
        return {"out": [int(x) for x in res]}
    if k == "pack_bools":
        import pandas as pd
        from fastparquet import writer, parquet_thrift
        s = pd.Series(np.array(c["vals"], dtype=bool))
        se = parquet_thrift.SchemaElement(type=parquet_thrift.Type.BOOLEAN, name="x")
        res = writer.convert(s, se)
        return {"out": bytes(res).hex()}
    if k == "thrift_build":
        # c["tree"]: {"name":..., "i32ids":[...], "fields": {fname: leaf|tree|[...]}} ; leaves: {"t":"int","v":..} etc.
        def build(t):
            kw = {}
            for fname, v in t["fields"].items():
                kw[fname] = conv(v)
            return ce.ThriftObject.from_fields(t["name"], i32list=t["i32ids"] or None, **kw)

        def conv(v):
            if isinstance(v, list):
                return [conv(x) for x in v]
            if "fields" in v:
                return build(v)
            tt = v["t"]
            if tt == "bool":
                return bool(v["v"])
            if tt == "int":
                return int(v["v"])
            if tt == "float":
                import struct as _s
                return _s.unpack("<d", int(v["v"]).to_bytes(8, "little"))[0]
            if tt == "bytes":
                return bytes.fromhex(v["v"])
            if tt == "str":
                return bytes.fromhex(v["v"]).decode("utf8")
            raise ValueError(tt)
        obj = build(c["tree"])
        b1 = bytes(obj.to_bytes())
        back = ce.from_buffer(np.frombuffer(b1, dtype="uint8"), c["tree"]["name"]) if len(b1) else None
        b2 = bytes(back.to_bytes()) if back is not None else b""
        import pickle
        b3 = bytes(pickle.loads(pickle.dumps(obj)).to_bytes())
        return {"out": b1.hex(), "reser": b2.hex(), "eq": bool(obj == back) if back is not None else None, "pickle": b3.hex()}
    if k == "thrift_roundtrip":
        # bytes -> from_buffer -> to_bytes
        buf = inbuf(c["in"])
        obj = ce.from_buffer(buf, c.get("name") or "FileMetaData")
        return {"out": bytes(obj.to_bytes()).hex()}
    raise ValueError("unknown kernel " + k)


with open(cases_p) as f:
    cases = [json.loads(l) for l in f]
with open(results_p, "a") as out:
    for i in range(start, len(cases)):
        # announce before running so a crash is attributable
        out.write(json.dumps({"i": i, "begin": True}) + "\n")
        out.flush()
        sys.stderr.write("\n@@CASE %d\n" % i)
        sys.stderr.flush()
        try:
            r = run(cases[i])
            r["i"] = i
        except BaseException as e:  # noqa
            r = {"i": i, "exc": type(e).__name__ + ": " + str(e)[:200]}
        out.write(json.dumps(r) + "\n")
        out.flush()
