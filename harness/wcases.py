"""Shared by C01 / C02: (DataFrame, write-option) cases over the supported dtypes, the two-phase
run of the Lean specification reader on real file bytes (cramjam decompresses page payloads; codecs
are outside Lean), and the fastparquet-independent physical rendering of a column (Appendix C)."""
import math, os, struct
import numpy as np
import pandas as pd
from .common import parse_reply, parse_list, hexs
from .gen_tables import gen_column

KINDS = ["bool", "int8", "int16", "int32", "int64", "uint8", "uint16", "uint32", "uint64", "float32", "float64", "float_nan",
         "str", "bytes", "dt_ns", "dt_us", "dt_ms", "dt_s", "dt_tz", "td", "cat_str", "cat_int", "Int64", "Int32", "UInt16", "boolean", "td_ms", "td_s", "dt_tzoff"]
ROWS = [0, 1, 7, 8, 9, 63, 64, 65]
ROWS_BIG = [8191, 8192, 8193]
CODECS = [None, None, "SNAPPY", "GZIP", "ZSTD", "LZ4", "BROTLI"]


def gen_case(rng, idx, quick=True):
    n = rng.choice(ROWS + ([rng.randrange(2, 200)] * 2) + (ROWS_BIG if (not quick and rng.random() < 0.3) else []))
    if idx < len(ROWS):
        n = ROWS[idx]
    if len(ROWS) <= idx < len(KINDS):
        n = max(n, 7)          # the directed per-kind cases hold rows
    B3 = 2 * len(KINDS) + 15 + 6 + 10      # first of the RangeIndex cases (see below)
    if B3 <= idx < B3 + 7:
        n = max(n, 4)
    ncols = rng.choice([1, 2, 3, 4])
    kinds = rng.sample(KINDS, ncols)
    if idx < len(KINDS):
        kinds = [KINDS[idx]] + kinds[1:]
    if B3 + 5 <= idx < B3 + 7 and not any(k.startswith("cat") for k in kinds):
        # the two multi-index cases hold a categorical data column as well (the combination that corrupted the frame read back
        # before repo fix 1a57786; also exercised in a forked child by c01.isolated_feature_cases)
        kinds = kinds[:-1] + ["cat_str"] if len(kinds) > 1 else kinds + ["cat_str"]
    # directed lattice: every time kind x every has_nulls mode, with missing instants present
    TIME = ["dt_s", "dt_ms", "dt_us", "dt_ns", "td"]
    forced_hn = None
    forced_pat = None
    if len(KINDS) <= idx < len(KINDS) + 3 * len(TIME):
        t = idx - len(KINDS)
        # a single column, so that has_nulls=False is legal and really reaches the time conversion
        kinds = [TIME[t % len(TIME)]]
        forced_hn = [True, False, "infer"][t // len(TIME)]
        forced_pat = "some"
        n = max(n, 7)
    # directed: a chunk of several pages whose missing values all sit in the early pages (one row group)
    MULTI = ["Int64", "str", "float64", "dt_ms", "boolean", "cat_str"]
    forced_page = None
    b0 = len(KINDS) + 3 * len(TIME)
    if b0 <= idx < b0 + len(MULTI):
        kinds = [MULTI[idx - b0]]
        forced_pat = "first"
        forced_page = 64
        n = [65, 200, 130][idx % 3]
    # directed: dictionary-index pages holding a whole number of groups of 8 indices (or none), v1 and v2
    CATS = [("cat_str", 8, "none", 2), ("cat_int", 64, "none", 2), ("cat_str", 16, "all", 2), ("cat_str", 8, "none", 1),
            ("cat_int", 9, "first", 2), ("cat_str", 64, "none", 1),
            # 16-bit dictionary codes (more than 127 categories), with and without missing values, v1 and v2
            ("cat_wide", 200, "some", 2), ("cat_wide", 130, "none", 2), ("cat_wide", 64, "some", 1), ("cat_wide", 9, "first", 2)]
    forced_version = None
    b1 = b0 + len(MULTI)
    if b1 <= idx < b1 + len(CATS):
        k_, n, forced_pat, forced_version = CATS[idx - b1]
        kinds = [k_]
    # directed: v2 data pages without missing values, every kind (the reader's read-into / decompress-into paths), no LZ4
    b2 = b1 + len(CATS)
    forced_comp = "unset"
    if b2 <= idx < b2 + len(KINDS):
        kinds = [KINDS[idx - b2]]
        forced_pat = "none"
        forced_version = 2
        forced_comp = [None, "SNAPPY", "ZSTD", "GZIP"][idx % 4]
        n = [9, 64, 130][idx % 3]
    pats = {}
    df = pd.DataFrame({"rid": np.arange(n, dtype="int64")})
    for j, k in enumerate(kinds):
        pats[k] = rng.choice(["none", "some", "some", "all", "first", "last"])
        if forced_pat and j == 0:
            pats[k] = forced_pat
        col = gen_column(rng, k, n, pats[k])
        name = f"c{j}_{k}"
        df[name] = col.values if not hasattr(col.dtype, "numpy_dtype") and not isinstance(col.dtype, (pd.CategoricalDtype, pd.DatetimeTZDtype)) else col
    opts = {}
    comp = rng.choice(CODECS)
    if comp and rng.random() < 0.2 and len(df.columns) > 1:
        comp = {df.columns[1]: comp, "_default": None}
    if forced_comp != "unset":
        comp = forced_comp
    if comp is not None:
        opts["compression"] = comp
    r = rng.random()
    if r < 0.3 and n > 1:
        opts["row_group_offsets"] = sorted(set([0] + [rng.randrange(0, n) for _ in range(rng.choice([1, 2]))]))
    elif r < 0.5:
        opts["row_group_offsets"] = rng.choice([1, 3, 8, 50, 10000])
    if forced_page or forced_version:
        opts.pop("row_group_offsets", None)
    hn = rng.choice([None, None, True, False, "infer", "list"])
    if forced_hn is not None:
        hn = forced_hn
    # has_nulls=False is only legal when no column that cannot express a missing value has one
    nullable_free = all(pats[k] == "none" or k in ("float32", "float64", "float_nan", "dt_ns", "dt_us", "dt_ms", "dt_s", "dt_tz", "td", "td_ms", "td_s", "dt_tzoff") for k in kinds)
    if hn == "list":
        opts["has_nulls"] = [c for c in df.columns if c.split("_", 1)[-1] in ("str", "bytes", "Int64", "Int32", "UInt16", "boolean", "cat_str", "cat_int", "cat_wide")
                             or rng.random() < 0.5]
        if not nullable_free:
            opts["has_nulls"] = list(df.columns)
    elif hn is False:
        if nullable_free:
            opts["has_nulls"] = False
    elif hn is not None:
        opts["has_nulls"] = hn
    st = rng.choice(["default", True, False, "auto", "list"])
    if st == "list":
        opts["stats"] = [c for c in df.columns if rng.random() < 0.5]
    elif st != "default":
        opts["stats"] = st
    if any(k.startswith("dt") for k in kinds) and rng.random() < 0.3:
        opts["times"] = "int96"
    if rng.random() < 0.25:
        opts["object_encoding"] = "infer"
    scheme = rng.choice(["simple", "simple", "simple", "hive"])
    if scheme == "hive":
        opts["file_scheme"] = "hive"
    wi = rng.choice([None, None, False, True])
    if wi is not None:
        opts["write_index"] = wi
    if wi is True and n and rng.random() < 0.5:
        df.index = pd.Index(np.arange(10, 10 + n, dtype="int64") * 3, name="myidx")
    # directed: a RangeIndex other than the default one (any start, any non-zero step, negative too) is kept in the pandas metadata
    # and regenerated on read (theorem range_index_regenerated_now)
    RANGES = [(10, -1), (0, -3), (5, 2), (7, 1), (-4, -1)]
    b3 = b2 + len(KINDS)
    assert b3 == B3
    if b3 <= idx < b3 + len(RANGES):
        start, step = RANGES[idx - b3]
        df.index = pd.RangeIndex(start, start + len(df) * step, step)
        opts.pop("write_index", None)
    # directed: a two-level MultiIndex (its levels are read as categorical index levels with their own category holders)
    b4 = b3 + len(RANGES)
    if b4 <= idx < b4 + 2 and len(df) >= 2:
        nn_ = len(df)
        df.index = pd.MultiIndex.from_arrays([np.array([i // 2 for i in range(nn_)], dtype="int64"),
                                              np.array([["u", "v", "w"][i % 3] for i in range(nn_)], dtype=object)], names=["i0", "i1"])
        opts["write_index"] = True
        opts.pop("row_group_offsets", None)
        if idx == b4 + 1:
            opts["row_group_offsets"] = [0, nn_ // 2]
    g = {"page": rng.choice([None, None, None, 64, 300, 4096]), "version": rng.choice([1, 1, 2])}
    if forced_page:
        g["page"] = forced_page
    if forced_version:
        g["version"] = forced_version
    desc = {"rows": n, **({"multi_index": True} if isinstance(df.index, pd.MultiIndex) else {}), **({"range_index": [df.index.start, df.index.step]} if isinstance(df.index, pd.RangeIndex) and (df.index.start, df.index.step) != (0, 1) else {}), "kinds": kinds, "nulls": pats, "opts": {k: (v if not isinstance(v, (list, dict)) else str(v)[:60]) for k, v in opts.items()},
            "page_size": g["page"], "page_version": g["version"]}
    return {"df": df, "opts": opts, "globals": g, "desc": desc, "kinds": kinds, "pats": pats}


def write_case(case, path):
    import fastparquet
    from fastparquet import writer
    old_ps, old_v = writer.MAX_PAGE_SIZE, writer.DATAPAGE_VERSION
    try:
        if case["globals"]["page"]:
            writer.MAX_PAGE_SIZE = case["globals"]["page"]
        writer.DATAPAGE_VERSION = case["globals"]["version"]
        fastparquet.write(path, case["df"], **case["opts"])
    finally:
        writer.MAX_PAGE_SIZE, writer.DATAPAGE_VERSION = old_ps, old_v


def decompress(codec, data, size):
    import cramjam
    b = bytes(data)
    if codec == 0:
        return b
    if codec == 1:
        return bytes(cramjam.snappy.decompress_raw(b))
    if codec == 2:
        return bytes(cramjam.gzip.decompress(b))
    if codec == 4:
        return bytes(cramjam.brotli.decompress(b))
    if codec in (5, 7):
        return bytes(cramjam.lz4.decompress_block(np.frombuffer(b, "uint8"), size))
    if codec == 6:
        return bytes(cramjam.zstd.decompress(b))
    raise ValueError(f"codec {codec}")


def spec_decode_many(ctx, blobs):
    """run Spec.File on a list of file byte strings -> list of dict(ok, rows, cols, meta, rgs) / dict(error)"""
    drv = ctx.driver
    reps = drv.ask([f"file pages bytes={hexs(b)}" for b in blobs])
    reqs = []
    pre = []
    for b, rep in zip(blobs, reps):
        head, dd = parse_reply(rep)
        if head != "ok":
            pre.append({"error": rep[:300]})
            reqs.append("file footer bytes=x00")
            continue
        pls = []
        err = None
        for (off, csz, usz, codec, ptag, lvl, iscomp) in parse_list(dd["pages"]):
            if codec == 0:
                continue
            try:
                if ptag == 3:
                    body = b[off:off + lvl] + (decompress(codec, b[off + lvl:off + csz], usz - lvl) if iscomp else b[off + lvl:off + csz])
                else:
                    body = decompress(codec, b[off:off + csz], usz)
                pls.append(f"[{off},{hexs(body)}]")
            except Exception as e:  # noqa
                err = f"page payload at {off} (codec {codec}) does not decompress: {type(e).__name__}"
        pre.append({"error": err} if err else None)
        reqs.append(f"file decode bytes={hexs(b)} pl=[{','.join(pls)}]")
    reps2 = drv.ask(reqs)
    out = []
    for p, rep in zip(pre, reps2):
        if p is not None:
            out.append(p)
            continue
        head, dd = parse_reply(rep)
        if head != "ok":
            out.append({"error": rep[4:400].replace("_", " ")})
            continue
        cols = [bytes.fromhex(c[1:]).decode() for c in parse_list(dd["cols"])]
        out.append({"rows": int(dd["rows"]), "loose": int(dd.get("loose", 0)), "cols": cols, "meta": parse_list(dd["meta"]), "rgs": parse_list(dd["rgs"])})
    return out


def is_null(v):
    return v is None or v is pd.NA or v is pd.NaT or (isinstance(v, float) and math.isnan(v)) or \
        (isinstance(v, (np.datetime64, np.timedelta64)) and np.isnat(v))


def expected_cells(series, kind, meta, nan_is_null):
    """physical rendering of a pandas column, given what the file's schema says about the column
    (meta = [ptype, converted|-1, ts unit, max def level, type length]); 'n' = NULL"""
    ptype, conv, unit, maxdef, tlen = meta[:5]
    out = []
    if isinstance(series.dtype, pd.CategoricalDtype):
        vals = [None if c < 0 else series.cat.categories[c] for c in series.cat.codes]
    else:
        vals = series.tolist()
    raw = series.values if not isinstance(series.dtype, (pd.CategoricalDtype, pd.DatetimeTZDtype)) and not hasattr(series.dtype, "numpy_dtype") else None
    for i, v in enumerate(vals):
        if kind in ("float32", "float64", "float_nan"):
            f = float(v) if v is not None else float("nan")
            if math.isnan(f):
                out.append("n" if nan_is_null else ("nanbits",))
            elif ptype == 4:
                out.append(struct.unpack("<I", struct.pack("<f", f))[0])
            else:
                out.append(struct.unpack("<Q", struct.pack("<d", f))[0])
            continue
        if is_null(v) and (kind.startswith("dt") or kind.startswith("td")) and not nan_is_null:
            # REQUIRED time column: NaT is kept as the documented sentinel (int64 minimum); INT96 has none: don't care
            out.append((1 << 63) if ptype == 2 else ("dontcare",))
            continue
        if is_null(v):
            out.append("n")
            continue
        if kind in ("bool", "boolean"):
            out.append(int(bool(v)))
        elif kind in ("int8", "int16", "int32", "uint8", "uint16", "uint32", "Int32", "UInt16"):
            out.append(int(v) % (1 << 32))
        elif kind in ("int64", "uint64", "Int64", "cat_int"):
            out.append(int(v) % (1 << 64))
        elif kind in ("str", "cat_str", "cat_wide"):
            out.append("x" + v.encode("utf8").hex())
        elif kind == "bytes":
            out.append("x" + bytes(v).hex())
        elif kind.startswith("dt"):
            ts = pd.Timestamp(v)
            ns = int(ts.tz_convert("UTC").tz_localize(None).as_unit("ns").value) if ts.tzinfo is not None else int(ts.as_unit("ns").value)
            if ptype == 3:      # INT96: nanoseconds of day (8 bytes LE) + Julian day (4 bytes LE)
                day, nod = divmod(ns, 86400 * 10 ** 9)
                b = struct.pack("<qI", nod, day + 2440588)
                out.append(int.from_bytes(b, "little"))
            else:
                factor = {1: 10 ** 6, 2: 10 ** 3, 3: 1}.get(unit, {9: 10 ** 6, 10: 10 ** 3}.get(conv, 1))
                out.append((ns // factor) % (1 << 64) if ns % factor == 0 else ("not-representable", ns, factor))
        elif kind.startswith("td"):
            ns = int(pd.Timedelta(v).as_unit("ns").value)
            out.append((ns // 1000) % (1 << 64))
        else:
            out.append(("?", kind))
    return out


def _part_key(rel):
    import re
    m = re.search(r"part\.(\d+)\.", rel)
    return int(m.group(1)) if m else -1


def writer_model_stream(ctx, report, work, data_blobs, decoded):
    """`wpage.chunk` correspondence: every page the real writer produced (payload decompressed, header numbers) must be, byte for
    byte, what the Lean writer model `Impl.writerChunk` lays down for the cells of that page (plain columns: the cells Spec.File decoded
    from the page - C02 compares those with the frame separately; categorical columns: the frame's codes and categories).
    The theorem `written_chunk_decodes` (Props/C02) is about that model."""
    drv = ctx.driver
    ok = [(ci, rel, b, d) for (ci, rel, b), d in zip(data_blobs, decoded) if "error" not in d]
    maps = drv.ask([f"wpage pagemap bytes={hexs(b)}" for _, _, b, _ in ok]) if ok else []
    reqs, exps, recs = [], [], []
    row_off = {}
    ok_sorted = sorted(zip(ok, maps), key=lambda t: (t[0][0], _part_key(t[0][1])))
    for (ci, rel, b, d), rep in ok_sorted:
        case = work[ci][0]
        df = case["df"]
        head, dd = parse_reply(rep)
        if head != "ok":
            continue
        chunk_meta = {(cm[0], cm[1]): (cm[2], cm[3], cm[4] if len(cm) > 4 else None) for cm in parse_list(dd.get("chunks", "[]"))}
        groups = {}
        for pg in parse_list(dd["pages"]):
            groups.setdefault((pg[0], pg[1]), []).append(pg)
        for (ri, col), pages in sorted(groups.items()):
            cname, m = d["cols"][col], d["meta"][col]
            cells = d["rgs"][ri][1][col]
            if m[5] != 0 or m[3] > 1:
                continue
            key = (ci, cname)
            off = row_off.get(key, 0)
            row_off[key] = off + len(cells)
            is_dict = any(p[2] == 2 for p in pages)
            item, cats_txt = 0, "[]"
            if is_dict:
                if cname not in df.columns or not isinstance(df[cname].dtype, pd.CategoricalDtype):
                    report.count("wpage:dictionary-chunk-not-from-a-categorical")
                    continue
                kind = cname.split("_", 1)[1] if "_" in cname else ""
                catkind = {"cat_int": "int64"}.get(kind, "str")
                cats = expected_cells(pd.Series(df[cname].cat.categories), catkind, m, False)
                cats_txt = "[" + ",".join(str(x) for x in cats) + "]"
                codes = df[cname].cat.codes.values[off:off + len(cells)]
                item = df[cname].cat.codes.dtype.itemsize
                cells = ["n" if int(k) < 0 else int(k) for k in codes]
            actual, page_cells, pos, bad = [], [], 0, None
            for (_ri, _ci, tag, nv, enc, nn, nr, dlen, doff, csz, usz, codec, iscomp) in pages:
                try:
                    if codec == 0:
                        body = b[doff:doff + csz]
                    elif tag == 3:
                        body = b[doff:doff + dlen] + (decompress(codec, b[doff + dlen:doff + csz], usz - dlen) if iscomp else b[doff + dlen:doff + csz])
                    else:
                        body = decompress(codec, b[doff:doff + csz], usz)
                except Exception as e:  # noqa
                    bad = f"{type(e).__name__}"
                    break
                actual.append([tag, nv, enc, nn, nr, dlen, hexs(body)])
                if tag != 2:
                    page_cells.append(cells[pos:pos + nv])
                    pos += nv
            if bad:
                report.count("wpage:payload-does-not-decompress")
                continue
            v2 = int(any(p[2] == 3 for p in pages))
            reqs.append(f"wpage chunk ptype={m[0]} tl={m[4]} nulls={int(m[3] >= 1)} v2={v2} item={item} cats={cats_txt} pages=["
                        + ",".join("[" + ",".join(str(x) for x in pc) + "]" for pc in page_cells) + "]")
            exps.append((actual, chunk_meta.get((ri, col))))
            recs.append({"check": "writer-model", **case["desc"], "file": rel, "row_group": ri, "column": cname})
    reps = drv.ask(reqs) if reqs else []
    for req, (exp, cmeta), rec, rep in zip(reqs, exps, recs, reps):
        report.stream("wpage.chunk")
        report.count("wpage:pages", len(exp))
        head, dd = parse_reply(rep)
        if head != "ok":
            report.corr_break("wpage.chunk", {**rec, "what": "the writer model rejects the request: " + rep[:200], "sig": "wpage:" + rep[:30]})
            continue
        got = parse_list(dd["pages"])
        if cmeta is not None:
            m_enc, m_st = parse_list(dd["encodings"]), parse_list(dd["stats"])
            if sorted(cmeta[0]) != sorted(m_enc) or (cmeta[1] != -1 and sorted(cmeta[1]) != sorted(m_st)) or cmeta[1] == -1:
                report.corr_break("wpage.chunk", {**rec, "what": f"ColumnMetaData.encodings / encoding_stats written {cmeta[0]} / {cmeta[1]}, the model of "
                                                  f"write_column records {m_enc} / {m_st}", "sig": "wpage:encoding_stats"})
        if cmeta is not None and cmeta[2] is not None and "nullcount" in dd and int(cmeta[2]) != int(dd["nullcount"]):
            report.corr_break("wpage.chunk", {**rec, "what": f"Statistics.null_count written {cmeta[2]}, the model of write_column records {dd['nullcount']} "
                                              "(the sum of the pages' tallies; the v1 reader steps over level blocks when it is 0)", "sig": "wpage:null_count"})
        if dd.get("back") != "same":
            report.corr_break("wpage.chunk", {**rec, "what": "Spec.File does not decode the MODEL's own pages back to the cells (" + str(dd.get("back"))[:120]
                                              + "): the input is outside the theorem's hypotheses", "request": req[:4000], "sig": "wpage:back"})
        if got != exp:
            what = f"{len(exp)} pages written, the model lays down {len(got)}"
            for i, (g, e) in enumerate(zip(got, exp)):
                if g != e:
                    names = ["page type", "num_values", "encoding", "num_nulls", "num_rows", "definition_levels_byte_length", "payload"]
                    k = next(j for j in range(7) if g[j] != e[j])
                    what = (f"page {i}: {names[k]} written {str(e[k])[:80]} but the model of write_column lays down {str(g[k])[:80]}")
                    break
            report.corr_break("wpage.chunk", {**rec, "what": what, "request": req[:4000], "got": str(got)[:200000], "exp": str(exp)[:200000], "sig": "wpage:" + what.split(":")[1][:25] if ":" in what else "wpage:count"})


def _phys_list(arr, ptype):
    """physical rendering of what read_plain returned (unsigned patterns / x-hex bytes), as the driver prints cells"""
    if ptype == 0:
        return [int(bool(v)) for v in arr.tolist()]
    if ptype in (1, 4):
        return [int(v) for v in np.ascontiguousarray(arr).view("uint32").tolist()]
    if ptype in (2, 5):
        return [int(v) for v in np.ascontiguousarray(arr).view("uint64").tolist()]
    if ptype == 3:
        raw = np.ascontiguousarray(arr).view("uint8").reshape(-1, 12)
        return [int.from_bytes(bytes(r), "little") for r in raw]
    if ptype == 6:
        return ["x" + (v.encode("utf8") if isinstance(v, str) else bytes(v)).hex() for v in arr.tolist()]
    raise ValueError(ptype)


def reader_model_stream(ctx, report, path, desc):
    """`rpage.v1` correspondence: the real `core.read_data_page` is run on every v1 data page of every flat column chunk of the
    dataset at `path`, with the flags `read_col` computes, and must return the levels and values the Lean model
    `Impl.readDataPage` returns for the same page body.  (The theorems `read_back_written_page*` are about that model.)"""
    import fastparquet
    from fastparquet import core, encoding, parquet_thrift as pt
    from fastparquet.cencoding import ThriftObject
    pf = fastparquet.ParquetFile(path)
    reqs, exps, recs = [], [], []
    for rg in pf.row_groups:
        fn = pf.row_group_filename(rg)
        for col in rg.columns:
            cmd = col.meta_data
            if len(cmd.path_in_schema) != 1 or cmd.type == 7:
                continue
            se = pf.schema.schema_element(cmd.path_in_schema)
            required = pf.schema.is_required(cmd.path_in_schema)
            maxdef = pf.schema.max_definition_level(cmd.path_in_schema)
            with open(fn, "rb") as f:
                off = min(cmd.dictionary_page_offset or cmd.data_page_offset, cmd.data_page_offset)
                f.seek(off)
                buf = f.read(cmd.total_compressed_size)
            infile = encoding.NumpyIO(np.frombuffer(buf, "uint8"))
            skip = bool(pf.selfmade and hasattr(cmd, "statistics") and getattr(cmd.statistics, "null_count", 1) == 0)
            while infile.tell() < len(buf):
                ph = ThriftObject.from_buffer(infile, "PageHeader")
                if ph.type != pt.PageType.DATA_PAGE:
                    infile.seek(ph.compressed_page_size, 1)
                    continue
                start = infile.tell()
                body = bytes(core._read_page(infile, ph, cmd))
                infile.seek(start)
                daph = ph.data_page_header
                try:
                    defi, _rep, val = core.read_data_page(infile, pf.schema, ph, cmd, skip, selfmade=pf.selfmade)
                    is_dict = daph.encoding in (pt.Encoding.PLAIN_DICTIONARY, pt.Encoding.RLE_DICTIONARY)
                    exp = {"defs": -1 if defi is None else [int(x) for x in defi.tolist()],
                           "kind": "indices" if is_dict else "plain",
                           "vals": [int(x) for x in np.asarray(val).tolist()] if is_dict else _phys_list(val, cmd.type)}
                except Exception as e:  # noqa
                    exp = {"error": type(e).__name__}
                infile.seek(start + ph.compressed_page_size)
                reqs.append(f"wpage read required={int(bool(required))} maxdef={maxdef} ptype={cmd.type} tl={se.type_length or 0} enc={daph.encoding} "
                            f"n={daph.num_values} skip={int(skip)} selfmade={int(bool(pf.selfmade))} body={hexs(body)}")
                exps.append(exp)
                recs.append({"check": "reader-model", **desc, "column": cmd.path_in_schema[0], "encoding": daph.encoding, "num_values": daph.num_values,
                             "skip_nulls": skip})
    reps = ctx.driver.ask(reqs) if reqs else []
    for req, exp, rec, rep in zip(reqs, exps, recs, reps):
        report.stream("rpage.v1")
        head, dd = parse_reply(rep)
        if head != "ok":
            got = {"error": "fault"}
        else:
            got = {"defs": parse_list(dd["defs"]), "kind": dd["kind"], "vals": parse_list(dd["vals"])}
        if "error" in exp and "error" in got:
            report.count("rpage:both-refuse")
            continue
        report.count("rpage:" + ("skip-shortcut" if rec["skip_nulls"] else "levels-read" if exp.get("defs") != -1 else "no-null-page")
                     + ("/indices" if exp.get("kind") == "indices" else "/plain"))
        if got != exp:
            k = next((k for k in ("error", "defs", "kind", "vals") if got.get(k) != exp.get(k)), "?")
            report.corr_break("rpage.v1", {**rec, "what": f"core.read_data_page returns {k} = {str(exp.get(k))[:100]}, the model of the reader {str(got.get(k))[:100]}",
                                           "request": req[:400], "sig": "rpage:" + k})
