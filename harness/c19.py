"""C19 — an append interrupted before its metadata update leaves the old dataset intact.

Stream `fs.trace`: the recorded sequence of open-for-write / write / close / mkdir calls of a
fault-free multi-file append (through a recording fsspec filesystem passed as open_with / mkdirs)
must equal `Impl.Dataset.appendOps`.  Then, exhaustively in k, the k-th call is made to fail on a
fresh copy of the dataset and the outcome is compared with the model (`fs.crash`) and with the
property itself: failure reported before `_metadata` is opened => a fresh open reads exactly the
old rows; normal return => exactly old ++ new; no existing data file is ever opened for writing.
"""
import os, re, shutil
import numpy as np
import pandas as pd
from .common import parse_reply, parse_list, canon_err
from .fsrec import RecFS, InjectedFault, collapse

ASSUMPTIONS = [
    "a failed open/write/close/mkdir raises and has no further effect; 'wb' truncates at open (model: torn file)",
    "partial writes inside one write call, fsync/durability and real power loss are outside the model",
]

PART = re.compile(r"^(?:(.*)/)?part\.(\d+)\.parquet$")


def hexdir(d):
    return "x" + d.encode().hex()


def tok_path(rel):
    if rel == "_metadata":
        return "M"
    if rel == "_common_metadata":
        return "C"
    m = PART.match(rel)
    if not m:
        return "?:" + rel
    return f"p:{hexdir(m.group(1) or '')}:{int(m.group(2))}"


def tokens(events):
    out = []
    for ev in events:
        k = ev[0]
        if k == "mkdir":
            out.append("m:" + hexdir(ev[1] if len(ev) > 1 else ""))
        elif k in ("open", "write", "close"):
            out.append(k[0] + ":" + tok_path(ev[1]))
        else:
            out.append(k + ":" + ",".join(ev[1:]))
    return out


def make_base(ctx, rng, path, partitioned, nparts, gap):
    import fastparquet
    n = nparts * 3
    df = pd.DataFrame({"rid": np.arange(n, dtype="int64"), "v": np.arange(n, dtype="float64") / 2})
    kw = dict(file_scheme="hive", row_group_offsets=list(range(0, n, 3)), write_index=False)
    if partitioned:
        df["p"] = np.array([rng.choice([0, 1, 2]) for _ in range(n)], dtype="int64")
        kw["partition_on"] = ["p"]
    fastparquet.write(path, df, **kw)
    if gap:
        pf = fastparquet.ParquetFile(path)
        victim = pf.row_groups[rng.randrange(0, max(1, len(pf.row_groups) - 1))]
        vfile = victim.columns[0].file_path
        pf.remove_row_groups([rg for rg in pf.row_groups if rg.columns[0].file_path == vfile])
    return df


def dataset_refs(path):
    """(refs for the model, rid list) from a fresh open"""
    import fastparquet
    pf = fastparquet.ParquetFile(path)
    refs = []
    for i, rg in enumerate(pf.row_groups):
        fp = rg.columns[0].file_path
        m = PART.match(fp)
        rows = pf[i].to_pandas(columns=["rid"])["rid"].tolist()
        refs.append((m.group(1) or "", int(m.group(2)), [int(r) for r in rows]))
    return refs


def read_rids(path):
    import fastparquet
    return [int(x) for x in fastparquet.ParquetFile(path).to_pandas(columns=["rid"])["rid"].tolist()]


def new_frame(rng, start, nrg, partitioned):
    n = nrg * 2
    df = pd.DataFrame({"rid": np.arange(start, start + n, dtype="int64"), "v": np.arange(n, dtype="float64")})
    if partitioned:
        df["p"] = np.array([rng.choice([0, 1, 2, 3]) for _ in range(n)], dtype="int64")
    return df, list(range(0, n, 2))


def run(ctx, report):
    import fastparquet
    rng = ctx.rng
    report.rule = ("hive datasets with/without partitions, with and without numbering gaps, 1..m new part files; fault injected at "
                   "EVERY k-th filesystem call of the append (exhaustive in k per scenario); non-trivial = dataset with >=2 row "
                   "groups and an append of >=1 part; distinct by (scenario, k)")
    nscen = 5 if ctx.quick else 30
    reqs = []
    for s in range(nscen):
        partitioned = bool(s % 2) if s < 4 else rng.random() < 0.5
        gap = s in (2, 3) or (s >= 4 and rng.random() < 0.4)
        nparts = rng.choice([2, 3, 4])
        if s == 4:
            # directed: part numbers beyond 9 (part.10, part.11 exist): numbers must be compared as numbers, not as text
            nparts, partitioned, gap = 12, False, False
        nrg = rng.choice([1, 2, 3]) if not ctx.quick else rng.choice([1, 2])
        base = os.path.join(ctx.workdir("c19"), f"base{s}")
        shutil.rmtree(base, ignore_errors=True)
        make_base(ctx, rng, base, partitioned, nparts, gap)
        old_refs = dataset_refs(base)
        old_rids = read_rids(base)
        existing = {os.path.join(r[0], f"part.{r[1]}.parquet").lstrip("/") for r in old_refs}
        newdf, offs = new_frame(rng, 1000, nrg, partitioned)
        new_rids = None
        scen = {"partitioned": partitioned, "gap": gap, "base_parts": [f"{r[0]}/part.{r[1]}" for r in old_refs], "new_row_groups": nrg}

        def do_append(path, fs):
            fastparquet.write(path, newdf, file_scheme="hive", append=True, row_group_offsets=offs,
                              partition_on=["p"] if partitioned else [], open_with=fs.open,
                              mkdirs=lambda d: fs.mkdirs(d, exist_ok=True), write_index=False)
        # ---- fault-free run: trace
        work = os.path.join(ctx.workdir("c19"), f"work{s}")
        shutil.rmtree(work, ignore_errors=True)
        shutil.copytree(base, work)
        fs = RecFS()
        try:
            do_append(work, fs)
            events = [e for e in fs.events]
            rel = collapse(events, work)
            real_tokens = tokens(rel)
            for ev in rel:
                if ev[0] == "open" and ev[1] in existing:
                    report.violation({"check": "opens-existing", "scenario": scen, "path": ev[1],
                                      "what": f"append opened existing data file {ev[1]} for writing", "sig": "opens-existing"})
            full_rids = read_rids(work)
            new_refs_real = dataset_refs(work)[len(old_refs):]
        except Exception as e:  # noqa
            report.violation({"check": "complete", "scenario": scen, "sig": "fault-free-broken",
                              "what": "fault-free append raised or left the dataset unreadable: " + canon_err(e) + " " + str(e)[:100]})
            report.case(("scenario-broken", s), True)
            continue
        # model's view of the new data: pieces per incoming row group, in write order
        nd = []
        by_id = {}
        for (d, i, rows) in new_refs_real:
            by_id.setdefault(i, []).append((d, rows))
        for i in sorted(by_id):
            nd.append(by_id[i])
        old_s = "[" + ",".join(f"[{hexdir(d)},{i},[{','.join(map(str, rows))}]]" for d, i, rows in old_refs) + "]"
        nd_s = "[" + ",".join("[" + ",".join(f"[{hexdir(d)},[{','.join(map(str, rows))}]]" for d, rows in pieces) + "]" for pieces in nd) + "]"
        common = f"part={1 if partitioned else 0} old={old_s} nd={nd_s}"
        reqs.append((f"fs trace {common}", ("trace", real_tokens), scen))
        report.stream("fs.trace")
        # "never opens an existing data file for writing"
        for ev in rel:
            if ev[0] == "open" and ev[1] in existing:
                report.violation({"check": "opens-existing", "scenario": scen, "path": ev[1],
                                  "what": f"append opened existing data file {ev[1]} for writing", "sig": "opens-existing"})
        if full_rids != old_rids + [int(x) for x in sorted(newdf["rid"])] and sorted(full_rids) != sorted(old_rids + newdf["rid"].tolist()):
            report.violation({"check": "complete", "scenario": scen, "what": "fault-free append does not read back old ++ new", "sig": "complete"})
        # index of the first call that touches _metadata
        first_meta = next((j for j, e in enumerate(events) if e[0] == "open" and e[1].endswith("/_metadata")), len(events))
        # map real call index -> number of completed model ops (collapsed)
        def model_k(j):
            return len(collapse(events[:j], work))
        # ---- exhaustive crash points
        for k in range(len(events)):
            shutil.rmtree(work, ignore_errors=True)
            shutil.copytree(base, work)
            fsk = RecFS(fail_at=k)
            raised = None
            try:
                do_append(work, fsk)
            except InjectedFault:
                raised = "fault"
            except Exception as e:  # noqa
                raised = canon_err(e)
            try:
                got = read_rids(work)
            except Exception as e:  # noqa
                got = "unreadable:" + canon_err(e)
            rec = {"check": "crash", "scenario": scen, "k": k, "call": list(events[k][:2]), "raised": raised}
            opened_existing = [e[1] for e in collapse(fsk.events, work) if e[0] == "open" and e[1] in existing]
            if opened_existing:
                report.violation({**rec, "what": f"append opened existing data file {opened_existing[0]} for writing", "sig": "opens-existing"})
            if k < first_meta:
                if raised and got != old_rids:
                    report.violation({**rec, "what": f"append failed at call {k} (before _metadata) but a fresh open reads {str(got)[:80]} instead of the old rows",
                                      "sig": "crash-before-meta"})
                if not raised and (got == "unreadable" or sorted(got) != sorted(full_rids)):
                    report.violation({**rec, "what": "append returned normally after an injected fault but the new content is not visible", "sig": "swallowed"})
                if ctx.model_ok and raised:
                    reqs.append((f"fs crash {common} k={model_k(k)}", ("read", got if isinstance(got, list) else None), rec))
                    report.stream("fs.crash")
            report.case(("crash", s, k), nontrivial=len(old_refs) >= 2,
                        sample={"scenario": scen, "k": k, "call": rec["call"], "raised": raised, "read": str(got)[:60]}
                        if len(report.samples) < 4 and k in (0, first_meta - 1) else None)
            report.count("call:" + events[k][0])
        report.count("scenarios")
        shutil.rmtree(work, ignore_errors=True)
        shutil.rmtree(base, ignore_errors=True)
    if reqs and ctx.model_ok:
        reps = ctx.driver.ask([r[0] for r in reqs])
        for (req, exp, rec), rep in zip(reqs, reps):
            head, dd = parse_reply(rep)
            if exp[0] == "trace":
                m = parse_list(dd["ops"]) if head == "ok" else None
                if m != exp[1]:
                    report.corr_break("fs.trace", {"scenario": rec, "model": str(m)[:500], "real": str(exp[1])[:500], "explained_by_known": False})
            else:
                m = None if dd.get("read") == "none" else parse_list(dd["read"])
                if m != exp[1]:
                    report.corr_break("fs.crash", {**rec, "model": str(m)[:200], "real": str(exp[1])[:200], "explained_by_known": False})
    report.exhaustive = True


def search(ctx, report):
    old = ctx.tier
    ctx.tier = "thorough"
    try:
        run(ctx, report)
    finally:
        ctx.tier = old


def replay(ctx, rec, report):
    r2 = type(report)(report.prop, report.tier, report.seed)
    run(ctx, r2)
    return any(v.get("sig") == rec.get("sig") for v in r2.violations)
