"""C10 — metadata serialisation is lossless, IDL-conformant and safe for any size.

Values are generated FROM THE IDL (tools/translate_idl.parse_idl on the current parquet.thrift):
every optional field present or absent, list lengths 0/1/14/15/16/large, strings from empty to
megabytes, integers over the declared width.  Three parties:
  spec   Lean `Spec.Thrift.encFields` of the IDL-typed value (the compact protocol itself),
  model  Lean `Impl.ThriftSer` (code-shaped write_thrift/read_thrift with the regenerated loop bound,
         list-header switch and buffer heuristic),
  real   ThriftObject built through the API (from_fields with the 32-bit markers the IDL implies)
         or parsed from the spec's bytes, then to_bytes()/from_buffer()/pickle, in a crash-tolerant
         worker.
real != spec  => not IDL-conformant / lossy / truncated (violation or known finding);
real != model => correspondence broken.
"""
import json, os, re, struct
from .common import parse_reply, parse_list, run_worker, hexs

ASSUMPTIONS = ["the i32/i32list markers a caller passes are the ones the IDL implies (writer call sites are checked by the regenerated CallSites table)",
               "doubles are opaque bit patterns"]

ROOTS = ["FileMetaData", "RowGroup", "ColumnChunk", "PageHeader", "SchemaElement", "Statistics", "KeyValue", "LogicalType",
         "ColumnMetaData", "DataPageHeader", "DataPageHeaderV2", "DictionaryPageHeader", "SortingColumn", "PageEncodingStats",
         "IntType", "DecimalType", "TimestampType", "TimeType", "ColumnOrder"]


def load_idl():
    """IDL restricted to the structures fastparquet's own `specs` table knows (it cannot construct the others:
    encryption / bloom-filter / index structures are outside the property's list)"""
    from tools.translate_idl import parse_idl
    from tools.translate_specs import dict_literal
    from .common import REPO
    enums, structs = parse_idl(os.path.join(REPO, "fastparquet", "parquet.thrift"))
    specs = dict_literal(open(os.path.join(REPO, "fastparquet", "cencoding.pyx")).read(), "specs")
    known = set(specs)

    def usable(ty):
        if ty.startswith("list<"):
            return usable(ty[5:-1])
        return ty not in structs or ty in known
    out = {}
    for name, (kind, fields) in structs.items():
        if name in known:
            out[name] = (kind, [f for f in fields if usable(f[3])])
    return enums, out


class Gen:
    def __init__(self, rng, enums, structs, big=False):
        self.rng, self.enums, self.structs, self.big = rng, enums, structs, big

    def leaf(self, ty, depth):
        """-> (worker leaf, TVal text, PyT text)"""
        rng = self.rng
        if ty == "bool":
            b = rng.random() < 0.5
            return {"t": "bool", "v": b}, f"[b,{int(b)}]", f"[b,{int(b)}]"
        if ty in ("byte", "i8", "i16", "i32", "i64") or ty in self.enums:
            bits = {"byte": 8, "i8": 8, "i16": 16, "i32": 32, "i64": 64}.get(ty, 32)
            lo, hi = -(1 << (bits - 1)), (1 << (bits - 1)) - 1
            v = rng.choice([0, 1, -1, lo, hi, rng.randrange(lo, hi + 1), rng.randrange(-200, 200)])
            if ty in self.enums:
                v = rng.randrange(0, 9)
            tag = {"byte": "i8", "i8": "i8", "i16": "i16", "i32": "i32", "i64": "i64"}.get(ty, "i32")
            return {"t": "int", "v": v}, f"[{tag},{v}]", f"[i,{v}]"
        if ty == "double":
            bits = struct.unpack("<Q", struct.pack("<d", rng.choice([0.0, 1.5, -2.25, 1e300])))[0]
            return {"t": "float", "v": bits}, f"[d,{bits}]", f"[f,{bits}]"
        if ty in ("binary", "string"):
            n = rng.choice([0, 1, 2, 5, 40, 127, 128, 300])
            if self.big and rng.random() < 0.5:
                n = rng.choice([70000, 260000, 600000])
            if ty == "string":
                s = ("é" if rng.random() < 0.2 else "") + "a" * n
                b = s.encode("utf8")
                return {"t": "str", "v": b.hex()}, f"[y,x{b.hex()}]", f"[u,x{b.hex()}]"
            b = bytes(rng.randrange(256) for _ in range(min(n, 64))) + b"z" * max(0, n - 64)
            return {"t": "bytes", "v": b.hex()}, f"[y,x{b.hex()}]", f"[y,x{b.hex()}]"
        raise ValueError(ty)

    def value(self, ty, depth):
        rng = self.rng
        if ty.startswith("list<"):
            inner = ty[5:-1]
            n = rng.choice([0, 1, 2, 3]) if depth > 2 else rng.choice([0, 1, 2, 14, 15, 16, 40])
            if inner in self.structs and n > 3 and depth > 1:
                n = rng.choice([0, 1, 2])
            items = [self.value(inner, depth + 1) for _ in range(n)]
            ety = {"bool": 1, "byte": 3, "i8": 3, "i16": 4, "i32": 5, "i64": 6, "double": 7, "binary": 8, "string": 8}.get(inner, 5 if inner in self.enums else 12)
            return [i[0] for i in items], f"[l,{ety},[{','.join(i[1] for i in items)}]]", f"[l,[{','.join(i[2] for i in items)}]]"
        if ty in self.structs:
            return self.struct(ty, depth + 1)
        return self.leaf(ty, depth)

    def struct(self, name, depth=0):
        kind, fields = self.structs[name]
        rng = self.rng
        chosen = []
        if kind == "union":
            if fields:
                chosen = [rng.choice(fields)]
        else:
            for f in fields:
                fid, fname, req, ty = f
                if req or rng.random() < (0.6 if depth < 3 else 0.25):
                    chosen.append(f)
        wfields, tfields, pfields, i32ids = {}, [], [], []
        for fid, fname, req, ty in chosen:
            if depth >= 4 and (ty in self.structs or ty.startswith("list<")) and not req:
                continue
            w, t, p = self.value(ty, depth)
            wfields[fname] = w
            tfields.append(f"[{fid},{t}]")
            pfields.append(f"[{fid},{p}]")
            if ty in ("byte", "i8", "i16", "i32") or ty in self.enums:
                i32ids.append(fid)
        marker = f"2,[{','.join(map(str, i32ids))}]" if i32ids else "0,[]"
        return ({"name": name, "i32ids": i32ids, "fields": wfields},
                f"[s,[{','.join(tfields)}]]",
                f"[d,{marker},[{','.join(pfields)}]]")


def features(name, ttext, structs):
    """coarse descriptor for matching known findings: does the value carry an i8/i16 field, a field id >= 14 ..."""
    return {"has_i8": "[i8," in ttext, "has_i16": "[i16,", "struct": name}


def max_field_id(ttext):
    import re
    return max([int(m) for m in re.findall(r"\[(\d+),\[", ttext)] or [0])


def run(ctx, report):
    rng = ctx.rng
    enums, structs = load_idl()
    report.rule = ("IDL-generated structures (every optional field present/absent, list lengths 0/1/2/14/15/16/40, strings/binaries from "
                   "empty to >1 MB, integers over the declared width) for the property's roots and their nested structs; built via the "
                   "API and parsed from independently encoded bytes; non-trivial = structure with >=1 nested struct and >=1 list; "
                   "distinct by the value text")
    n = 150 if ctx.quick else 1500
    nbig = 3 if ctx.quick else 30
    if os.environ.get("VERIF_C10_NOBIG"):
        nbig = 0
    cases = []
    for k in range(n + nbig):
        big = k >= n
        g = Gen(rng, enums, structs, big=big)
        name = rng.choice(ROOTS if not big else ["Statistics", "KeyValue", "FileMetaData", "SchemaElement", "ColumnChunk"])
        w, t, p = g.struct(name)
        cases.append({"name": name, "w": w, "t": t, "p": p, "big": big})
    # Lean: spec bytes, model bytes (+ buffer size)
    if ctx.model_ok:
        reps_s = ctx.driver.ask([f"thrift spec_enc v={c['t']}" for c in cases])
        reps_m = ctx.driver.ask([f"thrift write name={c['name']} v={c['p']}" for c in cases])
    else:
        reps_s = reps_m = [None] * len(cases)
    # real: build via API (round trip + pickle)
    reals = run_worker(ctx, [{"k": "thrift_build", "tree": c["w"]} for c in cases], tag="c10a", timeout=3000)
    # real: parse the spec's bytes, re-serialise
    spec_hex = []
    for c, rs in zip(cases, reps_s):
        h = None
        if rs is not None:
            head, dd = parse_reply(rs)
            h = dd.get("out", "x")[1:] if head == "ok" else None
        spec_hex.append(h)
    reser = run_worker(ctx, [{"k": "thrift_roundtrip", "in": h or "00", "name": c["name"]} for c, h in zip(cases, spec_hex)], tag="c10b", timeout=3000)
    for c, rs, rm, real, rr, sh in zip(cases, reps_s, reps_m, reals, reser, spec_hex):
        name, ttext = c["name"], c["t"]
        nontrivial = "[l," in ttext and ttext.count("[s,") >= 2
        rec = {"struct": name, "has_i8": "[i8," in ttext, "has_i16": "[i16," in ttext, "max_field_id": max_field_id(ttext),
               "big": c["big"], "value": ttext[:300], "has_empty_list": bool(re.search(r"\[l,\d+,\[\]\]", ttext)),
               "narrow_int": ("[i8," in ttext) or ("[i16," in ttext), "field_ge_14": max_field_id(ttext) >= 14}
        report.case(("v", ttext[:2000], len(ttext)), nontrivial, sample={"struct": name, "value": ttext[:200]} if nontrivial and len(report.samples) < 4 else None)
        report.count("struct:" + name)
        report.stream("thrift.write")
        mhex, msize = None, None
        if rm is not None:
            head, dd = parse_reply(rm)
            if head == "ok":
                mhex, msize = dd["out"][1:], int(dd["size"])
        # ---- API-built: real vs spec (conformance), real vs model (correspondence)
        if "crash" in real:
            report.violation({**rec, "check": "api", "what": f"process crashed (rc {real['crash']}) while serialising", "overflow": bool(mhex and msize and len(mhex) // 2 > msize),
                              "serialised_len": None if mhex is None else len(mhex) // 2, "buffer": msize, "sig": "crash:" + name})
            continue
        if "exc" in real:
            report.violation({**rec, "check": "api", "what": "serialisation raised " + real["exc"][:100], "sig": "exc:" + name})
            continue
        out = real["out"]
        overflow = bool(mhex is not None and msize is not None and len(mhex) // 2 > msize)
        if sh is not None and out != sh:
            why = "truncated" if sh.startswith(out) or len(out) < len(sh) else "differs from the compact-protocol encoding the IDL prescribes"
            fd = next((i for i in range(0, min(len(out), len(sh)), 2) if out[i:i + 2] != sh[i:i + 2]), None)
            rec["first_diff"] = None if fd is None else fd // 2
            rec["real_at_diff"] = None if fd is None else out[max(0, fd - 8):fd + 12]
            rec["spec_at_diff"] = None if fd is None else sh[max(0, fd - 8):fd + 12]
            report.violation({**rec, "check": "api-conformance", "overflow": overflow, "what": f"to_bytes() of an API-built {name} is {why} "
                              f"({len(out) // 2} vs {len(sh) // 2} bytes)", "sig": f"conf:{name}:{'i8' if rec['has_i8'] else ''}{'i16' if rec['has_i16'] else ''}{'f14' if rec['max_field_id'] >= 14 else ''}{'ovf' if overflow else ''}"})
        if mhex is not None and out != mhex and not overflow:
            report.corr_break("thrift.write", {**rec, "model_len": len(mhex) // 2, "real_len": len(out) // 2,
                                               "first_diff": next((i // 2 for i in range(0, min(len(out), len(mhex)), 2) if out[i:i + 2] != mhex[i:i + 2]), None),
                                               "explained_by_known": False})
        if real.get("reser") != out or real.get("eq") is False or real.get("pickle") != out:
            report.violation({**rec, "check": "roundtrip", "overflow": overflow, "what": f"from_buffer(to_bytes(x)) / pickle does not give back an equal {name}"
                              f" (reser_equal={real.get('reser') == out}, eq={real.get('eq')}, pickle_equal={real.get('pickle') == out})",
                              "sig": f"rt:{name}:{'i8' if rec['has_i8'] else ''}{'i16' if rec['has_i16'] else ''}{'f14' if rec['max_field_id'] >= 14 else ''}{'ovf' if overflow else ''}"})
        # ---- foreign bytes re-serialised
        report.stream("thrift.reserialise")
        if sh is not None:
            if "crash" in rr or "exc" in rr:
                report.violation({**rec, "check": "foreign", "overflow": overflow, "what": f"parsing / re-serialising independently encoded {name} bytes failed: {str(rr)[:100]}",
                                  "sig": f"foreign-fail:{name}"})
            elif rr["out"] != sh:
                report.violation({**rec, "check": "foreign", "overflow": overflow,
                                  "what": f"independently encoded {name} re-serialises to different bytes ({len(rr['out']) // 2} vs {len(sh) // 2})",
                                  "sig": f"foreign:{name}:{'i8' if rec['has_i8'] else ''}{'i16' if rec['has_i16'] else ''}{'f14' if rec['max_field_id'] >= 14 else ''}"})


def search(ctx, report):
    old = ctx.tier
    ctx.tier = "thorough"
    try:
        run(ctx, report)
    finally:
        ctx.tier = old


def replay(ctx, rec, report):
    r2 = type(report)(report.prop, report.tier, report.seed)
    run(ctx, r2)
    return any(v.get("sig") == rec.get("sig") for v in r2.violations)
