"""C01 — write -> read round trip returns the same table under every write option.

Oracle (the property itself, on the real code): same column names in the same order, same row
count, same written index (an automatic range index is regenerated), in every cell the same value
or the same missingness, dtype equal to the original or its documented canonical form - or the
write raised.  A read that raises after a successful write counts as a failure.
Correspondence `file.decode`: what fastparquet's own reader returns must equal what the Lean
specification reader (Spec.File) decodes from the same bytes (physical level) - this ties the
reader to the format model; C02 ties the writer.
"""
import math, os, shutil
import numpy as np
import pandas as pd
from .common import canon_err, short_tb
from .gen_tables import diff_frames, canon_series
from . import wcases

ASSUMPTIONS = ["documented canonical forms: text comes back as object/str strings; NaN and NULL are both 'missing' for floats; "
               "timedelta comes back in the stored (microsecond) resolution or the original one"]


def dtype_ok(kind, orig, got):
    o, g = str(orig), str(got)
    if o == g:
        return True
    if kind in ("str", "bytes"):
        return g in ("object", "str", "string") or g.startswith("string")
    if kind.startswith("td"):
        return g.startswith("timedelta64")
    if kind in ("float_nan",):
        return g == o
    if kind.startswith("cat"):
        return g == "category"
    if kind.startswith("dt"):
        return g.replace("datetime64", "") == o.replace("datetime64", "")
    return False


def loose_cells(series):
    """cells for comparing two reads of the same file under different array types: missing -> None, numbers as float"""
    from .gen_tables import canon_cell, cat_values
    vals = cat_values(series) if isinstance(series.dtype, pd.CategoricalDtype) else series.astype(object).tolist()
    out = []
    for v in vals:
        c = canon_cell(v)
        if c in (("null",), ("nan",)):
            out.append(None)
        elif c[0] in ("b", "i", "f"):
            out.append(float(v))
        else:
            out.append(c)
    return out


def run(ctx, report):
    import fastparquet
    rng = ctx.rng
    report.rule = ("frames over every supported dtype x row counts {0,1,7,8,9,63,64,65,(8191..8193)} x null patterns x option tuples (codec per "
                   "column, row_group_offsets int/list/None, has_nulls True/False/'infer'/list, page size forcing 1..k pages, page v1/v2, stats, "
                   "int96, object_encoding, simple/hive, write_index); non-trivial = >=1 row and (a null or >=2 pages/row groups or a "
                   "non-default option); distinct by the case descriptor")
    ncases = 98 if ctx.quick else 600
    for idx in range(ncases):
        case = wcases.gen_case(rng, idx, ctx.quick)
        df, desc = case["df"], case["desc"]
        path = os.path.join(ctx.workdir("c01"), f"w{idx}")
        shutil.rmtree(path, ignore_errors=True)
        if os.path.isfile(path):
            os.remove(path)
        rec = {"check": "roundtrip", **desc}
        ctx.crumb(rec)
        try:
            wcases.write_case(case, path)
        except Exception as e:  # noqa: "or else the write raises"
            report.count("write-refused:" + canon_err(e))
            report.case(("refused", str(desc)), False)
            continue
        if ctx.model_ok:
            try:
                wcases.reader_model_stream(ctx, report, path, desc)
            except Exception as e:  # noqa
                report.corr_break("rpage.v1", {**rec, "what": "the page walk of the reader-model stream raised " + canon_err(e) + " " + str(e)[:100], "sig": "rpage:walk"})
        probs = []
        try:
            got = fastparquet.ParquetFile(path).to_pandas()
        except Exception as e:  # noqa
            probs.append("read raised after a successful write: " + canon_err(e) + " " + str(e)[:100] + " | " + short_tb(e)[-150:])
            got = None
        if got is not None:
            exp = df
            wi = case["opts"].get("write_index")
            named_index = df.index.name is not None
            if named_index and wi is not False:
                if list(got.index.names) != [df.index.name]:
                    probs.append(f"written index {df.index.name!r} came back as {list(got.index.names)}")
                elif canon_series(pd.Series(got.index)) != canon_series(pd.Series(df.index)):
                    probs.append(f"index values {list(got.index)[:5]} differ from {list(df.index)[:5]}")
            if isinstance(df.index, pd.MultiIndex) and wi is True:
                if list(got.index.names) != list(df.index.names):
                    probs.append(f"multi-index levels {list(df.index.names)} came back as {list(got.index.names)}")
                elif [tuple(map(str, t)) for t in got.index.tolist()] != [tuple(map(str, t)) for t in df.index.tolist()]:
                    probs.append(f"multi-index values {got.index.tolist()[:4]} differ from {df.index.tolist()[:4]}")
            if isinstance(df.index, pd.RangeIndex) and wi is None and not named_index and (df.index.start, df.index.step) != (0, 1) and len(got) == len(df):
                if list(got.index) != list(df.index):
                    probs.append(f"range index {df.index!r} came back as {got.index!r}")
            if list(got.columns) != list(exp.columns):
                probs.append(f"columns {list(got.columns)} != {list(exp.columns)}")
            elif len(got) != len(exp):
                probs.append(f"{len(got)} rows read, {len(exp)} written")
            else:
                dd = diff_frames(exp.reset_index(drop=True), got.reset_index(drop=True))
                probs += dd[:3]
                for c in exp.columns:
                    kind = c.split("_", 1)[1] if "_" in c else "int64"
                    if not dtype_ok(kind, exp[c].dtype, got[c].dtype):
                        probs.append(f"dtype of {c}: {exp[c].dtype} came back as {got[c].dtype}")
                    if kind.startswith("cat") and str(got[c].dtype) == "category":
                        if list(got[c].cat.categories) != list(exp[c].cat.categories):
                            probs.append(f"category labels of {c} changed: {list(got[c].cat.categories)[:5]} vs {list(exp[c].cat.categories)[:5]}")
                        if bool(got[c].cat.ordered) != bool(exp[c].cat.ordered):
                            probs.append(f"order flag of categorical {c} changed")
        if got is not None and not probs:
            # the nullable-types option is a READ option: with pandas_nulls=False integers / booleans with missing values land in
            # float / object arrays, but every cell must still hold the value written (or be missing where it was missing)
            # ... and `categories=[]` (dictionary-encoded columns de-referenced to plain values) is a read option, too
            for vname, pkw, rkw in (("pandas_nulls=False", {"pandas_nulls": False}, {}), ("categories=[]", {}, {"categories": []})):
                if vname == "categories=[]" and not any(isinstance(df[c].dtype, pd.CategoricalDtype) for c in df.columns):
                    continue
                try:
                    got2 = fastparquet.ParquetFile(path, **pkw).to_pandas(**rkw)
                    for c in got.columns:
                        if c not in got2.columns or len(got2[c]) != len(got[c]):
                            probs.append(f"{vname}: column {c} missing or of another length")
                            break
                        a, b = loose_cells(got[c]), loose_cells(got2[c])
                        bad = [i for i, (x, y) in enumerate(zip(a, b)) if x != y]
                        if bad:
                            probs.append(f"{vname}: column '{c}' row {bad[0]}: {b[bad[0]]!r} read, the default read gives {a[bad[0]]!r} ({len(bad)} rows differ)")
                            break
                    report.count("read-variant:" + vname)
                except Exception as e:  # noqa
                    if vname == "categories=[]":
                        # outside C01's quantifier (a read option): a refusal is counted, only silently different data is a failure
                        report.count("read-variant-refused:" + vname + ":" + canon_err(e))
                    else:
                        probs.append(f"read with {vname} raised after a successful write: " + canon_err(e) + " " + str(e)[:100])
        if probs:
            is_i96 = lambda p: case["opts"].get("times") == "int96" and p.startswith("dtype of") and "datetime64" in p and p.endswith("datetime64[ns]")  # noqa: E731
            is_ec = lambda p: len(df) == 0 and p.startswith("category labels")  # noqa: E731
            if all(is_i96(p) or is_ec(p) for p in probs):
                # only the two listed design-level findings: report each under its own record
                if any(is_i96(p) for p in probs):
                    report.violation({**rec, "int96_unit_only": True, "what": "; ".join(p for p in probs if is_i96(p))[:300], "sig": "rt:int96-unit"})
                if any(is_ec(p) for p in probs):
                    report.violation({**rec, "empty_categorical_only": True, "what": "; ".join(p for p in probs if is_ec(p))[:300], "sig": "rt:empty-cat"})
                probs = []
        if probs:
            kinds_bad = sorted({p.split("column '")[1].split("'")[0].split("_", 1)[1] for p in probs if "column '" in p and "_" in p.split("column '")[1].split("'")[0]})
            report.violation({**rec, "what": "; ".join(probs)[:500], "sig": "rt:" + (",".join(kinds_bad) or probs[0][:35])})
        nontrivial = len(df) >= 1 and (any(p != "none" for p in case["pats"].values()) or bool(case["opts"]) or case["globals"]["page"])
        report.case(("case", str(desc)), bool(nontrivial), sample=desc if nontrivial and len(report.samples) < 4 else None)
        report.stream("file.roundtrip")
        for k in case["kinds"]:
            report.count("dtype:" + k)
        shutil.rmtree(path, ignore_errors=True) if os.path.isdir(path) else (os.path.exists(path) and os.remove(path))
    feature_cases(ctx, report)
    isolated_feature_cases(ctx, report)


def feature_cases(ctx, report):
    """frame shapes the option lattice does not reach: multi-level COLUMN labels, JSON-encoded objects, fixed-width text"""
    import fastparquet
    from .gen_tables import canon_cell
    frames = []
    mi = pd.DataFrame(np.arange(18, dtype="int64").reshape(6, 3),
                      columns=pd.MultiIndex.from_tuples([("a", "x"), ("a", "y"), ("b", "z")], names=["l0", "l1"]))
    mi[("b", "s")] = ["p", None, "q", "r", None, "t"]
    frames.append(("multi-level column labels", mi, {"row_group_offsets": [0, 2, 4]}))
    frames.append(("multi-level column labels, hive", mi, {"row_group_offsets": [0, 3], "file_scheme": "hive"}))
    js = pd.DataFrame({"j": [{"a": 1}, [1, 2], None, "s", {"b": [1, {"c": None}]}, 7], "t": ["ab", "cd", "ef", "gh", "ij", "kl"]})
    frames.append(("json objects + fixed-width text", js, {"object_encoding": {"j": "json", "t": "utf8"}, "fixed_text": {"t": 2}, "row_group_offsets": [0, 4]}))
    # a row-group list that does not start at 0 (either refused or every row written), an index level named like a data column
    # (either refused or both kept), an index whose real name merely starts like the placeholder for "unnamed"
    plain = pd.DataFrame({"a": np.arange(5, dtype="int64"), "b": ["p", "q", "r", "s", "t"]})
    frames.append(("row_group_offsets not starting at 0", plain, {"row_group_offsets": [2, 4]}))
    clash = pd.DataFrame({"x": np.arange(4, dtype="int64"), "v": [1.5, 2.5, 3.5, 4.5]},
                         index=pd.MultiIndex.from_arrays([[7, 7, 8, 8], ["a", "b", "a", "b"]], names=["x", "y"]))
    frames.append(("index level named like a column", clash, {"write_index": True}))
    odd = pd.DataFrame({"a": np.arange(3, dtype="int64")}, index=pd.Index([10, 20, 30], name="__index_level_0__x"))
    frames.append(("index name starting like the unnamed-level placeholder", odd, {"write_index": True}))
    for name, df, opts in frames:
        path = os.path.join(ctx.workdir("c01"), "feature")
        shutil.rmtree(path, ignore_errors=True)
        if os.path.isfile(path):
            os.remove(path)
        rec = {"check": "roundtrip", "feature": name, "rows": len(df), "opts": {k: str(v) for k, v in opts.items()}}
        ctx.crumb(rec)
        probs = []
        try:
            fastparquet.write(path, df, **opts)
        except Exception as e:  # noqa
            report.count("write-refused:" + canon_err(e))
            continue
        try:
            got = fastparquet.ParquetFile(path).to_pandas()
            if opts.get("write_index") and (list(got.index.names) != list(df.index.names)
                                            or [str(t) for t in got.index.tolist()] != [str(t) for t in df.index.tolist()]):
                probs.append(f"index {list(df.index.names)} {df.index.tolist()[:3]} came back as {list(got.index.names)} {got.index.tolist()[:3]}")
            if list(got.columns) != list(df.columns) or list(got.columns.names) != list(df.columns.names):
                probs.append(f"column labels {list(df.columns)} / level names {list(df.columns.names)} came back as {list(got.columns)} / {list(got.columns.names)}")
            elif len(got) != len(df):
                probs.append(f"{len(got)} rows read, {len(df)} written")
            else:
                for c in df.columns:
                    a = [canon_cell(v) if canon_cell(v) != ("nan",) else ("null",) for v in df[c].astype(object).tolist()]
                    b = [canon_cell(v) if canon_cell(v) != ("nan",) else ("null",) for v in got[c].astype(object).tolist()]
                    if a != b:
                        i = next(k for k, (x, y) in enumerate(zip(a, b)) if x != y)
                        probs.append(f"column {c!r} row {i}: {b[i]} read, {a[i]} written")
                        break
        except Exception as e:  # noqa
            probs.append("read raised after a successful write: " + canon_err(e) + " " + str(e)[:100])
        if probs:
            report.violation({**rec, "what": "; ".join(probs)[:400], "sig": "rt:feature:" + name[:20]})
        report.case(("feature", name), True)
        report.count("feature:" + name)
        shutil.rmtree(path, ignore_errors=True) if os.path.isdir(path) else (os.path.exists(path) and os.remove(path))


def isolated_feature_cases(ctx, report):
    """frames whose read may corrupt the interpreter's heap: written, read and compared in a forked child"""
    import fastparquet
    import pickle
    frames = [("multi-index rows + a categorical data column",
               pd.DataFrame({"x": [1, 2, 3, 4], "c": pd.Categorical(["u", "v", "u", "v"])},
                            index=pd.MultiIndex.from_arrays([[0, 0, 1, 1], ["a", "b", "a", "b"]], names=["i0", "i1"])), {})]
    for name, df, opts in frames:
        path = os.path.join(ctx.workdir("c01"), "feature_iso")
        if os.path.exists(path):
            os.remove(path) if os.path.isfile(path) else shutil.rmtree(path, ignore_errors=True)
        rec = {"check": "roundtrip", "feature": name, "rows": len(df)}
        ctx.crumb(rec)
        try:
            fastparquet.write(path, df, **opts)
        except Exception as e:  # noqa
            report.count("write-refused:" + canon_err(e))
            continue
        r, w = os.pipe()
        pid = os.fork()
        if pid == 0:
            os.close(r)
            try:
                try:
                    got = fastparquet.ParquetFile(path).to_pandas()
                    res = ("ok", [tuple(map(str, t)) for t in got.index.tolist()], {c: [str(v) for v in got[c].tolist()] for c in got.columns})
                except Exception as e:  # noqa
                    res = ("raised", canon_err(e) + " " + str(e)[:100])
                with os.fdopen(w, "wb") as f:
                    pickle.dump(res, f)
            finally:
                os._exit(0)
        os.close(w)
        with os.fdopen(r, "rb") as f:
            data = f.read()
        _, status = os.waitpid(pid, 0)
        probs, crashed = [], False
        if os.WIFSIGNALED(status) or not data:
            crashed = True
            probs.append(f"the interpreter crashed (signal {os.WTERMSIG(status) if os.WIFSIGNALED(status) else '?'}) while using the frame read back "
                         "(heap corruption: the index of the result is not a valid MultiIndex)")
        else:
            res = pickle.loads(data)
            if res[0] == "raised":
                probs.append("read raised after a successful write: " + res[1])
            else:
                if res[1] != [tuple(map(str, t)) for t in df.index.tolist()]:
                    probs.append(f"multi-index values {res[1][:4]} differ from {df.index.tolist()[:4]}")
                for c in df.columns:
                    if res[2].get(c) != [str(v) for v in df[c].tolist()]:
                        probs.append(f"column {c} differs")
        if probs:
            report.violation({**rec, "what": "; ".join(probs)[:400], "multiindex_with_categorical": True, "crashed": crashed, "sig": "rt:feature:mi+cat"})
        report.case(("feature-iso", name), True)
        report.count("feature:" + name)
        os.path.exists(path) and (os.remove(path) if os.path.isfile(path) else shutil.rmtree(path, ignore_errors=True))


def search(ctx, report):
    old = ctx.tier
    ctx.tier = "thorough"
    try:
        run(ctx, report)
    finally:
        ctx.tier = old


def replay(ctx, rec, report):
    r2 = type(report)(report.prop, report.tier, report.seed)
    run(ctx, r2)
    return any(v.get("sig") == rec.get("sig") for v in r2.violations)
