"""C07 — append adds rows at the end and leaves existing data untouched.

Histories of 1..k appends on single-file and hive datasets (with/without partition_on, with more
than ten part files so that numeric vs. text ordering of part numbers matters, with numbering gaps).
Oracle after every append: bytes before the old footer unchanged (single file); every pre-existing
file byte-identical and still present (multi-file); a fresh read returns original rows followed by
each batch in order with every value intact (categoricals included).
Correspondence: `fs.trace` (Impl.Dataset.appendOps vs the recorded open/write/close/mkdir calls)
and `footer.append` (Impl.Append.appendSimple vs the file bytes).
"""
import hashlib, os, shutil, struct
import numpy as np
import pandas as pd
from .common import parse_reply, parse_list, hexs, unhex, canon_err
from .fsrec import RecFS, collapse
from .gen_tables import gen_column, diff_frames
from . import c19

ASSUMPTIONS = ["POSIX write semantics; path text and the part-number regex are outside the Lean model (tied by trace correspondence)"]

KINDS = ["int64", "float_nan", "str", "bool", "Int64", "dt_ns"]


def sha_tree(root):
    out = {}
    for dp, _dn, fn in os.walk(root):
        for f in fn:
            p = os.path.join(dp, f)
            out[os.path.relpath(p, root)] = hashlib.sha1(open(p, "rb").read()).hexdigest()
    return out


def batch(rng, schema, n, start, cat_pool=None):
    df = pd.DataFrame({"rid": np.arange(start, start + n, dtype="int64")})
    for name, kind in schema:
        if kind == "cat":
            cats = cat_pool if cat_pool is not None else ["x", "y", "z"]
            df[name] = pd.Categorical([rng.choice(cats) for _ in range(n)], categories=cats)
        elif kind == "part":
            df[name] = np.array([rng.choice([0, 1, 2]) for _ in range(n)], dtype="int64")
        elif kind in ("objint", "objbool"):
            # python ints / bools with None in an object column; missing values only in the FIRST batch, so that the
            # last row group of the grown dataset has none
            vals = [(rng.randrange(0, 100) if kind == "objint" else bool(rng.randrange(0, 2))) for _ in range(n)]
            if start == 0 and n:
                vals[0] = None
                if n > 2:
                    vals[n // 2] = None
            df[name] = pd.Series(vals, dtype=object)
        else:
            # the first batch fixes the stored type of object columns by inference from a non-null value, so
            # an all-null first batch of text is not "the same dtype" as later text (observed: TypeError, refused)
            pats = ["none", "some", "some", "first"] + (["all"] if (start > 0 or kind not in ("str", "bytes")) else [])
            df[name] = gen_column(rng, kind, n, rng.choice(pats)).values \
                if kind not in ("Int64",) else gen_column(rng, kind, n, rng.choice(["none", "some"]))
    return df


def run(ctx, report):
    import fastparquet
    rng = ctx.rng
    report.rule = ("histories of 1..k appends (k<=4 quick, <=8 thorough) over schema-compatible frames incl. 0-row batches, varying "
                   "row_group_offsets and codecs, single-file / hive / hive+partition_on, datasets with >10 part files and with "
                   "numbering gaps, categoricals with equal and with different label sets; non-trivial = history of >=2 writes with "
                   ">=2 row groups; distinct by (layout, step, batch shape)")
    nscen = 12 if ctx.quick else 72
    reqs = []
    for s in range(nscen):
        layout = ["simple", "hive", "hive-part", "simple", "hive-many", "hive-gap", "simple-cat", "hive-cat", "simple-catdiff", "hive",
                  "simple-catgrow", "hive-catgrow"][s % 12]
        cats_differ = layout.endswith("catdiff") or (layout.endswith("-cat") and False)
        schema = [("a", rng.choice(KINDS)), ("b", rng.choice(KINDS))]
        if s % 12 in (3, 9):
            schema = [("a", "objint"), ("b", "objbool")]
        if "cat" in layout:
            schema.append(("c", "cat"))
        partitioned = layout == "hive-part"
        if partitioned:
            schema.append(("p", "part"))
        path = os.path.join(ctx.workdir("c07"), f"d{s}")
        shutil.rmtree(path, ignore_errors=True)
        if os.path.isfile(path):
            os.remove(path)
        simple = layout.startswith("simple")
        n0 = rng.choice([3, 8, 20])
        grow = [[f"L{j:03d}" for j in range(m)] for m in (3, 5, 200, 300, 301, 302, 303, 304, 305)]   # dictionaries that extend one another
        first = batch(rng, schema, n0 if layout != "hive-many" else 12, 0, grow[0] if layout.endswith("catgrow") else None)
        kw = dict(write_index=False)
        offs0 = [0, n0 // 2] if layout != "hive-many" else list(range(12))
        try:
            if simple:
                fastparquet.write(path, first, row_group_offsets=offs0, **kw)
            else:
                fastparquet.write(path, first, file_scheme="hive", row_group_offsets=offs0,
                                  partition_on=["p"] if partitioned else [], **kw)
            if layout == "hive-gap":
                pf = fastparquet.ParquetFile(path)
                pf.remove_row_groups(pf.row_groups[0])
                first = first.iloc[n0 // 2:].reset_index(drop=True) if len(pf.row_groups) else first.iloc[0:0]
        except Exception as e:  # noqa
            report.notes.append(f"initial write failed ({layout}): {canon_err(e)}")
            continue
        expected = first
        nsteps = rng.choice([1, 2, 3, 4]) if ctx.quick else rng.choice([2, 4, 6, 8])
        for step in range(nsteps):
            n = rng.choice([0, 1, 4, 9])
            cat_pool = None
            if cats_differ:
                cat_pool = rng.choice([["y", "x"], ["x", "y", "w"], ["q"]])
            if layout.endswith("catgrow"):
                cat_pool = grow[step + 1]
                n = max(n, 2)
            b = batch(rng, schema, n, 1000 * (step + 1), cat_pool)
            if layout.endswith("catgrow") and n:
                b["c"] = pd.Categorical(list(b["c"].astype(object))[:-1] + [cat_pool[-1]], categories=cat_pool)   # the newest label is used
            if (step == 0 and s % 3 == 0) or rng.random() < 0.15:
                # the same names and dtypes in ANOTHER column order: columns are matched by name, not by position
                b = b[list(reversed(b.columns))]
                n_perm = True
            else:
                n_perm = False
            codec = rng.choice([None, None, "SNAPPY", "GZIP", "ZSTD"])
            offs = rng.choice([None, [0], [0, n // 2] if n > 1 else [0], 2])
            before_bytes = open(path, "rb").read() if simple else None
            before_tree = None if simple else sha_tree(path)
            rec = {"check": "append", "layout": layout, "step": step, "rows": n, "codec": codec, "offsets": str(offs),
                   "schema": [k for _n, k in schema], "cats_differ": bool(cats_differ), "columns_permuted": n_perm}
            fs = RecFS()
            try:
                old_refs = None if simple else c19.dataset_refs(path)
                handle = None
                via_handle = (not partitioned) and not layout.endswith("catdiff") and rng.random() < 0.4
                rec["via_handle"] = via_handle
                if via_handle:
                    # the dataset handle's own append: the SAME handle must then show the appended rows
                    handle = fastparquet.ParquetFile(path)
                    hkw = {} if simple else dict(open_with=fs.open, mkdirs=lambda d: fs.mkdirs(d, exist_ok=True))
                    handle.write_row_groups(b, row_group_offsets=offs, compression=codec, **hkw)
                elif simple:
                    fastparquet.write(path, b, append=True, row_group_offsets=offs, compression=codec, **kw)
                else:
                    fastparquet.write(path, b, append=True, file_scheme="hive", row_group_offsets=offs, compression=codec,
                                      partition_on=["p"] if partitioned else [], open_with=fs.open,
                                      mkdirs=lambda d: fs.mkdirs(d, exist_ok=True), **kw)
            except Exception as e:  # noqa
                report.violation({**rec, "what": "append of a schema-compatible frame raised: " + canon_err(e) + " " + str(e)[:120],
                                  "sig": "append-raised:" + layout})
                break
            if partitioned and n:
                # rows are regrouped by partition inside each incoming row group
                pass
            expected = pd.concat([expected, b], ignore_index=True)
            probs = []
            # ---- existing bytes / files untouched
            if simple:
                after = open(path, "rb").read()
                flen = struct.unpack("<I", before_bytes[-8:-4])[0]
                loc = len(before_bytes) - 8 - flen
                if after[:loc] != before_bytes[:loc]:
                    k = next(i for i, (x, y) in enumerate(zip(after, before_bytes)) if x != y)
                    probs.append(f"bytes of existing row groups changed (first difference at offset {k} of {loc})")
                # correspondence: structure of the result
                aflen = struct.unpack("<I", after[-8:-4])[0]
                nf = after[len(after) - 8 - aflen:len(after) - 8]
                new_rgs = after[loc:len(after) - 8 - aflen]
                if ctx.model_ok and len(before_bytes) < 60000:
                    reqs.append((f"footer append file={hexs(before_bytes)} rgs={hexs(new_rgs)} nf={hexs(nf)}", ("bytes", after), rec))
                    report.stream("footer.append")
            else:
                after_tree = sha_tree(path)
                for f, h in before_tree.items():
                    if f in ("_metadata", "_common_metadata"):
                        continue
                    if f not in after_tree:
                        probs.append(f"existing data file {f} disappeared (renamed or removed)")
                    elif after_tree[f] != h:
                        probs.append(f"existing data file {f} was rewritten")
                rel = collapse(fs.events, path)
                existing = {f for f in before_tree if f not in ("_metadata", "_common_metadata")}
                for ev in rel:
                    if ev[0] == "open" and ev[1] in existing:
                        probs.append(f"existing data file {ev[1]} opened for writing")
                    if ev[0] in ("rename", "rm"):
                        probs.append(f"append issued {ev[0]} {ev[1:]}")
                if ctx.model_ok and not probs:
                    try:
                        new_refs = c19.dataset_refs(path)[len(old_refs):]
                        by_id = {}
                        for (d, i, rows) in new_refs:
                            by_id.setdefault(i, []).append((d, rows))
                        nd = [by_id[i] for i in sorted(by_id)]
                        old_s = "[" + ",".join(f"[{c19.hexdir(d)},{i},[{','.join(map(str, rows))}]]" for d, i, rows in old_refs) + "]"
                        nd_s = "[" + ",".join("[" + ",".join(f"[{c19.hexdir(d)},[{','.join(map(str, rows))}]]" for d, rows in pieces) + "]" for pieces in nd) + "]"
                        reqs.append((f"fs trace part={1 if partitioned else 0} old={old_s} nd={nd_s}", ("trace", c19.tokens(rel)), rec))
                        report.stream("fs.trace")
                    except Exception:
                        pass
            # ---- the appending handle itself
            if handle is not None:
                try:
                    hgot = handle.to_pandas()
                    if handle.count() != len(expected) or len(hgot) != len(expected):
                        probs.append(f"the handle that appended reports count() = {handle.count()} and reads {len(hgot)} rows; the dataset holds {len(expected)}")
                    else:
                        probs += ["appending handle: " + x for x in diff_frames(expected, hgot[[c for c in expected.columns]])]
                except Exception as e:  # noqa
                    probs.append("the appending handle cannot be read: " + canon_err(e) + " " + str(e)[:80])
            # ---- read back
            try:
                got = fastparquet.ParquetFile(path).to_pandas()
                if partitioned:
                    got = got[[c for c in expected.columns]]
                    d = diff_frames(expected.sort_values("rid").reset_index(drop=True),
                                    got.sort_values("rid").reset_index(drop=True))
                    # order: rows of each write stay together and writes stay in order
                    order = [r // 1000 for r in got["rid"].tolist()]
                    if order != sorted(order):
                        d.append("rows of a later append precede rows of an earlier write")
                else:
                    d = diff_frames(expected, got[[c for c in expected.columns]])
                probs += d
            except Exception as e:  # noqa
                probs.append("dataset unreadable after append: " + canon_err(e) + " " + str(e)[:100])
            if probs:
                is_cat = any("'c'" in p for p in probs) and cats_differ and all(("'c'" in p) for p in probs)
                report.violation({**rec, "what": "; ".join(probs)[:400], "append": "categorical" if is_cat else "plain",
                                  "dicts": "differ" if is_cat else "n/a", "sig": "append:" + ("catdiff" if is_cat else probs[0][:30])})
                if not is_cat:
                    break
            report.case(("append", layout, step, n, codec, str(offs)), nontrivial=True,
                        sample=rec if len(report.samples) < 4 else None)
            report.count("layout:" + layout)
        shutil.rmtree(path, ignore_errors=True) if os.path.isdir(path) else (os.path.exists(path) and os.remove(path))
    if reqs and ctx.model_ok:
        reps = ctx.driver.ask([r[0] for r in reqs])
        for (req, exp, rec), rep in zip(reqs, reps):
            head, dd = parse_reply(rep)
            if exp[0] == "trace":
                m = parse_list(dd["ops"]) if head == "ok" else None
                if m != exp[1]:
                    report.corr_break("fs.trace", {**rec, "model": str(m)[:400], "real": str(exp[1])[:400], "explained_by_known": False})
            else:
                got = unhex(dd["out"]) if head == "ok" else None
                if got != exp[1]:
                    report.corr_break("footer.append", {**rec, "model_len": None if got is None else len(got), "real_len": len(exp[1]),
                                                        "explained_by_known": False})


def search(ctx, report):
    old = ctx.tier
    ctx.tier = "thorough"
    try:
        run(ctx, report)
    finally:
        ctx.tier = old


def replay(ctx, rec, report):
    r2 = type(report)(report.prop, report.tier, report.seed)
    run(ctx, r2)
    return any(v.get("sig") == rec.get("sig") for v in r2.violations)
