"""C11 — primitive codecs agree with the specification on their whole bounded domain.

Three parties per case: the *specification* (Lean `Spec.*`, cross-checked against an independent
Python big-int packer), the code-shaped Lean *model* (`Impl.Kernels`, stream `kern.*`) and the
*real* compiled extension (rebuilt from the current .c) executed in a crash-tolerant worker.
  real != spec   -> the property fails on that input  (violation / known finding)
  real != model  -> the correspondence is broken        (model no longer describes the code)
Enumeration is exhaustive over the lattice named by the property (widths, counts around
multiples of 8 / the miniblock size, patterns, capacities, item sizes, varint lengths).
"""
import itertools, json
from .common import parse_reply, parse_list, hexs, fmt_list, run_worker

ASSUMPTIONS = [
    "gcc -O1 build of the current cencoding.c / speedups.c is the code under test (Cython absent)",
    "signed left shift into the sign bit wraps (gcc), as in the model",
    "Lean compiler evaluates the model definitions faithfully",
]


def pack_py(vals, w):
    """independent LSB-first bit packer (python big int)"""
    s = 0
    for i, v in enumerate(vals):
        s |= (v & ((1 << w) - 1)) << (i * w)
    n = (len(vals) * w + 7) // 8
    return s.to_bytes(n, "little")


def uvar_py(x):
    out = bytearray()
    while x > 127:
        out.append((x & 0x7F) | 0x80)
        x >>= 7
    out.append(x)
    return bytes(out)


def patterns(rng, w, n, which):
    m = (1 << w) - 1
    if which == "zero":
        return [0] * n
    if which == "ones":
        return [m] * n
    if which == "alt":
        return [m if i % 2 == 0 else 0 for i in range(n)]
    if which == "alt2":
        return [(0x55555555 if i % 2 else 0xAAAAAAAA) & m for i in range(n)]
    return [rng.getrandbits(w) if w else 0 for _ in range(n)]


PATS = ["zero", "ones", "alt", "alt2", "rand"]


def gen(ctx):
    rng = ctx.rng
    quick = ctx.quick
    cases = []

    def add(kernel, params, real, model, expect, spec=None, nontrivial=True):
        cases.append({"kernel": kernel, "params": params, "real": real, "model": model,
                      "expect": expect, "spec": spec, "nontrivial": nontrivial})

    # ---- varints: all lengths 1..10
    xs = set()
    for k in range(0, 10):
        lo, hi = (1 << (7 * k)), min((1 << (7 * (k + 1))) - 1, (1 << 64) - 1)
        xs |= {lo, hi, lo + 1, hi - 1}
        for _ in range(2 if quick else 12):
            xs.add(rng.randrange(lo, hi + 1))
    xs |= {0, 1, 127, 128, (1 << 64) - 1, (1 << 63), (1 << 63) - 1}
    for x in sorted(xs):
        enc = uvar_py(x)
        pre = bytes(rng.randrange(256) for _ in range(rng.randrange(3)))
        post = bytes(rng.randrange(256) for _ in range(rng.randrange(3)))
        buf = pre + enc + post
        add("uvarint", {"x": x, "len": len(enc)},
            {"k": "uvarint", "in": buf.hex(), "loc": len(pre)},
            f"kern uvarint in={hexs(buf)} loc={len(pre)}",
            {"val": x, "loc": len(pre) + len(enc)},
            spec=f"spec uvarint in={hexs(buf)} loc={len(pre)}")
        add("uvarint_enc", {"x": x, "len": len(enc)},
            {"k": "uvarint_enc", "x": x}, f"kern uvarint_enc x={x}", {"out": enc.hex()},
            spec=f"spec uvarint_enc x={x}")

    # ---- width_from_max_int: every power of two and its neighbours below 2^63, all small values
    ws = set(range(0, 70 if quick else 5000))
    for k in range(0, 63):
        ws |= {(1 << k) - 1, 1 << k, (1 << k) + 1}
    ws = {w for w in ws if 0 <= w < (1 << 63)}
    for n in sorted(ws):
        add("width_from_max_int", {"n_bits": n.bit_length()}, {"k": "width_from_max_int", "n": n},
            f"kern width_from_max_int n={n}", {"val": n.bit_length()}, spec=f"spec width_for n={n}", nontrivial=n > 1)

    # ---- bit-packed runs: widths 0..32 x groups x patterns x capacities x item sizes
    groups = [0, 1, 2, 3] if quick else [0, 1, 2, 3, 4, 7, 8, 9, 16, 25]
    for w in range(0, 33):
        for g in groups:
            n = 8 * g
            for pat in PATS:
                if g == 0 and pat != "zero":
                    continue
                vals = patterns(rng, w, n, pat)
                body = pack_py(vals, w)
                tail = bytes([0xA5]) if rng.random() < 0.5 else b""
                buf = body + tail
                for item in (4, 1):
                    if item == 1 and w > 8 and pat not in ("ones", "rand"):
                        continue
                    if g <= 1 or (not quick and g <= 2):
                        caps = list(range(0, n + 2))
                    else:
                        caps = sorted({0, 1, n - 1, n, n + 1})
                    if pat not in ("ones", "rand"):
                        caps = [n, max(n - 1, 0)]
                    for capi in sorted(set(caps)):
                        cap = capi * item
                        k = min(n, capi)
                        exp = [v & 0xff for v in vals[:k]] if item == 1 else vals[:k]
                        add("read_bitpacked", {"width": w, "count": n, "pattern": pat, "cap": capi, "item": item},
                            {"k": "read_bitpacked", "in": buf.hex(), "header": (g << 1) | 1, "width": w, "cap": cap, "item": item},
                            f"kern read_bitpacked in={hexs(buf)} loc=0 header={(g << 1) | 1} width={w} cap={cap} item={item}",
                            {"out": exp, "loc": len(body)},
                            spec=f"spec unpack w={w} n={k} in={hexs(body)}", nontrivial=(w >= 1 and n >= 1))
    # ---- RLE runs
    counts = [0, 1, 7, 8, 9] if quick else [0, 1, 7, 8, 9, 63, 64, 65, 200]
    for w in range(0, 33):
        nb = (w + 7) // 8
        for val in sorted({0, (1 << w) - 1, rng.getrandbits(w) if w else 0}):
            for c in counts:
                buf = val.to_bytes(nb, "little") + (bytes([0x5A]) if rng.random() < 0.5 else b"")
                for item in (4, 1):
                    for capi in sorted({0, c - 1 if c else 0, c, c + 1}):
                        k = min(c, capi)
                        exp = [val & 0xff] * k if item == 1 else [val] * k
                        add("read_rle", {"width": w, "count": c, "cap": capi, "item": item, "value": val},
                            {"k": "read_rle", "in": buf.hex(), "header": c << 1, "width": w, "cap": capi * item, "item": item},
                            f"kern read_rle in={hexs(buf)} loc=0 header={c << 1} width={w} cap={capi * item} item={item}",
                            {"out": exp, "loc": nb}, nontrivial=(w >= 1 and c >= 1))
    # ---- hybrid streams mixing both (encoded by an independent python encoder; Lean spec decodes too)
    nh = 60 if quick else 600
    for _ in range(nh):
        w = rng.randrange(0, 25) if rng.random() < 0.8 else rng.randrange(25, 33)
        runs, flat, enc = [], [], b""
        for _r in range(rng.randrange(1, 5)):
            if rng.random() < 0.5:
                c = rng.choice([1, 2, 7, 8, 9, 17, 64])
                v = rng.getrandbits(w) if w else 0
                enc += uvar_py(c << 1) + v.to_bytes((w + 7) // 8, "little")
                flat += [v] * c
                runs.append(f"r:{c}:{v}")
            else:
                g = rng.choice([1, 1, 2, 3])
                vals = patterns(rng, w, 8 * g, rng.choice(PATS))
                enc += uvar_py((g << 1) | 1) + pack_py(vals, w)
                flat += vals
                runs.append("b:" + ";".join(map(str, vals)))
        item = 4 if (w > 8 or rng.random() < 0.6) else 1
        total = len(flat)
        capi = rng.choice([total, total, total - 1, total + 1, rng.randrange(0, total + 2)])
        capi = max(capi, 0)
        k = min(total, capi)
        exp = [v & 0xff for v in flat[:k]] if item == 1 else flat[:k]
        add("hybrid", {"width": w, "runs": len(runs), "total": total, "cap": capi, "item": item,
                       "kinds": "".join(r[0] for r in runs)},
            {"k": "hybrid", "in": enc.hex(), "width": w, "length": len(enc), "cap": capi * item, "item": item},
            f"kern hybrid in={hexs(enc)} loc=0 width={w} length={len(enc)} cap={capi * item} item={item}",
            {"out": exp, "loc": None},
            spec=f"spec hybrid w={w} n={k} in={hexs(enc)}", nontrivial=(w >= 1 and total >= 1))
    # ---- encode_bitpacked: output decodes back to the input; bytes are the spec's packLE
    ncounts = [0, 1, 7, 8, 9, 16] if quick else [0, 1, 7, 8, 9, 15, 16, 17, 64, 200]
    for w in range(0, 33):
        for n in ncounts:
            for pat in PATS:
                if n == 0 and pat != "zero":
                    continue
                vals = patterns(rng, w, n, pat)
                g = (n + 7) // 8
                exp = uvar_py((g << 1) | 1) + pack_py(vals, w)
                add("encode_bitpacked", {"width": w, "count": n, "pattern": pat},
                    {"k": "enc_bitpacked", "vals": vals, "width": w},
                    f"kern enc_bitpacked vals={fmt_list(vals)} width={w}",
                    {"out": exp.hex()}, spec=f"spec pack w={w} vals={fmt_list(vals)}", nontrivial=(w >= 1 and n >= 1))
    # ---- delta-binary-packed: miniblock widths 0..64
    shapes = [(128, 4), (8, 1), (256, 2)] if quick else [(128, 4), (8, 1), (256, 2), (64, 8), (16, 2), (1024, 4)]
    for bits in (32, 64):
        for w in range(0, bits + 1):
            for (block, mpb) in shapes:
                vpm = block // mpb
                ncs = sorted({1, 2, vpm, vpm + 1, vpm + 2, block + 1, block + vpm + 2} if not quick else {1, vpm + 1, block + 2})
                for n in ncs:
                    for pat in (["ones", "rand"] if quick else ["zero", "ones", "alt", "rand"]):
                        # choose deltas so that (delta - min_delta) needs exactly width w in some miniblock
                        m = (1 << w) - 1
                        mind = rng.randrange(-5, 6)
                        rel = patterns(rng, w, n - 1, pat)
                        if rel:
                            rel[rng.randrange(len(rel))] = m   # force the width
                            if w > 0 and len(rel) > 1:
                                rel[(rel.index(m) + 1) % len(rel)] = 0  # and keep min_delta exact
                        v = rng.randrange(-100, 100)
                        vals = [v]
                        mod = 1 << bits
                        for r in rel:
                            v = (v + mind + r + (mod >> 1)) % mod - (mod >> 1)
                            vals.append(v)
                        add("delta", {"bits": bits, "width": w, "block": block, "mpb": mpb, "count": n, "pattern": pat},
                            None, None, {"vals": vals}, nontrivial=(w >= 1 and n >= 2))
                        cases[-1]["delta_enc"] = f"spec delta_enc bits={bits} block={block} mpb={mpb} vals={fmt_list(vals)}"
    # ---- byte arrays
    for _ in range(40 if quick else 400):
        items = [bytes(rng.randrange(256) for _ in range(rng.choice([0, 1, 2, 5, 31, 300 if rng.random() < 0.05 else 3])))
                 for _ in range(rng.randrange(0, 8))]
        packed = b"".join(len(i).to_bytes(4, "little") + i for i in items)
        add("pack_byte_array", {"n": len(items), "bytes": len(packed)},
            {"k": "pack_ba", "items": [i.hex() for i in items]},
            f"kern pack_ba items={fmt_list([hexs(i) for i in items])}", {"out": packed.hex()}, nontrivial=len(items) >= 1)
        if packed:
            for n in sorted({len(items), max(len(items) - 1, 0), len(items) + 1}):
                exp = [i.hex() for i in items[:n]] + [None] * max(0, n - len(items))
                add("unpack_byte_array", {"n": n, "items": len(items)},
                    {"k": "unpack_ba", "in": packed.hex(), "n": n},
                    f"kern unpack_ba in={hexs(packed)} n={n}", {"out": exp}, nontrivial=len(items) >= 1)
    # ---- booleans
    for n in ([0, 1, 7, 8, 9, 15, 16, 17, 63, 64, 65] if quick else list(range(0, 70)) + [8191, 8192, 8193]):
        for pat in ("zero", "ones", "alt", "rand"):
            vals = patterns(rng, 1, n, pat)
            packed = pack_py(vals, 1)
            if n:
                add("read_plain_boolean", {"count": n, "pattern": pat},
                    {"k": "plain_bool", "in": packed.hex(), "count": n},
                    f"kern plain_bool in={hexs(packed)} count={n}", {"out": vals},
                    spec=f"spec bools_unpack n={n} in={hexs(packed)}", nontrivial=n >= 1)
            # writer pads to a multiple of 8 with a whole extra group when n % 8 == 0
            padded = vals + [0] * (8 - n % 8)
            add("writer_bool_pack", {"count": n, "pattern": pat},
                {"k": "pack_bools", "vals": vals}, f"kern pack_bools vals={fmt_list(vals)}",
                {"out": pack_py(padded, 1).hex(), "prefix": pack_py(vals, 1).hex()}, nontrivial=n >= 1)
    # ---- booleans whose padding bits (beyond `count`, inside the last byte and in bytes that follow) are NOT zero:
    # the specification gives them no meaning, so a reader must ignore them (count = 1 is what statistics decode)
    for n in ([1, 2, 3, 7, 9, 15, 17] if quick else list(range(1, 26))):
        for fill in ("ones", "rand"):
            vals = patterns(rng, 1, n, "alt" if fill == "ones" else "rand")
            buf = bytearray(pack_py(vals, 1))
            if n % 8:
                junk = 0xFF if fill == "ones" else rng.randrange(256)
                buf[-1] |= (junk << (n % 8)) & 0xFF
            buf += bytes([0xFF if fill == "ones" else rng.randrange(256)])
            add("read_plain_boolean", {"count": n, "pattern": "padding-" + fill},
                {"k": "plain_bool", "in": bytes(buf).hex(), "count": n},
                f"kern plain_bool in={hexs(bytes(buf))} count={n}", {"out": vals},
                spec=f"spec bools_unpack n={n} in={hexs(bytes(buf))}", nontrivial=True)
    for byte in ([0x00, 0x01, 0x02, 0x03, 0x80, 0xFE, 0xFF, 0x54, 0xAA] if quick else range(256)):
        for n in (1, 2):
            vals = [(byte >> i) & 1 for i in range(n)]
            add("read_plain_boolean", {"count": n, "pattern": "first-byte-%02x" % byte},
                {"k": "plain_bool", "in": bytes([byte]).hex(), "count": n},
                f"kern plain_bool in={hexs(bytes([byte]))} count={n}", {"out": vals},
                spec=f"spec bools_unpack n={n} in={hexs(bytes([byte]))}", nontrivial=True)
    return cases


def _norm_model(kernel, rep):
    head, d = parse_reply(rep)
    if head != "ok":
        return {"fault": rep}
    out = {}
    if "out" in d:
        v = d["out"]
        out["out"] = v[1:] if v.startswith("x") else parse_list(v)
        if kernel in ("unpack_byte_array",):
            out["out"] = [s[1:] if isinstance(s, str) and s.startswith("x") else s for s in out["out"]]
            out["pad_none"] = True
    if "val" in d:
        out["val"] = int(d["val"])
    if "loc" in d:
        out["loc"] = int(d["loc"])
    return out


def _eq(kernel, a, b, keys):
    for k in keys:
        if k in a and k in b and a[k] is not None and b[k] is not None and a[k] != b[k]:
            return False
    return True


def prepare(ctx, cases):
    """phase 0: delta streams are produced by the *specification encoder* in Lean"""
    drv = ctx.driver
    dl = [c for c in cases if c["kernel"] == "delta"]
    if dl and ctx.model_ok:
        reps = drv.ask([c["delta_enc"] for c in dl])
        for c, rep in zip(dl, reps):
            head, d = parse_reply(rep)
            enc = d["out"][1:]
            p = c["params"]
            cap = p["count"]
            c["real"] = {"k": "delta", "in": enc, "cap": cap, "long": 1 if p["bits"] == 64 else 0}
            c["model"] = f"kern delta in=x{enc} loc=0 cap={cap} long={1 if p['bits'] == 64 else 0}"
            c["spec"] = f"spec delta bits={p['bits']} in=x{enc}"
            mod = 1 << p["bits"]
            # bytes consumed are not observable for a delta page (nothing follows the stream); only values
            c["expect"] = {"out": [v % mod for v in c["expect"]["vals"]], "loc": None, "spec_loc": len(enc) // 2}
            c["enc"] = enc
    elif dl:
        cases = [c for c in cases if c["kernel"] != "delta"]
    return cases


def evaluate(ctx, report, cases):
    drv = ctx.driver
    cases = prepare(ctx, cases)
    # phase 1: model + spec
    if ctx.model_ok:
        mreps = drv.ask([c["model"] for c in cases])
        sl = [c for c in cases if c.get("spec")]
        sreps = dict(zip([id(c) for c in sl], drv.ask([c["spec"] for c in sl])))
    else:
        mreps = [None] * len(cases)
        sreps = {}
    # phase 2: real code in the crash-tolerant worker
    reals = run_worker(ctx, [c["real"] for c in cases], tag="c11")
    for c, mrep, real in zip(cases, mreps, reals):
        kernel, p, exp = c["kernel"], c["params"], c["expect"]
        keys = ["out", "val", "loc"]
        desc = (kernel, tuple(sorted(p.items())))
        report.case(desc, c["nontrivial"], sample={"kernel": kernel, **p} if kernel not in [s.get("kernel") for s in report.samples if isinstance(s, dict)] else None)
        report.count("kernel:" + kernel)
        report.stream("kern." + kernel)
        if "width" in p:
            report.count("width:%d" % p["width"])
        # spec cross-check (Lean spec vs the independent python expectation)
        srep = sreps.get(id(c))
        if srep is not None:
            sm = _norm_model(kernel, srep)
            spec_ok = True
            if kernel in ("read_bitpacked", "hybrid", "read_plain_boolean"):
                so = sm.get("out")
                eo = exp["out"]
                if p.get("item") == 1:
                    so = [v & 0xff for v in so]
                spec_ok = so == eo
            elif kernel == "encode_bitpacked":
                spec_ok = exp["out"].endswith(sm.get("out", "?"))
            elif kernel == "delta":
                mod = 1 << p["bits"]
                spec_ok = [v % mod for v in sm.get("out", [])] == exp["out"] and sm.get("loc") == exp["spec_loc"]
            elif kernel in ("uvarint", "uvarint_enc", "width_from_max_int"):
                spec_ok = _eq(kernel, sm, exp, keys)
            if not spec_ok:
                report.corr_break("spec-selfcheck", {"kernel": kernel, **p, "lean_spec": str(sm)[:300], "python_spec": str(exp)[:300]})
        # normalise the real result
        if real.get("crash") == -999:
            # the worker never got to this case (restart budget exhausted): no verdict, recorded as lost coverage
            report.count("not-executed")
            continue
        if "crash" in real:
            r = {"crash": real["crash"]}
        elif "exc" in real:
            r = {"exc": real["exc"]}
        else:
            r = {k: real[k] for k in ("out", "val", "loc") if k in real}
        if kernel == "writer_bool_pack" and "out" in r:
            pass
        # property oracle: real vs specification
        ok_prop = ("crash" not in r and "exc" not in r and _eq(kernel, r, exp, keys))
        if not ok_prop:
            report.violation({"kernel": kernel, **p, "what": f"{kernel} disagrees with the specification",
                              "expected": str(exp)[:400], "actual": str(r)[:400],
                              "case": {"real": c["real"], "model": c["model"], "spec": c.get("spec")},
                              "sig": f"{kernel}:w{p.get('width')}:{'crash' if 'crash' in r else 'wrong'}"})
        # correspondence: real vs code-shaped model
        if mrep is not None:
            m = _norm_model(kernel, mrep)
            if m.pop("pad_none", False) and "out" in r:
                m["out"] = m["out"] + [None] * (len(r["out"]) - len(m["out"]))
            if kernel == "delta":
                m.pop("loc", None)
            if "fault" in m:
                # the model says the C code executes undefined behaviour / leaves its buffers here
                report.count("model_fault")
                c["model_fault"] = m["fault"]
                if ok_prop:
                    # real happened to give the right answer although the model faults: still a
                    # mismatch of the model unless the fault is UB the compiler happened to tame
                    report.count("model_fault_but_real_ok")
                    report.notes.append(f"model faults but real ok: {kernel} {p} {m['fault']}") if len(report.notes) < 20 else None
            elif "crash" in r or "exc" in r or not _eq(kernel, r, m, keys):
                report.corr_break("kern." + kernel, {"kernel": kernel, **p, "model": str(m)[:300], "real": str(r)[:300],
                                                     "explained_by_known": False, "case": {"real": c["real"], "model": c["model"]}})


def run(ctx, report):
    report.rule = ("exhaustive enumeration of the lattice named by C11 (widths 0..32 / 0..64 for delta miniblocks, counts around "
                   "multiples of 8 and of the miniblock size, zero/ones/alternating/random patterns, capacities 0..count+1, item "
                   "sizes 1 and 4, varint lengths 1..10); non-trivial = width>=1 and count>=1; distinct by (kernel, parameters)")
    cases = gen(ctx)
    evaluate(ctx, report, cases)
    report.exhaustive = True
    report.extra["lattice"] = {"tier": ctx.tier, "cases": len(cases)}


def search(ctx, report):
    # the enumeration in run() is already the search over the property's whole lattice
    return


def replay(ctx, rec, report):
    c = rec.get("case") or {}
    real = run_worker(ctx, [c["real"]], tag="replay")[0]
    print("replay real result:", json.dumps(real)[:500])
    print("expected:", rec.get("expected"))
    exp = rec.get("expected")
    r = {k: real[k] for k in ("out", "val", "loc") if k in real}
    import ast
    try:
        e = ast.literal_eval(exp)
    except Exception:
        return True
    return "crash" in real or "exc" in real or not _eq(rec.get("kernel"), r, e, ["out", "val", "loc"])
