"""C04 — column statistics are exact: min/max/null_count describe the stored chunk.

For every written column chunk (all supported dtypes, row-group splits, several pages per chunk,
v1/v2 pages, stats True / 'auto' / list):
  raw oracle      the Statistics struct of the chunk, decoded by the harness itself from the
                  physical type, equals the brute-force min / max / null count of the rows the chunk
                  holds (signed / unsigned / IEEE order with NaN excluded and -0 == 0 / byte order
                  of UTF-8 text); a chunk with no non-null value, or no defined order, has no bounds;
  logical oracle  ParquetFile.statistics (what users and dask see) equals the min / max / null
                  count of the row group as read back; sorted_partitioned_columns only lists columns
                  whose row groups really are ordered.
Correspondence `stats.col`: Impl.Stats.colStats on rank-mapped values vs the real struct.
"""
import math, os, shutil, struct
import numpy as np
import pandas as pd
from .common import parse_reply, parse_list, canon_err, fmt_list
from .gen_tables import gen_column, canon_cell

ASSUMPTIONS = ["pandas max()/min() skip missing values (contract exercised on the installed pandas)",
               "the rows a chunk holds are the row-group slice of the written frame (that is C01/C02)"]

KINDS = ["bool", "int8", "int32", "int64", "uint8", "uint32", "uint64", "float32", "float64", "float_nan", "str", "bytes",
         "dt_ns", "dt_us", "dt_ms", "dt_tz", "td", "cat_str", "cat_int", "Int64", "UInt16", "boolean"]


def is_null(v):
    return v is None or v is pd.NA or v is pd.NaT or (isinstance(v, float) and math.isnan(v)) or \
        (isinstance(v, (np.datetime64, np.timedelta64)) and np.isnat(v))


def decode_raw(b, ptype, kind):
    """independent decode of a PLAIN-encoded statistic"""
    b = bytes(b) if not isinstance(b, str) else b.encode("latin1")
    if ptype == 1:      # INT32
        v = struct.unpack("<i", b)[0]
        if kind in ("uint8", "uint16", "uint32", "UInt16"):
            v &= 0xFFFFFFFF
        return v
    if ptype == 2:      # INT64
        v = struct.unpack("<q", b)[0]
        if kind == "uint64":
            v &= (1 << 64) - 1
        return v
    if ptype == 4:
        return struct.unpack("<f", b)[0]
    if ptype == 5:
        return struct.unpack("<d", b)[0]
    if ptype == 0:
        return b[0] & 1
    if ptype == 6:
        return b
    return None


def brute(values, kind):
    """(min, max, nulls) of the stored values under the Parquet order of the column's type"""
    nn = [v for v in values if not is_null(v)]
    nulls = len(values) - len(nn)
    if not nn:
        return None, None, nulls
    if kind in ("str", "cat_str"):
        enc = [s.encode("utf8") for s in nn]
        return min(enc), max(enc), nulls
    if kind == "bytes":
        return min(nn), max(nn), nulls
    if kind in ("bool", "boolean"):
        nn = [int(bool(v)) for v in nn]
    return min(nn), max(nn), nulls


def run(ctx, report):
    import fastparquet
    from fastparquet import writer
    from fastparquet.api import sorted_partitioned_columns
    rng = ctx.rng
    report.rule = ("columns of every supported dtype x null pattern x row-group split x page size x page version x stats setting; "
                   "non-trivial = chunk with >=2 distinct non-null values; distinct by (dtype, null pattern, split, pages, setting)")
    nfiles = 12 if ctx.quick else 120
    reqs = []
    for fidx in range(nfiles + 2):
        n = rng.choice([1, 5, 9, 17, 40])
        kinds = rng.sample(KINDS, 5)
        if fidx < len(KINDS) // 4 + 1:
            kinds = KINDS[fidx * 4:(fidx + 1) * 4] + kinds[:1]
        pats = {k: rng.choice(["none", "some", "some", "all", "first", "last"]) for k in kinds}
        directed = fidx - nfiles
        if directed >= 0:
            # one row group of several pages whose only missing value sits in the FIRST page (v1, then v2)
            n = 40
            kinds = [k for k in ("float64", "dt_ms", "str", "Int64", "boolean", "cat_str", "cat_int") if k in KINDS]
            pats = {k: "first" for k in kinds}
        df = pd.DataFrame({"rid": np.arange(n, dtype="int64")})
        for j, k in enumerate(kinds):
            col = gen_column(rng, k, n, pats[k])
            df[f"c{j}_{k}"] = col.values if not hasattr(col.dtype, "numpy_dtype") and not isinstance(col.dtype, (pd.CategoricalDtype, pd.DatetimeTZDtype)) else col
        offs = rng.choice([None, [0], [0, n // 2] if n > 1 else [0], 3, 7])
        stats = rng.choice([True, True, "auto", [c for c in df.columns if rng.random() < 0.6]])
        pagesize = rng.choice([None, None, 40, 300])
        version = rng.choice([1, 1, 2])
        if directed >= 0:
            offs, stats, pagesize, version = None, True, 40, [1, 2][directed]
        path = os.path.join(ctx.workdir("c04"), f"f{fidx}.parq")
        desc = {"rows": n, "offsets": str(offs), "stats": str(stats)[:60], "pagesize": pagesize, "page_version": version}
        ctx.crumb({"check": "write", **desc, "kinds": kinds})
        old_ps, old_v = writer.MAX_PAGE_SIZE, writer.DATAPAGE_VERSION
        try:
            if pagesize:
                writer.MAX_PAGE_SIZE = pagesize
            writer.DATAPAGE_VERSION = version
            fastparquet.write(path, df, row_group_offsets=offs, stats=stats, write_index=False)
        except Exception as e:  # noqa
            report.notes.append(f"write raised ({kinds}): {canon_err(e)} {str(e)[:60]}") if len(report.notes) < 10 else None
            continue
        finally:
            writer.MAX_PAGE_SIZE, writer.DATAPAGE_VERSION = old_ps, old_v
        pf = fastparquet.ParquetFile(path)
        starts = np.cumsum([0] + [rg.num_rows for rg in pf.row_groups]).tolist()
        try:
            user = pf.statistics
        except Exception as e:  # noqa
            report.violation({"check": "user-stats", **desc, "what": "ParquetFile.statistics raised " + canon_err(e) + str(e)[:80], "sig": "user-stats-raised"})
            user = None
        for r, rg in enumerate(pf.row_groups):
            sl = df.iloc[starts[r]:starts[r + 1]]
            try:
                back = pf[r].to_pandas()
            except Exception:
                back = None
            for col in rg.columns:
                name = ".".join(col.meta_data.path_in_schema)
                if name == "rid":
                    continue
                kind = name.split("_", 1)[1]
                s = col.meta_data.statistics
                series = sl[name]
                if isinstance(series.dtype, pd.CategoricalDtype):
                    values = [None if c < 0 else series.cat.categories[c] for c in series.cat.codes]
                else:
                    values = series.tolist()
                rec = {"check": "chunk", "column": name, "dtype": kind, "null_pattern": pats[kind], "row_group": r, **desc,
                       "categorical": kind.startswith("cat")}
                probs = []
                bmin, bmax, bnulls = None, None, None
                # ---- raw oracle (types whose physical encoding the harness decodes itself)
                simple = kind in ("bool", "int8", "int32", "int64", "uint8", "uint32", "uint64", "float32", "float64", "float_nan",
                                  "str", "bytes", "cat_str", "cat_int", "Int64", "UInt16", "boolean")
                if s is not None:
                    vals_for_brute = [None if is_null(v) else (v if not isinstance(v, (np.generic,)) else v.item()) for v in values]
                    bmin, bmax, bnulls = brute(vals_for_brute, kind)
                    if s.null_count is not None and s.null_count != bnulls:
                        probs.append(f"null_count {s.null_count} but {bnulls} missing cells are stored")
                    if simple:
                        for label, raw, want in (("min", s.min, bmin), ("max", s.max, bmax)):
                            if raw is None:
                                continue
                            try:
                                got = decode_raw(raw, col.meta_data.type, kind)
                            except Exception as e:  # noqa
                                probs.append(f"{label} is not a PLAIN-encoded value of the column's type ({type(raw).__name__}: {str(e)[:60]})")
                                continue
                            if want is None:
                                probs.append(f"{label} present ({got!r}) although the chunk has no non-null value")
                            elif isinstance(want, float) or isinstance(got, float):
                                if math.isnan(got) or not (float(got) == float(want)):
                                    probs.append(f"{label} = {got!r} but the {'smallest' if label == 'min' else 'largest'} stored value is {want!r}")
                            elif got != want:
                                probs.append(f"{label} = {got!r} but the {'smallest' if label == 'min' else 'largest'} stored value is {want!r}")
                        if s.min is not None and s.max is not None and simple and not any("not a PLAIN-encoded" in p for p in probs):
                            a, b = decode_raw(s.min, col.meta_data.type, kind), decode_raw(s.max, col.meta_data.type, kind)
                            try:
                                if a > b:
                                    probs.append(f"min {a!r} > max {b!r}")
                            except TypeError:
                                pass
                # ---- logical oracle: what users see vs what the row group reads back as
                if user is not None and back is not None and name in back.columns:
                    umin, umax, unull = user["min"][name], user["max"][name], user["null_count"][name]
                    bs = back[name]
                    if isinstance(bs.dtype, pd.CategoricalDtype):
                        bvals = [None if c < 0 else bs.cat.categories[c] for c in bs.cat.codes]
                    else:
                        bvals = bs.tolist()
                    nn = [v for v in bvals if not is_null(v)]
                    if len(unull) > r and unull[r] is not None and unull[r] != len(bvals) - len(nn):
                        probs.append(f"statistics['null_count'] = {unull[r]} but the row group reads back {len(bvals) - len(nn)} missing cells")
                    for label, lst, fn in (("min", umin, min), ("max", umax, max)):
                        if len(lst) > r and lst[r] is not None and nn:
                            uv = lst[r]
                            try:
                                if kind in ("str", "cat_str") and isinstance(uv, bytes):
                                    uv = uv.decode()
                                want = fn(nn)
                                if canon_cell(uv) != canon_cell(want) and not (isinstance(want, float) and float(uv) == float(want)):
                                    if not (kind in ("bool", "boolean") and int(uv) == int(want)):
                                        probs.append(f"statistics[{label!r}] = {uv!r} but the row group reads back {label} {want!r}")
                            except TypeError:
                                pass
                if probs:
                    report.violation({**rec, "what": "; ".join(probs)[:400], "sig": f"stats:{kind}:{probs[0][:20]}"})
                # ---- correspondence with Impl.Stats on rank-mapped values (raw-decodable types)
                if ctx.model_ok and s is not None and simple:
                    try:
                        key = (lambda v: v.encode("utf8")) if kind in ("str", "cat_str") else (lambda v: int(bool(v)) if kind in ("bool", "boolean") else v)
                        present = sorted({key(v) for v in vals_for_brute if v is not None})
                        rk = {v: i for i, v in enumerate(present)}
                        rmin = None if s.min is None else rk.get(decode_raw(s.min, col.meta_data.type, kind))
                        rmax = None if s.max is None else rk.get(decode_raw(s.max, col.meta_data.type, kind))
                        if kind.startswith("cat"):
                            cats = [key(c) for c in series.cat.categories]
                            allv = sorted(set(cats))
                            rk2 = {v: i for i, v in enumerate(allv)}
                            rmin = None if s.min is None else rk2.get(decode_raw(s.min, col.meta_data.type, kind))
                            rmax = None if s.max is None else rk2.get(decode_raw(s.max, col.meta_data.type, kind))
                            codes = ",".join("n" if c < 0 else str(int(c)) for c in series.cat.codes)
                            req = f"stats cat cats={fmt_list([rk2[c] for c in cats])} codes=[{codes}]"
                        else:
                            cells = ",".join("n" if v is None else str(rk[key(v)]) for v in vals_for_brute)
                            req = f"stats col pages=[[{cells}]]"
                        has_bounds = s.min is not None or s.max is not None
                        reqs.append((req, (rmin, rmax, s.null_count, has_bounds), dict(rec)))
                    except (TypeError, KeyError):
                        pass
                distinct = len({repr(v) for v in values if not is_null(v)})
                report.case(("chunk", kind, pats[kind], str(offs), pagesize, version, str(stats)[:20]), nontrivial=distinct >= 2,
                            sample={"column": name, "values": [repr(v) for v in values[:6]], "min": repr(None if s is None else s.min)[:30],
                                    "max": repr(None if s is None else s.max)[:30], "null_count": None if s is None else s.null_count}
                            if distinct >= 2 and len(report.samples) < 5 else None)
                report.count("dtype:" + kind)
                report.stream("stats.col")
        # sorted_partitioned_columns
        try:
            spc = sorted_partitioned_columns(pf)
            for cname in spc:
                kind = cname.split("_", 1)[1] if "_" in cname else cname
                prev_max = None
                ok = True
                for r in range(len(pf.row_groups)):
                    vals = [v for v in df[cname].iloc[starts[r]:starts[r + 1]].tolist() if not is_null(v)]
                    if not vals:
                        continue
                    if prev_max is not None and not (prev_max < min(vals)):
                        ok = False
                    prev_max = max(vals)
                if not ok:
                    report.violation({"check": "sorted-partitioned", "column": cname, **desc,
                                      "what": f"{cname} is reported as sorted across row groups but it is not", "sig": "spc:" + kind})
        except Exception as e:  # noqa
            report.notes.append("sorted_partitioned_columns raised: " + canon_err(e)) if len(report.notes) < 10 else None
        # the same handle after derived queries: statistics must still describe every row group
        try:
            import copy as _copy
            before = _copy.deepcopy(pf.statistics)
            from fastparquet.api import filter_row_groups
            for _rep in range(2):
                thr = int(df["rid"].iloc[len(df) // 2])
                flt = [("rid", ">=", thr)]
                kept = filter_row_groups(pf, flt, as_idx=True)
                spcf = sorted_partitioned_columns(pf, filters=flt)
                for cname, mm in spcf.items():
                    if len(mm["min"]) != len(kept):
                        report.violation({"check": "spc-filtered", **desc, "column": cname, "sig": "spc-filtered-length",
                                          "what": f"sorted_partitioned_columns(filters) lists {len(mm['min'])} row groups, {len(kept)} are kept"})
                after = pf.statistics
                for stat in ("min", "max", "null_count"):
                    for cname, lst in after[stat].items():
                        if len(lst) != len(pf.row_groups) and lst != [None]:
                            report.violation({"check": "stats-after-queries", **desc, "column": cname, "sig": "stats-cache-corrupted",
                                              "what": f"after sorted_partitioned_columns(filters=...), statistics[{stat!r}][{cname!r}] has {len(lst)} entries for {len(pf.row_groups)} row groups"})
                            raise StopIteration
                        if repr(lst) != repr(before[stat][cname]):
                            report.violation({"check": "stats-after-queries", **desc, "column": cname, "sig": "stats-cache-changed",
                                              "what": f"statistics[{stat!r}][{cname!r}] changed after a filtered sorted_partitioned_columns call on the same handle"})
                            raise StopIteration
                report.evaluations += 1
        except StopIteration:
            pass
        except Exception as e:  # noqa
            report.violation({"check": "stats-after-queries", **desc, "sig": "stats-after-queries-raised",
                              "what": "repeating sorted_partitioned_columns(filters=...) / statistics on the same handle raised: " + canon_err(e) + " " + str(e)[:80]})
        os.remove(path)
    if reqs and ctx.model_ok:
        reps = ctx.driver.ask([r[0] for r in reqs])
        for (req, (rmin, rmax, nulls, has_bounds), rec), rep in zip(reqs, reps):
            head, dd = parse_reply(rep)
            mm = None if dd.get("min") == "n" else int(dd["min"])
            mx = None if dd.get("max") == "n" else int(dd["max"])
            bad = (nulls is not None and int(dd["nulls"]) != nulls) or (has_bounds and (mm != rmin or mx != rmax))
            if bad:
                report.corr_break("stats.col", {**rec, "model": rep, "real": f"min={rmin} max={rmax} nulls={nulls}", "request": req[:200],
                                                "explained_by_known": False})
        report.count("model_requests", len(reqs))


def search(ctx, report):
    old = ctx.tier
    ctx.tier = "thorough"
    try:
        run(ctx, report)
    finally:
        ctx.tier = old


def replay(ctx, rec, report):
    r2 = type(report)(report.prop, report.tier, report.seed)
    run(ctx, r2)
    return any(v.get("sig") == rec.get("sig") for v in r2.violations)
