"""A specification-level Parquet WRITER, independent of fastparquet, used to produce the "valid files
from any writer" of C03 and the nested files of C15.  It is written from the format documents
(file layout, Thrift compact protocol, page layouts v1/v2, PLAIN / dictionary / RLE / delta
encodings, hybrid levels) and exposes the *choices* a conforming writer has: page boundaries,
encoding per page, dictionary index bit width and run mixture, definition-level run mixture, delta
block shapes, data page version, codec, dictionary fallback to PLAIN within a chunk.
Every file it produces is CERTIFIED before use: the Lean specification reader Spec.File must
decode it to exactly the intended table (see c03.py / c15.py), so the oracle does not rest on this
Python code being right.
"""
import struct

# ---------------------------------------------------------------- thrift compact protocol

def uvar(x):
    out = bytearray()
    while x > 127:
        out.append((x & 0x7F) | 0x80)
        x >>= 7
    out.append(x)
    return bytes(out)


def zz(n):
    return (n << 1) ^ (n >> 63) if n < 0 else n << 1


class T:
    """typed thrift values: ('bool',b) ('i32',n) ('i64',n) ('bin',bytes) ('list',etype,[...]) ('struct',[(id,val),...])"""


def tenc_val(v):
    k = v[0]
    if k == "bool":
        return b""
    if k in ("i32", "i64", "i16"):
        return uvar(zz(v[1]) & ((1 << 64) - 1))
    if k == "i8":
        return bytes([v[1] & 0xFF])
    if k == "bin":
        return uvar(len(v[1])) + v[1]
    if k == "list":
        ety, items = v[1], v[2]
        hdr = bytes([(len(items) << 4) | ety]) if len(items) < 15 else bytes([0xF0 | ety]) + uvar(len(items))
        body = b"".join((bytes([1 if it[1] else 2]) if it[0] == "bool" else tenc_val(it)) for it in items)
        return hdr + body
    if k == "struct":
        return tenc_struct(v[1])
    raise ValueError(k)


WT = {"i8": 3, "i16": 4, "i32": 5, "i64": 6, "bin": 8, "list": 9, "struct": 12}


def tenc_struct(fields):
    out = bytearray()
    prev = 0
    for fid, v in fields:
        if v is None:
            continue
        wt = (1 if v[1] else 2) if v[0] == "bool" else WT[v[0]]
        d = fid - prev
        if 0 < d <= 15:
            out.append((d << 4) | wt)
        else:
            out.append(wt)
            out += uvar(zz(fid))
        out += tenc_val(v)
        prev = fid
    out.append(0)
    return bytes(out)


# ---------------------------------------------------------------- primitives

def pack_bits(vals, w):
    s = 0
    for i, v in enumerate(vals):
        s |= (v & ((1 << w) - 1)) << (i * w)
    return s.to_bytes((len(vals) * w + 7) // 8, "little")


def hybrid(vals, w, pattern, rng):
    """encode vals as a mixture of RLE and bit-packed runs.  pattern: 'rle' | 'bp' | 'mix' """
    out = bytearray()
    i, n = 0, len(vals)
    while i < n:
        j = i
        while j < n and vals[j] == vals[i]:
            j += 1
        runlen = j - i
        use_rle = pattern == "rle" or (pattern == "mix" and (runlen >= 8 or rng.random() < 0.4))
        if pattern == "bp":
            use_rle = False
        if use_rle:
            k = runlen if pattern == "rle" else rng.randrange(1, runlen + 1)
            out += uvar(k << 1) + vals[i].to_bytes((w + 7) // 8, "little")
            i += k
        else:
            # a bit-packed run must hold a multiple of 8 values, except that the LAST run may be padded
            groups = max(1, rng.choice([1, 1, 2, 3]))
            take = min(groups * 8, n - i)
            if take < groups * 8 and i + take < n:
                groups = take // 8
                take = groups * 8
            groups = (take + 7) // 8
            chunk = vals[i:i + take] + [0] * (groups * 8 - take)
            out += uvar((groups << 1) | 1) + pack_bits(chunk, w)
            i += take
    return bytes(out)


def width_for(maxval):
    return maxval.bit_length()


def plain(ptype, cells, type_length=0):
    if ptype == 0:
        return pack_bits([int(c) for c in cells], 1)
    if ptype == 6:
        return b"".join(struct.pack("<I", len(c)) + c for c in cells)
    if ptype == 7:
        return b"".join(cells)
    w = {1: 4, 2: 8, 3: 12, 4: 4, 5: 8}[ptype]
    return b"".join(int(c).to_bytes(w, "little") for c in cells)


def delta_bp(vals, bits, block, mpb, extra=0, info=None, minw=0):
    """DELTA_BINARY_PACKED of signed ints (given as python ints), arithmetic modulo 2^bits"""
    mod = 1 << bits
    half = mod >> 1

    def s(x):
        x %= mod
        return x - mod if x >= half else x
    out = bytearray(uvar(block) + uvar(mpb) + uvar(len(vals)))
    if not vals:
        return bytes(out + uvar(zz(0)))
    out += uvar(zz(s(vals[0])) & ((1 << 64) - 1))
    deltas = [s(b - a) for a, b in zip(vals, vals[1:])]
    vpm = block // mpb
    for bi in range(0, len(deltas), block):
        blk = deltas[bi:bi + block]
        mind = min(blk)
        rel = [(d - mind) % mod for d in blk]
        out += uvar(zz(mind) & ((1 << 64) - 1))
        widths, packed = [], bytearray()
        for mi in range(mpb):
            m = rel[mi * vpm:(mi + 1) * vpm]
            if not m:
                widths.append(0)
                continue
            w = min(bits, max(max(m).bit_length() + extra, minw))
            widths.append(w)
            if info is not None:
                info["delta_maxw"] = max(info.get("delta_maxw", 0), w)
                info.setdefault("delta_widths", set()).add(w)
            m = m + [0] * (vpm - len(m))
            packed += pack_bits(m, w)
        out += bytes(widths) + packed
    return bytes(out)


# ---------------------------------------------------------------- file writer

CODECS = {"UNCOMPRESSED": 0, "SNAPPY": 1, "GZIP": 2, "BROTLI": 4, "ZSTD": 6, "LZ4_RAW": 7}


def compress(codec, data):
    import cramjam
    if codec == 0:
        return data
    if codec == 1:
        return bytes(cramjam.snappy.compress_raw(data))
    if codec == 2:
        return bytes(cramjam.gzip.compress(data))
    if codec == 4:
        return bytes(cramjam.brotli.compress(data))
    if codec == 6:
        return bytes(cramjam.zstd.compress(data))
    if codec == 7:
        return bytes(cramjam.lz4.compress_block(data, store_size=False))
    raise ValueError(codec)


class Column:
    """one leaf column.  `entries`: list of (def_level, rep_level, value-or-None) in record order
    (flat column: one entry per row).  value is the physical cell (int pattern / bytes / 0|1)."""

    def __init__(self, path, ptype, max_def, max_rep, entries, converted=None, type_length=0, logical=None,
                 schema_nodes=None, scale=None, precision=None):
        self.scale, self.precision = scale, precision      # DECIMAL
        self.path, self.ptype, self.max_def, self.max_rep = path, ptype, max_def, max_rep
        self.entries, self.converted, self.type_length, self.logical = entries, converted, type_length, logical
        self.schema_nodes = schema_nodes      # for nested columns: explicit schema elements (list of dicts)


def write_file(path, columns, row_groups, choices, rng, created_by=b"specwriter (verification harness)", kv=None):
    """columns: [Column]; row_groups: list of (row_start, row_end) over ROWS; for nested columns entries are
    grouped per row by rep_level == 0.  choices: dict with per-file / per-column knobs (see c03.py)."""
    out = bytearray(b"PAR1")
    rg_structs = []
    # entries per row for each column
    per_col_rows = []
    for col in columns:
        rows, cur = [], None
        for e in col.entries:
            if e[1] == 0:
                cur = []
                rows.append(cur)
            cur.append(e)
        per_col_rows.append(rows)
    nrows = len(per_col_rows[0]) if columns else 0
    for (r0, r1) in row_groups:
        chunks = []
        total_bytes = 0
        for ci, col in enumerate(columns):
            ch = choices["cols"][ci]
            entries = [e for row in per_col_rows[ci][r0:r1] for e in row]
            codec = CODECS[ch.get("codec", "UNCOMPRESSED")]
            chunk_start = len(out)
            dict_off = None
            encodings = set()
            uncompressed_total = 0
            values_all = [e[2] for e in entries if e[0] == col.max_def]
            use_dict = ch.get("dict", False) and len(values_all) > 0
            dict_vals = []
            if use_dict:
                for v in values_all:
                    if v not in dict_vals:
                        dict_vals.append(v)
                if ch.get("dict_shuffle"):
                    rng.shuffle(dict_vals)
                if ch.get("dict_match_first_page") and col.max_def == 0 and col.max_rep == 0 and col.ptype in (1, 2, 4, 5) \
                        and ch.get("index_runs") == "rle" and ch.get("index_width") == 16 and not ch.get("page_bounds"):
                    # pad the dictionary with unused entries until the dictionary page is exactly as long (uncompressed) as the
                    # single v1 data page behind it (a reader that recycles a decompression buffer by size must not mix them up)
                    L = 1 + len(hybrid([dict_vals.index(v) for v in values_all], 16, "rle", rng))
                    item = 4 if col.ptype in (1, 4) else 8
                    if L % item == 0 and L // item >= len(dict_vals):
                        nxt = max(dict_vals) + 1
                        while len(dict_vals) < L // item:
                            dict_vals.append(nxt)
                            nxt += 1
                        ch.setdefault("_info", {})["dict_matches_page"] = L
                body = plain(col.ptype, dict_vals, col.type_length)
                comp = compress(codec, body)
                hdr = tenc_struct([(1, ("i32", 2)), (2, ("i32", len(body))), (3, ("i32", len(comp))),
                                   (7, ("struct", [(1, ("i32", len(dict_vals))), (2, ("i32", ch.get("dict_page_enc", 0)))]))])
                dict_off = len(out)
                out += hdr + comp
                uncompressed_total += len(hdr) + len(body)
                encodings.add(ch.get("dict_page_enc", 0))
            # pages: split entries at the chosen boundaries (in entries; v2 pages must start at a row boundary)
            bounds = ch.get("page_bounds") or []
            if ch.get("page_bounds_rg") is not None:      # per row group (indices into THIS row group's entries)
                bounds = ch["page_bounds_rg"][len(rg_structs)] if len(rg_structs) < len(ch["page_bounds_rg"]) else []
            bounds = sorted(set(b for b in bounds if 0 < b < len(entries)))
            pieces = [entries[a:b] for a, b in zip([0] + bounds, bounds + [len(entries)])]
            if not pieces:
                pieces = [[]]
            data_off = None
            for pi, page in enumerate(pieces):
                v2 = ch.get("v2", False)
                fallback = use_dict and ch.get("fallback_after") is not None and pi >= ch["fallback_after"]
                enc = ch.get("encoding", 0)
                vals = [e[2] for e in page if e[0] == col.max_def]
                if use_dict and not fallback:
                    enc = ch.get("dict_data_enc", 8)
                    idx = [dict_vals.index(v) for v in vals]
                    w = max(width_for(max(len(dict_vals) - 1, 0)), 0) + ch.get("index_extra_width", 0)
                    w = min(max(w, ch.get("index_width", 0)), 32)
                    ch.setdefault("_info", {})["index_width"] = w
                    vbytes = bytes([w]) + hybrid(idx, w, ch.get("index_runs", "mix"), rng)
                elif enc == 3 and col.ptype == 0:
                    b = hybrid([int(v) for v in vals], 1, ch.get("bool_runs", "mix"), rng)
                    vbytes = struct.pack("<I", len(b)) + b
                elif enc == 5 and col.ptype in (1, 2):
                    bits = 32 if col.ptype == 1 else 64
                    mod = 1 << bits
                    sv = [v - mod if v >= mod >> 1 else v for v in vals]
                    blk, mpb = ch.get("delta_shape", (128, 4))
                    vbytes = delta_bp(sv, bits, blk, mpb, ch.get("delta_extra", 0), ch.setdefault("_info", {}), ch.get("delta_width", 0))
                else:
                    enc = 0
                    vbytes = plain(col.ptype, vals, col.type_length)
                encodings.add(enc)
                defs = [e[0] for e in page]
                reps = [e[1] for e in page]
                dl = hybrid(defs, width_for(col.max_def), ch.get("def_runs", "mix"), rng) if col.max_def else b""
                rl = hybrid(reps, width_for(col.max_rep), ch.get("rep_runs", "mix"), rng) if col.max_rep else b""
                nnull = sum(1 for d in defs if d != col.max_def)
                nrows_page = sum(1 for r in reps if r == 0)
                if v2:
                    is_comp = ch.get("v2_compressed", True)
                    cv = compress(codec, vbytes) if is_comp else vbytes
                    body_un = rl + dl + vbytes
                    body = rl + dl + cv
                    ph = tenc_struct([(1, ("i32", 3)), (2, ("i32", len(body_un))), (3, ("i32", len(body))),
                                      (8, ("struct", [(1, ("i32", len(page))), (2, ("i32", nnull)), (3, ("i32", nrows_page)),
                                                      (4, ("i32", enc)), (5, ("i32", len(dl))), (6, ("i32", len(rl))),
                                                      (7, ("bool", bool(is_comp))) if not (is_comp and ch.get("v2_omit_flag")) else (7, None)]))])
                else:
                    body_un = (struct.pack("<I", len(rl)) + rl if col.max_rep else b"") + \
                              (struct.pack("<I", len(dl)) + dl if col.max_def else b"") + vbytes
                    body = compress(codec, body_un)
                    ph = tenc_struct([(1, ("i32", 0)), (2, ("i32", len(body_un))), (3, ("i32", len(body))),
                                      (5, ("struct", [(1, ("i32", len(page))), (2, ("i32", enc)), (3, ("i32", 3)), (4, ("i32", 3))]))])
                if data_off is None:
                    data_off = len(out)
                out += ph + body
                uncompressed_total += len(ph) + len(body_un)
            comp_total = len(out) - chunk_start
            nulls = sum(1 for e in entries if e[0] != col.max_def)
            md = [(1, ("i32", col.ptype)), (2, ("list", 5, [("i32", e) for e in sorted(encodings | {3})])),
                  (3, ("list", 8, [("bin", p) for p in col.path])), (4, ("i32", codec)), (5, ("i64", len(entries))),
                  (6, ("i64", uncompressed_total)), (7, ("i64", comp_total)), (9, ("i64", data_off)),
                  (11, ("i64", dict_off)) if dict_off is not None else (11, None),
                  (12, ("struct", [(3, ("i64", nulls))])) if ch.get("stats", True) and col.max_rep == 0 else (12, None)]
            chunks.append(("struct", [(2, ("i64", chunk_start)), (3, ("struct", md))]))
            total_bytes += uncompressed_total
        rg_structs.append(("struct", [(1, ("list", 12, chunks)), (2, ("i64", total_bytes)), (3, ("i64", r1 - r0))]))
    # schema
    schema = [("struct", [(4, ("bin", b"schema")), (5, ("i32", count_top(columns)))])]
    seen_groups = set()
    for col in columns:
        if col.schema_nodes:
            for node in col.schema_nodes:
                key = node["key"]
                if key in seen_groups:
                    continue
                seen_groups.add(key)
                schema.append(("struct", [(1, ("i32", node["type"])) if node.get("type") is not None else (1, None),
                                          (2, ("i32", node["type_length"])) if node.get("type_length") else (2, None),
                                          (3, ("i32", node["rep"])), (4, ("bin", node["name"])),
                                          (5, ("i32", node["children"])) if node.get("children") else (5, None),
                                          (6, ("i32", node["converted"])) if node.get("converted") is not None else (6, None)]))
        else:
            schema.append(("struct", [(1, ("i32", col.ptype)), (2, ("i32", col.type_length)) if col.type_length else (2, None),
                                      (3, ("i32", 1 if col.max_def else 0)), (4, ("bin", col.path[0])),
                                      (6, ("i32", col.converted)) if col.converted is not None else (6, None),
                                      (7, ("i32", col.scale)) if col.scale is not None else (7, None),
                                      (8, ("i32", col.precision)) if col.precision is not None else (8, None),
                                      (10, col.logical) if col.logical is not None else (10, None)]))
    fmd = [(1, ("i32", 1)), (2, ("list", 12, schema)), (3, ("i64", nrows)), (4, ("list", 12, rg_structs)),
           (5, ("list", 12, [("struct", [(1, ("bin", k)), (2, ("bin", v))]) for k, v in (kv or [])])) if kv else (5, None),
           (6, ("bin", created_by))]
    foot = tenc_struct(fmd)
    out += foot + struct.pack("<I", len(foot)) + b"PAR1"
    with open(path, "wb") as f:
        f.write(out)
    return bytes(out)


def count_top(columns):
    n, seen = 0, set()
    for c in columns:
        top = c.path[0]
        if top not in seen:
            seen.add(top)
            n += 1
    return n
