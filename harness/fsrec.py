"""Recording / fault-injecting filesystem used by C07, C09, C18, C19: an fsspec LocalFileSystem whose
open-for-write, write, close, mkdirs, rename and rm calls are logged and can be made to fail at
the k-th call (the caller-supplied `open_with` / `mkdirs` hooks of fastparquet; no source hook)."""
import os
from fsspec.implementations.local import LocalFileSystem


class InjectedFault(OSError):
    pass


class _Proxy:
    def __init__(self, fs, f, path):
        self._fs, self._f, self._path = fs, f, path
        self._closed = False

    def write(self, data):
        self._fs._event("write", self._path)
        return self._f.write(data)

    def close(self):
        if not self._closed:
            self._closed = True
            try:
                self._fs._event("close", self._path)
            finally:
                self._f.close()

    def __enter__(self):
        return self

    def __exit__(self, *a):
        self.close()
        return False

    def __getattr__(self, name):
        return getattr(self._f, name)


class RecFS(LocalFileSystem):
    cachable = False

    def __init__(self, fail_at=None, **kw):
        super().__init__(**kw)
        self.events = []
        self.fail_at = fail_at
        self.failed = False

    def _event(self, kind, *paths):
        idx = len(self.events)
        self.events.append((kind,) + tuple(paths))
        if self.fail_at is not None and idx == self.fail_at:
            self.failed = True
            raise InjectedFault(f"injected fault at call {idx}: {kind} {paths}")

    def open(self, path, mode="rb", **kw):
        if "w" in mode or "+" in mode or "a" in mode:
            self._event("open", self._strip_protocol(path), mode)
            f = super().open(path, mode, **kw)
            return _Proxy(self, f, self._strip_protocol(path))
        return super().open(path, mode, **kw)

    def mkdirs(self, path, exist_ok=False):
        return self.makedirs(path, exist_ok=exist_ok)

    def makedirs(self, path, exist_ok=False):
        self._event("mkdir", self._strip_protocol(path))
        return os.makedirs(self._strip_protocol(path), exist_ok=exist_ok)

    def rename(self, path1, path2, **kw):
        self._event("rename", self._strip_protocol(path1), self._strip_protocol(path2))
        return os.rename(path1, path2)

    def mv(self, path1, path2, **kw):
        return self.rename(path1, path2, **kw)

    def rm(self, path, recursive=False, maxdepth=None):
        paths = path if isinstance(path, (list, tuple)) else [path]
        for p in paths:
            self._event("rm", self._strip_protocol(p))
        return super().rm(path, recursive=recursive, maxdepth=maxdepth)


def collapse(events, root):
    """canonical trace: consecutive writes to one file collapse into a single 'w'; paths relative."""
    out = []
    root = root.rstrip("/") + "/"
    for ev in events:
        kind = ev[0]
        ps = [p[len(root):] if p.startswith(root) else p for p in ev[1:] if isinstance(p, str) and not p in ("wb", "rb+", "ab")]
        if kind == "open":
            ps = [ev[1][len(root):] if ev[1].startswith(root) else ev[1]]
        if kind == "write" and out and out[-1] == ("write", ps[0]):
            continue
        out.append((kind,) + tuple(ps))
    return out
