"""C09 — dataset edits follow a simple model and keep metadata and directory in agreement.

Random histories over {write, append, append='overwrite', remove_row_groups(subset, sort_pnames),
write_row_groups(sort_key, sort_pnames), _sort_part_names} on hive datasets with 0..2 partition
columns, re-opening from disk between steps.  After each step:
  * stream `ds.run`: directory listing (part files with the rows they hold) and the row-group list of
    `_metadata` must equal the Lean state machine `Impl.DatasetOps` (which includes the two-pass rename
    of `_sort_part_names` driven by `part_ids` keyed by bare part number);
  * property oracle, evaluated directly on the real directory: every referenced file exists and holds
    the stated rows, no unreferenced part file is left, and the content per partition equals a plain
    dict model (overwrite replaces exactly the partitions present in the new data; removal deletes
    exactly the chosen row groups; append adds rows).
"""
import os, re, shutil
import numpy as np
import pandas as pd
from .common import parse_reply, parse_list, canon_err, short_tb
from . import c19

ASSUMPTIONS = ["partition values are small integers / short text whose str() equals their path text (timestamp partitions: see known finding)",
               "rename replaces its destination (POSIX)"]


def pieces_of(df, offs, parts):
    """what partition_on_columns does, independently: per incoming row group, groups sorted by key"""
    n = len(df)
    if offs is None:
        starts = [0]
    elif isinstance(offs, int):
        nparts = max((n - 1) // offs + 1, 1)
        chunk = max(min((n - 1) // nparts + 1, n), 1)
        starts = list(range(0, n, chunk))
    else:
        starts = list(offs)
    nd = []
    for i, st in enumerate(starts):
        en = starts[i + 1] if i + 1 < len(starts) else None
        ch = df.iloc[st:en]
        if len(ch) == 0:
            nd.append(None)          # skipped, but consumes a part number
            continue
        if not parts:
            nd.append([("", [int(r) for r in ch["rid"]])])
            continue
        groups = {}
        cols = [ch[p].tolist() for p in parts]
        for j, rid in enumerate(ch["rid"].tolist()):
            key = tuple(c[j] for c in cols)
            if any(k is None for k in key):
                continue             # a row without a complete key is not stored
            groups.setdefault(key, []).append(int(rid))
        nd.append([("/".join(f"{p}={k}" for p, k in zip(parts, key)), rows) for key, rows in sorted(groups.items())])
    return nd


def nd_str(nd):
    return "[" + ",".join("[" + ",".join(f"[{c19.hexdir(d)},[{','.join(map(str, rows))}]]" for d, rows in (pieces or [])) + "]" for pieces in nd) + "]"


def observe(path):
    """(files {(dir,id): rids}, refs [(dir,id,rids)]) from the real directory, re-opened from disk"""
    import fastparquet
    files = {}
    for dp, _dn, fns in os.walk(path):
        for f in fns:
            m = re.match(r"^part\.(\d+)\.parquet(.*)$", f)
            if m:
                d = os.path.relpath(dp, path)
                d = "" if d == "." else d
                try:
                    rows = [int(x) for x in fastparquet.ParquetFile(os.path.join(dp, f)).to_pandas(columns=["rid"])["rid"]]
                except Exception as e:  # noqa
                    rows = "unreadable:" + canon_err(e)
                files[(d, int(m.group(1)) if not m.group(2) else f)] = rows
    pf = fastparquet.ParquetFile(path)
    refs = []
    for i, rg in enumerate(pf.row_groups):
        fp = rg.columns[0].file_path
        m = c19.PART.match(fp)
        refs.append((m.group(1) or "", int(m.group(2)), rg.num_rows))
    return files, refs, pf


def run(ctx, report):
    import fastparquet
    rng = ctx.rng
    report.rule = ("random operation histories (length <=6 quick, <=12 thorough) on hive datasets with 0..2 partition columns and varying "
                   "row-group sizes, re-opened from disk between steps; non-trivial = history of >=2 operations touching >=2 row groups; "
                   "distinct by the operation sequence")
    nh = 14 if ctx.quick else 120
    maxlen = 6 if ctx.quick else 12
    reqs = []
    for h in range(nh):
        nparts = [1, 1, 0, 2, 1][h % 5]
        parts = ["p", "q"][:nparts]
        path = os.path.join(ctx.workdir("c09"), f"h{h}")
        shutil.rmtree(path, ignore_errors=True)
        next_rid = [0]
        shape = {"cat": rng.random() < 0.35 or h % 5 == 1, "swap": rng.random() < 0.5 or h % 10 == 3}

        def frame(n):
            df = pd.DataFrame({"rid": np.arange(next_rid[0], next_rid[0] + n, dtype="int64"), "v": np.arange(n, dtype="float64")})
            next_rid[0] += n
            if nparts >= 1:
                df["p"] = np.array([rng.choice([0, 1, 2]) for _ in range(n)], dtype="int64")
            if nparts >= 2:
                df["q"] = pd.Series([rng.choice(["x", "y"]) for _ in range(n)], dtype=object)
            if nparts >= 1 and shape["cat"]:
                # a categorical key with categories that have no rows in some (or any) chunk, as a frame read back from the dataset has
                df["p"] = pd.Categorical(df["p"].tolist(), categories=[0, 1, 2, 9])
            if nparts >= 2 and shape["swap"]:
                df = df[["rid", "q", "v", "p"]]      # frame order of the key columns differs from partition_on
            return df

        spec = {}          # plain model: partition dir -> list of rid lists (row groups), plus global order not asserted
        prev_rg_rows = []  # rows of each row group as observed after the previous step (for removal)
        steps_obs = []
        ops_model = []
        hist = []
        length = rng.randrange(2, maxlen + 1) if h % 5 not in (1, 3) else rng.randrange(3, maxlen + 1)
        broken = False
        for step in range(length):
            kind = "w" if step == 0 else rng.choice(["a", "a", "o", "r", "r", "g", "s"] if nparts else ["a", "a", "r", "r", "g", "s"])
            if nparts and step == 2 and h % 5 in (1, 3):
                kind = "o"       # every key-shape variant sees at least one partition overwrite
            forced_sp = None
            if step == 1 and h % 5 in (0, 2):
                # directed: write_row_groups(sort_pnames=True) straight after a fresh write, i.e. when every part
                # name is already in step with its position (h%5==2: no partition column, so nothing at all moves)
                kind, forced_sp = "g", True
            n = rng.choice([1, 2, 4, 7])
            offs = rng.choice([None, [0], [0, n // 2] if n > 1 else [0], 2, 3])
            if h % 5 == 4 and step == 0:
                # directed: a dataset with MORE THAN TEN part files, so that part numbers beyond 9 take part in every later numbering
                n, offs = 12, list(range(12))
            if h % 5 == 4 and step == 1:
                kind = "a"
            null_key = False
            if nparts >= 2 and step == 1 and h % 5 == 3:
                # directed: an append one of whose rows has a missing partition key (the row is dropped by the partitioning;
                # row counts in the metadata must describe what was stored)
                kind, n, offs, null_key = "a", 4, None, True
            rec = {"check": "history", "partition_columns": parts, "history": list(hist), "step": step, "frame_shape": dict(shape)}
            ctx.crumb(rec)
            try:
                if kind in ("w", "a", "o", "g"):
                    df = frame(n)
                    if null_key:
                        df["q"] = df["q"].astype(object)
                        df.loc[df.index[1], "q"] = None
                    nd = pieces_of(df, offs, parts)
                if kind == "w":
                    fastparquet.write(path, df, file_scheme="hive", partition_on=parts, row_group_offsets=offs, write_index=False)
                    opm = f"[w,{nd_str(nd)}]"
                    desc = f"write n={n} offs={offs}"
                elif kind == "a":
                    fastparquet.write(path, df, file_scheme="hive", partition_on=parts, row_group_offsets=offs, append=True, write_index=False)
                    opm = f"[a,{nd_str(nd)}]"
                    desc = f"append n={n} offs={offs}"
                elif kind == "o":
                    fastparquet.write(path, df, file_scheme="hive", partition_on=parts, row_group_offsets=offs, append="overwrite", write_index=False)
                    opm = f"[o,{nd_str(nd)},1]"
                    desc = f"overwrite n={n} offs={offs}"
                elif kind == "g":
                    pf = fastparquet.ParquetFile(path)
                    sp = rng.random() < 0.7
                    if forced_sp is not None:
                        sp = forced_sp
                    from fastparquet.api import partitions
                    pf.write_row_groups(df, row_group_offsets=offs, sort_key=lambda rg: partitions(rg) or "", sort_pnames=sp)
                    opm = f"[g,{nd_str(nd)},{1 if sp else 0}]"
                    desc = f"write_row_groups(sort_key=partition, sort_pnames={sp}) n={n} offs={offs}"
                elif kind == "r":
                    pf = fastparquet.ParquetFile(path)
                    k = len(pf.row_groups)
                    if k <= 1:
                        continue      # an emptied dataset forgets its partition columns (cats come from paths)
                    idxs = sorted(rng.sample(range(k), rng.choice([1, 1, min(2, k - 1)])))
                    sp = rng.random() < 0.5
                    pf.remove_row_groups([pf.row_groups[i] for i in idxs], sort_pnames=sp)
                    opm = f"[r,[{','.join(map(str, idxs))}],{1 if sp else 0}]"
                    desc = f"remove_row_groups({idxs}, sort_pnames={sp})"
                else:
                    pf = fastparquet.ParquetFile(path)
                    pf._sort_part_names()
                    opm = "[s]"
                    desc = "_sort_part_names()"
                err = None
            except Exception as e:  # noqa
                err = canon_err(e) + " " + str(e)[:150]
                opm = opm if "opm" in dir() else "[?]"
                desc = kind + " raised"
            hist.append(desc)
            rec["history"] = list(hist)
            ops_model.append(opm)
            # ---- plain spec
            if kind in ("w", "a", "g"):
                if kind == "w":
                    spec = {}
                for pieces in nd:
                    for d, rows in (pieces or []):
                        spec.setdefault(d, []).append(rows)
            elif kind == "o":
                newdirs = {d for pieces in nd for d, _ in (pieces or [])}
                for d in newdirs:
                    spec[d] = []
                for pieces in nd:
                    for d, rows in (pieces or []):
                        spec[d].append(rows)
            elif kind == "r" and not err:
                for i in idxs:
                    d, rows = prev_rg_rows[i]
                    if rows in spec.get(d, []):
                        spec[d].remove(rows)
            if err:
                report.violation({**rec, "what": f"operation raised: {err}", "sig": "op-raised:" + kind, "op": kind})
                broken = True
                break
            # ---- observe and evaluate Agree directly
            try:
                files, refs, pf = observe(path)
            except Exception as e:  # noqa
                report.violation({**rec, "what": "dataset cannot be re-opened: " + canon_err(e) + " " + str(e)[:120], "sig": "reopen", "op": kind})
                broken = True
                break
            probs = []
            refd = {}
            for (d, i, nrows) in refs:
                rows = files.get((d, i))
                if rows is None:
                    probs.append(f"referenced file {d}/part.{i}.parquet does not exist")
                elif isinstance(rows, str):
                    probs.append(f"referenced file {d}/part.{i}.parquet is {rows}")
                elif len(rows) != nrows:
                    probs.append(f"{d}/part.{i}.parquet holds {len(rows)} rows but the metadata states {nrows}")
                if (d, i) in refd:
                    probs.append(f"{d}/part.{i}.parquet is referenced by two row groups")
                refd[(d, i)] = True
            if pf.fmd.num_rows != sum(nrows for (_d, _i, nrows) in refs):
                probs.append(f"FileMetaData.num_rows of _metadata states {pf.fmd.num_rows} but its row groups add up to {sum(nrows for (_d, _i, nrows) in refs)}")
            for k in files:
                if k not in refd:
                    probs.append(f"unreferenced part file {k[0]}/part.{k[1]} left behind")
            # content vs plain spec (per partition, as multiset of rows; order within partition kept)
            try:
                got = pf.to_pandas()
                got_by = {}
                gcols = [got[p].tolist() for p in parts]
                for j, rid in enumerate(got["rid"].tolist()):
                    d = "/".join(f"{p}={c[j]}" for p, c in zip(parts, gcols))
                    got_by.setdefault(d, []).append(int(rid))
            except Exception as e:  # noqa
                probs.append("read failed: " + canon_err(e) + " " + str(e)[:100])
                got_by = None
            if got_by is not None:
                want = {d: sorted(r for rg in rgs for r in rg) for d, rgs in spec.items() if any(rgs)}
                have = {d: sorted(v) for d, v in got_by.items() if v}
                if want != have:
                    probs.append(f"content differs from the plain model: read {str(have)[:150]} expected {str(want)[:150]}")
            prev_rg_rows = [(d, files.get((d, i)) if isinstance(files.get((d, i)), list) else []) for (d, i, _n) in refs]
            if probs:
                report.violation({**rec, "what": "; ".join(probs)[:400], "sig": "agree:" + probs[0][:25], "op": kind})
                broken = True
            report.case(("hist", h, step), nontrivial=step >= 1, sample={"partition_columns": parts, "history": list(hist)} if step == length - 1 and len(report.samples) < 4 else None)
            report.count("op:" + kind)
            # model comparison data for this step
            lst = sorted((d, i, rows) for (d, i), rows in files.items() if not isinstance(i, str))
            rec["_obs"] = (lst, refs, got_by)
            rec["_spec"] = {k: [r for rg in v for r in rg] for k, v in spec.items()}
            steps_obs.append((h, len(ops_model) - 1, dict(rec)))
            if broken:
                break
        if ops_model and ctx.model_ok:
            reqs.append(("ds run ops=[" + ",".join(ops_model) + "]", list(steps_obs), {"partition_columns": parts, "history": list(hist)}))
            report.stream("ds.run")
        shutil.rmtree(path, ignore_errors=True)
    if reqs and ctx.model_ok:
        reps = ctx.driver.ask([r[0] for r in reqs])
        for (req, obs, rec), rep in zip(reqs, reps):
            head, dd = parse_reply(rep)
            steps = rep[len("ok steps="):].split("|") if rep.startswith("ok steps=") else []
            for (h, step, srec) in obs:
                if step >= len(steps):
                    break
                ms = steps[step]
                lst, refs, got_by = srec["_obs"]
                if ms.startswith("err"):
                    report.corr_break("ds.run", {**rec, "step": step, "model": ms, "real": "ok", "explained_by_known": False})
                    break
                parts_m = dict(p.split("=", 1) for p in ms.split(";"))
                mfiles = [(bytes.fromhex(f[0][1:]).decode(), f[1], f[2]) for f in parse_list(parts_m["files"])]
                mrefs = [(bytes.fromhex(f[0][1:]).decode(), f[1], len(f[2])) for f in parse_list(parts_m["refs"])]
                if sorted(mfiles) != sorted(lst) or mrefs != refs:
                    report.corr_break("ds.run", {**rec, "step": step, "model_files": str(sorted(mfiles))[:300], "real_files": str(sorted(lst))[:300],
                                                 "model_refs": str(mrefs)[:300], "real_refs": str(refs)[:300], "explained_by_known": False})
                    break
                # the model's content (refinement target): compare with what was read, per partition
                if got_by is not None:
                    mcont = {}
                    for f in parse_list(parts_m["refs"]):
                        mcont.setdefault(bytes.fromhex(f[0][1:]).decode(), []).extend(f[2])
                    if {k: sorted(v) for k, v in mcont.items() if v} != {k: sorted(v) for k, v in got_by.items() if v}:
                        report.violation({**rec, "step": step, "what": "content read back differs from the content the metadata/model states",
                                          "sig": "content", "op": "?"})
                        break


def search(ctx, report):
    old = ctx.tier
    ctx.tier = "thorough"
    try:
        run(ctx, report)
    finally:
        ctx.tier = old


def replay(ctx, rec, report):
    r2 = type(report)(report.prop, report.tier, report.seed)
    run(ctx, r2)
    return any(v.get("sig") == rec.get("sig") for v in r2.violations)
