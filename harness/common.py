"""Shared machinery of the correspondence harness (DESIGN §3.5/§3.6).

Everything random derives from one PRNG seeded by VERIF_SEED.  The harness imports fastparquet
from the per-run scratch package built by tools/rebuild_ext.py (current .py files + extensions
rebuilt from the current .c), never from site-packages.
"""
import hashlib, json, os, random, subprocess, sys, time, traceback

VERIF = os.path.dirname(os.path.dirname(os.path.abspath(__file__)))
REPO = os.environ.get("VERIF_REPO", "/repo")
LEAN_DIR = os.path.join(VERIF, "lean")
PQV = os.path.join(LEAN_DIR, ".lake", "build", "bin", "pqv")


class Driver:
    """Line-protocol client of the compiled Lean driver `pqv`.  Batch oriented: `ask(lines)`
    runs the executable once over all request lines and returns the reply lines."""

    def __init__(self, exe=PQV):
        self.exe = exe
        self.calls = 0
        self.available = os.path.exists(exe)

    def ask(self, lines):
        if not lines:
            return []
        if not self.available:
            raise RuntimeError("driver not built")
        data = "\n".join(lines) + "\n"
        r = subprocess.run([self.exe], input=data, capture_output=True, text=True, timeout=3600)
        out = r.stdout.split("\n")
        if out and out[-1] == "":
            out.pop()
        if len(out) != len(lines) or r.returncode != 0:
            raise RuntimeError(f"driver returned {len(out)} replies for {len(lines)} requests "
                               f"(rc={r.returncode}): {r.stderr[-500:]}")
        self.calls += len(lines)
        return out

    def ask1(self, line):
        return self.ask([line])[0]


def parse_reply(rep):
    """'ok k=v k=v' -> ('ok', {k: v}); 'fault kind k=v' -> ('fault', {'kind':..})"""
    toks = rep.split(" ")
    head = toks[0] if toks else ""
    d = {}
    rest = toks[1:]
    if head in ("fault", "err") and rest:
        d["kind"] = rest[0]
        rest = rest[1:]
    for t in rest:
        if "=" in t:
            k, v = t.split("=", 1)
            d[k] = v
    return head, d


def parse_list(s):
    """'[1,2,[3,4]]' -> nested python list of ints / strings"""
    s = s.strip()
    if not s.startswith("["):
        try:
            return int(s)
        except ValueError:
            return s
    out, depth, cur = [], 0, ""
    for ch in s[1:-1]:
        if ch == "[":
            depth += 1
        elif ch == "]":
            depth -= 1
        if ch == "," and depth == 0:
            out.append(parse_list(cur))
            cur = ""
        else:
            cur += ch
    if cur != "":
        out.append(parse_list(cur))
    return out


def hexs(b):
    return "x" + bytes(b).hex()


def unhex(s):
    return bytes.fromhex(s[1:] if s.startswith("x") else s)


def fmt_list(l):
    return "[" + ",".join(fmt_list(x) if isinstance(x, (list, tuple)) else str(x) for x in l) + "]"


class Report:
    """Collects what a harness run explored."""

    def __init__(self, prop, tier, seed):
        self.prop, self.tier, self.seed = prop, tier, seed
        self.evaluations = 0
        self.distinct = set()
        self.samples = []
        self.violations = []       # property fails on the real code: counterexamples
        self.corr_breaks = []      # model and implementation disagree
        self.dist = {}
        self.notes = []
        self.exhaustive = None
        self.rule = ""
        self.streams = {}
        self.extra = {}

    def count(self, key, n=1):
        self.dist[key] = self.dist.get(key, 0) + n

    def case(self, descriptor, nontrivial=True, sample=None):
        self.evaluations += 1
        if nontrivial:
            h = hashlib.sha1(repr(descriptor).encode()).hexdigest()[:16]
            self.distinct.add(h)
        if sample is not None and len(self.samples) < 6:
            self.samples.append(sample)

    def stream(self, name, n=1):
        self.streams[name] = self.streams.get(name, 0) + n

    def violation(self, rec):
        """rec: dict describing a failing input of the property on the real code."""
        rec = dict(rec)
        rec.setdefault("kind", "counterexample")
        self.violations.append(rec)

    def corr_break(self, stream, rec):
        rec = dict(rec)
        rec["stream"] = stream
        rec.setdefault("kind", "correspondence-broken")
        self.corr_breaks.append(rec)


class Ctx:
    def __init__(self, prop, tier, seed, scratch, build_info, driver):
        self.prop, self.tier, self.seed = prop, tier, seed
        self.rng = random.Random(f"{prop}:{seed}")
        self.scratch = scratch          # per-run scratch dir (contains fastparquet/ package)
        self.build_info = build_info
        self.driver = driver
        self.t0 = time.time()
        self.model_ok = True            # lean build of the model/driver succeeded
        self.budget_s = None

    @property
    def quick(self):
        return self.tier == "quick"

    def workdir(self, name):
        d = os.path.join(self.scratch, "work", name)
        os.makedirs(d, exist_ok=True)
        return d

    def crumb(self, rec):
        """breadcrumb: what the harness is about to execute on the real code (read after a crash)"""
        try:
            with open(os.path.join(self.scratch, "breadcrumb.json"), "w") as f:
                json.dump(rec, f, default=str)
        except Exception:
            pass

    def elapsed(self):
        return time.time() - self.t0

    def time_left(self):
        return (self.budget_s or 1e9) - self.elapsed()


def canon_err(e):
    """map an exception to a small enum"""
    if isinstance(e, NotImplementedError):
        return "unsupported"
    if isinstance(e, (ValueError,)):
        return "invalid"
    if isinstance(e, TypeError):
        return "type"
    if isinstance(e, (KeyError, IndexError)):
        return "key"
    if isinstance(e, OverflowError):
        return "overflow"
    return "other:" + type(e).__name__


def short_tb(e):
    return "".join(traceback.format_exception(type(e), e, e.__traceback__)[-3:])[-600:]


def run_worker(ctx, cases, worker="kworker.py", scratch=None, env=None, timeout=1800, tag="w"):
    """Execute `cases` on the real code in a child process; restart after a crash.  Returns a list
    of result dicts aligned with `cases`; a crashed case gets {"crash": rc, "stderr": tail}."""
    import tempfile
    scratch = scratch or ctx.scratch
    d = ctx.workdir("worker")
    cp = os.path.join(d, f"{tag}-cases.jsonl")
    rp = os.path.join(d, f"{tag}-results.jsonl")
    with open(cp, "w") as f:
        for c in cases:
            f.write(json.dumps(c) + "\n")
    open(rp, "w").close()
    results = [None] * len(cases)
    stderr_by_case = {}
    start = 0
    e = dict(os.environ)
    if env:
        e.update(env)
    crashes = 0
    while start < len(cases):
        r = subprocess.run([sys.executable, os.path.join(VERIF, "harness", worker), scratch, cp, rp, str(start)],
                           capture_output=True, text=True, env=e, timeout=timeout)
        begun = -1
        with open(rp) as f:
            for line in f:
                try:
                    o = json.loads(line)
                except ValueError:
                    continue
                if o.get("begin"):
                    begun = o["i"]
                else:
                    results[o["i"]] = o
        done = max([i for i, x in enumerate(results) if x is not None], default=-1)
        # per-case stderr (sanitizer reports in recover mode): segments between "@@CASE i" markers
        segs = (r.stderr or "").split("\n@@CASE ")
        for seg in segs[1:]:
            head, _, body = seg.partition("\n")
            try:
                ci = int(head.strip())
            except ValueError:
                continue
            body = body.strip()
            if body and ci < len(results):
                stderr_by_case[ci] = body if len(body) < 2400 else body[:1200] + "\n...\n" + body[-1100:]
        if r.returncode != 0:
            crashes += 1
            k = begun if begun > done else done + 1
            if k < len(cases) and results[k] is None:
                results[k] = {"i": k, "crash": r.returncode, "stderr": (r.stderr or "")[-1500:]}
            start = k + 1
            if crashes > 20000:
                break
        else:
            start = len(cases)
    for i, x in enumerate(results):
        if x is None:
            results[i] = {"i": i, "crash": -999, "stderr": "not executed"}
        elif i in stderr_by_case and "stderr" not in x:
            x["stderr_seg"] = stderr_by_case[i]
        elif i in stderr_by_case and "crash" in x:
            x["stderr"] = stderr_by_case[i]
    return results


def isolated_map(fn, items):
    """Apply `fn` to every item in forked children; a crash of the interpreter on one item is reported as
    ('crash', signo) for that item and the rest continue in a fresh child.  Results are pickled back."""
    import pickle, struct as _st
    out = [None] * len(items)
    start = 0
    while start < len(items):
        r, w = os.pipe()
        pid = os.fork()
        if pid == 0:
            os.close(r)
            try:
                with os.fdopen(w, "wb") as f:
                    for i in range(start, len(items)):
                        try:
                            res = fn(items[i])
                        except BaseException as e:  # noqa
                            res = ("raised", type(e).__name__ + ":" + str(e)[:80])
                        b = pickle.dumps(res)
                        f.write(_st.pack("<II", i, len(b)) + b)
                        f.flush()
            finally:
                os._exit(0)
        os.close(w)
        done = start
        with os.fdopen(r, "rb") as f:
            while True:
                h = f.read(8)
                if len(h) < 8:
                    break
                i, n = _st.unpack("<II", h)
                b = f.read(n)
                if len(b) < n:
                    break
                out[i] = pickle.loads(b)
                done = i + 1
        _, status = os.waitpid(pid, 0)
        if done < len(items):
            out[done] = ("crash", os.WTERMSIG(status) if os.WIFSIGNALED(status) else -1)
            done += 1
        start = done
    return out
