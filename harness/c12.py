"""C12 — native code stays inside its buffers and the process never crashes.

The C11 kernel lattice and the C10 IDL-generated structures (well-formed inputs only) are executed
on an address- and undefined-behaviour-sanitised build of the extension modules (clang
-fsanitize=address,undefined, rebuilt from the current .c; inputs are copied into exactly sized heap
buffers so that an over-read of a single byte is seen).  A sanitizer report, an abort or a
segfault is a failing input.  Correspondence `kern.fault`: the code-shaped Lean models return an
explicit Fault for every out-of-buffer access and out-of-range shift; the model's fault / no-fault
verdict is compared with the sanitizer's on every case.
"""
import os, re, shutil
from .common import parse_reply, run_worker
from . import c11, c10

ASSUMPTIONS = ["ASan/UBSan instrument the extension modules only (CPython, numpy, pandas are not instrumented)",
               "memory safety of the machine code is observed on the enumerated inputs, not proved; the Lean theorems are about the models"]


def classify(stderr):
    """set of report kinds in a stderr segment"""
    kinds = set()
    stderr = stderr or ""
    for m in re.finditer(r"ERROR: AddressSanitizer: ([\w-]+)", stderr):
        rw = re.search(r"\b(READ|WRITE) of size (\d+)", stderr[m.end():m.end() + 400])
        kinds.add(f"asan:{m.group(1)}" + (f":{rw.group(1)}" if rw else ""))
    for m in re.finditer(r"runtime error: ([^\n]{0,120})", stderr):
        t = m.group(1)
        if "shift exponent" in t:
            kinds.add("ubsan:shift-exponent")
        elif "left shift of" in t:
            kinds.add("ubsan:shift-base")          # negative value / not representable: signed left shift
        elif "signed integer overflow" in t:
            kinds.add("ubsan:signed-overflow")
        elif "division" in t:
            kinds.add("ubsan:div-zero")
        else:
            kinds.add("ubsan:" + t[:40])
    return kinds


def run(ctx, report):
    from tools import rebuild_ext
    rng = ctx.rng
    report.rule = ("the C11 lattice (widths, counts, patterns, capacities) and C10's IDL-generated structures incl. megabyte strings, executed "
                   "under ASan+UBSan; per (kernel, width) at most a few cases where the model already predicts a fault (known findings), all "
                   "cases where it predicts none; non-trivial = width>=1 and count>=1 / nested structure; distinct by (kernel, parameters)")
    info = rebuild_ext.build(sanitize=True)
    san = info["path"]
    try:
        asan_rt = os.popen("clang -print-file-name=libclang_rt.asan-x86_64.so").read().strip()
        env = {"LD_PRELOAD": asan_rt, "ASAN_OPTIONS": "detect_leaks=0:halt_on_error=1:abort_on_error=0:exitcode=77",
               "UBSAN_OPTIONS": "halt_on_error=1:print_stacktrace=0:exitcode=78", "VERIF_EXACT": "1", "PYTHONMALLOC": "malloc"}
        cases = c11.prepare(ctx, c11.gen(ctx))
        # model verdicts
        mreps = ctx.driver.ask([c["model"] for c in cases]) if ctx.model_ok else [None] * len(cases)
        keep, per = [], {}
        for c, rep in zip(cases, mreps):
            fault = rep is not None and rep.startswith("fault")
            c["model_fault"] = rep if fault else None
            w = c["params"].get("width")
            special = {0, 1, 8, 16, 17, 24, 25, 28, 29, 31, 32, 33, 56, 57, 63, 64}
            wb = w if (not fault or not ctx.quick or w in special) else "other"
            key = (c["kernel"], wb, c["params"].get("bits"), fault)
            per[key] = per.get(key, 0) + 1
            limit = 1 if fault else (6 if ctx.quick else 40)
            if per[key] <= limit:
                keep.append(c)
        results = run_worker(ctx, [c["real"] for c in keep], scratch=san, env=env, tag="c12k", timeout=3000)
        for c, r in zip(keep, results):
            p, kernel = c["params"], c["kernel"]
            if r.get("crash") == -999:
                report.count("not-executed")
                continue
            crashed = "crash" in r
            kinds = classify(r.get("stderr", "") if crashed else r.get("stderr_seg", ""))
            if crashed and not kinds:
                kinds = {f"died:rc{r['crash']}"}
            # signed left shift (negative value / into the sign bit) is defined as wrap-around by gcc and clang,
            # which is what the models assume: counted, reported once as a known finding, not part of the verdict
            soft = {k for k in kinds if k == "ubsan:shift-base"}
            # the delta decoder's running sum `value += min_delta + temp` is modular arithmetic by specification; in C it is a
            # signed 64-bit addition (wraps under gcc/clang, which the model assumes): reported as its own finding, not in the verdict
            text = (r.get("stderr") or r.get("stderr_seg") or "")
            wrap_add = kernel == "delta" and "ubsan:signed-overflow" in kinds and " + " in text and "cannot be represented in type 'long'" in text
            if wrap_add:
                soft = soft | {"ubsan:signed-overflow"}
            hard = kinds - soft
            rec = {"kernel": kernel, **p, "model_fault": c["model_fault"]}
            report.case((kernel, tuple(sorted(p.items()))), c["nontrivial"],
                        sample={"kernel": kernel, **p, "sanitizer": sorted(kinds)} if len(report.samples) < 4 and c["nontrivial"] else None)
            report.count("kernel:" + kernel)
            report.stream("kern.fault")
            if "ubsan:shift-base" in soft:
                report.count("signed-left-shift:" + kernel)
                report.violation({**rec, "what": f"{kernel}: signed left shift of a negative value or into the sign bit", "sanitizer": "ubsan:shift-base",
                                  "sig": f"{kernel}:shift-base"})
            if wrap_add:
                report.count("signed-add-wrap:" + kernel)
                report.violation({**rec, "what": "delta: the running sum overflows a signed 64-bit integer", "sanitizer": "ubsan:signed-overflow",
                                  "stderr": text[-300:], "sig": "delta:signed-add"})
            if hard:
                report.violation({**rec, "what": f"{kernel}: {sorted(hard)} on a well-formed input",
                                  "sanitizer": "+".join(sorted(hard)), "stderr": ((r.get("stderr") or r.get("stderr_seg") or ""))[-300:],
                                  "case": {"real": c["real"]}, "sig": f"{kernel}:w{p.get('width')}:{'+'.join(sorted(hard))}"})
                if not c["model_fault"]:
                    report.corr_break("kern.fault", {**rec, "model": "no fault", "real": sorted(hard), "explained_by_known": False})
            elif c["model_fault"]:
                report.count("model_fault_not_observed")
        # ---- C10 structures under the sanitizer
        enums, structs = c10.load_idl()
        n = 60 if ctx.quick else 400
        nbig = 3 if ctx.quick else 12
        tcases = []
        for k in range(n + nbig):
            g = c10.Gen(rng, enums, structs, big=k >= n)
            name = rng.choice(c10.ROOTS if k < n else ["Statistics", "KeyValue", "SchemaElement"])
            w, t, pt = g.struct(name)
            tcases.append({"name": name, "w": w, "t": t, "p": pt, "big": k >= n})
        mre = ctx.driver.ask([f"thrift write name={c['name']} v={c['p']}" for c in tcases]) if ctx.model_ok else [None] * len(tcases)
        tres = run_worker(ctx, [{"k": "thrift_build", "tree": c["w"]} for c in tcases], scratch=san, env=env, tag="c12t", timeout=3000)
        for c, rm, r in zip(tcases, mre, tres):
            overflow = None
            if rm:
                head, dd = parse_reply(rm)
                if head == "ok":
                    overflow = (len(dd["out"]) - 1) // 2 > int(dd["size"])
            if r.get("crash") == -999:
                report.count("not-executed")
                continue
            crashed = "crash" in r
            kinds = classify(r.get("stderr", "") if crashed else r.get("stderr_seg", ""))
            if crashed and not kinds:
                kinds = {f"died:rc{r['crash']}"}
            soft = {k for k in kinds if k == "ubsan:shift-base"}
            hard = kinds - soft
            report.case(("thrift", c["t"][:1500], len(c["t"])), "[l," in c["t"])
            report.count("kernel:thrift")
            report.stream("thrift.fault")
            if soft:
                report.count("signed-left-shift:write_thrift")
                report.violation({"kernel": "write_thrift", "struct": c["name"], "sanitizer": "ubsan:shift-base",
                                  "what": "write_thrift/long_zigzag: signed left shift of a negative value", "sig": "write_thrift:shift-base"})
            if hard:
                report.violation({"kernel": "write_thrift", "struct": c["name"], "overflow": overflow, "sanitizer": "+".join(sorted(hard)),
                                  "what": f"serialising a {c['name']}: {sorted(hard)}" + (" (serialised form longer than the fixed buffer)" if overflow else ""),
                                  "stderr": (r.get("stderr") or r.get("stderr_seg") or "")[-300:], "sig": f"thrift:{c['name']}:{'+'.join(sorted(hard))}"})
                if overflow is False:
                    report.corr_break("thrift.fault", {"struct": c["name"], "model": "fits the buffer", "real": sorted(hard), "explained_by_known": False})
            elif overflow:
                report.corr_break("thrift.fault", {"struct": c["name"], "model": "overflows the buffer", "real": "no report", "explained_by_known": False})
    finally:
        shutil.rmtree(san, ignore_errors=True)
    # ---- probe: signed left shifts (defined as wrap-around by gcc/clang, assumed by the models) with the recover build
    info_r = rebuild_ext.build(sanitize="recover")
    try:
        env_r = dict(env)
        env_r["UBSAN_OPTIONS"] = "halt_on_error=0:print_stacktrace=0"
        probes = [{"k": "read_bitpacked", "in": "ff" * 24, "header": 3, "width": 24, "cap": 96, "item": 4},
                  {"k": "enc_bitpacked", "vals": [0xFFFFFF] * 8, "width": 24},
                  {"k": "thrift_build", "tree": {"name": "Statistics", "i32ids": [], "fields": {"null_count": {"t": "int", "v": -5}}}}]
        pres = run_worker(ctx, probes, scratch=info_r["path"], env=env_r, tag="c12p")
        for pc, r in zip(probes, pres):
            kinds = classify(r.get("stderr_seg", "") or r.get("stderr", ""))
            report.evaluations += 1
            if "ubsan:shift-base" in kinds:
                report.violation({"kernel": pc["k"], "sanitizer": "ubsan:shift-base", "sig": pc["k"] + ":shift-base",
                                  "what": f"{pc['k']}: signed left shift of a negative value or into the sign bit (wrap-around under gcc/clang)"})
    finally:
        shutil.rmtree(info_r["path"], ignore_errors=True)


def search(ctx, report):
    return


def replay(ctx, rec, report):
    r2 = type(report)(report.prop, report.tier, report.seed)
    run(ctx, r2)
    return any(v.get("sig") == rec.get("sig") for v in r2.violations)
