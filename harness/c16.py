"""C16 — user key-value metadata verbatim; in-place updates touch nothing else.

Streams: `footer.kv` (Impl.Footer.merge vs util.update_custom_metadata) and `footer.rewrite`
(Impl.Footer.rewrite vs the bytes of the file after writer.update_file_custom_metadata; whether
the model truncates is regenerated from the source, Gen.FooterIO).
Property oracle on the real code after every update of a history: the file re-opens, the
key-value dict equals the plain dict model, every other footer field, the schema, the row groups
and every byte before the footer are unchanged, the data reads back, the file is strictly framed.
"""
import os, shutil, struct
import numpy as np
import pandas as pd
from .common import parse_reply, parse_list, hexs, unhex, canon_err, short_tb

ASSUMPTIONS = [
    "POSIX: a write at an offset replaces exactly those bytes, extends the file if needed, never shrinks it; truncate() cuts at the current position",
    "the serialised new footer is taken from the file (Thrift serialisation is C10's subject); its *content* is checked by re-parsing",
]


def b(x):
    return x if isinstance(x, bytes) else x.encode()


def read_footer(path, is_meta):
    """independent framing reader: returns (loc, footer_len_recorded, consumed_by_thrift_parser, fmd) or raises"""
    from fastparquet import cencoding as ce
    data = open(path, "rb").read()
    if data[-4:] != b"PAR1":
        raise ValueError("trailing magic missing")
    if data[:4] != b"PAR1":
        raise ValueError("leading magic missing")
    flen = struct.unpack("<I", data[-8:-4])[0]
    loc = len(data) - 8 - flen
    if loc < 4:
        raise ValueError(f"footer length {flen} does not fit in file of {len(data)} bytes")
    buf = np.frombuffer(data[loc:len(data) - 8], dtype="uint8")
    io = ce.NumpyIO(buf)
    fmd = ce.from_buffer(io, "FileMetaData")
    return loc, flen, io.tell(), fmd, data


def kv_get(kvd, kb):
    """entry of ParquetFile.key_value_metadata for the key stored as bytes kb (text keys are presented as str)"""
    try:
        ks = kb.decode()
        if ks in kvd:
            return kvd[ks]
    except UnicodeDecodeError:
        pass
    return kvd.get(kb)


def text_problems(kvd, given_text):
    """a value handed over as text comes back as that text (str), whatever its key looks like"""
    out = []
    for kb, sv in given_text.items():
        got = kv_get(kvd, kb)
        if not (isinstance(got, str) and got == sv):
            out.append(f"value given as text {sv[:30]!r} for key {kb!r} is returned as {got!r:.60}")
    return out


def kv_list(fmd):
    return [(bytes(b(kv.key)), bytes(b(kv.value))) for kv in (fmd.key_value_metadata or [])]


def scenarios(ctx):
    rng = ctx.rng
    n = 10 if ctx.quick else 80
    for s in range(n):
        kind = rng.choice(["data", "data", "metadata"])
        init = {}
        for _ in range(rng.choice([0, 1, 2, 4])):
            k = rng.choice(["a", "b", "c", "dé", "key with space", "k" * 40])
            init[k] = rng.choice(["", "v", "x" * rng.randrange(1, 140), "üñï", "z" * 200])
        if s < 2:
            # directed: four keys, both file kinds, whatever the seed (multi-key updates need several existing keys)
            kind = ["data", "metadata"][s]
            init = {"a": "v", "b": "x" * 17, "c": "", "dé": "üñï"}
        if rng.random() < 0.3:
            init = {b(k): b(v) for k, v in init.items()}
        if s < 4:
            # a key that is not text, with a text value and with a value that is not text either
            init[b"\xff\xfekey"] = "text value"
            init[b"\xfe\xffbin"] = b"\xff\x00\xfe"
        yield s, kind, init


def updates_for(rng, current, step, nsteps, directed=False):
    """choose an update dict; aim for specific footer size deltas (shrink by 1..16, grow, same)"""
    keys = [k for k in current if k != b"pandas"]
    upd = {}
    mode = rng.choice(["shrink", "shrink", "grow", "same", "remove", "add", "mix"])
    if directed == "big" and step < 2:
        # a large value that is not ASCII, given as text: first added under a new key, then replaced (the serialised
        # footer is far longer than the text has characters)
        upd["big"] = ("\u4e00" if step == 0 else "\u4e8c") * (170000 + step)
        return upd, "big-text"
    if directed == "empty-add" and step < 2:
        # a NEW key whose value is empty (text, then bytes): it must be stored, not skipped
        upd[("flag%d" % step)] = "" if step == 0 else b""
        return upd, "add"
    if directed is True and step == 0 and len(keys) >= 3:
        # one call that removes a key, then replaces and removes keys stored after it (footer order)
        upd[keys[0]] = None
        upd[keys[1]] = b"R" * 5
        upd[keys[-1]] = None
        upd[b"mix0"] = b"m"
        mode = "mix"
        return {k: v for k, v in upd.items()}, mode
    if mode == "shrink" and keys:
        k = rng.choice(keys)
        cur = current[k]
        d = rng.choice(list(range(1, 17)) + [40, 100])
        new = cur[:max(0, len(cur) - d)]
        if len(cur) < d:
            # make it long first so that a later step can shrink it
            new = cur + b"y" * rng.choice([3, 9, 30])
        upd[k] = new
    elif mode == "grow" and keys:
        k = rng.choice(keys)
        upd[k] = current[k] + b"g" * rng.choice([1, 2, 7, 8, 9, 130, 2000])
    elif mode == "same" and keys:
        k = rng.choice(keys)
        upd[k] = bytes(reversed(current[k]))
    elif mode == "remove" and keys:
        for k in rng.sample(keys, rng.choice([1, min(2, len(keys))])):
            upd[k] = None
        if rng.random() < 0.5:
            upd[b"never-there"] = None
    elif mode == "add":
        upd[b"new%d" % step] = rng.choice([b"", b"n", b"n" * 20])
    else:
        # remove one, replace a later one, add one — in one call
        ks = list(keys)
        rng.shuffle(ks)
        if ks:
            upd[ks[0]] = None
        if len(ks) > 1:
            upd[ks[1]] = b"R" * rng.choice([0, 1, 5, 50])
        upd[b"mix%d" % step] = b"m"
        if len(ks) > 2 and rng.random() < 0.5:
            upd[ks[2]] = None
    # present keys / values as str or bytes
    out = {}
    for k, v in upd.items():
        def maybe_str(x):
            if rng.random() < 0.5:
                try:
                    return x.decode()
                except UnicodeDecodeError:
                    return x
            return x
        out[maybe_str(k)] = v if v is None else maybe_str(v)
    return out, mode


def run(ctx, report):
    import fastparquet
    from fastparquet import writer, util, cencoding as ce, parquet_thrift
    rng = ctx.rng
    report.rule = ("histories of in-place updates on data files and _metadata files; update dicts chosen so that the footer grows, "
                   "stays equal or shrinks by each of 1..16 bytes and by large amounts; non-trivial = an update that changes the "
                   "footer length; distinct by (file kind, size delta, update mode)")
    truncates_model = 1 if ctx.translators.get("FooterIO", {}).get("status") == "ok" and \
        "truncate" in open(os.path.join(os.path.dirname(os.path.dirname(__file__)), "lean", "PqV", "Gen", "FooterIO.lean")).read().split("def ioOps")[1].split("]")[0] else 0
    reqs = []   # (request, expected, record)
    df = pd.DataFrame({"x": np.arange(20, dtype="int64"), "s": [str(i) * 3 for i in range(20)]})
    for s, kind, init in scenarios(ctx):
        d = ctx.workdir("c16")
        path = os.path.join(d, f"f{s}")
        if s == 4:
            # a DATA file whose name contains, but does not end with, "_metadata"
            kind, path = "data", os.path.join(d, "orders_metadata.parquet")
        shutil.rmtree(path, ignore_errors=True)
        if os.path.isfile(path):
            os.remove(path)
        if kind == "data":
            fastparquet.write(path, df, custom_metadata=dict(init), row_group_offsets=[0, 7])
            target = path
        else:
            fastparquet.write(path, df, custom_metadata=dict(init), file_scheme="hive", row_group_offsets=[0, 7])
            target = os.path.join(path, "_metadata")
        is_meta = kind == "metadata"
        # write-time metadata verbatim
        pf = fastparquet.ParquetFile(path)
        kvd = pf.key_value_metadata
        given_text = {b(k): v for k, v in init.items() if isinstance(v, str)}
        for k, v in init.items():
            try:
                vs = v.decode() if isinstance(v, bytes) else v
            except UnicodeDecodeError:
                vs = v
            actual = kv_get(kvd, b(k))
            if actual != vs:
                report.violation({"check": "verbatim-at-write", "key": str(k), "expected": str(vs), "actual": str(actual),
                                  "what": "custom_metadata given at write time is not returned verbatim", "sig": "verbatim"})
        for pr in text_problems(kvd, given_text):
            report.violation({"check": "verbatim-at-write", "what": pr, "sig": "verbatim-text"})
        report.case(("write", kind, tuple(sorted((str(k), str(v)) for k, v in init.items()))), nontrivial=bool(init))
        loc, flen, consumed, fmd0, bytes0 = read_footer(target, is_meta)
        model = dict(kv_list(fmd0))
        other0 = fmd0
        steps = 5 if ctx.quick else 10
        for step in range(steps):
            upd, mode = updates_for(rng, model, step, steps, directed=(True if s < 2 else "big" if s == 2 else "empty-add" if s == 3 else False))
            before = open(target, "rb").read()
            loc_b, flen_b, cons_b, fmd_b, _ = read_footer(target, is_meta)
            kv_before = kv_list(fmd_b)
            rec = {"check": "update", "file": kind, "mode": mode, "update": {str(k): (None if v is None else str(v)[:40]) for k, v in upd.items()},
                   "history_step": step}
            try:
                writer.update_file_custom_metadata(target, dict(upd))
                err = None
            except Exception as e:  # noqa
                err = canon_err(e) + " " + short_tb(e)
            after = open(target, "rb").read()
            # plain model of the dict
            for k, v in upd.items():
                kb = b(k)
                if v is None:
                    model.pop(kb, None)
                    given_text.pop(kb, None)
                else:
                    model[kb] = b(v)
                    given_text.pop(kb, None)
                    if isinstance(v, str):
                        given_text[kb] = v
            if err:
                report.violation({**rec, "what": "update raised: " + err[:200], "sig": "update-raised"})
                break
            # ---- oracle
            problems = []
            delta = None
            try:
                loc_a, flen_a, cons_a, fmd_a, _ = read_footer(target, is_meta)
                delta = flen_a - flen_b if cons_a == flen_a else cons_a - flen_b
                kva = kv_list(fmd_a)
                if dict(kva) != model or len(kva) != len(dict(kva)):
                    problems.append(f"key-values differ from the dict model: {kva[:6]} vs {sorted(model.items())[:6]}")
                if cons_a != flen_a:
                    problems.append(f"not strictly framed: recorded footer length {flen_a} but the footer struct ends after {cons_a} bytes")
                if loc_a != loc_b:
                    problems.append(f"footer moved from {loc_b} to {loc_a}")
                # other fields unchanged
                fa, fb = fmd_a.copy(), fmd_b.copy()
                fa.key_value_metadata = None
                fb.key_value_metadata = None
                if not ce.dict_eq(fa.contents, fb.contents):
                    problems.append("a footer field other than key_value_metadata changed")
                if after[:loc_b] != before[:loc_b]:
                    problems.append("bytes before the footer changed")
                pf2 = fastparquet.ParquetFile(path)
                got = pf2.to_pandas()
                if got["x"].tolist() != df["x"].tolist() or got["s"].tolist() != df["s"].tolist():
                    problems.append("data read back differs")
                kvd = pf2.key_value_metadata
                if {b(k): b(v) for k, v in kvd.items()} != model:
                    problems.append("ParquetFile.key_value_metadata differs from the dict model")
                problems += text_problems(kvd, given_text)
            except Exception as e:  # noqa
                # measure the intended size delta from the kv change to describe the failure
                problems.append("file unreadable after update: " + canon_err(e) + " " + str(e)[:120])
                est = sum(len(b(v)) for v in upd.values() if v is not None)
                rec["len_after_minus_before"] = len(after) - len(before)
            if problems:
                newlen_kv = None
                report.violation({**rec, "what": "; ".join(problems)[:400], "delta": delta,
                                  "shrink_1_7": bool(problems and "unreadable" in problems[-1] and len(after) == len(before)),
                                  "sig": "update:" + problems[0][:30]})
            nontrivial = delta not in (None, 0)
            report.case(("upd", kind, delta, mode), nontrivial,
                        sample={"stream": "footer.rewrite", "file": kind, "mode": mode, "delta": delta, "update": rec["update"]}
                        if nontrivial and len(report.samples) < 5 else None)
            report.count("mode:" + mode)
            if delta is not None:
                report.count("delta:" + ("grow" if delta > 0 else "same" if delta == 0 else f"shrink{min(-delta, 17)}"))
            # ---- correspondence requests
            if ctx.model_ok:
                kvm_s = "[" + ",".join(f"[{hexs(k)},{hexs(v)}]" for k, v in kv_before) + "]"
                upd_s = "[" + ",".join(f"[{hexs(b(k))}]" if v is None else f"[{hexs(b(k))},{hexs(b(v))}]" for k, v in upd.items()) + "]"
                # real kv merge through util.update_custom_metadata on a copy of the old footer
                fcopy = ce.from_buffer(np.frombuffer(before[loc_b:len(before) - 8], dtype="uint8"), "FileMetaData")
                util.update_custom_metadata(fcopy, dict(upd))
                real_kv = kv_list(fcopy)
                reqs.append((f"footer kv kvm={kvm_s} upd={upd_s}", ("kv", real_kv), rec))
                report.stream("footer.kv")
                if not problems or "unreadable" not in problems[-1]:
                    pass
                # bytes: model rewrite with nf = serialisation of the merged footer by the real serialiser
                nf = bytes(fcopy.to_bytes())
                reqs.append((f"footer rewrite trunc={truncates_model} meta={1 if is_meta else 0} file={hexs(before)} nf={hexs(nf)}",
                             ("bytes", after, loc_b), rec))
                report.stream("footer.rewrite")
            if problems and any("unreadable" in p for p in problems):
                break
        if s < 6 and os.path.exists(target):
            # directed: an update that is refused (a value that is neither text nor bytes) is an update too: it touches nothing
            before = open(target, "rb").read()
            rec = {"check": "refused-update", "file": kind, "update": {"count": "3 (int)"}, "history_step": steps}
            ctx.crumb(rec)
            try:
                writer.update_file_custom_metadata(target, {"count": 3})
                refused = False
            except Exception:  # noqa
                refused = True
            after = open(target, "rb").read()
            if refused and after != before:
                report.violation({**rec, "what": f"the update was refused but the file changed: {len(before)} bytes before, {len(after)} after"
                                  + ("" if after[-4:] == b"PAR1" else "; it no longer ends with the PAR1 magic"), "sig": "refused-update-changed-file"})
            report.case(("refused-upd", kind, refused), True)
            report.count("refused-update:" + ("raised" if refused else "accepted"))
        shutil.rmtree(path, ignore_errors=True) if os.path.isdir(path) else os.remove(path)
    # ---- the dict given as custom_metadata is the caller's: a write must not add to it, and what it adds for ONE frame (PANDAS_ATTRS)
    # must not reach the file of another frame written with the same dict
    try:
        import fastparquet
        import pandas as _pd
        wd = ctx.workdir("c16")
        given = {"who": "me", "k": "v"}
        f1 = _pd.DataFrame({"a": [1, 2]})
        f1.attrs = {"origin": "first frame"}
        p1, p2 = os.path.join(wd, "attrs1.parq"), os.path.join(wd, "attrs2.parq")
        fastparquet.write(p1, f1, custom_metadata=given)
        fastparquet.write(p2, _pd.DataFrame({"a": [3]}), custom_metadata=given)
        probs = []
        if given != {"who": "me", "k": "v"}:
            probs.append(f"write() changed the caller's custom_metadata dict to {given}")
        a2 = fastparquet.ParquetFile(p2).to_pandas().attrs
        if a2:
            probs.append(f"a frame without attrs written with the same custom_metadata dict reads back attrs {a2}")
        kv2 = fastparquet.ParquetFile(p2).key_value_metadata
        if kv2.get("who") != "me" or kv2.get("k") != "v":
            probs.append(f"given keys not kept verbatim: {dict(kv2)}")
        if fastparquet.ParquetFile(p1).to_pandas().attrs != {"origin": "first frame"}:
            probs.append("the frame's own attrs did not come back")
        if probs:
            report.violation({"check": "custom-metadata-dict", "what": "; ".join(probs)[:300], "sig": "kv:caller-dict"})
        report.case(("custom-metadata-dict",), True)
        for p_ in (p1, p2):
            os.path.exists(p_) and os.remove(p_)
    except Exception as e:  # noqa
        report.violation({"check": "custom-metadata-dict", "what": "raised " + canon_err(e) + " " + str(e)[:100], "sig": "kv:caller-dict:raised"})
    if reqs:
        reps = ctx.driver.ask([r[0] for r in reqs])
        for (req, exp, rec), rep in zip(reqs, reps):
            head, dd = parse_reply(rep)
            if exp[0] == "kv":
                got = [(unhex(p[0]), unhex(p[1])) for p in parse_list(dd["out"])] if head == "ok" else None
                if got != exp[1]:
                    report.corr_break("footer.kv", {**rec, "model": str(got)[:300], "real": str(exp[1])[:300], "explained_by_known": False})
            else:
                got = unhex(dd["out"]) if head == "ok" else None
                if got != exp[1] or int(dd.get("loc", -1)) != exp[2]:
                    report.corr_break("footer.rewrite", {**rec, "model_len": None if got is None else len(got), "real_len": len(exp[1]),
                                                         "first_diff": next((i for i, (x, y) in enumerate(zip(got or b"", exp[1])) if x != y), None),
                                                         "explained_by_known": False})


def search(ctx, report):
    old = ctx.tier
    ctx.tier = "thorough"
    try:
        run(ctx, report)
    finally:
        ctx.tier = old


def replay(ctx, rec, report):
    print("replay: re-running the C16 generator with the recorded seed reproduces the history; record:", rec.get("what"))
    r2 = type(report)(report.prop, report.tier, report.seed)
    run(ctx, r2)
    return any(v.get("sig") == rec.get("sig") for v in r2.violations)
