"""C14 — opening or merging many files yields their concatenation.

1. `merge.paths`: util.analyse_paths vs Impl.Merge.analysePaths, exhaustively over all lists of <=3
   paths of depth <=3 over a 2-letter alphabet (root inferred and root given), plus seeded longer
   lists.  The property itself (base is a prefix of every path; base/rel reconstructs the path) is
   evaluated directly on the real function.
2. Real files: 1..k single files (and hive sub-datasets) written with the same column names/dtypes,
   independent category sets, row counts incl. 0, several codecs, in flat / hive / drill directory
   shapes, opened through a list (sorted and unsorted order, >=3 files so that the concurrent-footer
   path is taken), a directory, a glob, and merge(); oracle: rows = concatenation in the given
   order, num_rows, partition columns from directory names, every categorical cell keeps its label,
   schema mismatch rejected when verification is requested.
"""
import glob as _glob, itertools, os, shutil
import numpy as np
import pandas as pd
from .common import parse_reply, parse_list, canon_err, hexs
from .gen_tables import gen_column, diff_frames

ASSUMPTIONS = ["per-file decode is C01/C03's subject"]


def seg_hex(s):
    return "x" + s.encode().hex()


def paths_req(paths, root=None):
    ps = "[" + ",".join("[" + ",".join(seg_hex(s) for s in p.split("/")) + "]" for p in paths) + "]"
    r = "" if root is None else " root=[" + ",".join(seg_hex(s) for s in root.split("/")) + "]"
    return f"merge paths paths={ps}{r}"


def analyse(ctx, report):
    from fastparquet.util import analyse_paths
    segs = ["a", "b"]
    allpaths = ["/".join(t) for n in (1, 2, 3) for t in itertools.product(segs, repeat=n)]
    lists = [[p] for p in allpaths] + [list(t) for t in itertools.product(allpaths, repeat=2)]
    if not ctx.quick:
        lists += [list(t) for t in itertools.product(allpaths, repeat=3)]
    else:
        rng = ctx.rng
        lists += [[rng.choice(allpaths) for _ in range(3)] for _ in range(400)]
    reqs, reals = [], []
    for pl in lists:
        try:
            base, rel = analyse_paths(pl)
            real = (base, rel)
            # property: reconstruction and prefix
            for p, r in zip(pl, rel):
                joined = (base + "/" + r) if base else r
                if joined != p or r == "":
                    report.violation({"check": "analyse_paths", "paths": pl, "base": base, "rel": rel, "sig": "analyse-paths",
                                      "what": f"analyse_paths({pl}) = ({base!r}, {rel}) does not reconstruct {p!r}"})
                    break
        except Exception as e:  # noqa
            real = "err:" + canon_err(e)
        reqs.append(paths_req(pl))
        reals.append(real)
        report.case(("paths", tuple(pl)), nontrivial=len(pl) >= 2)
        report.stream("merge.paths")
    # with explicit root
    for pl in lists[: (300 if ctx.quick else 3000)]:
        for root in ("a", "a/b", "b"):
            try:
                base, rel = analyse_paths(pl, root=root)
                real = (base, rel)
            except AssertionError:
                real = "err:assertion"
            except Exception as e:  # noqa
                real = "err:" + canon_err(e)
            reqs.append(paths_req(pl, root))
            reals.append(real)
            report.evaluations += 1
    if ctx.model_ok:
        reps = ctx.driver.ask(reqs)
        for req, real, rep in zip(reqs, reals, reps):
            head, dd = parse_reply(rep)
            if head == "ok":
                b = "/".join(bytes.fromhex(s[1:]).decode() for s in parse_list(dd["base"]))
                r = ["/".join(bytes.fromhex(s[1:]).decode() for s in p) for p in parse_list(dd["rel"])]
                m = (b, r)
            else:
                m = "err:" + dd.get("kind", "?")
            if m != real:
                report.corr_break("merge.paths", {"request": req[:200], "model": str(m)[:200], "real": str(real)[:200], "explained_by_known": False})


def files(ctx, report):
    import fastparquet
    from fastparquet import writer
    rng = ctx.rng
    nsc = 12 if ctx.quick else 80
    for sc in range(nsc):
        shape = ["flat", "flat", "hive", "drill", "flat-cat", "flat-catdiff", "subdatasets", "flat-catprefix"][sc % 8]
        k = rng.choice([1, 2, 3, 4, 5]) if sc % 8 != 1 else 4
        if sc in (2, 3):
            k = 4            # directed: hive / drill trees of >= 3 files with two top-level directories
        if sc in (10, 11):
            k = 1            # directed: hive / drill tree with ONE top-level directory (opened by directory)
        if shape == "flat-catprefix":
            k = 3
        root = os.path.join(ctx.workdir("c14"), f"s{sc}")
        shutil.rmtree(root, ignore_errors=True)
        os.makedirs(root)
        kinds = rng.sample(["int64", "float_nan", "str", "bool", "dt_ns"], 2)
        frames, paths = [], []
        start = 0
        for i in range(k):
            n = rng.choice([0, 1, 4, 9]) if i > 0 else rng.choice([1, 4, 9])
            df = pd.DataFrame({"rid": np.arange(start, start + n, dtype="int64")})
            start += n
            for j, kd in enumerate(kinds):
                df[f"c{j}"] = gen_column(rng, kd, n, rng.choice(["none", "some"])).values
            if shape == "flat-catprefix":
                # dictionaries that are prefixes of one another and grow past the int8 code range:
                # every code means the same label in every file
                ncat = [3, 5, 200][i]
                cats = [f"L{j:03d}" for j in range(ncat)]
                n = max(n, 2)
                df = df.iloc[:0] if False else pd.DataFrame({"rid": np.arange(start - len(df), start - len(df) + n, dtype="int64")})
                start = int(df["rid"].iloc[-1]) + 1
                for j, kd in enumerate(kinds):
                    df[f"c{j}"] = gen_column(rng, kd, n, "none").values
                df["cat"] = pd.Categorical([cats[rng.randrange(ncat)] for _ in range(n - 1)] + [cats[-1]], categories=cats)
            elif "cat" in shape:
                cats = ["x", "y", "z"] if shape == "flat-cat" else rng.choice([["x", "y"], ["y", "x"], ["x", "y", "w"], ["q", "x"]])
                df["cat"] = pd.Categorical([rng.choice(cats) for _ in range(n)], categories=cats)
            if shape == "hive":
                sub = f"p={i % 2}/q=v{i}"
            elif shape == "drill":
                sub = f"g{i % 2}/h{i}"
            else:
                sub = ""
            oe = {f"c{j}": "utf8" for j, kd in enumerate(kinds) if kd == "str"}      # same stored type in every file
            oe = dict(object_encoding={**oe, **({"cat": "infer"} if "cat" in df.columns else {})}) if oe else {}
            name = f"f{rng.choice('zyxwv')}{i}.parquet"       # names not in creation order
            if shape == "flat-catprefix":
                name = f"f{i}.parquet"
            os.makedirs(os.path.join(root, sub), exist_ok=True)
            fn = os.path.join(root, sub, name)
            if shape == "subdatasets":
                fn = os.path.join(root, f"sub{i}")
                fastparquet.write(fn, df, file_scheme="hive", write_index=False, row_group_offsets=[0, n // 2] if n > 1 else [0], **oe)
            else:
                fastparquet.write(fn, df, write_index=False, compression=rng.choice([None, "SNAPPY", "GZIP"]),
                                  row_group_offsets=[0, n // 2] if n > 1 else [0], **oe)
            frames.append(df)
            paths.append(fn)
        order = list(range(k))
        if shape != "flat-catprefix":      # there the widest dictionary has to be read last (see C14-categorical-relabel)
            rng.shuffle(order)
        given = [paths[i] for i in order]
        exp = pd.concat([frames[i] for i in order], ignore_index=True)
        modes = ["list", "list-sorted", "merge"] + (["dir", "glob"] if shape != "subdatasets" else [])
        if shape != "subdatasets":
            modes.append("list-fs")       # the same list through an fsspec filesystem (footers gathered in one pass for >= 3 files)
        firstdirs = {os.path.relpath(p, root).split("/")[0] for p in paths}
        must_give_root = shape in ("hive", "drill") and len(firstdirs) < 2      # the top level cannot be inferred from one branch
        for mode in modes:
            give_root = shape in ("hive", "drill") and (must_give_root or rng.random() < 0.4)
            rkw = {"root": root} if give_root else {}
            rec = {"check": "open-many", "shape": shape, "files": k, "mode": mode, "rows": [len(frames[i]) for i in order], "root_given": give_root}
            ctx.crumb(rec)
            try:
                if mode == "list":
                    pf = fastparquet.ParquetFile(given, **rkw)
                    want = exp
                elif mode == "list-fs":
                    import fsspec
                    pf = fastparquet.ParquetFile(given, fs=fsspec.filesystem("file"), **rkw)
                    want = exp
                elif mode == "list-sorted":
                    pf = fastparquet.ParquetFile(sorted(paths), **rkw)
                    want = pd.concat([frames[paths.index(p)] for p in sorted(paths)], ignore_index=True)
                elif mode == "merge":
                    for f in ("_metadata", "_common_metadata"):
                        if os.path.exists(os.path.join(root, f)):
                            os.remove(os.path.join(root, f))
                    pf = writer.merge(given, **rkw)
                    want = exp
                    # and the written summary re-opens to the same
                    pf2 = fastparquet.ParquetFile(root)
                    if [int(x) for x in pf2.to_pandas(columns=["rid"])["rid"]] != [int(x) for x in want["rid"]]:
                        report.violation({**rec, "what": "the _metadata written by merge() does not re-open to the same rows", "sig": f"merge-reopen:{shape}"})
                    for f in ("_metadata", "_common_metadata"):
                        if os.path.exists(os.path.join(root, f)):
                            os.remove(os.path.join(root, f))
                elif mode == "dir":
                    pf = fastparquet.ParquetFile(root)
                    listed = sorted(paths)
                    want = pd.concat([frames[paths.index(p)] for p in listed], ignore_index=True)
                else:
                    pat = os.path.join(root, "**", "*.parquet") if shape in ("hive", "drill") else os.path.join(root, "*.parquet")
                    pat = os.path.join(root, "*", "*", "*.parquet") if shape in ("hive", "drill") else pat
                    pf = fastparquet.ParquetFile(pat, **rkw)
                    listed = sorted(paths)
                    want = pd.concat([frames[paths.index(p)] for p in listed], ignore_index=True)
                got = pf.to_pandas()
            except Exception as e:  # noqa
                report.violation({**rec, "what": f"opening raised: {canon_err(e)} {str(e)[:120]}", "sig": f"raised:{shape}:{mode}:{canon_err(e)}"})
                continue
            probs = []
            if pf.count() != len(want) or pf.fmd.num_rows != len(want):
                probs.append(f"row count {pf.count()} / num_rows {pf.fmd.num_rows} but the files hold {len(want)} rows")
            cols = list(want.columns)
            if [int(x) for x in got["rid"]] != [int(x) for x in want["rid"]]:
                probs.append(f"rows come back as rid {[int(x) for x in got['rid']][:10]} instead of {[int(x) for x in want['rid']][:10]} (order of the given files)")
            else:
                dd = diff_frames(want[cols].reset_index(drop=True), got[cols].reset_index(drop=True))
                if dd:
                    probs.append("; ".join(dd)[:200])
            if shape == "hive":
                if "p" not in got.columns or "q" not in got.columns:
                    probs.append("partition columns p, q were not inferred from the directory names")
            if shape == "drill":
                if "dir0" not in got.columns:
                    probs.append("drill levels were not inferred as dir0, dir1")
                # exactly the directory levels between the root and the files, with the directory names as values
                dcols = sorted(c for c in got.columns if str(c).startswith("dir"))
                if dcols and dcols != ["dir0", "dir1"] and not (must_give_root and not give_root):
                    if not (dcols == ["dir0"] and not give_root and len(firstdirs) < 2):
                        probs.append(f"drill levels came back as {dcols} for files two directories below the root")
                if dcols == ["dir0", "dir1"] and len(got):
                    lv = sorted(set(map(str, got["dir0"].astype(object).tolist())))
                    if any(not v.startswith("g") for v in lv):
                        probs.append(f"dir0 holds {lv[:4]} instead of the first-level directory names")
            if probs:
                is_cat = shape == "flat-catdiff" and all("'cat'" in p for p in probs)
                report.violation({**rec, "what": "; ".join(probs)[:400], "cats": "differ" if is_cat else "n/a",
                                  "sig": f"{shape}:{mode}:{'cat' if is_cat else probs[0][:25]}"})
            report.case(("files", shape, k, mode, tuple(order)), nontrivial=k >= 2, sample=rec if len(report.samples) < 5 and k >= 2 else None)
            report.count("mode:" + mode)
            report.count("shape:" + shape)
        # schema verification
        if k >= 2 and shape == "flat":
            odd = os.path.join(root, "odd.parquet")
            fastparquet.write(odd, pd.DataFrame({"rid": np.arange(3, dtype="int64"), "other": [1.0, 2.0, 3.0]}), write_index=False)
            try:
                fastparquet.ParquetFile(given + [odd], verify=True)
                report.violation({"check": "verify", "shape": shape, "what": "files with different schemas were accepted with verify=True", "sig": "verify-accepted"})
            except ValueError:
                pass
            except Exception as e:  # noqa
                report.notes.append("verify raised " + canon_err(e))
            report.evaluations += 1
        shutil.rmtree(root, ignore_errors=True)


def footer_band(ctx, report):
    """files 2..n whose FOOTER LENGTH sweeps across the size the concurrent footer fetch guesses from the first
    file (int(1.4 * first footer)); every length in a band around it, byte by byte"""
    import fastparquet
    rng = ctx.rng
    root = os.path.join(ctx.workdir("c14"), "band")
    shutil.rmtree(root, ignore_errors=True)
    os.makedirs(root)
    dfs = [pd.DataFrame({"rid": np.arange(3 * i, 3 * i + 3, dtype="int64"), "v": [float(i)] * 3}) for i in range(3)]
    fa, fb, fc = (os.path.join(root, f"{n}.parquet") for n in "abc")
    fastparquet.write(fa, dfs[0], write_index=False)
    fastparquet.write(fc, dfs[2], write_index=False)
    guess = int(1.4 * fastparquet.ParquetFile(fa)._head_size)

    def flen(path):
        with open(path, "rb") as f:
            f.seek(-8, 2)
            return int.from_bytes(f.read(4), "little")
    fastparquet.write(fb, dfs[1], write_index=False, custom_metadata={"pad": ""})
    base = flen(fb)
    lo, hi = (guess - 14, guess + 6) if ctx.quick else (guess - 40, guess + 40)
    for target in range(lo, hi + 1):
        pad = target - base
        if pad < 0:
            continue
        fastparquet.write(fb, dfs[1], write_index=False, custom_metadata={"pad": "x" * pad})
        got_len = flen(fb)
        if got_len != target:          # the length varint grew: adjust once
            fastparquet.write(fb, dfs[1], write_index=False, custom_metadata={"pad": "x" * max(pad - (got_len - target), 0)})
            got_len = flen(fb)
        rec = {"check": "open-many", "shape": "footer-band", "files": 3, "mode": "list", "footer_len": got_len, "guess": guess}
        ctx.crumb(rec)
        try:
            pf = fastparquet.ParquetFile([fa, fb, fc])
            rids = [int(x) for x in pf.to_pandas()["rid"]]
            nrg = len(pf.row_groups)
        except Exception as e:  # noqa
            report.violation({**rec, "what": f"opening three files raised {canon_err(e)} {str(e)[:100]} when the second file's footer is {got_len} bytes "
                                             f"(fetch guess {guess})", "sig": "footer-band:raised"})
            report.case(("band", got_len), True)
            continue
        if rids != list(range(9)) or nrg != 3:
            report.violation({**rec, "what": f"{nrg} row groups / rows {rids} instead of 3 / 0..8 when the second file's footer is {got_len} bytes",
                              "sig": "footer-band:wrong"})
        report.case(("band", got_len), True, sample=rec if got_len == guess else None)
        report.count("shape:footer-band")
    shutil.rmtree(root, ignore_errors=True)


def run(ctx, report):
    report.rule = ("(1) exhaustive path lists (<=3 paths, depth<=3, 2-letter alphabet; root inferred / given) for analyse_paths; (2) lists of "
                   "1..5 files / sub-datasets in flat, hive, drill shapes with independent category sets, opened via list (given and sorted "
                   "order), directory, glob, merge(); non-trivial = >=2 files; distinct by (shape, files, mode, order); (3) three files where the second file's footer length takes "
                   "every value in a band around the size guessed by the concurrent footer fetch")
    analyse(ctx, report)
    files(ctx, report)
    footer_band(ctx, report)
    relative_list(ctx, report)
    mixed_writers(ctx, report)
    subdir_with_root(ctx, report)


def mixed_writers(ctx, report):
    """a file of fastparquet's own followed by a file of another writer (level blocks laid out differently): the list reads as their
    concatenation - shortcuts that are valid for fastparquet's own layout must not be applied to the foreign file"""
    import fastparquet, random
    from . import specwriter as sw
    wd = os.path.join(ctx.workdir("c14"), "mixed")
    shutil.rmtree(wd, ignore_errors=True)
    os.makedirs(wd)
    rec = {"check": "files", "mode": "mixed-writers", "shape": "flat", "files": 2}
    ctx.crumb(rec)
    try:
        f1, f2 = os.path.join(wd, "a.parquet"), os.path.join(wd, "b.parquet")
        fastparquet.write(f1, pd.DataFrame({"x": pd.array([1, 2, 3], dtype="Int64")}), has_nulls=True)
        n = 20
        col = sw.Column([b"x"], 2, 1, 0, [(1, 0, 100 + r) for r in range(n)])
        sw.write_file(f2, [col], [(0, n)], {"cols": [{"codec": "UNCOMPRESSED", "v2": False, "def_runs": "bp", "page_bounds": [], "stats": True}]},
                      random.Random(1))
        want = [1, 2, 3] + list(range(100, 100 + n))
        for order, files, exp in (("own-first", [f1, f2], want), ("foreign-first", [f2, f1], want[3:] + want[:3])):
            got = [int(v) for v in fastparquet.ParquetFile(files).to_pandas()["x"].tolist()]
            if got != exp:
                report.violation({**rec, "order": order, "what": f"{order}: rows {got[:8]}.. read, the two files hold {exp[:8]}..", "sig": "mixed-writers:" + order})
    except Exception as e:  # noqa
        report.violation({**rec, "what": "opening a list of files of two writers raised " + canon_err(e) + " " + str(e)[:80], "sig": "mixed-writers:raised"})
    report.case(("mixed-writers",), True)
    shutil.rmtree(wd, ignore_errors=True)


def subdir_with_root(ctx, report):
    """a sub-directory of a hive tree opened with the caller's `root`: the partition columns above it come back, too"""
    import fastparquet
    wd = os.path.join(ctx.workdir("c14"), "subroot")
    shutil.rmtree(wd, ignore_errors=True)
    rec = {"check": "files", "mode": "subdir-with-root", "shape": "hive", "files": 4}
    ctx.crumb(rec)
    try:
        df = pd.DataFrame({"v": np.arange(8, dtype="int64"), "a": [1, 1, 1, 1, 2, 2, 2, 2], "b": ["x", "x", "y", "y", "x", "x", "y", "y"]})
        fastparquet.write(wd, df, file_scheme="hive", partition_on=["a", "b"], write_index=False)
        os.remove(os.path.join(wd, "_metadata"))
        os.remove(os.path.join(wd, "_common_metadata"))
        for sub, want_rows in (("a=1", [0, 1, 2, 3]), (os.path.join("a=2", "b=y"), [6, 7])):
            got = fastparquet.ParquetFile(os.path.join(wd, sub), root=wd).to_pandas()
            probs = []
            if sorted(int(x) for x in got["v"]) != want_rows:
                probs.append(f"rows {sorted(got['v'].tolist())} read, the sub-directory holds {want_rows}")
            for pc in ("a", "b"):
                if pc not in got.columns:
                    probs.append(f"partition column {pc} (a directory level between the given root and the files) is missing")
                else:
                    exp = df[df["v"].isin(want_rows)].set_index("v")[pc].astype(str).to_dict()
                    gotm = {int(v): str(x) for v, x in zip(got["v"], got[pc])}
                    if gotm != exp:
                        probs.append(f"partition column {pc} = {gotm}, written {exp}")
            if probs:
                report.violation({**rec, "sub": sub, "what": "; ".join(probs)[:300], "sig": "subdir-root:" + sub[:5]})
    except Exception as e:  # noqa
        report.violation({**rec, "what": "raised " + canon_err(e) + " " + str(e)[:80], "sig": "subdir-root:raised"})
    report.case(("subdir-with-root",), True)
    shutil.rmtree(wd, ignore_errors=True)


def relative_list(ctx, report):
    """three or more files named by RELATIVE paths, in an order of the caller's choosing: their concatenation in that order"""
    import fastparquet
    wd = os.path.join(ctx.workdir("c14"), "rel")
    shutil.rmtree(wd, ignore_errors=True)
    os.makedirs(wd)
    cwd = os.getcwd()
    rec = {"check": "files", "mode": "relative-list", "shape": "flat", "files": 4}
    ctx.crumb(rec)
    try:
        os.chdir(wd)
        for i in range(4):
            fastparquet.write(f"f{i}.parquet", pd.DataFrame({"a": np.arange(i * 10, i * 10 + 3, dtype="int64")}))
        names = ["f2.parquet", "f0.parquet", "f3.parquet", "f1.parquet"]
        want = [20, 21, 22, 0, 1, 2, 30, 31, 32, 10, 11, 12]
        try:
            got = fastparquet.ParquetFile(names).to_pandas()["a"].tolist()
            if got != want:
                report.violation({**rec, "what": f"rows {got} read, the files in the given order hold {want}", "sig": "relative-list:order"})
        except Exception as e:  # noqa
            report.violation({**rec, "what": "opening a list of relative paths raised " + canon_err(e) + " " + str(e)[:80], "sig": "relative-list:raised"})
    finally:
        os.chdir(cwd)
    report.case(("relative-list",), True)
    shutil.rmtree(wd, ignore_errors=True)


def search(ctx, report):
    old = ctx.tier
    ctx.tier = "thorough"
    try:
        run(ctx, report)
    finally:
        ctx.tier = old


def replay(ctx, rec, report):
    r2 = type(report)(report.prop, report.tier, report.seed)
    run(ctx, r2)
    return any(v.get("sig") == rec.get("sig") for v in r2.violations)
