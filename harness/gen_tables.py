"""Seeded generation of DataFrames over fastparquet's supported dtypes, and value-level comparison
that is independent of fastparquet (Appendix C of DESIGN.md)."""
import math
import numpy as np
import pandas as pd

KINDS = ["bool", "int8", "int16", "int32", "int64", "uint8", "uint16", "uint32", "uint64",
         "float32", "float64", "str", "bytes", "dt_ns", "dt_us", "dt_ms", "dt_s", "dt_tz", "td",
         "cat_str", "cat_int", "Int64", "Int32", "UInt16", "boolean", "float_nan"]

WORDS = ["", "a", "b", "ab", "é", "z", "B", "longer text", "ß∂", "0", "1", "x=y"]


def null_mask(rng, n, pattern):
    if pattern == "none" or n == 0:
        return [False] * n
    if pattern == "all":
        return [True] * n
    if pattern == "first":
        return [i == 0 for i in range(n)]
    if pattern == "last":
        return [i == n - 1 for i in range(n)]
    return [rng.random() < 0.3 for _ in range(n)]


def gen_column(rng, kind, n, pattern="none"):
    """returns a pandas Series"""
    m = null_mask(rng, n, pattern)
    if kind == "bool":
        return pd.Series(np.array([rng.random() < 0.5 for _ in range(n)], dtype=bool))
    if kind in ("int8", "int16", "int32", "int64", "uint8", "uint16", "uint32", "uint64"):
        info = np.iinfo(kind)
        vals = [rng.choice([info.min, info.max, 0, 1, rng.randrange(info.min, info.max + 1)]) for _ in range(n)]
        return pd.Series(np.array(vals, dtype=kind))
    if kind in ("float32", "float64", "float_nan"):
        pool = [0.0, -0.0, 1.5, -2.25, float("inf"), float("-inf"), 1e30 if kind == "float32" else 1e300, 3.0]
        vals = [rng.choice(pool + [rng.random() * 100]) for _ in range(n)]
        vals = [float("nan") if mm else v for v, mm in zip(vals, m)]
        return pd.Series(np.array(vals, dtype="float32" if kind == "float32" else "float64"))
    if kind == "str":
        vals = [None if mm else rng.choice(WORDS) for mm in m]
        return pd.Series(vals, dtype=object)
    if kind == "bytes":
        vals = [None if mm else rng.choice([b"", b"\x00\x01", b"abc", bytes([rng.randrange(256) for _ in range(3)])]) for mm in m]
        return pd.Series(vals, dtype=object)
    if kind in ("dt_ns", "dt_us", "dt_ms", "dt_s", "dt_tz", "dt_tzoff"):
        unit = {"dt_ns": "ns", "dt_us": "us", "dt_ms": "ms", "dt_s": "s", "dt_tz": "ns", "dt_tzoff": "ns"}[kind]
        base = np.datetime64("2020-01-01T00:00:00", unit).astype("int64")
        step = {"ns": 10 ** 9, "us": 10 ** 6, "ms": 10 ** 3, "s": 1}[unit]
        ints = [base + rng.randrange(-10 ** 6, 10 ** 6) * step + (rng.randrange(0, step) if step > 1 else 0) for _ in range(n)]
        # instants at the very end / start of a day and around the epoch (the last representable tick before midnight)
        day = 86400 * step
        edge = [base + day - 1, base + day, base - 1, -1, 0, day - 1, -day, -day - 1]
        for j in range(min(n, len(edge))):
            if j % 2 == 0 or rng.random() < 0.5:
                ints[(j * 3) % n] = edge[j]
        arr = np.array(ints, dtype="int64").astype(f"datetime64[{unit}]") if n else np.array([], dtype=f"datetime64[{unit}]")
        s = pd.Series(arr)
        if any(m):
            s[np.array(m, dtype=bool)] = pd.NaT
        if kind == "dt_tz":
            s = s.dt.tz_localize("UTC").dt.tz_convert(rng.choice(["Europe/Berlin", "UTC", "America/New_York"]))
        if kind == "dt_tzoff":
            # fixed offsets, the first with the sign carried by the minutes only; rows decide which, so every seed sees the first
            import datetime as _dt
            offs = [_dt.timedelta(minutes=-44), _dt.timedelta(hours=5, minutes=30), _dt.timedelta(hours=-3, minutes=-30)]
            s = s.dt.tz_localize("UTC").dt.tz_convert(_dt.timezone(offs[0 if n % 3 != 2 else rng.randrange(1, 3)]))
        return s
    if kind in ("td_ms", "td_s"):
        # timedelta64 of a coarser unit: stored as microseconds, comes back in its own unit with the same durations
        unit = kind[3:]
        ints = [rng.randrange(-10 ** 6, 10 ** 6) for _ in range(n)]
        s = pd.Series(np.array(ints, dtype="int64").astype(f"timedelta64[{unit}]") if n else np.array([], dtype=f"timedelta64[{unit}]"))
        if any(m):
            s[np.array(m, dtype=bool)] = pd.NaT
        return s
    if kind == "td":
        ints = [rng.randrange(-10 ** 9, 10 ** 9) * 1000 for _ in range(n)]   # representable in microseconds
        s = pd.Series(np.array(ints, dtype="int64").astype("timedelta64[ns]") if n else np.array([], dtype="timedelta64[ns]"))
        if any(m):
            s[np.array(m, dtype=bool)] = pd.NaT
        return s
    if kind == "cat_str":
        cats = rng.sample(["c", "b", "a", "d", "zz"], rng.choice([2, 3, 5]))
        vals = [None if mm else rng.choice(cats) for mm in m]
        return pd.Series(pd.Categorical(vals, categories=cats, ordered=rng.random() < 0.3))
    if kind == "cat_wide":
        # more than 127 categories: 16-bit codes
        cats = [f"L{j:03d}" for j in range(300)]
        vals = [None if mm else cats[(7 * i + rng.randrange(0, 3)) % 300] for i, mm in enumerate(m)]
        return pd.Series(pd.Categorical(vals, categories=cats))
    if kind == "cat_int":
        cats = rng.sample([10, 3, 7, 1, 99], rng.choice([2, 3, 5]))
        vals = [None if mm else rng.choice(cats) for mm in m]
        return pd.Series(pd.Categorical(vals, categories=cats))
    if kind in ("Int64", "Int32", "UInt16"):
        info = np.iinfo(kind.lower())
        vals = [pd.NA if mm else rng.choice([info.min, info.max, 0, 5, rng.randrange(-100, 100) % (info.max + 1)]) for mm in m]
        return pd.Series(pd.array(vals, dtype=kind))
    if kind == "boolean":
        vals = [pd.NA if mm else rng.random() < 0.5 for mm in m]
        return pd.Series(pd.array(vals, dtype="boolean"))
    raise ValueError(kind)


_NS_PER = {"ns": 1, "us": 10 ** 3, "ms": 10 ** 6, "s": 10 ** 9, "m": 60 * 10 ** 9, "h": 3600 * 10 ** 9, "D": 86400 * 10 ** 9}


def _exact_ns(x):
    """nanoseconds of a numpy datetime64 / timedelta64 as an unbounded Python int (a wrong instant far outside the
    nanosecond range must compare unequal, not stop the harness)"""
    unit = np.datetime_data(x.dtype)[0]
    return int(x.astype("int64")) * _NS_PER[unit]


def canon_cell(v):
    """canonical, fastparquet-independent rendering of one cell"""
    if v is None or v is pd.NA or v is pd.NaT:
        return ("null",)
    if isinstance(v, (float, np.floating)):
        if math.isnan(v):
            return ("nan",)
        return ("f", float(v).hex())
    if isinstance(v, (bool, np.bool_)):
        return ("b", bool(v))
    if isinstance(v, (int, np.integer)):
        return ("i", int(v))
    if isinstance(v, pd.Timestamp):
        if v is pd.NaT:
            return ("null",)
        return ("ts", _exact_ns(v.asm8))
    if isinstance(v, pd.Timedelta):
        return ("td", _exact_ns(v.asm8))
    if isinstance(v, np.datetime64):
        if np.isnat(v):
            return ("null",)
        return ("ts", _exact_ns(v))
    if isinstance(v, np.timedelta64):
        if np.isnat(v):
            return ("null",)
        return ("td", _exact_ns(v))
    if isinstance(v, bytes):
        return ("y", v.hex())
    if isinstance(v, str):
        return ("s", v)
    if isinstance(v, tuple):
        return v
    return ("o", repr(v))


def cat_values(s):
    """labels of a categorical Series without trusting pandas' take (a corrupted Categorical whose
    codes exceed its categories would crash the interpreter)"""
    codes = np.asarray(s.cat.codes)
    cats = list(s.cat.categories)
    return [None if c < 0 else (cats[c] if c < len(cats) else ("invalid-code", int(c))) for c in codes.tolist()]


def canon_series(s, nan_is_null=True):
    out = []
    for v in s.tolist() if not isinstance(s.dtype, pd.CategoricalDtype) else cat_values(s):
        c = canon_cell(v)
        if nan_is_null and c == ("nan",):
            c = ("null",)
        out.append(c)
    return out


def frame_cells(df, nan_is_null=True):
    return {str(c): canon_series(df[c], nan_is_null) for c in df.columns}


def diff_frames(exp, got, nan_is_null=True, check_order=True):
    """value-level difference between two frames; returns list of problem strings"""
    probs = []
    if [str(c) for c in exp.columns] != [str(c) for c in got.columns]:
        probs.append(f"columns {list(got.columns)} != {list(exp.columns)}")
        return probs
    if len(exp) != len(got):
        probs.append(f"row count {len(got)} != {len(exp)}")
        return probs
    for c in exp.columns:
        a, b = canon_series(exp[c], nan_is_null), canon_series(got[c], nan_is_null)
        if not check_order:
            a, b = sorted(a, key=repr), sorted(b, key=repr)
        if a != b:
            k = next(i for i, (x, y) in enumerate(zip(a, b)) if x != y)
            probs.append(f"column {c!r} row {k}: {b[k]} != {a[k]}")
    return probs
