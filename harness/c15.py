"""C15 — LIST and MAP columns are assembled into the right per-row lists and dicts.

Two layers.
(A) record assembly itself: random well-formed (definition, repetition, value) streams for
    optional/required LIST<optional/required primitive> and MAP leaves, split into 1..k pages at
    ARBITRARY positions (incl. inside a row), are fed page by page to the real
    `_assemble_objects`, chained exactly as `read_col` chains it; the result must equal the
    specification assembly (Spec.Dremel, Lean) of the whole stream - that is the property - and
    the code-shaped Lean model Impl.Assemble must agree with the real function (correspondence).
(B) whole files: nested files produced by the specification-level writer, certified by the Lean
    reader (Spec.File + Spec.Dremel must reproduce the intended rows), are read with
    ParquetFile.to_pandas() in an isolated process and compared row by row.
"""
import os, struct
import numpy as np
import pandas as pd
from .common import parse_reply, parse_list, hexs, canon_err, short_tb
from . import specwriter as sw
from . import wcases
from .c03 import read_isolated

ASSUMPTIONS = ["the oracle files are certified by Spec.File + Spec.Dremel (Lean), not trusted from the Python writer",
               "object columns come back as Python lists / dicts / None"]

PRIMS = [("int32", 1, None), ("int64", 2, None), ("utf8", 6, 0), ("double", 5, None), ("bytes", 6, None)]


def gen_prim(rng, name):
    if name == "int32":
        return rng.choice([0, 1, 7, 2 ** 31 - 1, rng.randrange(0, 1000)])
    if name == "int64":
        return rng.choice([0, 5, 2 ** 40, rng.randrange(0, 10 ** 6)])
    if name == "utf8":
        return rng.choice(["", "a", "bb", "ccc", "é"]).encode()
    if name == "bytes":
        return bytes(rng.randrange(256) for _ in range(rng.choice([0, 1, 3])))
    if name == "double":
        return struct.unpack("<Q", struct.pack("<d", rng.choice([0.0, 1.5, -2.25, 1e10])))[0]


def logical_prim(name, c):
    if c is None:
        return None
    if name in ("int32", "int64"):
        return int(c)
    if name == "utf8":
        return c.decode()
    if name == "bytes":
        return bytes(c)
    if name == "double":
        return struct.unpack("<d", struct.pack("<Q", c))[0]


def gen_rows(rng, n, outer_opt, elem_opt, prim, maxlen):
    """rows: None | list of (value | None)"""
    rows = []
    for _ in range(n):
        r = rng.random()
        if outer_opt and r < 0.2:
            rows.append(None)
        elif r < 0.4:
            rows.append([])
        else:
            k = rng.choice([1, 1, 2, 3, maxlen])
            mode = rng.random()
            rows.append([None if (elem_opt and (mode < 0.15 or rng.random() < 0.3)) else gen_prim(rng, prim) for _ in range(k)])
    return rows


def rows_to_entries(rows, outer_opt, elem_opt):
    o = 1 if outer_opt else 0
    md = o + 1 + (1 if elem_opt else 0)
    out = []
    for row in rows:
        if row is None:
            out.append((0, 0, None))
        elif not row:
            out.append((o, 0, None))
        else:
            for j, e in enumerate(row):
                out.append((md if e is not None else md - 1, 0 if j == 0 else 1, e))
    return out, o, md


def cell_s(c):
    return "n" if c is None else (hexs(c) if isinstance(c, bytes) else str(int(c)))


def parse_rows(s):
    out = []
    for r in parse_list(s):
        if r == "N":
            out.append(None)
        else:
            out.append([None if e == "n" else (bytes.fromhex(e[1:]) if isinstance(e, str) and e.startswith("x") else int(e)) for e in r])
    return out


def norm(v):
    """canonical form of what fastparquet returns in an object cell"""
    if v is None:
        return None
    if isinstance(v, float) and v != v:
        return None
    if isinstance(v, (list, np.ndarray)):
        return [norm(x) for x in v]
    if isinstance(v, dict):
        return {norm(k): norm(x) for k, x in v.items()}
    if isinstance(v, (np.integer,)):
        return int(v)
    if isinstance(v, (np.floating,)):
        return float(v)
    if isinstance(v, (bytes, np.bytes_)):
        return bytes(v)
    return v


# ------------------------------------------------------------------ (A) the assembly kernel

def chain_mode():
    """how read_col advances the row index between pages (regenerated from core.py by the Nested translator)"""
    from .common import VERIF
    try:
        src = open(os.path.join(VERIF, "lean", "PqV", "Gen", "Nested.lean")).read()
    except OSError:
        return None
    if "def chainByZeros : Bool := true" in src:
        return "zeros"
    if "def chainByZeros : Bool := false" in src:
        return "ret"
    return None


def real_assemble(nrows, pages, null, null_val, max_def, prim, mode="zeros"):
    """pages: [(defs, reps, vals)] -> list of rows, chained like read_col; returns ('ok', rows) | ('raised', kind)"""
    from fastparquet import cencoding as encoding
    assign = np.empty(nrows, dtype=object)
    row_idx = 0
    try:
        for defs, reps, vals in pages:
            if prim in ("int32", "int64"):
                val = np.array(vals, dtype="int64" if prim == "int64" else "int32")
            else:
                val = np.empty(len(vals), dtype=object)
                val[:] = vals
            ret = encoding._assemble_objects(assign, np.array(defs, dtype="uint8"), np.array(reps, dtype="uint8"), val, None, False,
                                             null, null_val, max_def, row_idx)
            row_idx = row_idx + sum(1 for r in reps if r == 0) if mode == "zeros" else 1 + ret
    except Exception as e:  # noqa
        return ("raised", canon_err(e) + ":" + type(e).__name__)
    return ("ok", [norm(x) for x in assign])


def layer_a(ctx, report, ncases):
    rng = ctx.rng
    reqs_spec, reqs_impl, cases = [], [], []
    for ci in range(ncases):
        outer_opt, elem_opt = rng.random() < 0.6, rng.random() < 0.6
        prim = rng.choice(["int32", "int64", "utf8"])
        n = rng.choice([1, 2, 3, 5, 8])
        rows = gen_rows(rng, n, outer_opt, elem_opt, prim, rng.choice([2, 4, 6]))
        ents, o, md = rows_to_entries(rows, outer_opt, elem_opt)
        k = rng.choice([1, 1, 2, 3, 4])
        mode = rng.choice(["any", "any", "rows", "inside"])
        positions = list(range(1, len(ents)))
        if mode == "rows":
            positions = [i for i in positions if ents[i][1] == 0]
        elif mode == "inside":
            positions = [i for i in positions if ents[i][1] == 1] or positions
        cuts = sorted(rng.sample(positions, min(k - 1, len(positions))))
        pieces = [ents[a:b] for a, b in zip([0] + cuts, cuts + [len(ents)])]
        pages = [([e[0] for e in p], [e[1] for e in p], [e[2] for e in p if e[0] == md]) for p in pieces]
        inside = any(ents[c][1] == 1 for c in cuts)
        # does some continuation fragment (entries of a page before its first rep==0) hold no value?
        cont_no_value = False
        for p in pieces[1:]:
            frag = []
            for e in p:
                if e[1] == 0:
                    break
                frag.append(e)
            if frag and all(e[0] != md for e in frag):
                cont_no_value = True
        cases.append(dict(rows=rows, pages=pages, o=o, md=md, outer_opt=outer_opt, elem_opt=elem_opt, prim=prim, n=n, cuts=cuts,
                          inside=inside, cont_no_value=cont_no_value))
        vals_all = [e[2] for e in ents if e[0] == md]
        reqs_spec.append(f"nested spec o={o} maxdef={md} defs=[{','.join(str(e[0]) for e in ents)}] reps=[{','.join(str(e[1]) for e in ents)}] "
                         f"vals=[{','.join(cell_s(v) for v in vals_all)}]")
        pg = ",".join(f"[[{','.join(map(str, d))}],[{','.join(map(str, r))}],[{','.join(cell_s(v) for v in vs)}]]" for d, r, vs in pages)
        reqs_impl.append(f"nested impl nrows={n} null={int(outer_opt)} maxdef={md} pages=[{pg}]")
    spec = ctx.driver.ask(reqs_spec) if ctx.model_ok else [None] * ncases
    impl = ctx.driver.ask(reqs_impl) if ctx.model_ok else [None] * ncases
    from .common import isolated_map
    mode = chain_mode()
    if mode is None:
        report.corr_break("nested.impl", {"check": "assemble", "what": "the way read_col chains _assemble_objects over pages is no longer "
                                          "recognised by the Nested translator; layer A cannot mimic it", "sig": "chain-unknown"})
        return
    reals = isolated_map(lambda c: real_assemble(c["n"], c["pages"], c["outer_opt"], c["elem_opt"], c["md"], c["prim"], mode), cases)
    for c, rs, ri, real in zip(cases, spec, impl, reals):
        desc = {"layer": "assemble", "outer_optional": c["outer_opt"], "element_optional": c["elem_opt"], "prim": c["prim"], "rows": c["n"],
                "pages": len(c["pages"]), "split_inside_row": c["inside"], "continuation_without_value": c["cont_no_value"]}
        rec = {"check": "assemble", **desc, "levels": [(p[0], p[1]) for p in c["pages"]]}
        ctx.crumb(rec)
        intended = [None if r is None else list(r) for r in c["rows"]]
        report.case(("asm", str(rec["levels"]), c["prim"], c["outer_opt"]), nontrivial=len(c["pages"]) > 1 or any(r for r in c["rows"] if r),
                    sample=desc if len(report.samples) < 3 else None)
        report.stream("nested.spec")
        if rs is not None:
            head, dd = parse_reply(rs)
            spec_rows = parse_rows(dd["rows"]) if head == "ok" else None
            if spec_rows != intended:
                # the Lean specification and the generator disagree about what the stream encodes: harness/spec problem
                report.corr_break("nested.spec", {**rec, "what": f"Spec.Dremel assembles {spec_rows}, the generator intended {intended}", "sig": "spec-vs-generator"})
                continue
        real_cmp = real if real[0] == "ok" else ("raised",)
        if real_cmp != ("ok", intended):
            report.violation({**rec, "outcome": real[0], "what": f"_assemble_objects over {len(c['pages'])} page(s) gives {str(real[1])[:160]}, "
                                                                 f"record assembly gives {str(intended)[:160]}",
                              "sig": f"assemble:{real[0]}:{c['cont_no_value']}"})
        if ri is not None:
            report.stream("nested.impl")
            head, dd = parse_reply(ri)
            model_out = ("ok", parse_rows(dd["rows"])) if head == "ok" else ("raised",)
            if model_out != real_cmp:
                report.corr_break("nested.impl", {**rec, "what": f"Impl.Assemble gives {str(model_out)[:150]}, the real _assemble_objects {str(real_cmp)[:150]}",
                                   "sig": "model-vs-code:assemble"})


# ------------------------------------------------------------------ (B) whole files

def list_column(name, prim, ptype, conv, outer_opt, elem_opt, rows):
    ents, o, md = rows_to_entries(rows, outer_opt, elem_opt)
    nodes = [{"key": name, "name": name.encode(), "type": None, "rep": 1 if outer_opt else 0, "children": 1, "converted": 3},
             {"key": name + ".list", "name": b"list", "type": None, "rep": 2, "children": 1},
             {"key": name + ".list.element", "name": b"element", "type": ptype, "rep": 1 if elem_opt else 0, "converted": conv}]
    return sw.Column([name.encode(), b"list", b"element"], ptype, md, 1, ents, converted=conv, schema_nodes=nodes)


def map_columns(name, kprim, vprim, outer_opt, val_opt, rows):
    """rows: None | list of (key, value|None)"""
    o = 1 if outer_opt else 0
    kmd, vmd = o + 1, o + 1 + (1 if val_opt else 0)
    kents, vents = [], []
    for row in rows:
        if row is None:
            kents.append((0, 0, None)); vents.append((0, 0, None))
        elif not row:
            kents.append((o, 0, None)); vents.append((o, 0, None))
        else:
            for j, (k, v) in enumerate(row):
                kents.append((kmd, 0 if j == 0 else 1, k))
                vents.append((vmd if v is not None else vmd - 1, 0 if j == 0 else 1, v))
    base = [{"key": name, "name": name.encode(), "type": None, "rep": 1 if outer_opt else 0, "children": 1, "converted": 1},
            {"key": name + ".key_value", "name": b"key_value", "type": None, "rep": 2, "children": 2}]
    kn = {"key": name + ".key_value.key", "name": b"key", "type": kprim[1], "rep": 0, "converted": kprim[2]}
    vn = {"key": name + ".key_value.value", "name": b"value", "type": vprim[1], "rep": 1 if val_opt else 0, "converted": vprim[2]}
    kc = sw.Column([name.encode(), b"key_value", b"key"], kprim[1], kmd, 1, kents, converted=kprim[2], schema_nodes=base + [kn])
    vc = sw.Column([name.encode(), b"key_value", b"value"], vprim[1], vmd, 1, vents, converted=vprim[2], schema_nodes=base + [vn])
    return kc, vc


def layer_b(ctx, report, nfiles):
    rng = ctx.rng
    work = []
    for idx in range(nfiles):
        n = rng.choice([1, 2, 5, 9, 20])
        kind = "list" if idx % 3 != 2 else "map"
        outer_opt = rng.random() < 0.6
        inner_opt = rng.random() < 0.6
        prim = PRIMS[idx % len(PRIMS)]
        rid = sw.Column([b"rid"], 2, 0, 0, [(0, 0, r) for r in range(n)])
        v2 = rng.random() < 0.35
        use_dict = rng.random() < 0.5
        if idx % 7 == 3:
            # directed, whatever the seed: dictionary-encoded pages followed by PLAIN pages in one chunk, v1 and v2 in turn
            use_dict, v2 = True, (idx // 7) % 2 == 0


        k = rng.choice([1, 1, 2, 3])
        cutsr = sorted(set([0, n] + [rng.randrange(0, n + 1) for _ in range(k - 1)]))
        rgs = [(a, b) for a, b in zip(cutsr, cutsr[1:]) if b > a]

        def knobs(col):
            # page cuts are chosen per row group, as indices into that row group's entries
            starts = [i for i, e in enumerate(col.entries) if e[1] == 0] + [len(col.entries)]
            per_rg, inside = [], False
            for (a, b) in rgs:
                ents = col.entries[starts[a]:starts[b]]
                pos = list(range(1, len(ents)))
                if v2:
                    pos = [i for i in pos if ents[i][1] == 0]
                kk = rng.choice([0, 0, 1, 2, 3])
                if idx % 7 == 3:
                    kk = max(kk, 2)
                bs = sorted(rng.sample(pos, min(kk, len(pos))))
                per_rg.append(bs)
                md = col.max_def
                pieces = [ents[x:y] for x, y in zip([0] + bs, bs + [len(ents)])]
                for p in pieces[1:]:
                    frag = []
                    for e in p:
                        if e[1] == 0:
                            break
                        frag.append(e)
                    if frag:
                        inside = True
                        if all(e[0] != md for e in frag):
                            nonlocal_flags["cont_no_value"] = True
            ch = {"codec": rng.choice(["UNCOMPRESSED", "SNAPPY", "ZSTD", "GZIP"]), "v2": v2, "def_runs": rng.choice(["rle", "bp", "mix"]),
                  "rep_runs": rng.choice(["rle", "bp", "mix"]), "page_bounds_rg": per_rg, "stats": False}
            if use_dict:
                ch.update({"dict": True, "dict_data_enc": rng.choice([8, 2]), "index_runs": rng.choice(["rle", "bp", "mix"])})
            if use_dict and any(len(b) >= 1 for b in per_rg) and (rng.random() < 0.35 or idx % 7 == 3):
                # dictionary fallback inside the chunk: dictionary-encoded pages first, PLAIN pages after page `fallback_after`
                ch["fallback_after"] = 1
            if v2:
                ch["v2_compressed"] = rng.random() < 0.7
            if inside:
                nonlocal_flags["inside"] = True
            return ch
        nonlocal_flags = {"inside": False, "cont_no_value": False}
        if kind == "list":
            rows = gen_rows(rng, n, outer_opt, inner_opt, prim[0], rng.choice([2, 4, 7]))
            name = rng.choice(["col", "a_list", "key"])
            col = list_column(name, prim[0], prim[1], prim[2], outer_opt, inner_opt, rows)
            cols = [rid, col]
            chs = [{"codec": "UNCOMPRESSED"}, knobs(col)]
            intended = [None if r is None else [logical_prim(prim[0], e) for e in r] for r in rows]
            cert_expect = {".".join(p.decode() for p in col.path): [None if r is None else list(r) for r in rows]}
        else:
            kprim = PRIMS[rng.choice([0, 1, 2])]
            name = rng.choice(["m", "themap", "key", "value"])
            rows = []
            for _ in range(n):
                r = rng.random()
                if outer_opt and r < 0.2:
                    rows.append(None)
                elif r < 0.4:
                    rows.append([])
                else:
                    ks = []
                    for _ in range(rng.choice([1, 2, 3, 5])):
                        kk = gen_prim(rng, kprim[0])
                        if kk not in ks:
                            ks.append(kk)
                    rows.append([(kk, None if (inner_opt and rng.random() < 0.3) else gen_prim(rng, prim[0])) for kk in ks])
            kc, vc = map_columns(name, kprim, prim, outer_opt, inner_opt, rows)
            cols = [rid, kc, vc]
            chs = [{"codec": "UNCOMPRESSED"}, knobs(kc), knobs(vc)]
            intended = [None if r is None else {logical_prim(kprim[0], k): logical_prim(prim[0], v) for k, v in r} for r in rows]
            cert_expect = {".".join(p.decode() for p in kc.path): [None if r is None else [k for k, _ in r] for r in rows],
                           ".".join(p.decode() for p in vc.path): [None if r is None else [v for _, v in r] for r in rows]}
        path = os.path.join(ctx.workdir("c15"), f"n{idx}.parquet")
        try:
            blob = sw.write_file(path, cols, rgs, {"cols": chs}, rng)
        except Exception as e:  # noqa
            report.notes.append("specwriter failed: " + canon_err(e) + " " + str(e)[:80]) if len(report.notes) < 5 else None
            continue
        inside = nonlocal_flags["inside"]
        desc = {"layer": "file", "kind": kind, "name": name, "rows": n, "row_groups": len(rgs), "outer_optional": outer_opt, "inner_optional": inner_opt,
                "prim": prim[0], "v2": v2, "dict": use_dict, "fallback": any(c.get("fallback_after") is not None for c in chs[1:]), "pages": [[len(b) + 1 for b in ch["page_bounds_rg"]] for ch in chs[1:]], "split_inside_row": inside,
                "continuation_without_value": nonlocal_flags["cont_no_value"],
                "codec": chs[1]["codec"]}
        work.append((path, blob, desc, intended, cert_expect, name))
    cert = wcases.spec_decode_many(ctx, [w[1] for w in work]) if ctx.model_ok else [None] * len(work)
    uncert = 0
    for (path, blob, desc, intended, cert_expect, name), d in zip(work, cert):
        if d is None:
            os.remove(path)
            continue
        ok = "error" not in d
        if ok:
            got = {}
            for (nr, ccols) in d["rgs"]:
                for cname, rows in zip(d["cols"], ccols):
                    got.setdefault(cname, []).extend(rows)
            for cname, exp in cert_expect.items():
                g = [None if r == "N" else [None if e == "n" else (bytes.fromhex(e[1:]) if isinstance(e, str) else int(e)) for e in r] for r in got.get(cname, [])]
                if g != exp:
                    ok = False
                    d = {"error": f"Spec.File/Dremel assembles {cname} as {str(g)[:120]}, intended {str(exp)[:120]}"}
                    break
        if not ok:
            uncert += 1
            report.notes.append(f"file not certified: {d['error'][:200]} :: {desc}") if len(report.notes) < 6 else None
            os.remove(path)
            continue
        rec = {"check": "nested-file", **desc}
        ctx.crumb(rec)
        report.case(("file", str(desc), str(intended)[:200]), nontrivial=True, sample=desc if len(report.samples) < 6 else None)
        report.stream("file.encode")
        report.count("kind:" + desc["kind"])
        res = read_isolated(path)
        os.remove(path)
        if res[0] == "refused" or (res[0] == "raised" and "not implemented" in str(res[2]).lower()):
            report.count("refused")
            continue
        if res[0] in ("raised", "crash"):
            report.violation({**rec, "outcome": res[0], "what": ("reading raised " + " ".join(map(str, res[1:])))[:400] if res[0] == "raised"
                              else f"the interpreter crashed (signal {res[1]})", "sig": f"file:{res[0]}:{desc['kind']}:{str(res[2])[:30] if res[0] == 'raised' else ''}"})
            continue
        df = res[1]
        if name not in df.columns:
            report.violation({**rec, "outcome": "wrong", "what": f"column {name} missing; columns {list(df.columns)}", "sig": "file:missing-column"})
            continue
        got = [norm(v) for v in df[name].tolist()]
        if got != intended:
            bad = [i for i, (a, b) in enumerate(zip(got, intended)) if a != b]
            report.violation({**rec, "outcome": "wrong",
                              "what": f"{len(bad)} row(s) differ (first: row {bad[0] if bad else '?'}: read {str(got[bad[0]] if bad else got)[:120]}, "
                                      f"file encodes {str(intended[bad[0]] if bad else intended)[:120]}); {len(got)} rows read, {len(intended)} encoded",
                              "sig": f"file:wrong:{desc['kind']}:{desc['v2']}:{desc['dict']}:{desc['split_inside_row']}:{desc['continuation_without_value']}"})
    report.extra["files_not_certified"] = uncert


def layer_levels(ctx, report):
    """the regenerated repetition-type tests of SchemaHelper (Gen.SchemaLevels) against the real methods, on every
    path of repetition types up to length 4"""
    import itertools
    from fastparquet import parquet_thrift as pt
    from fastparquet.schema import SchemaHelper
    paths = [p for L in range(1, 5) for p in itertools.product((0, 1, 2), repeat=L)]
    reqs, reals = [], []
    for p in paths:
        # root + a chain of groups ending in a leaf, element j has repetition type p[j]
        els = [pt.SchemaElement(name="schema", num_children=1)]
        names = []
        for j, rt in enumerate(p):
            last = j == len(p) - 1
            nm = f"e{j}"
            names.append(nm)
            els.append(pt.SchemaElement(name=nm, repetition_type=rt, num_children=None if last else 1,
                                        type=pt.Type.INT32 if last else None))
        try:
            h = SchemaHelper(els)
            reals.append((int(bool(h.is_required(names))), int(h.max_definition_level(names)), int(h.max_repetition_level(names))))
        except Exception as e:  # noqa
            reals.append(("exc", canon_err(e), str(e)[:60]))
        reqs.append(f"nested levels path=[{','.join(map(str, p))}]")
    reps = ctx.driver.ask(reqs) if ctx.model_ok else []
    for p, real, rep in zip(paths, reals, reps):
        head, d = parse_reply(rep)
        model = (int(d.get("required", -1)), int(d.get("maxdef", -1)), int(d.get("maxrep", -1))) if head == "ok" else None
        report.stream("nested.levels")
        report.case(("levels", p), nontrivial=len(p) > 1)
        if model != real:
            report.corr_break("nested.levels", {"check": "levels", "path": list(p), "model": str(model), "real": str(real), "explained_by_known": False})
        # the property itself: definition levels are skipped exactly when there are none
        if real[0] != "exc" and bool(real[0]) != (real[1] == 0):
            report.violation({"check": "levels", "path": list(p), "what": f"is_required = {bool(real[0])} but max_definition_level = {real[1]} "
                              "(the level block of a v1 page would be skipped although it exists, or read although it does not)",
                              "sig": "levels:required-vs-maxdef"})
    report.count("level-paths", len(paths))


def run(ctx, report):
    layer_levels(ctx, report)
    report.rule = ("(A) random well-formed level/value streams for optional/required LIST<optional/required primitive>, list lengths 0..7, null "
                   "rows, null elements, cut into 1..4 pages at arbitrary entry positions (any / only row starts / only inside rows), fed to the "
                   "real _assemble_objects chained as read_col does, compared with Spec.Dremel and with the model Impl.Assemble; (B) nested "
                   "LIST and MAP files from the specification-level writer (v1/v2, plain/dictionary, 4 codecs, level run mixtures, page cuts "
                   "incl. inside rows, 1..3 row groups), certified by the Lean reader, read in an isolated process; distinct by level stream "
                   "+ cut positions / file description; non-trivial = more than one page or a non-empty collection")
    layer_a(ctx, report, 400 if ctx.quick else 6000)
    layer_b(ctx, report, 60 if ctx.quick else 700)


def search(ctx, report):
    old = ctx.tier
    ctx.tier = "thorough"
    try:
        run(ctx, report)
    finally:
        ctx.tier = old


def replay(ctx, rec, report):
    r2 = type(report)(report.prop, report.tier, report.seed)
    run(ctx, r2)
    return any(v.get("sig") == rec.get("sig") for v in r2.violations)
