"""C03 — valid flat Parquet files from any writer decode to exactly what they encode.

Files are produced by harness/specwriter.py (a specification-level writer exposing the choices a
conforming writer has) and CERTIFIED by the Lean specification reader: Spec.File must decode each
file to exactly the intended table, otherwise the file is not used.  fastparquet's reader must then
return exactly the logical values and nulls the file encodes, in a dtype of the kind and width the
schema implies - or refuse with an error.  Widths and run patterns are enumerated over the whole
range at small counts; the rest is seeded random.
"""
import math, os, struct
import numpy as np
import pandas as pd
from .common import canon_err, short_tb
from . import specwriter as sw
from . import wcases

ASSUMPTIONS = ["the oracle files are certified by Spec.File (Lean), not trusted from the Python writer",
               "cramjam compresses page payloads for the generated files"]

# (name, ptype, converted, type_length, value generator kind)
TYPES = [
    ("bool", 0, None, 0), ("int32", 1, None, 0), ("int8", 1, 15, 0), ("int16", 1, 16, 0), ("uint8", 1, 11, 0), ("uint16", 1, 12, 0),
    ("uint32", 1, 13, 0), ("date", 1, 6, 0), ("int64", 2, None, 0), ("uint64", 2, 14, 0), ("ts_ms", 2, 9, 0), ("ts_us", 2, 10, 0),
    ("time_us", 2, 8, 0), ("float", 4, None, 0), ("double", 5, None, 0), ("bytes", 6, None, 0), ("utf8", 6, 0, 0), ("flba", 7, None, 5),
    ("int96", 3, None, 0),
    # DECIMAL (converted type 5, scale 2) over every physical type the format allows for it
    ("dec_i32", 1, 5, 0), ("dec_i64", 2, 5, 0), ("dec_flba", 7, 5, 5), ("dec_ba", 6, 5, 0),
]
DEC_SCALE = 2


def gen_value(rng, name, small=False):
    if name == "bool":
        return rng.randrange(2)
    if name in ("int32", "int64"):
        bits = 32 if name == "int32" else 64
        if small:
            return rng.randrange(0, 9) % (1 << bits)
        v = rng.choice([0, 1, -1, -(1 << (bits - 1)), (1 << (bits - 1)) - 1, rng.randrange(-1000, 1000)])
        return v % (1 << bits)
    if name in ("int8", "int16"):
        b = 8 if name == "int8" else 16
        v = rng.choice([0, -1, -(1 << (b - 1)), (1 << (b - 1)) - 1, rng.randrange(-100, 100)])
        return v % (1 << 32)
    if name in ("uint8", "uint16", "uint32"):
        b = {"uint8": 8, "uint16": 16, "uint32": 32}[name]
        return rng.choice([0, 1, (1 << b) - 1, rng.randrange(0, 1 << b)])
    if name == "uint64":
        return rng.choice([0, 1, (1 << 64) - 1, (1 << 63), rng.randrange(0, 1 << 64)])
    if name == "date":
        return rng.randrange(0, 20000)
    if name in ("ts_ms", "ts_us", "time_us"):
        return rng.randrange(0, 10 ** 12)
    if name == "float":
        return struct.unpack("<I", struct.pack("<f", rng.choice([0.0, 1.5, -2.25, 3e10, rng.random()])))[0]
    if name == "double":
        return struct.unpack("<Q", struct.pack("<d", rng.choice([0.0, 1.5, -2.25, 1e300, rng.random()])))[0]
    if name == "bytes":
        return bytes(rng.randrange(256) for _ in range(rng.choice([0, 1, 3, 10])))
    if name == "utf8":
        return rng.choice(["", "a", "bb", "é", "long string here", "ß∂"]).encode("utf8")
    if name == "flba":
        return bytes(rng.randrange(256) for _ in range(5))
    if name.startswith("dec_"):
        v = rng.choice([0, 1, -1, 12345, -7, rng.randrange(-10 ** 8, 10 ** 8)])
        if name == "dec_i32":
            return v % (1 << 32)
        if name == "dec_i64":
            return (v * rng.choice([1, 10 ** 6])) % (1 << 64)
        if name == "dec_flba":
            return v.to_bytes(5, "big", signed=True)
        return v.to_bytes(rng.choice([(v.bit_length() + 8) // 8, 8]), "big", signed=True)
    if name == "int96":
        ns = rng.randrange(0, 86400 * 10 ** 9)
        day = 2440588 + rng.randrange(0, 20000)
        return int.from_bytes(struct.pack("<qI", ns, day), "little")
    raise ValueError(name)


def logical(name, cell):
    """the logical value a physical cell encodes under the column's type (canonical tuple)"""
    if cell is None:
        return ("null",)
    if name == "bool":
        return ("b", bool(cell))
    if name in ("int32", "int8", "int16"):
        v = cell - (1 << 32) if cell >= (1 << 31) else cell
        return ("i", v)
    if name == "int64":
        return ("i", cell - (1 << 64) if cell >= (1 << 63) else cell)
    if name in ("uint8", "uint16", "uint32", "uint64"):
        return ("i", cell)
    if name == "date":
        return ("ts", cell * 86400 * 10 ** 9)
    if name == "ts_ms":
        return ("ts", cell * 10 ** 6)
    if name == "ts_us":
        return ("ts", cell * 10 ** 3)
    if name == "time_us":
        return ("td", cell * 10 ** 3)
    if name == "float":
        f = struct.unpack("<f", struct.pack("<I", cell))[0]
        return ("f", float(f).hex())
    if name == "double":
        f = struct.unpack("<d", struct.pack("<Q", cell))[0]
        return ("f", float(f).hex())
    if name in ("bytes", "flba"):
        return ("y", cell.hex())
    if name == "utf8":
        return ("s", cell.decode("utf8"))
    if name.startswith("dec_"):
        # fastparquet's documented form of a decimal is float64: unscaled integer x 10^-scale
        if name == "dec_i32":
            v = cell - (1 << 32) if cell >= (1 << 31) else cell
        elif name == "dec_i64":
            v = cell - (1 << 64) if cell >= (1 << 63) else cell
        else:
            v = int.from_bytes(cell, "big", signed=True)
        return ("dec", v)
    if name == "int96":
        b = cell.to_bytes(12, "little")
        ns, day = struct.unpack("<qI", b)
        return ("ts", (day - 2440588) * 86400 * 10 ** 9 + ns)
    raise ValueError(name)


def canon_read(v):
    from .gen_tables import canon_cell
    if isinstance(v, (pd.Timestamp, pd.Timedelta)) and v is not pd.NaT:
        f = {"s": 10 ** 9, "ms": 10 ** 6, "us": 10 ** 3, "ns": 1}[v.unit]
        if isinstance(v, pd.Timestamp) and v.tzinfo is not None:
            v = v.tz_convert("UTC").tz_localize(None)
        return ("ts" if isinstance(v, pd.Timestamp) else "td", int(v.asm8.view("i8")) * f)
    c = canon_cell(v)
    if c == ("nan",):
        return ("null",)
    return c


def read_isolated(path, **pf_kw):
    """read the file with fastparquet in a forked child: ('ok', df) | ('refused', msg) | ('raised', kind, msg, tb) | ('crash', signo)"""
    import pickle
    r, w = os.pipe()
    pid = os.fork()
    if pid == 0:
        os.close(r)
        try:
            import fastparquet
            try:
                df = fastparquet.ParquetFile(path, **pf_kw).to_pandas()
                out = ("ok", df)
            except NotImplementedError as e:
                out = ("refused", str(e)[:60])
            except Exception as e:  # noqa
                out = ("raised", canon_err(e), str(e)[:100], short_tb(e)[-200:])
            with os.fdopen(w, "wb") as f:
                pickle.dump(out, f)
        finally:
            os._exit(0)
    os.close(w)
    with os.fdopen(r, "rb") as f:
        data = f.read()
    _, status = os.waitpid(pid, 0)
    if os.WIFSIGNALED(status) or not data:
        return ("crash", os.WTERMSIG(status) if os.WIFSIGNALED(status) else -1)
    return pickle.loads(data)


NS = [0, 1, 7, 8, 9, 17, 40, 100]
CODEC_NAMES = ["UNCOMPRESSED", "UNCOMPRESSED", "SNAPPY", "GZIP", "ZSTD", "BROTLI", "LZ4_RAW"]
DICTABLE = [t for t in TYPES if t[0] != "int96"]
DELTA_TYPES = [t for t in TYPES if t[1] in (1, 2) and t[2] != 5]


def plan(rng, quick):
    """the list of (family, type tuple, forced knobs) the run covers: whole width ranges first, then random"""
    out = []
    for w in range(0, 33):                                   # dictionary index widths 0..32 x run pattern
        for runs in (("rle", "bp", "mix") if not quick else (["rle", "bp", "mix"][w % 3], "bp")):
            out.append(("dict", DICTABLE[(w * 3 + len(out)) % len(DICTABLE)], {"index_width": w, "index_runs": runs}))
    big = [x for x in TYPES if x[0] in ("int32", "int64", "uint32", "ts_us", "double", "bytes")]
    for w in (7, 8, 9, 10, 16):                               # dictionaries that FILL the index range of their width
        for v2 in (False, True):
            for runs in (("mix",) if quick else ("rle", "bp", "mix")):
                # "full": 2^w entries; "most": more than half but not all of them (an index read as a signed
                # value then lands on a different entry, which a full dictionary would hide)
                for fill in ("full", "most"):
                    out.append(("dict", big[(w + len(out)) % len(big)], {"index_width": w, "index_runs": runs, "v2": v2, "dict_fill": fill,
                                                                          "dict_shuffle": True}))
    wide32 = [x for x in DELTA_TYPES if x[0] in ("int32", "uint32")]
    wide64 = [x for x in DELTA_TYPES if x[0] in ("int64", "uint64")]
    for w in range(0, 65):                                   # delta miniblock widths 0..64
        for v2 in ((False, True) if not quick else (bool(w % 2),)):
            t = DELTA_TYPES[w % len(DELTA_TYPES)] if w <= 7 else (wide32 + wide64)[w % 4] if w <= 32 else wide64[w % 2]
            out.append(("delta", t, {"delta_width": w, "v2": v2, "delta_extra": 0}))
    for t in TYPES:                                          # every type: plain, both page versions
        out.append(("plain", t, {"v2": False}))
        out.append(("plain", t, {"v2": True}))
    for runs in ("rle", "bp", "mix"):
        out.append(("rle_bool", TYPES[0], {"bool_runs": runs, "v2": False}))
        out.append(("rle_bool", TYPES[0], {"bool_runs": runs, "v2": True}))
    for codec in ("SNAPPY", "ZSTD", "GZIP"):                  # a dictionary page exactly as long as the data page behind it, compressed
        out.append(("dict", [x for x in TYPES if x[0] == "int32"][0], {"dict_match_page": True, "codec": codec, "v2": False}))
    for codec in ("SNAPPY", "ZSTD"):                          # long, very compressible RLE-boolean pages of MANY runs under v2
        out.append(("rle_bool", TYPES[0], {"bool_runs": "bp", "v2": True, "n_rows": 3000, "bool_pattern": "alt", "codec": codec}))
    for t in [x for x in TYPES if x[0] in ("double", "int64", "utf8", "int32")]:
        for v2 in (False, True):                              # a page of nulls only BETWEEN pages with values
            out.append(("plain", t, {"v2": v2, "null_page_mid": True}))
    nrand = 40 if quick else 1500
    for _ in range(nrand):
        fam = rng.choice(["dict", "dict", "delta", "plain", "plain", "rle_bool"])
        t = rng.choice(DICTABLE if fam == "dict" else DELTA_TYPES if fam == "delta" else TYPES if fam == "plain" else TYPES[:1])
        out.append((fam, t, {}))
    return out


def gen_file(rng, idx, fam, t, forced):
    tname, ptype, conv, tlen = t
    n = NS[idx % len(NS)] if rng.random() < 0.5 else rng.choice(NS)
    if forced.get("index_width", 1) == 0 or "delta_width" in forced or "index_width" in forced:
        n = max(n, rng.choice([1, 9, 40]))
    if forced.get("n_rows"):
        n = forced["n_rows"]
    if forced.get("dict_match_page"):
        n = 65                               # 65 runs of one value each: 1 + 3*65 = 196 bytes = 49 INT32 entries
    optional = rng.random() < 0.6
    if forced.get("bool_pattern") or forced.get("dict_match_page"):
        optional = False
    small = rng.random() < 0.6
    pat = rng.choice(["none", "some", "all", "first", "last", "alt"]) if optional else "none"
    if ("index_width" in forced or "delta_width" in forced) and pat == "all":
        pat = "some"
    pool = None
    if "index_width" in forced:
        k = min(2 ** forced["index_width"], rng.choice([2, 5, 20]))
        if forced.get("dict_fill"):
            k = min(2 ** forced["index_width"], 700)
            if forced["dict_fill"] == "most":
                k = min(2 ** forced["index_width"] - 37, 700)
            n = max(n, 2 * k)
        pool = []
        for _ in range(200 if not forced.get("dict_fill") else 20 * k):
            v = gen_value(rng, tname, small) if not forced.get("dict_fill") else (
                rng.randrange(0, 1 << 31) if ptype in (1, 2) else
                struct.unpack("<Q", struct.pack("<d", rng.random()))[0] if ptype == 5 else bytes(rng.randrange(256) for _ in range(3)))
            if v not in pool:
                pool.append(v)
            if len(pool) >= k:
                break
    elif "delta_width" in forced:
        W = forced["delta_width"]
        bits = 32 if ptype == 1 else 64
        if W == 0:
            step, start = rng.choice([0, 1, 3]), rng.randrange(0, 50)
            seq = [(start + i * step) % (1 << bits) for i in range(n)]
        else:
            hi = 1 << max(W - 1, 0)
            lim = {"int8": 1 << 7, "int16": 1 << 15, "uint8": 1 << 8, "uint16": 1 << 16, "date": 1 << 15}.get(tname, 1 << (bits - 1))
            seq = [rng.randrange(0, min(hi, lim)) for _ in range(n)]
            if seq and rng.random() < 0.7:
                seq[rng.randrange(len(seq))] = min(hi, lim) - 1
        pool = seq
    if forced.get("null_page_mid"):
        n, optional, pat = 12, True, "mid-page"
    cells = []
    for r in range(n):
        isnull = optional and ((pat == "mid-page" and 4 <= r < 8) or pat == "all" or (pat == "some" and rng.random() < 0.3) or (pat == "alt" and r % 2 == 0)
                               or (pat == "first" and r == 0) or (pat == "last" and r == n - 1))
        if isnull:
            cells.append(None)
        elif "delta_width" in forced:
            cells.append(pool[r])
        elif pool is not None:
            cells.append(pool[r % len(pool)] if forced.get("dict_fill") and r < len(pool) else rng.choice(pool))
        elif forced.get("bool_pattern") == "alt":
            cells.append(r % 2)
        elif forced.get("dict_match_page"):
            cells.append(1000 + (r % 7) * 3)
        else:
            cells.append(gen_value(rng, tname, small))
    md = 1 if optional else 0
    name = f"c_{tname}"
    col = sw.Column([name.encode()], ptype, md, 0, [((md if c is not None else 0), 0, c) for c in cells], converted=conv, type_length=tlen,
                    scale=DEC_SCALE if conv == 5 else None, precision=(9 if ptype == 1 else 18 if ptype == 2 else 12 if ptype == 7 else 19) if conv == 5 else None)
    rid = sw.Column([b"rid"], 2, 0, 0, [(0, 0, r) for r in range(n)])
    ch = {"codec": rng.choice(CODEC_NAMES), "v2": rng.random() < 0.4, "def_runs": rng.choice(["rle", "bp", "mix"]),
          "page_bounds": sorted(rng.sample(range(1, max(n, 2)), min(rng.choice([0, 0, 1, 2, 3]), max(n - 1, 0)))) if n > 1 else [],
          "stats": rng.random() < 0.7}
    if fam == "dict":
        ch["dict"] = True
        ch["dict_data_enc"] = rng.choice([8, 2])
        ch["dict_page_enc"] = 0 if ch["dict_data_enc"] == 8 else rng.choice([0, 2])
        ch["index_runs"] = rng.choice(["rle", "bp", "mix"])
        ch["dict_shuffle"] = rng.random() < 0.5
        if rng.random() < 0.25 and len(ch["page_bounds"]) >= 1:
            ch["fallback_after"] = rng.randrange(1, len(ch["page_bounds"]) + 1)
    elif fam == "rle_bool":
        ch["encoding"] = 3
        ch["bool_runs"] = rng.choice(["rle", "bp", "mix"])
    elif fam == "delta":
        ch["encoding"] = 5
        ch["delta_shape"] = rng.choice([(128, 4), (8, 1), (256, 2), (64, 8)])
        ch["delta_extra"] = rng.choice([0, 0, 1, 3])
    ch.update({k_: v_ for k_, v_ in forced.items() if k_ not in ("dict_fill", "null_page_mid")})
    if ch["v2"]:
        ch["v2_compressed"] = rng.random() < 0.7
        ch["v2_omit_flag"] = rng.random() < 0.3
    k = rng.choice([1, 1, 2, 3])
    cuts = sorted(set([0, n] + [rng.randrange(0, n + 1) for _ in range(k - 1)]))
    rgs = [(a, b) for a, b in zip(cuts, cuts[1:]) if b > a]
    if forced.get("null_page_mid"):
        rgs = [(0, n)]
        ch["page_bounds"] = [4, 8]
        ch["codec"] = "UNCOMPRESSED"
    if forced.get("dict_fill") == "most":
        rgs = [(0, n)]                      # one dictionary holding all k entries
        ch.pop("fallback_after", None)
    if forced.get("dict_match_page"):
        ch.update({"dict": True, "dict_data_enc": 8, "dict_page_enc": 0, "index_runs": "rle", "index_width": 16, "dict_shuffle": False,
                   "dict_match_first_page": True, "v2": False})
        ch.pop("fallback_after", None)
    if forced.get("codec"):
        ch["codec"] = forced["codec"]
        ch["v2_compressed"] = True
        ch["page_bounds"] = []
        rgs = [(0, n)]
    choices = {"cols": [{"codec": "UNCOMPRESSED"}, ch]}
    return [rid, col], rgs, choices, {name: (tname, cells), "rid": ("int64", list(range(n)))}, n, pat


def run(ctx, report):
    rng = ctx.rng
    report.rule = ("files from a specification-level writer, one column under test per file (+ a plain row-id column): physical x converted "
                   "types; PLAIN, dictionary with every index width 0..32 x rle/bit-packed/mixed runs, RLE booleans, delta with every "
                   "miniblock width 0..64 and several block shapes; RLE/bit-packed/mixed definition levels, arbitrary page boundaries, 1..3 "
                   "row groups, dictionary fallback, optional/required with five null patterns, v1/v2 with and without the compressed flag, "
                   "six codecs; every file certified by the Lean reader Spec.File before use; non-trivial = uses an encoding, width or run "
                   "pattern fastparquet's own writer never emits; distinct by the description of the file")
    work = []
    for idx, (fam, t, forced) in enumerate(plan(rng, ctx.quick)):
        cols, rgs, choices, intended, n, pat = gen_file(rng, idx, fam, t, forced)
        path = os.path.join(ctx.workdir("c03"), f"f{idx}.parquet")
        try:
            blob = sw.write_file(path, cols, rgs, choices, rng)
        except Exception as e:  # noqa
            report.notes.append("specwriter failed: " + canon_err(e) + str(e)[:80]) if len(report.notes) < 5 else None
            continue
        work.append((path, blob, cols, rgs, choices, intended, n, fam, t[0], pat))
    cert = wcases.spec_decode_many(ctx, [w[1] for w in work]) if ctx.model_ok else [None] * len(work)
    uncertified = 0
    for (path, blob, cols, rgs, choices, intended, n, fam, tname, pat), d in zip(work, cert):
        ch = choices["cols"][1]
        info = ch.get("_info", {})
        uses_dict = bool(ch.get("dict")) and any(c is not None for c in intended["c_" + tname][1])
        desc = {"rows": n, "row_groups": len(rgs), "family": fam, "type": tname, "optional": bool(cols[1].max_def), "nulls": pat,
                "codec": ch["codec"], "v2": bool(ch["v2"]), "v2_compressed": ch.get("v2_compressed"), "v2_omit_flag": ch.get("v2_omit_flag"),
                "def_runs": ch["def_runs"], "pages": len(ch.get("page_bounds") or []) + 1, "page_bounds": ch.get("page_bounds"),
                "index_width": info.get("index_width") if uses_dict else None, "index_runs": ch.get("index_runs") if uses_dict else None,
                "dict_data_enc": ch.get("dict_data_enc"), "fallback_after": ch.get("fallback_after"),
                "bool_runs": ch.get("bool_runs"), "delta_shape": ch.get("delta_shape") if fam == "delta" else None,
                "delta_maxw": info.get("delta_maxw", 0) if fam == "delta" else None,
                "long": cols[1].ptype == 2}
        # ---- certification by the Lean specification reader
        if d is None:
            continue
        ok = "error" not in d
        if ok:
            got_cells = {}
            for (nr, ccols) in d["rgs"]:
                for cname, cells in zip(d["cols"], ccols):
                    got_cells.setdefault(cname, []).extend(cells)
            for cname, (tn, cells) in intended.items():
                exp = ["n" if c is None else (("x" + c.hex()) if isinstance(c, bytes) else int(c)) for c in cells]
                if got_cells.get(cname, []) != exp:
                    ok = False
                    d = {"error": f"Spec.File decodes column {cname} differently from the intended table"}
                    break
        if not ok:
            uncertified += 1
            report.notes.append(f"file not certified by Spec.File: {d['error'][:120]} :: {str(desc)[:300]}") if len(report.notes) < 6 else None
            os.remove(path)
            continue
        # ---- fastparquet must read exactly that, or refuse
        rec = {"check": "foreign-file", **desc}
        ctx.crumb(rec)
        nontrivial = n > 0 and (fam in ("delta", "rle_bool") or (uses_dict and (ch.get("index_runs") != "bp" or info.get("index_width") not in (8, 16, 32)))
                                or ch["def_runs"] != "bp" or ch.get("fallback_after") is not None)
        report.case(("file", str(desc)), nontrivial, sample=desc if nontrivial and len(report.samples) < 4 else None)
        report.stream("file.encode")
        report.count("family:" + fam)
        report.count("type:" + tname)
        # the nullable-types option is a read option: whatever array type the integers / booleans land in, the VALUES are the file's
        int_like = tname in ("bool", "int32", "int8", "int16", "uint8", "uint16", "uint32", "int64", "uint64")
        variants = [("", {})] + ([(" [pandas_nulls=False]", {"pandas_nulls": False})] if int_like else [])
        # the reader model on FOREIGN v1 pages (PLAIN / dictionary, index widths the kernels handle): core.read_data_page vs Impl.readDataPage
        if ctx.model_ok and fam in ("plain", "dict") and not ch.get("v2") and (info.get("index_width") or 0) <= 24 and tname != "flba":
            try:
                wcases.reader_model_stream(ctx, report, path, {"foreign": True, "family": fam, "type": tname})
            except Exception as e:  # noqa
                report.notes.append("rpage.v1 on a foreign file raised " + canon_err(e) + " " + str(e)[:80]) if len(report.notes) < 8 else None
        results = [(vn, read_isolated(path, **kw)) for vn, kw in variants]
        os.remove(path)
        for vname, res in results:
            check_read(report, rec, res, intended, fam, tname, vname)
    report.extra["files_not_certified"] = uncertified
    report.extra["files_certified"] = len(work) - uncertified


def check_read(report, rec, res, intended, fam, tname, vname):
    """fastparquet must have read exactly the intended table, or refused"""
    if res[0] == "refused":
        report.count("refused:" + res[1][:30])
        return
    if res[0] == "raised" and "not implemented" in str(res[2]):
        report.count("refused:" + str(res[2])[:30])
        return
    if res[0] in ("raised", "crash"):
        what = (f"reading a valid file{vname} raised " + " ".join(map(str, res[1:]))) if res[0] == "raised" else \
            f"the interpreter crashed (signal {res[1]}) while reading a valid file"
        report.violation({**rec, "what": what[:400], "outcome": res[0],
                          "sig": f"{res[0]}:{fam}:{tname}:{str(res[2])[:25] if res[0] == 'raised' else res[1]}"})
        return
    got = res[1]
    probs = []
    flba_nul = False
    for cname, (tn, cells) in intended.items():
        if cname not in got.columns:
            probs.append(f"column {cname} missing")
            continue
        s = got[cname]
        vals = list(s.astype(object))
        if len(vals) != len(cells):
            probs.append(f"{cname}: {len(vals)} rows read, {len(cells)} encoded")
            continue
        bad, nul_only = [], True
        for i, (c, v) in enumerate(zip(cells, vals)):
            e = logical(tn, c)
            g = canon_read(v)
            if e[0] == "f" and g[0] == "f":
                same = e[1] == g[1] or float.fromhex(e[1]) == float.fromhex(g[1]) or \
                    (math.isnan(float.fromhex(e[1])) and math.isnan(float.fromhex(g[1])))
            elif e[0] == "dec":
                # float64 result: the nearest doubles to v / 10^scale are accepted (the one place floats are compared, with a relative bound)
                same = g[0] == "f" and math.isclose(float.fromhex(g[1]), e[1] / 10 ** DEC_SCALE, rel_tol=1e-12, abs_tol=1e-300) or \
                    (g[0] == "i" and e[1] % 10 ** DEC_SCALE == 0 and g[1] == e[1] // 10 ** DEC_SCALE)
            elif e[0] == "i" and g[0] == "f":
                same = float.fromhex(g[1]) == e[1] and abs(e[1]) < 2 ** 53 or (bool(vname) and float.fromhex(g[1]) == float(e[1]))
            elif e[0] == "b" and g[0] == "i":
                same = bool(g[1]) == e[1]
            elif e[0] == "b" and g[0] == "f":
                same = float.fromhex(g[1]) == float(e[1])
            else:
                same = e == g
            if not same:
                bad.append(f"{cname} ({tn}) row {i}: file encodes {e}, read gives {g}")
                if not (tn == "flba" and e[0] == "y" and g[0] == "y" and e[1].endswith("00")
                        and bytes.fromhex(e[1]).rstrip(b"\0") == bytes.fromhex(g[1])):
                    nul_only = False
        if bad:
            probs.append(bad[0] + (f" (+{len(bad) - 1} more rows)" if len(bad) > 1 else ""))
            if nul_only:
                flba_nul = True
        kind = str(s.dtype)
        want = {"bool": ("bool", "boolean"), "int32": ("int32", "Int32"), "int8": ("int8", "Int8"), "int16": ("int16", "Int16"),
                "uint8": ("uint8", "UInt8"), "uint16": ("uint16", "UInt16"), "uint32": ("uint32", "UInt32"), "int64": ("int64", "Int64"),
                "uint64": ("uint64", "UInt64"), "float": ("float32",), "double": ("float64",)}.get(tn)
        if want and kind not in want and len(cells) and not vname:
            probs.append(f"{cname}: dtype {kind}, the schema implies {want[0]}")
    if probs:
        report.violation({**rec, "read_options": vname.strip(), "what": (vname.strip() + " " + "; ".join(probs))[:500].strip(), "outcome": "wrong", "flba_trailing_nul_only": flba_nul and len(probs) == 1,
                          "sig": f"wrong:{fam}:{tname}:" + ("dtype" if "dtype" in probs[0] else "value") + vname.strip()})


def search(ctx, report):
    old = ctx.tier
    ctx.tier = "thorough"
    try:
        run(ctx, report)
    finally:
        ctx.tier = old


def replay(ctx, rec, report):
    r2 = type(report)(report.prop, report.tier, report.seed)
    run(ctx, r2)
    return any(v.get("sig") == rec.get("sig") for v in r2.violations)
