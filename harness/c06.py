"""C06 — every partial read agrees with the corresponding part of the full read.

Datasets carry a global row id `rid`.  Access programs: column subsets / permutations, slices
[i:j:k] (negative, empty, stepped) and integer picks of row groups, compositions (slice of slice,
pick of slice), iter_row_groups with/without columns, head(n) for every n <= rows+1, index=None /
False / name, reading from an open file object (several reads through one handle), pickle / copy /
deepcopy of handles.  Oracle (metamorphic): the partial read equals the corresponding part of the
full read, cell by cell; count()/info/len equal the number of rows / row groups actually read.
Correspondence `access.run`: the rids predicted by Impl.Access for the same program.
"""
import copy, io, os, pickle, shutil
import numpy as np
import pandas as pd
from .common import parse_reply, parse_list, canon_err, short_tb
from .gen_tables import gen_column, diff_frames, canon_series

ASSUMPTIONS = ["decode of each row group is C01/C03's subject; C06 is about which rows/columns land where"]


def make_ds(ctx, rng, d):
    import fastparquet
    sizes = rng.choice([[5, 5, 5, 8], [1], [3, 0, 4], [2, 2, 2, 2, 2, 2], [7, 1], []])
    if d == 0:
        sizes = [5, 5, 5, 8]
    n = sum(sizes)
    df = pd.DataFrame({"rid": np.arange(n, dtype="int64")})
    kinds = rng.sample(["int32", "float_nan", "str", "bool", "dt_ns", "Int64", "cat_str"], 3)
    for j, k in enumerate(kinds):
        df[f"c{j}"] = gen_column(rng, k, n, rng.choice(["none", "some"])).values if k not in ("Int64", "cat_str") else gen_column(rng, k, n, "some")
    if d in (0, 2):
        # a data column whose name collides with the reader's internal "<col>-catdef" naming of categorical views
        df["zz-catdef"] = np.arange(n, dtype="float64") * 10
    layout = rng.choice(["simple", "simple", "hive", "hive-part2"])
    if d == 0:
        layout = "simple"
    if d == 1:
        layout = "hive-part2"
    if d == 2:
        layout = "hive"
    if layout == "hive-part2":
        # two partition keys: column subsets may then name a later key without an earlier one
        df["p"] = np.array([rng.randrange(0, 2) for _ in range(n)], dtype="int64")
        df["q"] = pd.Series([rng.choice(["u", "v"]) for _ in range(n)], dtype=object)
    with_index = rng.random() < 0.3 and n > 0
    if with_index:
        df.index = pd.Index(np.arange(100, 100 + n, dtype="int64"), name="ix")
    path = os.path.join(ctx.workdir("c06"), f"d{d}")
    shutil.rmtree(path, ignore_errors=True)
    if os.path.isfile(path):
        os.remove(path)
    offs = [0]
    for s in sizes[:-1]:
        offs.append(offs[-1] + s)
    # zero-size row groups cannot be written; drop duplicates
    offs = sorted(set(o for o in offs if o < n)) if n else [0]
    kw = dict(row_group_offsets=offs, write_index=with_index)
    if layout == "simple":
        fastparquet.write(path, df, **kw)
    elif layout == "hive-part2":
        fastparquet.write(path, df, file_scheme="hive", partition_on=["p", "q"], **kw)
    else:
        fastparquet.write(path, df, file_scheme="hive", **kw)
    return path, df, layout, with_index, kinds


def directed_nometa(ctx, report):
    """A file without pandas metadata whose optional integer / boolean columns have nulls in only some row groups: the
    column type is then decided from all row groups together, and every partial read must come back as the matching
    part of the full read - same values (integers above 2**53 change when they pass through float64) and same dtype."""
    import fastparquet
    from fastparquet.writer import update_file_custom_metadata
    n = 12
    big = pd.array([2 ** 53 + 1 + i for i in range(n)], dtype="Int64")
    big[5] = pd.NA
    b = pd.array([True, False] * 6, dtype="boolean")
    b[6] = pd.NA
    df = pd.DataFrame({"rid": np.arange(n, dtype="int64"), "big": big, "b": b})
    path = os.path.join(ctx.workdir("c06"), "nometa.parq")
    fastparquet.write(path, df, row_group_offsets=[0, 4, 8])
    update_file_custom_metadata(path, {"pandas": None})
    for pn in (True, False):
        pf = fastparquet.ParquetFile(path, pandas_nulls=pn)
        full = pf.to_pandas()
        progs = [("pick0", lambda h: h[0].to_pandas(), [0, 1, 2, 3]), ("pick-1", lambda h: h[-1].to_pandas(), [8, 9, 10, 11]),
                 ("slice2:", lambda h: h[2:].to_pandas(), [8, 9, 10, 11]), ("slice::2", lambda h: h[::2].to_pandas(), [0, 1, 2, 3, 8, 9, 10, 11]),
                 ("head3", lambda h: h.head(3), [0, 1, 2]), ("iter0", lambda h: next(iter(h.iter_row_groups())), [0, 1, 2, 3]),
                 ("pickle-pick2", lambda h: pickle.loads(pickle.dumps(h[2])).to_pandas(), [8, 9, 10, 11]),
                 ("copy-pick0", lambda h: copy.copy(h[0]).to_pandas(), [0, 1, 2, 3])]
        for name, fn, rows in progs:
            rec = {"check": "nometa", "pandas_nulls": pn, "program": name, "dataset": "no pandas metadata; nulls only in row group 1"}
            ctx.crumb(rec)
            try:
                got = fn(pf)
                exp = full.iloc[rows]
                probs = diff_frames(exp.reset_index(drop=True), got.reset_index(drop=True))
                for c in exp.columns:
                    if c in got.columns and str(got[c].dtype) != str(exp[c].dtype):
                        probs.append(f"column {c!r} comes back as {got[c].dtype} where the full read has {exp[c].dtype}")
                if probs:
                    report.violation({**rec, "what": "; ".join(probs)[:400], "sig": f"nometa:{name}:{probs[0][:24]}"})
            except Exception as e:  # noqa
                report.violation({**rec, "what": "partial read raised: " + canon_err(e) + " " + str(e)[:150], "sig": f"nometa-raised:{name}:{canon_err(e)}"})
            report.case(("nometa", pn, name), True)
            report.count("directed:nometa")
    os.remove(path)


def rg_sizes(pf):
    return [rg.num_rows for rg in pf.row_groups]


def rand_sel(rng, k):
    kind = rng.choice(["s", "s", "i"])
    if kind == "i" and k > 0:
        i = rng.randrange(-k, k)
        return ("i", i), (lambda pf: pf[i]), f"[i,{i}]"
    st = rng.choice([None, 0, 1, -1, -2, 2, k, k + 1])
    sp = rng.choice([None, 0, 1, -1, 2, k, k + 2, -k - 1])
    step = rng.choice([None, 1, 2, -1, 3, -2])
    enc = lambda v: "n" if v is None else str(v)  # noqa: E731
    return ("s", st, sp, step), (lambda pf: pf[st:sp:step]), f"[s,{enc(st)},{enc(sp)},{1 if step is None else step}]"


def run(ctx, report):
    import fastparquet
    rng = ctx.rng
    report.rule = ("datasets with varied row-group sizes (incl. a single row group and zero row groups), simple and hive, with/without "
                   "written index; access programs composed of <=3 selections followed by read / head(n) / iter / count / len, column "
                   "subsets and permutations, index choices, file-like handles, pickle/copy; non-trivial = program selecting a proper "
                   "non-empty subset of rows or columns; distinct by (dataset shape, program)")
    nds = 6 if ctx.quick else 40
    nprog = 30 if ctx.quick else 80
    reqs = []
    directed_nometa(ctx, report)
    for d in range(nds):
        try:
            path, df, layout, with_index, kinds = make_ds(ctx, rng, d)
        except Exception as e:  # noqa
            report.notes.append("dataset write failed: " + canon_err(e))
            continue
        pf0 = fastparquet.ParquetFile(path)
        sizes = rg_sizes(pf0)
        try:
            full = pf0.to_pandas()
        except Exception as e:  # noqa
            report.violation({"check": "full-read", "what": "full read raised " + canon_err(e), "sig": "full-read"})
            continue
        full_rids = full["rid"].tolist()
        pos_of = {r: i for i, r in enumerate(full_rids)}      # the model speaks of positions in the full read
        starts = np.cumsum([0] + sizes).tolist()
        rgs_s = "[" + ",".join("[" + ",".join(map(str, range(starts[i], starts[i + 1]))) + "]" for i in range(len(sizes))) + "]"
        cols_all = [c for c in full.columns]
        dsdesc = {"sizes": sizes, "layout": layout, "written_index": with_index, "kinds": kinds}
        report.count("layout:" + layout)

        def expect_rows(rids, cols, got, rec, index_mode=None):
            """got must equal full restricted to rids/cols (cell by cell)"""
            exp = full[full["rid"].isin(rids)] if False else full.iloc[[full_rids.index(r) for r in rids]]
            exp = exp[cols]
            g = got[cols] if all(c in got.columns for c in cols) else got
            return diff_frames(exp.reset_index(drop=True), g.reset_index(drop=True))

        for p in range(nprog):
            variant = rng.choice(["path", "path", "filelike", "pickle", "copy", "deepcopy"])
            real_file = rng.random() < 0.5
            if p < 6:
                # directed: every kind of handle on every dataset, whatever the seed
                variant = ["filelike", "filelike", "pickle", "copy", "deepcopy", "path"][p]
                real_file = p == 0
            rec = {"check": "program", "dataset": dsdesc, "handle": variant}
            ctx.crumb(rec)
            try:
                if variant == "filelike" and layout == "simple":
                    fobj = open(path, "rb") if real_file else io.BytesIO(open(path, "rb").read())
                    pf = fastparquet.ParquetFile(fobj)
                    # a first read through the same handle (the caller's file object must survive it)
                    pf.to_pandas(columns=["rid"])
                elif variant == "pickle":
                    pf = pickle.loads(pickle.dumps(fastparquet.ParquetFile(path)))
                elif variant == "copy":
                    pf = copy.copy(fastparquet.ParquetFile(path))
                elif variant == "deepcopy":
                    pf = copy.deepcopy(fastparquet.ParquetFile(path))
                else:
                    pf = fastparquet.ParquetFile(path)
                nsel = rng.choice([0, 1, 1, 2, 3])
                steps_enc, steps_desc = [], []
                h = pf
                k = len(sizes)
                cur_sizes = list(sizes)
                err = None
                for _ in range(nsel):
                    desc, fn, enc = rand_sel(rng, len(cur_sizes))
                    steps_desc.append(desc)
                    steps_enc.append(enc)
                    try:
                        h = fn(h)
                        cur_sizes = rg_sizes(h)
                    except IndexError:
                        err = "key"
                        break
                    if variant == "pickle" and rng.random() < 0.3:
                        h = pickle.loads(pickle.dumps(h))
                term = rng.choice(["read", "read", "head", "iter", "count", "len", "cols", "index"])
                forced_cols = None
                if layout == "hive-part2" and p < 4:
                    # directed: a later partition key without an earlier one, and the other way round
                    term = "cols"
                    forced_cols = [["rid", "q"], ["q", "c0"], ["c1", "p", "rid"], ["q", "rid", "p"]][p]
                rec.update({"selections": steps_desc, "terminal": term})
                prog_s = "[" + ",".join(steps_enc) + "]"
                if err:
                    reqs.append((f"access run rgs={rgs_s} prog={prog_s} term=[read]", ("err", "key"), rec))
                    report.case(("prog", d, tuple(steps_desc), "err"), False)
                    continue
                # rids the selection should give (from the handle's own row groups: python list slicing
                # of row groups is the definition; the model predicts the same independently)
                probs = []
                nontrivial = False
                if term == "read":
                    got = h.to_pandas()
                    rids = got["rid"].tolist()
                    reqs.append((f"access run rgs={rgs_s} prog={prog_s} term=[read]", ("rows", [pos_of[r] for r in rids]), rec))
                    probs += expect_rows(rids, cols_all, got, rec)
                    if h.count() != len(got) or h.info["rows"] != len(got) or len(h) != len(cur_sizes) or h.info["row_groups"] != len(cur_sizes):
                        probs.append(f"reported counts (count={h.count()}, info={h.info['rows']}, len={len(h)}) differ from rows read {len(got)} / row groups {len(cur_sizes)}")
                    nontrivial = 0 < len(got) < len(full)
                elif term == "head":
                    n = rng.choice([0, 1, 2, 5, 6, sum(cur_sizes), sum(cur_sizes) + 1, rng.randrange(0, sum(cur_sizes) + 2)])
                    rec["n"] = n
                    got = h.head(n)
                    rids = got["rid"].tolist()
                    reqs.append((f"access run rgs={rgs_s} prog={prog_s} term=[head,{n}]", ("rows", [pos_of[r] for r in rids]), rec))
                    whole = h.to_pandas()
                    if rids != whole["rid"].tolist()[:n]:
                        probs.append(f"head({n}) returned rids {rids[:8]} instead of the first {n} rows of the handle's read")
                    probs += expect_rows(rids, cols_all, got, rec)
                    nontrivial = 0 < n < len(full)
                elif term == "iter":
                    usecols = rng.choice([None, ["rid"], ["c1", "rid"]])
                    frames = list(h.iter_row_groups(columns=usecols) if usecols else h.iter_row_groups())
                    rec["iter_columns"] = usecols
                    rids_f = [f["rid"].tolist() for f in frames]
                    reqs.append((f"access run rgs={rgs_s} prog={prog_s} term=[iter]", ("frames", [[pos_of[r] for r in fr] for fr in rids_f]), rec))
                    allr = [r for fr in rids_f for r in fr]
                    if allr != h.to_pandas()["rid"].tolist():
                        probs.append("iter_row_groups concatenated differs from the handle's full read")
                    for fr in frames:
                        probs += expect_rows(fr["rid"].tolist(), list(fr.columns), fr, rec)
                    nontrivial = len(frames) >= 2
                elif term == "count":
                    c = h.count()
                    reqs.append((f"access run rgs={rgs_s} prog={prog_s} term=[count]", ("n", c), rec))
                    if c != len(h.to_pandas()):
                        probs.append(f"count() = {c} but {len(h.to_pandas())} rows are read")
                    if h.info["rows"] != c:
                        probs.append(f"info['rows'] = {h.info['rows']} != count() = {c}")
                    nontrivial = 0 < c < len(full)
                elif term == "len":
                    c = len(h)
                    reqs.append((f"access run rgs={rgs_s} prog={prog_s} term=[len]", ("n", c), rec))
                    if c != len(cur_sizes):
                        probs.append("len() differs from the number of row groups")
                elif term == "cols":
                    cols = rng.sample(cols_all, rng.randrange(1, len(cols_all) + 1))
                    if forced_cols is not None and all(c in cols_all for c in forced_cols):
                        cols = forced_cols
                    rec["columns"] = cols
                    got = h.to_pandas(columns=cols)
                    if list(got.columns) != cols:
                        probs.append(f"columns came back as {list(got.columns)} not {cols}")
                    else:
                        whole = h.to_pandas()
                        probs += diff_frames(whole[cols].reset_index(drop=True), got.reset_index(drop=True))
                    nontrivial = len(cols) < len(cols_all)
                else:  # index choices
                    mode = rng.choice([False, "rid", "c0"] + (["ix"] if with_index else []))
                    rec["index"] = mode
                    if mode == "c0" and full["c0"].isna().any():
                        # an index cannot hold missing values: a refusal (raise) is acceptable, wrong values are not
                        try:
                            got = h.to_pandas(index=mode)
                        except (TypeError, ValueError):
                            report.count("refused:null-in-index")
                            continue
                    else:
                        got = h.to_pandas(index=mode)
                    whole = h.to_pandas(index=False)
                    if mode is False:
                        probs += diff_frames(whole.reset_index(drop=True), got.reset_index(drop=True))
                    else:
                        if canon_series(pd.Series(got.index)) != canon_series(whole[mode]):
                            probs.append(f"index={mode!r}: index values {list(got.index)[:5]} differ from column values {whole[mode].tolist()[:5]}")
                        rest = [c for c in whole.columns if c != mode]
                        probs += diff_frames(whole[rest].reset_index(drop=True), got[rest].reset_index(drop=True))
                    nontrivial = mode is not False
                if probs:
                    empty_part = layout == "hive-part2" and len(cur_sizes) == 0 and all(("'p'" in p_ or "'q'" in p_) and "columns" in p_ for p_ in probs)
                    report.violation({**rec, "what": "; ".join(probs)[:400], "sig": f"{term}:{probs[0][:28]}", "terminal": term,
                                      "empty_handle_partition_columns": empty_part})
                report.case(("prog", d, tuple(steps_desc), term, rec.get("n"), str(rec.get("columns")), str(rec.get("index")), variant), nontrivial,
                            sample=rec if nontrivial and len(report.samples) < 5 else None)
                report.count("term:" + term)
                report.count("handle:" + variant)
                report.stream("access.run")
            except Exception as e:  # noqa
                empty_part = layout == "hive-part2" and len(cur_sizes) == 0 and "not available" in str(e) and ("'p'" in str(e) or "'q'" in str(e))
                report.violation({**rec, "what": "partial read raised: " + canon_err(e) + " " + str(e)[:150], "exc": canon_err(e),
                                  "empty_dataset": len(sizes) == 0, "sig": f"raised:{rec.get('terminal')}:{canon_err(e)}",
                                  "empty_handle_partition_columns": empty_part})
        shutil.rmtree(path, ignore_errors=True) if os.path.isdir(path) else (os.path.exists(path) and os.remove(path))
    if reqs and ctx.model_ok:
        reps = ctx.driver.ask([r[0] for r in reqs])
        for (req, exp, rec), rep in zip(reqs, reps):
            head, dd = parse_reply(rep)
            kind, val = exp
            if kind == "err":
                ok = head == "err"
            elif head != "ok":
                ok = False
            elif kind == "rows":
                ok = [v for v in parse_list(dd["rows"])] == val
            elif kind == "frames":
                ok = parse_list(dd["frames"]) == val
            else:
                ok = int(dd["n"]) == val
            if not ok:
                report.corr_break("access.run", {**rec, "request": req[:300], "model": rep[:300], "real": str(val)[:300], "explained_by_known": False})


def search(ctx, report):
    old = ctx.tier
    ctx.tier = "thorough"
    try:
        run(ctx, report)
    finally:
        ctx.tier = old


def replay(ctx, rec, report):
    r2 = type(report)(report.prop, report.tier, report.seed)
    run(ctx, r2)
    return any(v.get("sig") == rec.get("sig") for v in r2.violations)
