"""C08 — directory-partitioned write/read preserves every row and every partition value.

Frames with 1..3 partition columns (int / float / bool / datetime / text incl. numeric-looking
text / categorical), arbitrary key combinations (incl. unused categories, null keys), all
row_group_offsets, hive and drill.  Oracle:
  * placement: every part file holds rows of exactly one key tuple, every key tuple lives in exactly
    one directory (per row group), the directory text names the key (hive);
  * content: the dataset reads back exactly the multiset of rows whose keys are all non-null
    (none lost, none duplicated);
  * hive: partition columns come back under their names with their original values and value kinds;
    drill: directory levels come back as positional columns dir0.. carrying the key text.
Correspondence `part.groups`: Impl.Partition.groups (sorted keys, null keys dropped, empty groups
skipped) vs the part files actually written per incoming row group.
"""
import math, os, re, shutil
import numpy as np
import pandas as pd
from .common import parse_reply, parse_list, canon_err, fmt_list
from .gen_tables import gen_column, diff_frames, canon_cell, canon_series

ASSUMPTIONS = ["text round trip of float / timestamp partition values (repr, isoformat, pandas parsing) is outside the Lean model: exercised here",
               "pandas groupby(sort=True) orders groups by key"]

PK = ["int", "int_neg", "float", "bool", "dt", "dt_sub", "str", "str_num", "cat", "int_null", "int_big", "int_bigneg", "cat_num", "str_mixed"]


def part_col(rng, kind, n):
    if kind == "int":
        return pd.Series(np.array([rng.choice([0, 1, 7, 12]) for _ in range(n)], dtype="int64"))
    if kind == "int_big":      # adjacent keys beyond the exact range of a double
        pool = [2 ** 53, 2 ** 53 + 1, 2 ** 62 + 3, 5]     # the first rows take every key in turn: adjacent keys are always present together
        return pd.Series(np.array([pool[i] if i < len(pool) else rng.choice(pool) for i in range(n)], dtype="int64"))
    if kind == "int_bigneg":   # negative keys, adjacent beyond the exact range of a double (signed text in drill directories)
        pool = [-(2 ** 53) - 1, -(2 ** 53), -4, 5]
        return pd.Series(np.array([pool[i] if i < len(pool) else rng.choice(pool) for i in range(n)], dtype="int64"))
    if kind == "cat_num":      # categorical TEXT labels that look like numbers / booleans / dates
        cats = ["1", "2", "10", "0.5", "True", "99"]
        return pd.Series(pd.Categorical([rng.choice(cats[:5]) for _ in range(n)], categories=cats))
    if kind == "int_neg":
        return pd.Series(np.array([rng.choice([-3, 0, 5]) for _ in range(n)], dtype="int32"))
    if kind == "float":
        return pd.Series(np.array([rng.choice([0.5, 0.7, 2.0, -1.25]) for _ in range(n)], dtype="float64"))
    if kind == "bool":
        return pd.Series(np.array([rng.random() < 0.5 for _ in range(n)], dtype=bool))
    if kind == "dt":
        return pd.Series(pd.to_datetime([rng.choice(["2020-01-01", "2021-06-30", "1999-12-31"]) for _ in range(n)]))
    if kind == "dt_sub":
        pool = ["2020-01-01 10:00:00.123456789", "2020-01-01 10:00:00.123456", "2020-01-01 10:00:00"]
        # the first rows take every value in turn, so keys that differ only below the microsecond are always present together
        return pd.Series(pd.to_datetime([pool[i] if i < 3 else rng.choice(pool) for i in range(n)], format="ISO8601"))
    if kind == "str":
        return pd.Series([rng.choice(["a", "bb", "Paris", "é"]) for _ in range(n)], dtype=object)
    if kind == "str_num":
        return pd.Series([rng.choice(["1", "2", "0.7", "x1"]) for _ in range(n)], dtype=object)
    if kind == "str_mixed":
        # text keys of which some look like an integer, a float, a boolean and some like nothing else: in the drill layout there is no
        # type information, and 1 / True / 1.0 are equal as Python values - the key TEXT must still come back for every row
        pool = ["1", "x", "0.7", "True", "y"]
        return pd.Series([pool[i] if i < len(pool) else rng.choice(pool) for i in range(n)], dtype=object)
    if kind == "cat":
        cats = ["lo", "mid", "hi", "unused"]
        return pd.Series(pd.Categorical([rng.choice(cats[:3]) for _ in range(n)], categories=cats))
    if kind == "int_null":
        return pd.Series([rng.choice([1.0, 2.0, float("nan")]) for _ in range(n)], dtype="float64")
    raise ValueError(kind)


def run(ctx, report):
    import fastparquet
    rng = ctx.rng
    report.rule = ("frames with 1..3 partition columns over int/float/bool/datetime/text/numeric-looking text/categorical/nullable keys, all "
                   "row_group_offsets, hive and drill, value columns of C01 dtypes; non-trivial = >=2 distinct key tuples; distinct by "
                   "(scheme, key kinds, offsets)")
    nds = 18 if ctx.quick else 150
    reqs = []
    for d in range(nds):
        scheme = "hive" if d % 3 != 2 else "drill"
        npart = rng.choice([1, 1, 2, 3])
        kinds = rng.sample(PK, npart)
        if d < len(PK):
            kinds = [PK[d]] + kinds[1:]
        elif d == len(PK):
            kinds, scheme = ["int", "int", "str_num"], "hive"      # the same value text under several partition columns
        elif d == len(PK) + 1:
            kinds, scheme = ["str_mixed"], "drill"                 # directory names of mixed kinds, no type information
        if scheme == "drill" and d < len(PK) and PK[d] not in ("int", "int_neg", "bool", "str", "cat", "int_bigneg", "str_mixed"):
            scheme = "hive"          # every key kind is exercised at least once (drill only carries plain keys)
        if scheme == "drill":
            kinds = [k for k in kinds if k in ("int", "int_neg", "bool", "str", "cat", "int_bigneg", "str_mixed")] or ["int"]
        n = rng.choice([1, 6, 15, 30])
        if d <= len(PK) + 1:
            n = max(n, 6)       # the directed datasets hold several keys
        df = pd.DataFrame({"rid": np.arange(n, dtype="int64")})
        vk = rng.sample(["float_nan", "str", "int32", "Int64", "dt_ns"], 2)
        for j, k in enumerate(vk):
            col = gen_column(rng, k, n, rng.choice(["none", "some"]))
            df[f"v{j}"] = col.values if k not in ("Int64",) else col
        pnames = []
        # partition column names: plain identifiers and (hive only) names with other characters - the name is path text too
        fancy = scheme == "hive" and rng.random() < 0.4
        pool = ["trade-year", "geo.region", "unit price", "größe", "a_b1"] if fancy else []
        for j, k in enumerate(kinds):
            nm = f"p{j}" if not fancy else rng.choice(pool) + str(j)
            df[nm] = part_col(rng, k, n).values if k not in ("cat", "cat_num") else part_col(rng, k, n)
            pnames.append(nm)
        offs = rng.choice([None, [0], [0, n // 2] if n > 1 else [0], 4, 7])
        path = os.path.join(ctx.workdir("c08"), f"d{d}")
        shutil.rmtree(path, ignore_errors=True)
        rec = {"check": "partitioned", "scheme": scheme, "key_kinds": kinds, "rows": n, "offsets": str(offs), "names": pnames}
        ctx.crumb(rec)
        try:
            fastparquet.write(path, df, file_scheme=scheme, partition_on=pnames, row_group_offsets=offs, write_index=False)
        except Exception as e:  # noqa
            report.violation({**rec, "what": "partitioned write raised: " + canon_err(e) + " " + str(e)[:120], "sig": f"write-raised:{scheme}:{'+'.join(sorted(kinds))}"})
            continue
        probs = []
        keyed = df.dropna(subset=pnames)
        key_of = {int(r): tuple(canon_cell(keyed[p].iloc[i] if not isinstance(keyed[p].dtype, pd.CategoricalDtype) else keyed[p].astype(object).iloc[i]) for p in pnames)
                  for i, r in enumerate(keyed["rid"].tolist())}
        # ---- placement: read each part file on its own
        dir_keys, key_dirs, seen = {}, {}, {}
        for dp, _dn, fns in os.walk(path):
            for f in fns:
                if not f.endswith(".parquet"):
                    continue
                rel = os.path.relpath(dp, path)
                try:
                    rids = [int(x) for x in fastparquet.ParquetFile(os.path.join(dp, f)).to_pandas(columns=["rid"])["rid"]]
                except Exception as e:  # noqa
                    probs.append(f"part file {rel}/{f} unreadable: {canon_err(e)}")
                    continue
                ks = {key_of.get(r) for r in rids}
                if None in ks:
                    probs.append(f"{rel}/{f} holds a row whose partition key is null")
                if len(ks) > 1:
                    probs.append(f"{rel}/{f} mixes rows of {len(ks)} different key tuples")
                for r in rids:
                    if r in seen:
                        probs.append(f"row {r} is stored twice ({seen[r]} and {rel}/{f})")
                    seen[r] = f"{rel}/{f}"
                for k in ks:
                    dir_keys.setdefault(rel, set()).add(k)
                    key_dirs.setdefault(k, set()).add(rel)
                if scheme == "hive":
                    for p in pnames:
                        if f"{p}=" not in rel:
                            probs.append(f"directory {rel} does not name partition column {p}")
        for rel, ks in dir_keys.items():
            if len(ks) > 1:
                probs.append(f"directory {rel} holds rows of {len(ks)} different key tuples")
        for k, ds in key_dirs.items():
            if len(ds) > 1:
                probs.append(f"key {k} is spread over directories {sorted(ds)[:3]}")
        missing = sorted(set(key_of) - set(seen))
        if missing:
            probs.append(f"{len(missing)} row(s) with non-null keys are stored nowhere, e.g. rid {missing[:4]}")
        # ---- read back
        try:
            pf = fastparquet.ParquetFile(path)
            got = pf.to_pandas()
            got_rids = sorted(int(x) for x in got["rid"])
            if got_rids != sorted(key_of):
                probs.append(f"dataset reads back rids {got_rids[:10]}.. but the rows with non-null keys are {sorted(key_of)[:10]}..")
            else:
                g = got.sort_values("rid").reset_index(drop=True)
                e = keyed.sort_values("rid").reset_index(drop=True)
                dd = diff_frames(e[["rid"] + [f"v{j}" for j in range(len(vk))]], g[["rid"] + [f"v{j}" for j in range(len(vk))]])
                if dd:
                    probs.append("value columns differ: " + "; ".join(dd)[:150])
                if len(e) == 0:
                    pass        # no row has a complete key: nothing is stored, so there is no directory to reconstruct a key from
                elif scheme == "hive":
                    for p, k in zip(pnames, kinds):
                        if p not in g.columns:
                            probs.append(f"partition column {p} is not reconstructed")
                            continue
                        gv = g[p].astype(object).tolist() if isinstance(g[p].dtype, pd.CategoricalDtype) else g[p].tolist()
                        ev = e[p].astype(object).tolist() if isinstance(e[p].dtype, pd.CategoricalDtype) else e[p].tolist()
                        def same_num(a, b):
                            # integers must come back exactly (a key beyond 2**53 does not survive a detour through float)
                            if isinstance(a, (int, np.integer)) and isinstance(b, (int, np.integer)):
                                return int(a) == int(b)
                            return float(a) == float(b)
                        bad = [(a, b) for a, b in zip(ev, gv) if canon_cell(a) != canon_cell(b) and not (
                            isinstance(a, (int, float, np.integer, np.floating)) and not isinstance(a, (bool, np.bool_)) and isinstance(b, (int, float, np.integer, np.floating))
                            and not isinstance(b, (bool, np.bool_)) and same_num(a, b) and type(a).__name__[:3] == type(b).__name__[:3])]
                        if bad:
                            a, b = bad[0]
                            probs.append(f"partition column {p} ({k}): value {a!r} ({type(a).__name__}) came back as {b!r} ({type(b).__name__})")
                else:
                    for j, (p, k) in enumerate(zip(pnames, kinds)):
                        dn = f"dir{j}"
                        if dn not in g.columns:
                            probs.append(f"drill level {dn} is not reconstructed")
                            continue
                        gv = g[dn].astype(object).tolist()
                        ev = e[p].astype(object).tolist() if isinstance(e[p].dtype, pd.CategoricalDtype) else e[p].tolist()
                        bad = [(a, b) for a, b in zip(ev, gv) if str(a) != str(b)]
                        if bad:
                            a, b = bad[0]
                            probs.append(f"drill level {dn}: key text {str(a)!r} came back as {b!r}")
        except Exception as e:  # noqa
            probs.append("dataset unreadable: " + canon_err(e) + " " + str(e)[:120])
        if probs:
            report.violation({**rec, "what": "; ".join(probs)[:500], "sig": f"{scheme}:{'+'.join(sorted(kinds))}:{probs[0][:25]}"})
        nkeys = len(set(key_of.values()))
        report.case((scheme, tuple(kinds), str(offs), n), nontrivial=nkeys >= 2, sample=rec if nkeys >= 2 and len(report.samples) < 5 else None)
        report.count("scheme:" + scheme)
        for k in kinds:
            report.count("key:" + k)
        report.stream("part.groups")
        # ---- correspondence: groups per incoming row group (rank-mapped keys)
        if ctx.model_ok and not probs:
            try:
                from .c09 import pieces_of
                # order of groups = sorted keys; compare the *rows* of each written piece in write order
                allkeys = sorted(set(key_of.values()))
                krank = {k: i for i, k in enumerate(allkeys)}
                nrows = len(df)
                if offs is None:
                    starts = [0]
                elif isinstance(offs, int):
                    nparts = max((nrows - 1) // offs + 1, 1)
                    chunk = max(min((nrows - 1) // nparts + 1, nrows), 1)
                    starts = list(range(0, nrows, chunk))
                else:
                    starts = list(offs)
                rgs_real = {}
                for r, loc in seen.items():
                    m = re.search(r"part\.(\d+)\.parquet$", loc)
                    rgs_real.setdefault(int(m.group(1)), {}).setdefault(loc, []).append(r)
                for i, st in enumerate(starts):
                    en = starts[i + 1] if i + 1 < len(starts) else nrows
                    rows = list(range(st, en))
                    cells = ",".join("[" + str(r) + "," + ("n" if r not in key_of else str(krank[key_of[r]])) + "]" for r in rows)
                    real_groups = sorted([sorted(v) for v in rgs_real.get(i, {}).values()], key=lambda g: krank[key_of[g[0]]])
                    reqs.append((f"part groups rows=[{cells}]", real_groups, dict(rec)))
            except Exception:
                pass
        shutil.rmtree(path, ignore_errors=True)
    if reqs and ctx.model_ok:
        reps = ctx.driver.ask([r[0] for r in reqs])
        for (req, real, rec), rep in zip(reqs, reps):
            head, dd = parse_reply(rep)
            m = parse_list(dd["groups"]) if head == "ok" else None
            m = [sorted(g) for g in (m or [])]
            if m != real:
                report.corr_break("part.groups", {**rec, "model": str(m)[:300], "real": str(real)[:300], "request": req[:200], "explained_by_known": False})


def search(ctx, report):
    old = ctx.tier
    ctx.tier = "thorough"
    try:
        run(ctx, report)
    finally:
        ctx.tier = old


def replay(ctx, rec, report):
    r2 = type(report)(report.prop, report.tier, report.seed)
    run(ctx, r2)
    return any(v.get("sig") == rec.get("sig") for v in r2.violations)
