"""C02 — written files are valid Parquet that an independent reader decodes identically.

Every file a write produces (single file, every part file, `_metadata`, `_common_metadata`) is
handed to the Lean specification reader `Spec.File` (written from the format documents only):
magic, footer length, Thrift compact metadata, for each column chunk offsets / compressed and
uncompressed sizes / num_values / null counts describe exactly the bytes present, pages tile the
chunk, page value counts add up to the row-group row count; and the decoded table must equal the
harness's own physical rendering of the input frame, NULL vs NaN per nullability mode.
"""
import os, shutil
import numpy as np
import pandas as pd
from .common import canon_err, hexs, parse_reply
from . import wcases

ASSUMPTIONS = ["cramjam decompresses page payloads for the Lean reader (codec round trip assumed)",
               "fidelity of Spec.File to the Parquet documents is by construction (no second implementation is installed)"]


def files_of(path):
    if os.path.isfile(path):
        return [("", path)]
    out = []
    for dp, _dn, fns in os.walk(path):
        for f in sorted(fns):
            out.append((os.path.relpath(os.path.join(dp, f), path), os.path.join(dp, f)))
    return sorted(out)


def run(ctx, report):
    import fastparquet
    rng = ctx.rng
    report.rule = ("the (DataFrame, write-option) pairs of C01: every dtype, row counts 0/1/7/8/9/63/64/65 (8191..8193 thorough), null patterns, "
                   "codec per column, row-group splits, has_nulls modes, page sizes forcing several pages, page v1/v2, stats, int96, hive; "
                   "non-trivial = >=1 row and (a null or >=2 pages or >=2 row groups or a non-default option); distinct by the case descriptor")
    ncases = 98 if ctx.quick else 400
    work = []
    for idx in range(ncases):
        case = wcases.gen_case(rng, idx, ctx.quick)
        path = os.path.join(ctx.workdir("c02"), f"w{idx}")
        shutil.rmtree(path, ignore_errors=True)
        if os.path.isfile(path):
            os.remove(path)
        ctx.crumb({"check": "write", **case["desc"]})
        try:
            wcases.write_case(case, path)
        except Exception as e:  # noqa: the write may refuse (C01: "or else the write raises")
            report.count("write-refused:" + canon_err(e))
            continue
        blobs = []
        for rel, fp in files_of(path):
            b = open(fp, "rb").read()
            blobs.append((rel, b))
        work.append((case, path, blobs))
        shutil.rmtree(path, ignore_errors=True) if os.path.isdir(path) else os.remove(path)
    # ---- data files through Spec.File
    data_blobs = [(ci, rel, b) for ci, (case, path, blobs) in enumerate(work) for rel, b in blobs
                  if not rel.endswith("_metadata")]
    decoded = wcases.spec_decode_many(ctx, [b for _, _, b in data_blobs]) if ctx.model_ok else []
    if ctx.model_ok:
        wcases.writer_model_stream(ctx, report, work, data_blobs, decoded)
    by_case = {}
    for (ci, rel, b), d in zip(data_blobs, decoded):
        by_case.setdefault(ci, []).append((rel, d))
    meta_reqs = [(ci, rel, b) for ci, (case, path, blobs) in enumerate(work) for rel, b in blobs if rel.endswith("_metadata")]
    meta_reps = ctx.driver.ask([f"file footer meta={1 if rel.endswith('/_metadata') or rel == '_metadata' else 2} bytes={hexs(b)}" for _, rel, b in meta_reqs]) if (ctx.model_ok and meta_reqs) else []
    for (ci, rel, b), rep in zip(meta_reqs, meta_reps):
        if not rep.startswith("ok"):
            report.violation({"check": "summary-file", **work[ci][0]["desc"], "file": rel, "what": f"{rel} is not a valid metadata file: {rep[4:200].replace('_', ' ')}",
                              "sig": "summary:" + rep[12:40]})
    for ci, (case, path, blobs) in enumerate(work):
        df, desc = case["df"], case["desc"]
        rec = {"check": "valid+decode", **desc}
        probs = []
        parts = sorted(by_case.get(ci, []), key=lambda t: (len(t[0]), t[0]))
        # hive: part.N in numeric order
        import re
        parts = sorted(by_case.get(ci, []), key=lambda t: int(re.search(r"part\.(\d+)\.", t[0]).group(1)) if "part." in t[0] else -1)
        cells_by_col = {}
        total = 0
        metas = {}
        for rel, d in parts:
            if "error" in d:
                probs.append(f"{rel or 'file'}: {d['error']}")
                continue
            total += d["rows"]
            if d.get("loose"):
                probs.append(f"{rel or 'file'}: {d['loose']} level / dictionary-index stream(s) announce a run whose payload is not all inside the page "
                             "(the format packs whole groups of 8 values; the last group is padded, not cut)")
            for ri, (nr, cols) in enumerate(d["rgs"]):
                for cname, m, cells in zip(d["cols"], d["meta"], cols):
                    cells_by_col.setdefault(cname, []).extend(cells)
                    metas[cname] = m
        written_index = [c for c in cells_by_col if c not in df.columns]
        if not probs:
            if total != len(df):
                probs.append(f"files hold {total} rows, the frame has {len(df)}")
            for c in df.columns:
                if c not in cells_by_col:
                    if len(df) and parts:
                        probs.append(f"column {c} is not in the file")
                    continue
                kind = c.split("_", 1)[1] if "_" in c else "int64"
                m = metas[c]
                # NULL vs NaN: a NaN cell is a NULL iff the column is OPTIONAL (max definition level 1)
                exp = wcases.expected_cells(df[c], kind, m, nan_is_null=(m[3] >= 1))
                got = cells_by_col[c]
                if len(exp) != len(got):
                    probs.append(f"column {c}: {len(got)} cells decoded, {len(exp)} written")
                    continue
                for i, (e, g) in enumerate(zip(exp, got)):
                    if e == ("nanbits",):
                        ok = isinstance(g, int) and ((m[0] == 4 and (g & 0x7F800000) == 0x7F800000 and (g & 0x7FFFFF)) or
                                                     (m[0] == 5 and (g & 0x7FF0000000000000) == 0x7FF0000000000000 and (g & 0xFFFFFFFFFFFFF)))
                    elif e == ("dontcare",):
                        ok = True
                    else:
                        ok = (e == g)
                    if not ok:
                        probs.append(f"column {c} row {i}: an independent reader decodes {g!r}, the frame holds {df[c].iloc[i]!r} (expected physical {e!r})")
                        break
        if probs:
            report.violation({**rec, "what": "; ".join(probs)[:500], "sig": "c02:" + probs[0].split(":")[-1][:40]})
        nontrivial = len(df) >= 1 and (any(p != "none" for p in case["pats"].values()) or bool(case["opts"]) or case["globals"]["page"])
        report.case(("case", str(desc)), bool(nontrivial), sample=desc if nontrivial and len(report.samples) < 4 else None)
        report.stream("file.decode")
        report.count("files", len(blobs))
        for k in case["kinds"]:
            report.count("dtype:" + k)


def search(ctx, report):
    old = ctx.tier
    ctx.tier = "thorough"
    try:
        run(ctx, report)
    finally:
        ctx.tier = old


def replay(ctx, rec, report):
    r2 = type(report)(report.prop, report.tier, report.seed)
    run(ctx, r2)
    return any(v.get("sig") == rec.get("sig") for v in r2.violations)
