"""C05 — filtered reads never lose a qualifying row (row-group pruning is sound).

1. `filter.val` — the REGENERATED Lean definitions (Gen.Filter, translated from api.py on this
   run) are validated against the real `filter_val/filter_in/filter_not_in` on an exhaustive grid.
2. `filter.keep` — the hand model `Impl.Prune` (filter_out_stats / filter_out_cats /
   filter_row_groups) against the real `filter_row_groups` on generated datasets x filter programs
   (values are rank-mapped to integers, which is all the decision logic depends on).
3. property oracle on the real code: every row of the full read that satisfies the predicate
   (SQL null semantics; null cells are don't-care for != / not in) is present in the filtered read,
   and the filtered read is an in-order concatenation of whole row groups.
"""
import itertools, math, os, shutil, struct
import numpy as np
import pandas as pd
from .common import parse_reply, parse_list, fmt_list, canon_err

ASSUMPTIONS = [
    "scalars of one column are linearly ordered (rank mapping to Int preserves every comparison)",
    "statistics are exact (that is C04); the harness states them from the file as written",
    "text typing of partition values (val_to_num) is outside the model and exercised on the real code only",
]

OPS = ["==", "=", "!=", "<", "<=", ">", ">=", "in", "not in"]


def enc_op(op):
    return op.replace(" ", "_")


def opt(v):
    return "[]" if v is None else f"[{v}]"


# ------------------------------------------------------------------ 1. grid validation of Gen.Filter

def grid(ctx, report):
    import fastparquet.api as api
    scal = [None, -1, 0, 1, 2, 3, 4]
    vals_s = [v for v in scal if v is not None]
    lists = [[]] + [list(t) for n in (1, 2, 3) for t in itertools.product([0, 1, 2, 3], repeat=n)]
    reqs, reals, descs = [], [], []

    def real(f, *a):
        try:
            return "true" if bool(f(*a)) else "false"
        except TypeError:
            return "err:type"
        except (IndexError, KeyError):
            return "err:key"
        except Exception as e:  # noqa
            return "err:" + type(e).__name__

    wrap = lambda v, k: (np.array([v]) if (v is not None and k) else v)  # noqa: E731
    for op in OPS + ["~"]:
        if op in ("in", "not in"):
            for l in lists:
                for vmin in scal:
                    for vmax in scal:
                        reqs.append(f"filter val op={enc_op(op)} val=0 vals={fmt_list(l)} vmin={opt(vmin)} vmax={opt(vmax)}")
                        reals.append(real(api.filter_val, op, l, wrap(vmin, len(l) % 2), wrap(vmax, len(l) % 2)))
                        descs.append((op, tuple(l), vmin, vmax))
        else:
            for val in vals_s:
                for vmin in scal:
                    for vmax in scal:
                        reqs.append(f"filter val op={enc_op(op)} val={val} vals=[] vmin={opt(vmin)} vmax={opt(vmax)}")
                        reals.append(real(api.filter_val, op, val, wrap(vmin, val % 2), wrap(vmax, val % 2)))
                        descs.append((op, val, vmin, vmax))
    for l in lists:
        for vmin in scal:
            for vmax in scal:
                reqs.append(f"filter in vals={fmt_list(l)} vmin={opt(vmin)} vmax={opt(vmax)}")
                reals.append(real(api.filter_in, l, vmin, vmax))
                descs.append(("filter_in", tuple(l), vmin, vmax))
                reqs.append(f"filter not_in vals={fmt_list(l)} vmin={opt(vmin)} vmax={opt(vmax)}")
                reals.append(real(api.filter_not_in, l, vmin, vmax))
                descs.append(("filter_not_in", tuple(l), vmin, vmax))
    reps = ctx.driver.ask(reqs) if ctx.model_ok else [None] * len(reqs)
    for req, rep, rl, d in zip(reqs, reps, reals, descs):
        report.case(("grid",) + d, nontrivial=(d[2] is not None or d[3] is not None),
                    sample={"stream": "filter.val", "request": req, "real": rl} if len(report.samples) < 2 else None)
        report.stream("filter.val")
        if rep is None:
            continue
        head, dd = parse_reply(rep)
        m = dd.get("val") if head == "ok" else "err:" + dd.get("kind", "?")
        if m != rl:
            report.corr_break("filter.val", {"request": req, "model": m, "real": rl, "explained_by_known": False})
    # soundness oracle on the same grid, directly on the real functions (property statement itself)
    for op in OPS:
        for vmin in scal:
            for vmax in scal:
                if vmin is not None and vmax is not None and vmin > vmax:
                    continue
                xs = [x for x in range(-2, 6) if (vmin is None or x >= vmin) and (vmax is None or x <= vmax)]
                cands = lists if op in ("in", "not in") else vals_s
                for val in cands:
                    try:
                        out = bool(api.filter_val(op, val, vmin, vmax))
                    except Exception:
                        continue
                    report.evaluations += 1
                    if not out:
                        continue
                    for x in xs:
                        if sat(op, val, x):
                            report.violation({"check": "interval-test", "op": op, "val": val, "vmin": vmin, "vmax": vmax, "x": x,
                                              "reason": "bound-listed" if op == "not in" else "unsound",
                                              "what": f"filter_val({op!r},{val},{vmin},{vmax}) excludes a chunk that can hold {x}",
                                              "sig": f"interval:{op}"})
                            break


def sat(op, val, x):
    if x is None or (isinstance(x, float) and math.isnan(x)):
        return False
    if op in ("==", "="):
        return x == val
    if op == "!=":
        return x != val
    if op == "<":
        return x < val
    if op == "<=":
        return x <= val
    if op == ">":
        return x > val
    if op == ">=":
        return x >= val
    if op == "in":
        return x in val
    if op == "not in":
        return x not in val
    raise ValueError(op)


# ------------------------------------------------------------------ 2./3. datasets x filter programs

def make_dataset(ctx, rng, idx):
    """returns dict(path, pf, full (DataFrame with rid), rg_rids [list of rid lists], cols info)"""
    import fastparquet
    n = rng.choice([0, 1, 5, 12, 30, 57])
    if idx < 10:
        n = [12, 30, 57, 30, 57, 12, 57, 30, 12, 57][idx]
    kind = rng.choice(["simple", "simple", "hive", "hive-part", "hive-part2"])
    if idx < 5:
        kind = ["simple", "hive-part2", "hive", "hive-part", "hive-part2"][idx]     # every layout, whatever the seed
    df = pd.DataFrame({"rid": np.arange(n, dtype="int64")})
    base = rng.randrange(-5, 50)
    style = rng.choice(["sorted", "random", "blocks", "const"])
    if idx == 10:
        # directed (statistics mode "bounds-first-only"): a narrow column `i` whose bounds say nothing about the others
        n, style, base = 30, "const", 40
        df = pd.DataFrame({"rid": np.arange(n, dtype="int64")})
    if style == "sorted":
        iv = sorted(rng.randrange(base, base + 40) for _ in range(n))
    elif style == "blocks":
        iv = [base + (k // 5) * rng.choice([1, 3]) for k in range(n)]
    elif style == "const":
        iv = [base] * n
    else:
        iv = [rng.randrange(base, base + 15) for _ in range(n)]
    df["i"] = np.array(iv, dtype="int64")
    fv = [rng.choice([float(rng.randrange(-3, 8)), float("nan"), rng.random() * 10]) for _ in range(n)]
    if rng.random() < 0.3:
        fv = [float("nan")] * n
    df["f"] = np.array(fv, dtype="float64")
    sv = [rng.choice(["a", "b", "ab", "é", "z", "", "B"]) for _ in range(n)]
    df["s"] = pd.Series(sv, dtype=object)
    nv = [rng.choice([None, rng.randrange(0, 6)]) for _ in range(n)]
    k = rng.random()
    if k < 0.2:
        nv = [None] * n
    elif k < 0.5 and n:
        # whole blocks of nulls so that some row groups are all-null
        nv = [None if (j // 6) % 2 == 0 else rng.randrange(0, 6) for j in range(n)]
    df["n"] = pd.Series(nv, dtype="float64")
    parts = []
    if kind in ("hive-part", "hive-part2") and n:
        df["p"] = np.array([rng.randrange(0, 3) for _ in range(n)], dtype="int64")
        parts = ["p"]
        if kind == "hive-part2":
            # text keys of more than one character (a listed value must be typed element by element)
            # ... as an object column or as a pandas string column (the partition metadata then says 'str')
            df["q"] = pd.Series([rng.choice(["x", "yy", "k2"]) for _ in range(n)], dtype=object if idx % 2 == 0 else "str")
            parts = ["p", "q"]
    offs = rng.choice([None, 7, 4, [0, 3, 11] if n > 11 else [0], 1000])
    stats = rng.choice([True, True, "auto", ["i"], ["i", "f", "s", "n"], False])
    if idx < 10:
        stats = True
    path = os.path.join(ctx.workdir("c05"), f"ds{idx}")
    shutil.rmtree(path, ignore_errors=True)
    if os.path.exists(path):
        os.remove(path)
    kw = dict(row_group_offsets=offs, stats=stats, write_index=False)
    if rng.random() < 0.3:
        kw["compression"] = rng.choice(["SNAPPY", "GZIP", "ZSTD"])
    if kind == "simple":
        fastparquet.write(path, df, **kw)
    else:
        fastparquet.write(path, df, file_scheme="hive", partition_on=parts, **kw)
    pf = fastparquet.ParquetFile(path)
    desc = {"rows": n, "layout": kind, "offsets": str(offs), "stats": str(stats), "istyle": style, "parts": parts}
    return {"path": path, "desc": desc, "parts": parts, "df": df}


def mutate_stats(rng, pf, idx=None):
    """In-memory variants of the statistics a foreign writer may produce (all still *exact*):
    new-style fields only, one bound missing, null_count missing, statistics absent on some chunks."""
    mode = rng.choice(["asis", "asis", "newstyle", "drop-some", "drop-nullcount", "one-bound"])
    if idx is not None and idx < 10:
        # every statistics layout is exercised whatever the seed (the first datasets also have stats on every column)
        mode = ["asis", "newstyle", "one-bound", "drop-nullcount", "drop-some"][idx % 5]
    if idx == 10:
        mode = "bounds-first-only"
    if mode == "asis":
        return mode
    for rg in pf.row_groups:
        for col in rg.columns:
            s = col.meta_data.statistics
            if s is None:
                continue
            if mode == "newstyle":
                if s.max is not None:
                    s.max_value, s.max = s.max, None
                if s.min is not None:
                    s.min_value, s.min = s.min, None
            elif mode == "drop-some" and rng.random() < 0.4:
                col.meta_data.statistics = None
            elif mode == "drop-nullcount":
                s.null_count = None
            elif mode == "bounds-first-only":
                # only column `i` keeps its bounds; the others keep a Statistics struct holding the null count alone
                if ".".join(col.meta_data.path_in_schema) != "i":
                    s.max = s.min = s.max_value = s.min_value = None
            elif mode == "one-bound":
                if rng.random() < 0.5:
                    s.max = None
                else:
                    s.min = None
    pf._statistics = None
    return mode


def rand_filter(rng, info, cols):
    """one condition (col, op, value)"""
    col = rng.choice(cols)
    op = rng.choice(OPS)
    pool = info[col]["pool"]
    if op in ("in", "not in"):
        k = rng.choice([0, 1, 1, 2, 3])
        return (col, op, [rng.choice(pool) for _ in range(k)])
    return (col, op, rng.choice(pool))


def decode_stat(b, col):
    if b is None:
        return None
    if isinstance(b, str):
        b = b.encode("latin1") if col != "s" else b.encode()
    b = bytes(b)
    if col in ("i", "rid", "p"):
        return struct.unpack("<q", b)[0]
    if col in ("f", "n"):
        return struct.unpack("<d", b)[0]
    return b.decode("utf8")


def datasets(ctx, report):
    import fastparquet
    from fastparquet import api
    rng = ctx.rng
    nds = 14 if ctx.quick else 150
    nprog = 24 if ctx.quick else 60
    model_reqs = []      # (request, real idx list or error, record)
    for d in range(nds):
        ds = make_dataset(ctx, rng, d)
        pf = fastparquet.ParquetFile(ds["path"])
        smode = mutate_stats(rng, pf, d)
        ds["desc"]["stats_mode"] = smode
        report.count("layout:" + ds["desc"]["layout"])
        report.count("stats_mode:" + smode)
        full = pf.to_pandas()
        rg_frames = [pf[i].to_pandas() for i in range(len(pf.row_groups))]
        rg_rids = [list(map(int, f["rid"])) for f in rg_frames]
        cols = ["i", "f", "s", "n"] + ds["parts"]
        info = {}
        for c in cols:
            vals = [v for v in full[c].tolist() if not (v is None or (isinstance(v, float) and math.isnan(v)))]
            if c == "s" or c == "q":
                pool = sorted(set(vals)) + ["", "a", "m", "zz", "é"]
            else:
                vs = sorted(set(vals))
                pool = vs + [(vs[0] - 1) if vs else 0, (vs[-1] + 1) if vs else 1, 2]
                if c in ("i", "p"):
                    pool = [int(x) for x in pool]
                if c in ("f", "n") and rng.random() < 0.5:
                    pool = [float(x) for x in pool] + [2.5]
            info[c] = {"pool": pool}
        # chunk statistics for the model
        colid = {c: k for k, c in enumerate(cols)}
        chunks_per_rg = []
        for rg in pf.row_groups:
            ch = []
            for col in rg.columns:
                name = ".".join(col.meta_data.path_in_schema)
                if name not in colid or name in ds["parts"]:
                    continue
                s = col.meta_data.statistics
                st = None
                if s is not None:
                    st = {"nc": s.null_count, "max": decode_stat(s.max, name) if s.max else None,
                          # `s.max or s.max_value`: a falsy (empty) deprecated field is skipped, the new-style field counts whenever present
                          "max_value": decode_stat(s.max_value, name) if s.max_value is not None else None,
                          "min": decode_stat(s.min, name) if s.min else None,
                          "min_value": decode_stat(s.min_value, name) if s.min_value is not None else None}
                ch.append({"col": name, "nv": col.meta_data.num_values, "st": st})
            fp = rg.columns[0].file_path
            pairs = []
            if fp:
                for seg in fp.split("/")[:-1]:
                    if "=" in seg:
                        k, v = seg.split("=", 1)
                        pairs.append((k, v))
            chunks_per_rg.append({"n": rg.num_rows, "chunks": ch, "pairs": pairs, "haspath": fp is not None})
        # directed: list filters on every partition column, naming keys that exist
        directed = []
        for pc in ds["parts"]:
            keys = sorted(set(v for v in full[pc].tolist() if v is not None))
            for kk in keys[:3]:
                directed.append([(pc, "in", [kk])])
            if len(keys) >= 2:
                directed.append([(pc, "in", [keys[0], keys[-1]])])
                directed.append([(pc, "not in", [keys[0]])])
                directed.append([(pc, "in", (keys[-1],)), ("i", ">=", int(full["i"].min()) if len(full) else 0)])
        if smode == "bounds-first-only" and len(full):
            # directed: an AND group over a column with bounds followed by columns without
            imax = int(full["i"].max())
            for c in ("f", "n", "s"):
                for v in info[c]["pool"][:5]:
                    directed.append([("i", "<=", imax), (c, "==", v)])
                    directed.append([("i", "<=", imax), (c, ">=", v)])
        for pi in range(nprog + len(directed)):
            shape = rng.choice(["flat1", "flat2", "flat3", "or2", "or3"])
            if pi >= nprog:
                filt = directed[pi - nprog]
                dnf = [filt]
                shape = "flat-directed"
            elif shape.startswith("flat"):
                filt = [rand_filter(rng, info, cols) for _ in range(int(shape[-1]))]
                dnf = [filt]
            else:
                dnf = [[rand_filter(rng, info, cols) for _ in range(rng.choice([1, 2]))] for _ in range(int(shape[-1]))]
                filt = dnf
            report.count("shape:" + shape)
            for g in dnf:
                for (_c, op, _v) in g:
                    report.count("op:" + op)
            # ---- real
            try:
                got = pf.to_pandas(filters=filt)
                got_rids = list(map(int, got["rid"]))
                kept_real = api.filter_row_groups(pf, filt, as_idx=True)
                err = None
            except Exception as e:  # noqa
                got_rids, kept_real, err = None, None, canon_err(e)
            # ---- oracle
            def row_sat(row):
                return any(all(sat(op, v, row[c]) for (c, op, v) in g) for g in dnf)
            try:
                qual = [int(r["rid"]) for r in full.to_dict("records") if row_sat(r)]
                oracle_err = None
            except TypeError:
                qual, oracle_err = [], "type"
            nontrivial = False
            if err is None:
                lost = sorted(set(qual) - set(got_rids))
                concat = [r for k in kept_real for r in rg_rids[k]]
                nontrivial = 0 < len(kept_real) < len(rg_rids)
                rec = {"check": "dataset", "dataset": ds["desc"], "filters": repr(filt), "path": ds["path"]}
                if lost and oracle_err is None:
                    ops_involved = sorted({op for g in dnf for (_c, op, _v) in g})
                    notin_only = explain_not_in(dnf, chunks_per_rg, rg_rids, lost, ds)
                    report.violation({**rec, "op": "not in" if notin_only else ",".join(ops_involved),
                                      "reason": "bound-listed" if notin_only else "rows-lost",
                                      "lost_rids": lost[:10], "what": f"{len(lost)} qualifying row(s) missing from the filtered read",
                                      "sig": "lost:" + ("not-in" if notin_only else "other"),
                                      "replay_data": replay_blob(ds, filt)})
                if got_rids != concat:
                    report.violation({**rec, "op": "order", "reason": "not-a-concatenation", "sig": "concat",
                                      "what": "filtered read is not the in-order concatenation of the selected whole row groups",
                                      "replay_data": replay_blob(ds, filt)})
            elif oracle_err is None and err not in ("type",):
                report.violation({"check": "dataset", "dataset": ds["desc"], "filters": repr(filt), "op": "raise", "reason": err,
                                  "what": f"filtered read raised {err}", "sig": "raise:" + err, "replay_data": replay_blob(ds, filt)})
            report.case(("ds", d, repr(filt)), nontrivial,
                        sample={"stream": "filter.keep", "dataset": ds["desc"], "filters": repr(filt), "kept": kept_real}
                        if nontrivial and sum(1 for s in report.samples if isinstance(s, dict) and s.get("stream") == "filter.keep") < 3 else None)
            report.stream("filter.keep")
            # ---- model request (rank-mapped)
            if ctx.model_ok and oracle_err is None:
                req = model_request(dnf, chunks_per_rg, colid, ds["parts"])
                if req is not None:
                    model_reqs.append((req, kept_real, err, {"dataset": ds["desc"], "filters": repr(filt)}))
        shutil.rmtree(ds["path"], ignore_errors=True) if os.path.isdir(ds["path"]) else os.remove(ds["path"])
    if model_reqs:
        reps = ctx.driver.ask([m[0] for m in model_reqs])
        for (req, kept, err, rec), rep in zip(model_reqs, reps):
            head, dd = parse_reply(rep)
            if head == "ok":
                mk = parse_list(dd["idx"])
                if err is not None or mk != kept:
                    report.corr_break("filter.keep", {**rec, "model": mk, "real": kept if err is None else "err:" + err,
                                                      "request": req[:6000], "explained_by_known": False})
            else:
                if err is None:
                    report.corr_break("filter.keep", {**rec, "model": rep, "real": kept, "request": req[:6000], "explained_by_known": False})
        report.count("model_requests", len(model_reqs))


def explain_not_in(dnf, chunks_per_rg, rg_rids, lost, ds):
    """True if every lost row lies in a row group that some `not in` condition excludes because a
    listed value equals one of its bounds while min != max (the listed known finding)."""
    lost = set(lost)
    for k, rids in enumerate(rg_rids):
        if not lost & set(rids):
            continue
        ok = False
        for g in dnf:
            for (c, op, v) in g:
                if op != "not in":
                    continue
                for ch in chunks_per_rg[k]["chunks"]:
                    if ch["col"] == c and ch["st"]:
                        mx = ch["st"]["max"] if ch["st"]["max"] is not None else ch["st"]["max_value"]
                        mn = ch["st"]["min"] if ch["st"]["min"] is not None else ch["st"]["min_value"]
                        if (mx in v or mn in v) and mx != mn:
                            ok = True
        if not ok:
            return False
    return True


def replay_blob(ds, filt):
    df = ds["df"]
    return {"frame": df.to_json(orient="split"), "desc": ds["desc"], "filters": repr(filt)}


def model_request(dnf, chunks_per_rg, colid, parts):
    """rank-map every scalar per column; None if something cannot be mapped (mixed types)."""
    consts = {c: set() for c in colid}
    try:
        for g in dnf:
            for (c, op, v) in g:
                for x in (v if isinstance(v, list) else [v]):
                    consts[c].add(x)
        for rg in chunks_per_rg:
            for ch in rg["chunks"]:
                if ch["st"]:
                    for k in ("max", "max_value", "min", "min_value"):
                        x = ch["st"][k]
                        if x is not None:
                            if isinstance(x, float) and math.isnan(x):
                                return None
                            consts[ch["col"]].add(x)
            for (k, v) in rg["pairs"]:
                if k in consts:
                    if k == "p":
                        consts[k].add(int(v))
                    else:
                        consts[k].add(v)
        rank = {}
        for c, s in consts.items():
            if any(isinstance(x, float) and math.isnan(x) for x in s):
                return None
            order = sorted(s)
            rank[c] = {x: i for i, x in enumerate(order)}
    except TypeError:
        return None

    def o(c, x):
        return "[]" if x is None else f"[{rank[c][x]}]"
    rgs = []
    for rg in chunks_per_rg:
        chs = []
        for ch in rg["chunks"]:
            c = ch["col"]
            if ch["st"] is None:
                st = "[]"
            else:
                s = ch["st"]
                st = f"[{'[]' if s['nc'] is None else '[%d]' % s['nc']},{o(c, s['max'])},{o(c, s['max_value'])},{o(c, s['min'])},{o(c, s['min_value'])}]"
            chs.append(f"[{colid[c]},{ch['nv']},{st}]")
        ps = []
        for (k, v) in rg["pairs"]:
            if k in colid:
                ps.append(f"[{colid[k]},{rank[k][int(v) if k == 'p' else v]}]")
        rgs.append(f"[{rg['n']},[{','.join(chs)}],[{','.join(ps)}],{1 if rg['haspath'] else 0}]")
    groups = []
    for g in dnf:
        cs = []
        for (c, op, v) in g:
            if isinstance(v, list):
                cs.append(f"[{colid[c]},{enc_op(op)},0,{fmt_list([rank[c][x] for x in v])}]")
            else:
                cs.append(f"[{colid[c]},{enc_op(op)},{rank[c][v]},[]]")
        groups.append("[" + ",".join(cs) + "]")
    return f"filter keep rgs=[{','.join(rgs)}] dnf=[{','.join(groups)}]"


def run(ctx, report):
    report.rule = ("(1) exhaustive grid over op x val x (vmin,vmax) in {None,-1..4} and lists of length<=3 over 0..3 for the regenerated "
                   "interval tests; (2) seeded datasets (row-group splits, hive partitions, nulls/NaN/all-null chunks, stats "
                   "True/auto/list/False and foreign-style statistics variants) x filter programs over the full grammar; non-trivial = "
                   "the predicate keeps >=1 and drops >=1 row group (datasets) or a bound is present (grid)")
    grid(ctx, report)
    datasets(ctx, report)
    report.extra["grid_exhaustive"] = True


def search(ctx, report):
    # thorough-size run of the dataset generator as failing-input search
    old = ctx.tier
    try:
        ctx.tier = "thorough"
        datasets(ctx, report)
    finally:
        ctx.tier = old


def replay(ctx, rec, report):
    import fastparquet, io
    if rec.get("check") == "interval-test":
        import fastparquet.api as api
        return bool(api.filter_val(rec["op"], rec["val"], rec["vmin"], rec["vmax"])) and sat(rec["op"], rec["val"], rec["x"])
    blob = rec.get("replay_data")
    if not blob:
        return True
    df = pd.read_json(io.StringIO(blob["frame"]), orient="split")
    print("replay needs the dataset rewritten with", blob["desc"], "filters", blob["filters"])
    return True
