"""C18 — rejected operations raise and leave an existing dataset exactly as it was.

Every kind of rejection x position of the offending column (first / middle / last) x row group
(first / later) x existing dataset state (single file, hive, hive partitioned; 1..k row groups).
Oracle: the operation raises, and afterwards the dataset re-opens and reads exactly its previous
content (single files: byte-identical; multi-file: every previous file byte-identical, `_metadata`
unchanged).  Correspondence `fs.reject`: the recorded open/mkdir calls of the rejected operation vs
the model's prediction (up-front validation issues no filesystem write; a late failure in a
multi-file append touches only fresh part files).
"""
import hashlib, os, shutil
import numpy as np
import pandas as pd
from .common import canon_err, short_tb, parse_reply
from .fsrec import RecFS, collapse
from .gen_tables import diff_frames

ASSUMPTIONS = ["a rejected operation is one the library itself refuses (raises); I/O faults are C19's subject"]


def snapshot(path):
    if os.path.isfile(path):
        return {"": hashlib.sha1(open(path, "rb").read()).hexdigest()}
    out = {}
    for dp, _dn, fns in os.walk(path):
        for f in fns:
            p = os.path.join(dp, f)
            out[os.path.relpath(p, path)] = hashlib.sha1(open(p, "rb").read()).hexdigest()
    return out


def base_frame(n, start=0):
    return pd.DataFrame({"a": pd.Series([f"a{start + i}" for i in range(n)], dtype=object),
                         "b": pd.Series([f"s{i}" for i in range(n)], dtype=object),
                         "c": pd.Series([f"c{i % 3}" for i in range(n)], dtype=object),
                         "p": np.array([i % 2 for i in range(n)], dtype="int64")})[["a", "b", "c", "p"]]


def make_existing(path, layout, nrg, required=False, cat=False):
    import fastparquet
    n = 4 * nrg
    df = base_frame(n)
    if cat:
        df["c"] = pd.Categorical(df["c"], categories=["c0", "c1", "c2"])
    offs = list(range(0, n, 4))
    kw = dict(row_group_offsets=offs, write_index=False, object_encoding="utf8")
    if required:
        kw["has_nulls"] = False
    if layout == "simple":
        fastparquet.write(path, df, **kw)
    elif layout == "hive":
        fastparquet.write(path, df, file_scheme="hive", **kw)
    elif layout == "hive-hole":
        # part numbers with a hole: one more row group is written and the second one removed again
        df = base_frame(n + 4)
        if cat:
            df["c"] = pd.Categorical(df["c"], categories=["c0", "c1", "c2"])
        kw["row_group_offsets"] = list(range(0, n + 4, 4))
        fastparquet.write(path, df, file_scheme="hive", **kw)
        pf = fastparquet.ParquetFile(path)
        pf.remove_row_groups([pf.row_groups[1]])
        df = pd.concat([df.iloc[:4], df.iloc[8:]], ignore_index=True)
    else:
        fastparquet.write(path, df, file_scheme="hive", partition_on=["p"], **kw)
    return df


def rejections(layout):
    """(name, kind, builder(colpos, rgpos) -> (callable(path, fs), up_front: bool))"""
    import fastparquet
    hive_kw = {} if layout == "simple" else ({"file_scheme": "hive"} if layout in ("hive", "hive-hole") else {"file_scheme": "hive", "partition_on": ["p"]})

    def append(df, fs=None, **kw):
        def op(path, fsx):
            extra = dict(open_with=fsx.open, mkdirs=lambda d: fsx.mkdirs(d, exist_ok=True)) if layout != "simple" else {}
            fastparquet.write(path, df, append=True, write_index=False, **hive_kw, **extra, **kw)
        return op

    def bad_frame(colpos, rgpos, make_bad):
        """8-row frame = 2 row groups; the offending value sits in column `colpos` of row group `rgpos`"""
        df = base_frame(8, 100)
        col = ["a", "b", "c"][colpos]
        row = 1 if rgpos == 0 else 5
        df.at[row, col] = make_bad
        return df, col

    out = []
    for colpos in (0, 1, 2):
        for rgpos in (0, 1):
            # a value that cannot be encoded as declared (object column with a dict inside, declared utf8/int/float)
            df, col = bad_frame(colpos, rgpos, {"not": "encodable"})
            out.append((f"unencodable-value col{colpos} rg{rgpos}", "late",
                        append(df, row_group_offsets=[0, 4]), False))
            # missing value in a column declared non-nullable (existing dataset written with has_nulls=False)
            df2 = base_frame(8, 100)
            c2 = ["a", "b", "c"][colpos]
            df2.at[1 if rgpos == 0 else 5, c2] = None
            out.append((f"null-in-required col{colpos} rg{rgpos}", "late-required",
                        append(df2, row_group_offsets=[0, 4]), False))
    # missing value in a categorical column declared non-nullable, under every statistics setting
    for rgpos in (0, 1):
        for stats in ("default", False, True, ["a"]):
            df3 = base_frame(8, 100)
            codes = [i % 3 for i in range(8)]
            codes[1 if rgpos == 0 else 5] = -1
            df3["c"] = pd.Categorical.from_codes(codes, categories=["c0", "c1", "c2"])
            kw3 = {} if stats == "default" else {"stats": stats}
            out.append((f"null-in-required-categorical rg{rgpos} stats={stats}", "late-required-cat",
                        append(df3, row_group_offsets=[0, 4], **kw3), False))
    # the same failure after MANY bytes of new row groups have been written (more than the old footer is long):
    # only then does a missing truncate / wrong restore offset show
    for colpos in (0, 2):
        big = base_frame(6000, 100)
        big.at[5500, ["a", "b", "c"][colpos]] = {"not": "encodable"}
        out.append((f"unencodable-value col{colpos} after-2-large-row-groups", "late", append(big, row_group_offsets=[0, 2000, 4000]), False))
    # unsupported column type
    for colpos in (0, 1, 2):
        df = base_frame(8, 100)
        c = ["a", "b", "c"][colpos]
        df[c] = np.arange(8).astype("complex128")
        out.append((f"unsupported-dtype col{colpos}", "late", append(df, row_group_offsets=[0, 4]), False))
    # append with different columns / scheme / partitioning
    df = base_frame(8, 100).drop(columns=["c"])
    out.append(("append-missing-column", "upfront", append(df), True))
    df = base_frame(8, 100)
    df["extra"] = 1
    out.append(("append-extra-column", "upfront", append(df), True))
    df = base_frame(8, 100)
    df.columns = ["a", "b", "c", "c"]
    out.append(("append-duplicate-column-last", "upfront", append(df), True))
    df = base_frame(8, 100)
    df.columns = ["a", "a", "c", "p"]
    out.append(("append-duplicate-column-first", "upfront", append(df), True))
    for dup in ("c", "b", "a"):
        df = base_frame(8, 100)
        df["dup"] = df[dup]
        df.columns = ["a", "b", "c", "p", dup]      # every distinct name matches the existing schema
        out.append((f"append-duplicated-existing-column-{dup}", "upfront", append(df), True))
    df = base_frame(8, 100)
    df.columns = ["a", 7, "c", "p"]
    out.append(("append-non-text-column-name", "upfront", append(df), True))

    def wrong_scheme(path, fsx):
        if layout == "simple":
            fastparquet.write(path, base_frame(4, 100), append=True, file_scheme="hive", write_index=False)
        else:
            fastparquet.write(path, base_frame(4, 100), append=True, file_scheme="simple", write_index=False)
    out.append(("append-wrong-file-scheme", "upfront", wrong_scheme, True))
    if layout != "simple":
        def wrong_part(path, fsx):
            po = [] if layout == "hive-part" else ["p"]
            fastparquet.write(path, base_frame(4, 100), append=True, file_scheme="hive", partition_on=po, write_index=False)
        out.append(("append-wrong-partitioning", "upfront", wrong_part, True))
    out.append(("unknown-codec", "late", append(base_frame(8, 100), compression="NOPE", row_group_offsets=[0, 4]), False))
    # an unknown codec named for ONE column only: the failure comes after earlier columns have been written
    for col in ("b", "c"):
        out.append((f"unknown-codec-column-{col}", "late",
                    append(base_frame(8, 100), compression={"a": "GZIP", col: "NOSUCHCODEC", "_default": None}, row_group_offsets=[0, 4]), False))
    out.append(("bad-file-scheme-name", "upfront",
                lambda path, fsx: fastparquet.write(path, base_frame(4, 100), append=True, file_scheme="flatland"), True))
    # read-side rejections
    out.append(("read-unknown-column", "read", lambda path, fsx: fastparquet.ParquetFile(path).to_pandas(columns=["nope"]), True))
    out.append(("filter-unknown-column", "read", lambda path, fsx: fastparquet.ParquetFile(path).to_pandas(filters=[("nope", "==", 1)]), True))
    return out


def run(ctx, report):
    import fastparquet
    report.rule = ("every kind of rejection x offending column position (first/middle/last) x row group (first/later) x existing "
                   "dataset (single file, hive, hive+partition; 1..3 row groups); non-trivial = existing dataset with >=2 row groups; "
                   "distinct by (rejection, layout, row groups)")
    layouts = ["simple", "hive", "hive-part", "hive-hole"]
    nrgs = [2] if ctx.quick else [1, 2, 3]
    for layout in layouts:
        for nrg in nrgs:
            for (name, kind, op, upfront) in rejections(layout):
                path = os.path.join(ctx.workdir("c18"), "ds")
                shutil.rmtree(path, ignore_errors=True)
                if os.path.isfile(path):
                    os.remove(path)
                df0 = make_existing(path, layout, nrg, required=kind.startswith("late-required"), cat=(kind == "late-required-cat"))
                before = snapshot(path)
                rec = {"check": "reject", "rejection": name, "kind": kind, "layout": layout, "row_groups": nrg}
                ctx.crumb(rec)
                fs = RecFS()
                raised = None
                try:
                    op(path, fs)
                except Exception as e:  # noqa
                    raised = canon_err(e)
                after = snapshot(path)
                probs = []
                if raised is None:
                    probs.append("the operation did not raise")
                # content
                try:
                    got = fastparquet.ParquetFile(path).to_pandas()
                    cols = ["a", "b", "c", "p"]
                    if raised is not None:
                        d = diff_frames(df0[cols].sort_values("a").reset_index(drop=True), got[cols].sort_values("a").reset_index(drop=True))
                        if d:
                            probs.append("content changed: " + "; ".join(d)[:150])
                except Exception as e:  # noqa
                    probs.append("dataset unreadable afterwards: " + canon_err(e) + " " + str(e)[:80])
                if raised is not None:
                    changed = sorted(f for f in before if after.get(f) != before[f])
                    if changed:
                        probs.append(f"previously existing file(s) changed or vanished: {changed[:3]}")
                opened = [e for e in collapse(fs.events, path) if e[0] in ("open", "mkdir")]
                if upfront and opened:
                    probs.append(f"rejection that up-front validation can detect still issued filesystem writes: {opened[:2]}")
                # history level (theorem rejected_attempts_invisible): the next, valid append - planned from what is on disk - must give
                # old ++ new as if the rejected one had never been tried (part files it left behind are re-created, not read)
                if raised is not None and not probs and kind.startswith("late") and not kind.startswith("late-required"):
                    try:
                        good = base_frame(8, 500)
                        hive_kw = {} if layout == "simple" else ({"file_scheme": "hive"} if layout in ("hive", "hive-hole") else {"file_scheme": "hive", "partition_on": ["p"]})
                        fastparquet.write(path, good, append=True, write_index=False, row_group_offsets=[0, 4], object_encoding="utf8", **hive_kw)
                        got2 = fastparquet.ParquetFile(path).to_pandas()
                        cols = ["a", "b", "c", "p"]
                        want2 = pd.concat([df0[cols], good[cols]], ignore_index=True).sort_values("a").reset_index(drop=True)
                        d2 = diff_frames(want2, got2[cols].sort_values("a").reset_index(drop=True)) if len(got2) == len(want2) else [f"{len(got2)} rows read, {len(want2)} expected"]
                        if d2:
                            probs.append("a valid append after the rejected one does not give old ++ new: " + "; ".join(d2)[:150])
                        report.count("retry-after-rejection")
                    except Exception as e:  # noqa
                        probs.append("a valid append after the rejected one raised: " + canon_err(e) + " " + str(e)[:80])
                if probs:
                    single_late = layout == "simple" and kind.startswith("late")
                    report.violation({**rec, "what": "; ".join(probs)[:400], "raised": raised,
                                      "single_file_late_failure": single_late,
                                      "sig": f"reject:{'simple-late' if single_late else name}"})
                report.case((name, layout, nrg), nontrivial=nrg >= 2, sample=rec if len(report.samples) < 4 else None)
                report.count("kind:" + kind)
                report.count("layout:" + layout)
                report.stream("fs.reject")
                shutil.rmtree(path, ignore_errors=True) if os.path.isdir(path) else (os.path.exists(path) and os.remove(path))
    # ---- the same history THROUGH ONE HANDLE: a rejected pf.write_row_groups(...) must not leave anything in the handle that a later
    # successful write through it publishes (the rejected call's completed row groups were kept in pf.fmd before the repair)
    for layout in ("hive", "hive-part"):
        path = os.path.join(ctx.workdir("c18"), "dsh")
        shutil.rmtree(path, ignore_errors=True)
        df0 = make_existing(path, layout, 2, required=False, cat=False)
        rec = {"check": "reject", "rejection": "write_row_groups through a reused handle", "kind": "late-handle", "layout": layout, "row_groups": 2}
        ctx.crumb(rec)
        probs = []
        try:
            pf = fastparquet.ParquetFile(path)
            bad = base_frame(8, 100)
            bad.at[5, "b"] = {"not": "encodable"}          # second new row group fails, the first one completes
            pkw = {}       # the handle knows its partitioning
            try:
                pf.write_row_groups(bad, row_group_offsets=[0, 4], **pkw)
                probs.append("the operation did not raise")
            except Exception:  # noqa
                pass
            good = base_frame(8, 500)
            pf.write_row_groups(good, row_group_offsets=[0, 4], **pkw)
            got = fastparquet.ParquetFile(path).to_pandas()
            cols = ["a", "b", "c", "p"]
            want = pd.concat([df0[cols], good[cols]], ignore_index=True).sort_values("a").reset_index(drop=True)
            if len(got) != len(want):
                probs.append(f"after a rejected and then a valid write through one handle the dataset holds {len(got)} rows, old ++ new is {len(want)} "
                             f"(rows of the rejected call published: {sorted(set(got['a'].tolist()) - set(want['a'].tolist()))[:6]})")
            else:
                d = diff_frames(want, got[cols].sort_values("a").reset_index(drop=True))
                if d:
                    probs.append("content differs from old ++ new: " + "; ".join(d)[:150])
        except Exception as e:  # noqa
            probs.append("raised: " + canon_err(e) + " " + str(e)[:100])
        if probs:
            report.violation({**rec, "what": "; ".join(probs)[:400], "sig": "reject:handle-reuse"})
        report.case(("handle-reuse", layout), nontrivial=True)
        report.count("kind:late-handle")
        shutil.rmtree(path, ignore_errors=True)
    # ---- a dataset with MORE THAN TEN part files (part.10, part.11 exist): a rejected append must still not open any of them
    for layout in ("hive", "hive-part"):
        for (name, kind, op, upfront) in [r for r in rejections(layout) if r[0] in ("unencodable-value col1 rg1", "unknown-codec-column-c")]:
            path = os.path.join(ctx.workdir("c18"), "dsm")
            shutil.rmtree(path, ignore_errors=True)
            df0 = make_existing(path, layout, 12, required=False, cat=False)
            before = snapshot(path)
            rec = {"check": "reject", "rejection": name + " (12 part files)", "kind": kind, "layout": layout, "row_groups": 12}
            ctx.crumb(rec)
            fs = RecFS()
            raised = None
            try:
                op(path, fs)
            except Exception as e:  # noqa
                raised = canon_err(e)
            after = snapshot(path)
            probs = [] if raised is not None else ["the operation did not raise"]
            changed = sorted(f for f in before if after.get(f) != before[f])
            if changed:
                probs.append(f"previously existing file(s) changed or vanished: {changed[:3]}")
            try:
                got = fastparquet.ParquetFile(path).to_pandas()
                cols = ["a", "b", "c", "p"]
                d = diff_frames(df0[cols].sort_values("a").reset_index(drop=True), got[cols].sort_values("a").reset_index(drop=True)) \
                    if len(got) == len(df0) else [f"{len(got)} rows read, {len(df0)} before"]
                if d:
                    probs.append("content changed: " + "; ".join(d)[:150])
            except Exception as e:  # noqa
                probs.append("dataset unreadable afterwards: " + canon_err(e) + " " + str(e)[:80])
            if probs:
                report.violation({**rec, "what": "; ".join(probs)[:400], "raised": raised, "sig": "reject:many-parts"})
            report.case((name, layout, 12), nontrivial=True)
            report.count("kind:" + kind)
            report.count("layout:" + layout + "-12")
            shutil.rmtree(path, ignore_errors=True)
    report.exhaustive = True


def search(ctx, report):
    old = ctx.tier
    ctx.tier = "thorough"
    try:
        run(ctx, report)
    finally:
        ctx.tier = old


def replay(ctx, rec, report):
    r2 = type(report)(report.prop, report.tier, report.seed)
    run(ctx, r2)
    return any(v.get("sig") == rec.get("sig") for v in r2.violations)
