"""C17 — metadata-only answers (columns, dtypes, counts) match the data actually read.

For files written by this library (all C01 dtypes, nulls / no nulls, several row groups, hive
partitions, written index or not), the same files with the pandas metadata removed, and
foreign-style variants (statistics without null_count, statistics absent on some chunks), and for
read options (columns, categories list/dict/None, index, pandas_nulls True/False): what the handle
reports from metadata alone - column names and order, dtype of each column, categorical and
partition columns, index columns, total / per-row-group row counts - must equal what the full read
with the same options produces.  Correspondence `dtype.predict`: the Lean decision tables
(regenerated from converted_types.py) and the nullable-promotion model vs `ParquetFile._dtypes`.
"""
import os, shutil, struct
import numpy as np
import pandas as pd
from .common import parse_reply, canon_err
from .gen_tables import gen_column

ASSUMPTIONS = ["pandas dtype objects and extension arrays themselves are outside the model; dtypes are compared by their canonical names"]

KINDS = ["bool", "int8", "int16", "int32", "int64", "uint8", "uint16", "uint32", "uint64", "float32", "float64", "float_nan", "str",
         "dt_ns", "dt_us", "dt_ms", "dt_tz", "td", "cat_str", "Int64", "Int32", "UInt16", "boolean", "obj_int_null"]


def dname(dt):
    """canonical name of a dtype-like thing"""
    try:
        if isinstance(dt, str) and dt == "category":
            return "category"
        p = pd.api.types.pandas_dtype(dt)
        if isinstance(p, pd.CategoricalDtype):
            return "category"
        return str(p)
    except Exception:
        return "INVALID:" + repr(dt)[:40]


def strip_pandas_md(path):
    from fastparquet import writer
    writer.update_file_custom_metadata(path, {"pandas": None})


def rewrite_footer(path, mutate):
    """foreign-style variants of the footer (still truthful about the data)"""
    from fastparquet import cencoding as ce
    data = open(path, "rb").read()
    flen = struct.unpack("<I", data[-8:-4])[0]
    loc = len(data) - 8 - flen
    fmd = ce.from_buffer(np.frombuffer(data[loc:len(data) - 8], dtype="uint8"), "FileMetaData")
    mutate(fmd)
    nf = bytes(fmd.to_bytes())
    with open(path, "wb") as f:
        f.write(data[:loc] + nf + struct.pack("<I", len(nf)) + b"PAR1")


def run(ctx, report):
    import fastparquet
    rng = ctx.rng
    report.rule = ("files over every C01 dtype x null pattern, >=2 row groups, hive partitions, with / without pandas metadata, foreign-style "
                   "statistics (null_count absent, statistics absent), x read options (columns, categories, index, pandas_nulls); "
                   "non-trivial = >=1 row and (nulls or >=2 row groups or a non-default option); distinct by (dtype, variant, options)")
    own_append_case(ctx, report)
    tz_index_case(ctx, report)
    foreign_fallback_case(ctx, report)
    nfiles = 20 if ctx.quick else 140
    reqs = []
    for fidx in range(nfiles):
        n = rng.choice([4, 9, 20])
        kinds = rng.sample(KINDS, 4)
        nblk = (len(KINDS) + 3) // 4
        if fidx < 2 * nblk:
            # directed: every kind once in a file as written, once more under a foreign-style variant, whatever the seed
            kinds = KINDS[(fidx % nblk) * 4:(fidx % nblk + 1) * 4]
        df = pd.DataFrame({"rid": np.arange(n, dtype="int64")})
        pats = {}
        for j, k in enumerate(kinds):
            pats[k] = rng.choice(["none", "some", "last", "first"])
            if k == "obj_int_null":
                vals = [None if (pats[k] != "none" and i == n - 1) else i for i in range(n)]
                df[f"c{j}_{k}"] = pd.Series(vals, dtype="float64")     # ints with nulls, the classic pandas representation
                continue
            col = gen_column(rng, k, n, pats[k])
            df[f"c{j}_{k}"] = col.values if not hasattr(col.dtype, "numpy_dtype") and not isinstance(col.dtype, (pd.CategoricalDtype, pd.DatetimeTZDtype)) else col
        layout = rng.choice(["simple", "simple", "hive-part"])
        with_index = rng.random() < 0.3
        if with_index:
            df.index = pd.Index(np.arange(50, 50 + n, dtype="int64"), name="ix")
        variant = rng.choice(["asis", "asis", "no-pandas-md", "no-null-count", "no-stats-some", "int-null-as-int"])
        if fidx < nblk:
            variant = "asis"
        elif fidx < 2 * nblk:
            variant = ["no-pandas-md", "no-null-count", "no-stats-some", "int-null-as-int"][fidx % 4]
            layout = "simple"
        path = os.path.join(ctx.workdir("c17"), f"f{fidx}")
        shutil.rmtree(path, ignore_errors=True)
        if os.path.isfile(path):
            os.remove(path)
        desc = {"kinds": kinds, "nulls": pats, "layout": layout, "written_index": with_index, "variant": variant, "rows": n}
        ctx.crumb({"check": "write", **desc})
        try:
            kw = dict(row_group_offsets=[0, n // 2], write_index=with_index, stats=True)
            if variant == "int-null-as-int":
                # an int column with nulls stored as INT64 OPTIONAL (what other writers produce)
                cols = [c for c in df.columns if c.endswith("obj_int_null")]
                if cols:
                    kw["object_encoding"] = "infer"
                    for c in cols:
                        df[c] = df[c].astype("Int64")
            if layout == "simple":
                fastparquet.write(path, df, **kw)
                target = path
            else:
                df["p"] = np.array([i % 2 for i in range(n)], dtype="int64")
                fastparquet.write(path, df, file_scheme="hive", partition_on=["p"], **kw)
                target = os.path.join(path, "_metadata")
            if variant in ("no-pandas-md", "int-null-as-int") and layout == "simple":
                strip_pandas_md(path)
            if variant == "no-null-count" and layout == "simple":
                strip_pandas_md(path)

                def mut(fmd):
                    for rg in fmd.row_groups:
                        for c in rg.columns:
                            if c.meta_data.statistics is not None:
                                c.meta_data.statistics.null_count = None
                rewrite_footer(path, mut)
            if variant == "no-stats-some" and layout == "simple":
                strip_pandas_md(path)

                def mut2(fmd):
                    for rg in fmd.row_groups[:1]:
                        for c in rg.columns:
                            c.meta_data.statistics = None
                rewrite_footer(path, mut2)
        except Exception as e:  # noqa
            report.notes.append(f"write/variant failed {kinds} {variant}: {canon_err(e)} {str(e)[:60]}") if len(report.notes) < 8 else None
            continue
        for opt in range(4 if ctx.quick else 8):
            pandas_nulls = rng.random() < 0.7
            colsel = rng.choice([None, None, "subset"])
            catsel = rng.choice([None, None, "list", "dict"])
            idx = rng.choice([None, None, False])
            if opt == 0 and fidx < 2 * nblk:
                pandas_nulls, colsel, catsel, idx = True, None, None, None
            rec = {"check": "predict", **desc, "pandas_nulls": pandas_nulls, "columns": colsel, "categories": catsel, "index": str(idx)}
            ctx.crumb(rec)
            try:
                pf = fastparquet.ParquetFile(path, pandas_nulls=pandas_nulls)
                allcols = pf.columns
                columns = None
                if colsel == "subset":
                    columns = rng.sample(allcols, max(1, len(allcols) // 2))
                cats = None
                catcols = [c for c in allcols if c.endswith("cat_str")]
                if catsel == "list" and catcols:
                    cats = catcols
                elif catsel == "dict" and catcols:
                    cats = {c: 10 for c in catcols}
                # ---- predictions from metadata alone
                pred_dtypes = dict(pf._dtypes(cats))
                pred_cols = list(pf.columns) + list(pf.cats)
                pred_index = pf._get_index(None if idx is None else idx)
                pred_count = pf.count()
                pred_rg = [rg.num_rows for rg in pf.row_groups]
                pred_cats = dict(pf.categories) if cats is None else cats
                # correspondence: the regenerated tables + promotion model, for files WITHOUT pandas metadata
                if ctx.model_ok and not pf.has_pandas_metadata and layout == "simple":
                    from fastparquet import parquet_thrift as pt
                    for ci, (cname, se) in enumerate(pf.schema.root["children"].items()):
                        if getattr(se, "logicalType", None) is not None and getattr(se.logicalType, "TIMESTAMP", None) is not None:
                            continue
                        if cname in (cats or {}) or se.num_children:
                            continue
                        ptype = pt.Type._VALUES_TO_NAMES[se.type]
                        ctype = "none" if se.converted_type is None else pt.ConvertedType._VALUES_TO_NAMES[se.converted_type]
                        rgs_s = []
                        for rg in pf.row_groups:
                            st = rg.columns[ci].meta_data.statistics
                            rgs_s.append(f"[{rg.num_rows},{'x' if st is None else ('m' if st.null_count is None else st.null_count)}]")
                        reqs.append((f"dtype predict ptype={ptype} ctype={ctype} tlen={se.type_length or 0} pn={1 if pandas_nulls else 0} rgs=[{','.join(rgs_s)}]",
                                     dname(pred_dtypes[cname]), {**rec, "column": cname}))
                # ---- the read
                got = pf.to_pandas(columns=columns, categories=cats, index=idx)
            except Exception as e:  # noqa
                report.violation({**rec, "what": "metadata query or read raised: " + canon_err(e) + " " + str(e)[:120], "sig": "raised:" + canon_err(e) + ":" + variant})
                continue
            probs = []
            # what the handle itself reports (`pf.dtypes`, no options) is the answer for a default read, whatever reads went before
            try:
                now = {c: dname(d) for c, d in pf.dtypes.items()}
                fresh = {c: dname(d) for c, d in fastparquet.ParquetFile(path, pandas_nulls=pandas_nulls).dtypes.items()}
                if now != fresh:
                    c0 = next(c for c in fresh if now.get(c) != fresh[c])
                    probs.append(f"after a read with categories={cats!r} the handle's dtypes report {c0}: {now.get(c0)}, a fresh handle (and a default read) says {fresh[c0]}")
            except Exception as e:  # noqa
                probs.append("pf.dtypes raised " + canon_err(e))
            want_cols = (columns if columns is not None else pred_cols)
            index_cols = [] if idx is False else (pred_index or [])
            exp_data_cols = [c for c in want_cols if c not in index_cols]
            if list(got.columns) != exp_data_cols:
                probs.append(f"columns read {list(got.columns)} but the handle reports {exp_data_cols}")
            if len(got) != pred_count or sum(pred_rg) != pred_count:
                probs.append(f"count() = {pred_count}, row groups {pred_rg}, but {len(got)} rows are read")
            names = [x for x in got.index.names if x is not None]
            if idx is not False and names != [x for x in index_cols]:
                probs.append(f"index read {names} but _get_index() reports {index_cols}")
            for c in got.columns:
                if c not in pred_dtypes:
                    probs.append(f"column {c} is read but has no predicted dtype")
                    continue
                pd_obj = pred_dtypes[c]
                if not isinstance(pd_obj, (np.dtype, pd.api.extensions.ExtensionDtype, str, type)):
                    probs.append(f"dtype of {c}: the handle reports {pd_obj!r} ({type(pd_obj).__name__}), which is not a dtype")
                    continue
                p, g = dname(pd_obj), dname(got[c].dtype)
                if p != g:
                    probs.append(f"dtype of {c}: predicted {p}, read {g}")
            for c in pred_cats if isinstance(pred_cats, (dict, list)) else []:
                if c in got.columns and dname(got[c].dtype) != "category":
                    probs.append(f"{c} is reported categorical but read as {dname(got[c].dtype)}")
            if layout == "hive-part" and "p" in got.columns and dname(got["p"].dtype) != "category":
                probs.append("partition column p is not categorical in the read")
            # ---- derived handles are dataset handles too: their counts must match what they read
            try:
                nrg = len(pf.row_groups)
                subs = [(f"pf[{i}]", pf[i]) for i in range(min(nrg, 3))]
                if nrg > 1:
                    subs += [("pf[1:]", pf[1:]), ("pf[::2]", pf[::2]), ("pf[:0]", pf[:0])]
                for hname, hnd in subs:
                    n_meta, n_info = hnd.count(), hnd.info["rows"]
                    n_rg = sum(rg.num_rows for rg in hnd.row_groups)
                    sub_read = hnd.to_pandas(columns=columns, categories=cats, index=idx) if len(hnd.row_groups) else None
                    n_read = len(sub_read) if sub_read is not None else 0
                    if not (n_meta == n_info == n_rg == n_read):
                        probs.append(f"{hname}: count() = {n_meta}, info['rows'] = {n_info}, row groups add up to {n_rg}, a read gives {n_read} rows")
                        break
                    # ... and so must the dtypes they report
                    if sub_read is not None:
                        sub_pred = dict(hnd._dtypes(cats))
                        bad = [f"{hname}: dtype of {c}: predicted {dname(sub_pred[c])}, read {dname(sub_read[c].dtype)}"
                               for c in sub_read.columns if c in sub_pred and dname(sub_pred[c]) != dname(sub_read[c].dtype)]
                        if bad:
                            probs.append(bad[0])
                            break
                # a handle that went through pickling is a dataset handle as well
                import pickle
                hp = pickle.loads(pickle.dumps(pf))
                rp = hp.to_pandas(columns=columns, categories=cats, index=idx)
                pp = dict(hp._dtypes(cats))
                bad = [f"unpickled handle: dtype of {c}: predicted {dname(pp[c])}, read {dname(rp[c].dtype)}"
                       for c in rp.columns if c in pp and dname(pp[c]) != dname(rp[c].dtype)]
                probs += bad[:1]
                report.count("derived-handles:" + str(len(subs)))
            except Exception as e:  # noqa
                probs.append("derived handle: metadata query or read raised " + canon_err(e) + " " + str(e)[:80])
            if probs:
                kinds_bad = sorted({p.split(" of ")[1].split(":")[0].split("_", 1)[1] for p in probs if p.startswith("dtype of ") and "_" in p.split(" of ")[1].split(":")[0]})
                report.violation({**rec, "what": "; ".join(probs)[:400], "pandas_nulls_off": not pandas_nulls,
                                  "sig": f"{variant}:{'pn' if pandas_nulls else 'nopn'}:{','.join(kinds_bad) or probs[0][:25]}"})
            nontrivial = any(v != "none" for v in pats.values()) or colsel or catsel or idx is False or not pandas_nulls
            report.case(("pred", tuple(kinds), variant, pandas_nulls, colsel, catsel, str(idx), layout), bool(nontrivial),
                        sample={**rec, "predicted": {c: dname(d) for c, d in list(pred_dtypes.items())[:4]}} if len(report.samples) < 4 else None)
            report.count("variant:" + variant)
            report.stream("dtype.predict")
        shutil.rmtree(path, ignore_errors=True) if os.path.isdir(path) else (os.path.exists(path) and os.remove(path))
    multi_file_categories(ctx, report)
    _flush(ctx, report, reqs)


def multi_file_categories(ctx, report):
    """a dataset opened from a LIST of part files whose categorical dictionaries differ in size: the category count the
    handle reports must cover what a read produces (and the read must work), as for the same files opened by directory"""
    import fastparquet
    # dictionaries grow from file to file and agree on their common prefix: a later file with FEWER labels runs into the
    # known finding C14-categorical-relabel (codes of earlier files outlive their dictionary), which is C14's business
    for sizes in ([10, 50], [10, 200], [3, 3], [2, 100, 130]):
        d = os.path.join(ctx.workdir("c17"), "multi")
        shutil.rmtree(d, ignore_errors=True)
        os.makedirs(d)
        files, frames = [], []
        for k, ncat in enumerate(sizes):
            labels = [f"L{j:03d}" for j in range(ncat)]
            df = pd.DataFrame({"rid": np.arange(k * 1000, k * 1000 + ncat, dtype="int64"),
                               "c": pd.Categorical(labels, categories=labels)})
            fn = os.path.join(d, f"part.{k}.parquet")
            fastparquet.write(fn, df, write_index=False)
            files.append(fn)
            frames.append(df)
        rec = {"check": "multi-file-categories", "dictionary_sizes": sizes}
        ctx.crumb(rec)
        probs = []
        try:
            for how, arg in (("list", files), ("directory", d)):
                pf = fastparquet.ParquetFile(arg)
                reported = dict(pf.categories).get("c")
                pred = dname(dict(pf._dtypes())["c"])
                got = pf.to_pandas()
                nread = len(got["c"].cat.categories) if dname(got["c"].dtype) == "category" else None
                if pred != dname(got["c"].dtype):
                    probs.append(f"opened by {how}: dtype of c predicted {pred}, read {dname(got['c'].dtype)}")
                if nread is not None and (reported is None or int(reported) < nread):
                    probs.append(f"opened by {how}: the handle reports {reported} categories, the read produced {nread}")
                want = [v for f in frames for v in f["c"].astype(object).tolist()]
                if dname(got["c"].dtype) == "category":
                    # never hand an inconsistent Categorical to pandas (it can crash the process): go through the codes
                    labels_read = list(got["c"].cat.categories)
                    have = [labels_read[k_] if 0 <= k_ < len(labels_read) else f"<code {k_} outside {len(labels_read)} categories>"
                            for k_ in np.asarray(got["c"].cat.codes).tolist()]
                else:
                    have = got["c"].tolist()
                if have != want or pf.count() != len(want):
                    probs.append(f"opened by {how}: values / count differ from the files' content")
        except Exception as e:  # noqa
            probs.append("metadata query or read raised " + canon_err(e) + " " + str(e)[:100])
        if probs:
            report.violation({**rec, "what": "; ".join(probs)[:400], "sig": "multi-cats:" + probs[0][:30]})
        report.case(("multi-cats", tuple(sizes)), nontrivial=sizes[0] != sizes[1])
        report.count("multi-file-categories")
        shutil.rmtree(d, ignore_errors=True)


def _flush(ctx, report, reqs):
    if not reqs or not ctx.model_ok:
        return
    alias = {"O": "object", "M8[ns]": "datetime64[ns]", "m8[ms]": "timedelta64[ms]", "m8[us]": "timedelta64[us]",
             "M8[ms]": "datetime64[ms]", "M8[us]": "datetime64[us]"}
    reps = ctx.driver.ask([r[0] for r in reqs])
    for (req, real, rec), rep in zip(reqs, reps):
        head, dd = parse_reply(rep)
        m = dd.get("dtype") if head == "ok" else None
        m = alias.get(m, m)
        if m is not None and m.startswith("S") and m[1:].isdigit():
            m = "|S" + m[1:]
        real_n = real.replace("|S", "|S")
        if m != real_n and not (m and m.startswith("|S") and real_n == "bytes" + str(int(m[2:]) * 8)):
            report.corr_break("dtype.predict", {**rec, "request": req, "model": m, "real": real, "explained_by_known": False})
    report.count("model_requests", len(reqs))


def own_append_case(ctx, report):
    """after the handle's own write_row_groups the metadata answers must be those of a fresh handle (the appended rows may bring nulls)"""
    import fastparquet
    path = os.path.join(ctx.workdir("c17"), "own_append")
    shutil.rmtree(path, ignore_errors=True)
    rec = {"check": "predict", "variant": "own-append", "kinds": ["obj_int"], "layout": "hive"}
    ctx.crumb(rec)
    probs = []
    try:
        fastparquet.write(path, pd.DataFrame({"o": pd.Series([1, 2, 3], dtype=object), "b": pd.Series([True, False, True], dtype=object)}),
                          file_scheme="hive", object_encoding={"o": "int", "b": "bool"}, write_index=False)
        pf = fastparquet.ParquetFile(path)
        before = {c: dname(d) for c, d in pf.dtypes.items()}
        pf.write_row_groups(pd.DataFrame({"o": pd.Series([4, None], dtype=object), "b": pd.Series([None, True], dtype=object)}))
        now = {c: dname(d) for c, d in pf.dtypes.items()}
        fresh_pf = fastparquet.ParquetFile(path)
        fresh = {c: dname(d) for c, d in fresh_pf.dtypes.items()}
        if now != fresh:
            probs.append(f"after its own append the handle reports {now}, a fresh handle {fresh} (before: {before})")
        got, want = pf.to_pandas(), fresh_pf.to_pandas()
        if {c: dname(got[c].dtype) for c in got.columns} != {c: dname(want[c].dtype) for c in want.columns} or len(got) != 5:
            probs.append("the read through the appending handle differs from a fresh read")
        if pf.count() != 5:
            probs.append(f"count() = {pf.count()} after appending 2 rows to 3")
    except Exception as e:  # noqa
        probs.append("metadata query or read raised after the handle's own append: " + canon_err(e) + " " + str(e)[:100])
    if probs:
        report.violation({**rec, "what": "; ".join(probs)[:400], "sig": "own-append"})
    report.case(("own-append",), True)
    shutil.rmtree(path, ignore_errors=True)


def foreign_fallback_case(ctx, report):
    """a dataset as another writer leaves it when its dictionary falls back: pandas metadata declares column c categorical, one row group
    stores it dictionary-encoded, a later one PLAIN (v1 and v2 pages).  Whatever the handle promises for c, the read must deliver."""
    import fastparquet
    from fastparquet import writer
    labels = ["ant", "bee", "cat", "dog"]
    for version in (1, 2):
        for fallback in (False, True):
            d = os.path.join(ctx.workdir("c17"), "foreign_fb")
            shutil.rmtree(d, ignore_errors=True)
            os.makedirs(d)
            rec = {"check": "predict", "variant": "foreign-dictionary-fallback", "page_version": version, "fallback": fallback, "kinds": ["cat_str"], "layout": "hive"}
            ctx.crumb(rec)
            old = writer.DATAPAGE_VERSION
            probs = []
            try:
                writer.DATAPAGE_VERSION = version
                a = pd.DataFrame({"c": pd.Categorical(["ant", "bee", "ant", "cat"], categories=labels), "x": np.arange(4)})
                b = pd.DataFrame({"c": ["dog", "bee", "dog", "ant"] if fallback else pd.Categorical(["dog", "bee", "dog", "ant"], categories=labels),
                                  "x": np.arange(4, 8)})
                fa, fb = os.path.join(d, "part.0.parquet"), os.path.join(d, "part.1.parquet")
                fastparquet.write(fa, a, has_nulls=True)
                fastparquet.write(fb, b, has_nulls=True)
                pf0 = fastparquet.ParquetFile([fa, fb])
                pf0.fmd.created_by = b"parquet-cpp-arrow version 14.0.1"
                writer.write_common_metadata(os.path.join(d, "_metadata"), pf0.fmd, no_row_groups=False)
                pf = fastparquet.ParquetFile(d)
                pred = dname(pf.dtypes["c"])
                got = pf.to_pandas()
                real = dname(got["c"].dtype)
                if pred != real and not (pred == "object" and real in ("object", "str", "string")):
                    probs.append(f"the handle reports c: {pred}, the read gives {real}")
                if [str(v) for v in got["c"].tolist()] != ["ant", "bee", "ant", "cat", "dog", "bee", "dog", "ant"]:
                    probs.append(f"values {got['c'].tolist()} differ from what the two files hold")
            except Exception as e:  # noqa
                probs.append("metadata query or read raised: " + canon_err(e) + " " + str(e)[:100])
            finally:
                writer.DATAPAGE_VERSION = old
            if probs:
                report.violation({**rec, "what": "; ".join(probs)[:400], "sig": f"foreign-fallback:v{version}:{fallback}"})
            report.case(("foreign-fallback", version, fallback), True)
            shutil.rmtree(d, ignore_errors=True)


def tz_index_case(ctx, report):
    """a tz-aware datetime column as the row index (stored by the writer, or chosen with index=): the dtype the handle reports for it is
    the dtype of the index read"""
    import fastparquet
    path = os.path.join(ctx.workdir("c17"), "tz_index.parq")
    os.path.exists(path) and os.remove(path)
    rec = {"check": "predict", "variant": "tz-index", "kinds": ["dt_tz"], "layout": "simple"}
    ctx.crumb(rec)
    probs = []
    try:
        ts = pd.to_datetime(["2021-03-04 10:00", "2021-03-05 11:30", "2021-07-01 00:00"]).tz_localize("Europe/Berlin")
        df = pd.DataFrame({"v": [1, 2, 3], "t2": ts}, index=pd.DatetimeIndex(ts, name="t"))
        fastparquet.write(path, df, write_index=True)
        for how, kw in (("stored index", {}), ("index='t2'", {"index": "t2"})):
            pf = fastparquet.ParquetFile(path)
            name = "t" if not kw else "t2"
            pred = dname(pf._dtypes()[name])
            got = pf.to_pandas(**kw)
            real = dname(got.index.dtype)
            if pred != real:
                probs.append(f"{how}: the handle reports {name}: {pred}, the index read has dtype {real}")
            elif [str(x) for x in got.index] != [str(x) for x in ts]:
                probs.append(f"{how}: index values {list(got.index)[:2]} differ from {list(ts)[:2]}")
    except Exception as e:  # noqa
        probs.append("raised " + canon_err(e) + " " + str(e)[:100])
    if probs:
        report.violation({**rec, "what": "; ".join(probs)[:400], "sig": "tz-index"})
    report.case(("tz-index",), True)
    os.path.exists(path) and os.remove(path)


def search(ctx, report):
    old = ctx.tier
    ctx.tier = "thorough"
    try:
        run(ctx, report)
    finally:
        ctx.tier = old


def replay(ctx, rec, report):
    r2 = type(report)(report.prop, report.tier, report.seed)
    run(ctx, r2)
    return any(v.get("sig") == rec.get("sig") for v in r2.violations)
