-- root of the PqV library: imports every module so `lake build PqV` checks everything
import PqV.Spec.Varint
import PqV.Spec.Bits
import PqV.Spec.Hybrid
import PqV.Spec.Delta
import PqV.Impl.Kernels
import PqV.Lemmas.Varint
