/-
  Spec.Varint — ULEB128 unsigned varints and zigzag integers, as the Parquet / Thrift
  compact-protocol documents define them.  Bytes are `Nat`s (< 256).  Core Lean only.
-/
namespace PqV.Spec

/-- ULEB128: seven bits per byte, least significant group first, high bit = continuation. -/
def uvarintEnc (x : Nat) : List Nat :=
  if x < 128 then [x] else (x % 128 + 128) :: uvarintEnc (x / 128)
termination_by x
decreasing_by omega

/-- Decode one varint from the front of `bs`; `shift`/`acc` carry the partial value.
    Returns the value and the remaining bytes, `none` on truncated input. -/
def uvarintDecAux : List Nat → Nat → Nat → Option (Nat × List Nat)
  | [], _, _ => none
  | b :: bs, shift, acc =>
    if b < 128 then some (acc + b * 2 ^ shift, bs)
    else uvarintDecAux bs (shift + 7) (acc + (b % 128) * 2 ^ shift)

def uvarintDec (bs : List Nat) : Option (Nat × List Nat) := uvarintDecAux bs 0 0

/-- Number of bytes of the encoding. -/
def uvarintLen (x : Nat) : Nat := (uvarintEnc x).length

/-- zigzag over `Int`: 0,-1,1,-2,… ↦ 0,1,2,3,… -/
def zigzagEnc (n : Int) : Nat := if 0 ≤ n then (2 * n).toNat else (-2 * n - 1).toNat

def zigzagDec (u : Nat) : Int := if u % 2 = 0 then (u / 2 : Nat) else -((u / 2 : Nat) : Int) - 1

end PqV.Spec
