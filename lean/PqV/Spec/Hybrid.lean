import PqV.Spec.Varint
import PqV.Spec.Bits
/-
  Spec.Hybrid — the RLE / bit-packing hybrid encoding of the Parquet encoding document:
    run        := rle-run | bit-packed-run
    rle-run    := varint(count << 1)       value in ceil(w/8) little-endian bytes
    bp-run     := varint(groups << 1 | 1)  groups*8 values bit-packed LSB first (groups*w bytes)
-/
namespace PqV.Spec

inductive Run where
  | rle (count value : Nat)
  | bp (vals : List Nat)          -- length must be a multiple of 8
  deriving Repr, DecidableEq

def Run.values : Run → List Nat
  | .rle c v => List.replicate c v
  | .bp vs => vs

def Run.wf (w : Nat) : Run → Bool
  | .rle _ v => decide (v < 2 ^ w)
  | .bp vs => decide (vs.length % 8 = 0) && vs.all (fun v => decide (v < 2 ^ w))

def encodeRun (w : Nat) : Run → List Nat
  | .rle c v => uvarintEnc (c * 2) ++ leBytes ((w + 7) / 8) v
  | .bp vs => uvarintEnc ((vs.length / 8) * 2 + 1) ++ packLE w vs

def encodeRuns (w : Nat) (rs : List Run) : List Nat := rs.flatMap (encodeRun w)

/-- Decode up to `n` values of width `w`.  `fuel` bounds the number of runs read. -/
def decodeHybridAux (w : Nat) : Nat → Nat → List Nat → List Nat → List Nat
  | 0, _, _, acc => acc
  | fuel + 1, n, bs, acc =>
    if acc.length ≥ n then acc.take n else
    match uvarintDec bs with
    | none => acc
    | some (h, rest) =>
      if h % 2 = 0 then
        let k := (w + 7) / 8
        let v := leNat (rest.take k)
        decodeHybridAux w fuel n (rest.drop k) (acc ++ List.replicate (h / 2) v)
      else
        let g := h / 2
        decodeHybridAux w fuel n (rest.drop (g * w)) (acc ++ unpackLE w (g * 8) (rest.take (g * w)))

def decodeHybrid (w n : Nat) (bs : List Nat) : List Nat :=
  (decodeHybridAux w (bs.length + 1) n bs []).take n

/-- Grammar-level framing of a hybrid stream holding `n` values: every run a decoder consumes to
    obtain them is present in full — header, and the whole payload it announces (`⌈w/8⌉` bytes for an
    RLE run, `groups·w` bytes for a bit-packed run: "we always bit-pack a multiple of 8 values at a
    time").  Values announced beyond `n` are padding and must still be backed by bytes.
    `fuel` bounds the number of runs. -/
def hybridCompleteAux (w : Nat) : Nat → Nat → List Nat → Nat → Bool
  | 0, _, _, _ => false
  | fuel + 1, n, bs, got =>
    if got ≥ n then true else
    match uvarintDec bs with
    | none => false
    | some (h, rest) =>
      if h % 2 = 0 then
        decide ((w + 7) / 8 ≤ rest.length) && hybridCompleteAux w fuel n (rest.drop ((w + 7) / 8)) (got + h / 2)
      else
        decide (h / 2 * w ≤ rest.length) && hybridCompleteAux w fuel n (rest.drop (h / 2 * w)) (got + h / 2 * 8)

def hybridTight (w n : Nat) (bs : List Nat) : Bool := hybridCompleteAux w (bs.length + 1) n bs 0

end PqV.Spec
