import PqV.Spec.Plain
/-
  Spec.Dremel — standard record assembly for one-level repeated leaves (LIST<primitive> and the
  key / value leaves of MAP<primitive, primitive>), from the Dremel paper / parquet-format
  LogicalTypes.md:  an entry with repetition level 0 starts a new row; the definition level of an
  entry says how much of the path is present:
      d <  o        the collection itself is null            (o = levels above the repeated group)
      d =  o        the collection is present but empty
      d >  o        an element: the value if d = maxDef, a null element otherwise.
-/
namespace PqV.Spec

inductive Row where
  | none                       -- the row's collection is null
  | list (es : List Cell)      -- elements in order (`Cell.null` = null element)
  deriving Repr, DecidableEq

structure Entry where
  d : Nat
  r : Nat
  c : Cell        -- the value if d = maxDef, else Cell.null
  deriving Repr, DecidableEq

/-- pair every (def, rep) with its value, consuming values at max definition level -/
def entries (maxDef : Nat) (defs reps : List Nat) (vals : List Cell) : List Entry :=
  ((defs.zip reps).zip (scatter maxDef defs vals)).map fun ((d, r), c) => { d, r, c }

def rowStart (o : Nat) (e : Entry) : Row :=
  if e.d < o then .none else if e.d = o then .list [] else .list [e.c]

/-- add one entry to the rows assembled so far -/
def pushEntry (o : Nat) (rows : List Row) (e : Entry) : List Row :=
  if e.r = 0 then rows ++ [rowStart o e]
  else match rows.getLast? with
    | some (.list es) => rows.dropLast ++ [.list (es ++ [e.c])]
    | _ => rows          -- ill-formed: continuation of nothing / of a null row

/-- record assembly of a whole column chunk -/
def assemble (o : Nat) (es : List Entry) : List Row := es.foldl (pushEntry o) []

/-- well-formed entry stream for `o`, `maxDef`: starts a row, continuation entries are elements -/
def Entry.wf (o maxDef : Nat) (e : Entry) : Bool :=
  decide (e.d ≤ maxDef) && decide (e.r ≤ 1) && (e.r == 0 || decide (e.d > o)) &&
  (if e.d = maxDef then decide (e.c ≠ Cell.null) else decide (e.c = Cell.null))

/-- MAP rows: zip the assembled key and value leaves -/
inductive MapRow where
  | none
  | dict (kvs : List (Cell × Cell))
  deriving Repr, DecidableEq

def zipMap : List Row → List Row → List MapRow
  | .none :: ks, _ :: vs => .none :: zipMap ks vs
  | .list k :: ks, .list v :: vs => .dict (k.zip v) :: zipMap ks vs
  | .list k :: ks, .none :: vs => .dict (k.zip []) :: zipMap ks vs
  | _, _ => []

end PqV.Spec

namespace PqV.Spec

/-! ### shredding (the inverse direction), used to state the round trip -/
def elemEntry (maxDef r : Nat) (c : Cell) : Entry :=
  { d := if c = Cell.null then maxDef - 1 else maxDef, r, c }

def encodeRow (o maxDef : Nat) : Row → List Entry
  | .none => [{ d := o - 1, r := 0, c := Cell.null }]
  | .list [] => [{ d := o, r := 0, c := Cell.null }]
  | .list (c :: cs) => elemEntry maxDef 0 c :: cs.map (elemEntry maxDef 1)

def encodeRows (o maxDef : Nat) (rows : List Row) : List Entry := rows.flatMap (encodeRow o maxDef)

/-- rows that the schema (o = 1 iff the collection is optional; null elements need a spare level) can hold -/
def Row.ok (o maxDef : Nat) : Row → Bool
  | .none => decide (1 ≤ o)
  | .list es => es.all fun c => decide (c ≠ Cell.null) || decide (o + 2 ≤ maxDef)

def valuesOf (maxDef : Nat) (es : List Entry) : List Cell := (es.filter (·.d == maxDef)).map (·.c)

end PqV.Spec
