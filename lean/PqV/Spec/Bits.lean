/-
  Spec.Bits — little-endian byte/bit streams and LSB-first bit packing as the Parquet
  encoding document defines it.  Bytes and values are `Nat`s.  Core Lean only.
-/
namespace PqV.Spec

/-- Value of a byte list read as one little-endian natural number. -/
def leNat : List Nat → Nat
  | [] => 0
  | b :: bs => b + 256 * leNat bs

/-- The `k` low-order bytes of `n`, least significant first. -/
def leBytes : Nat → Nat → List Nat
  | 0, _ => []
  | k + 1, n => (n % 256) :: leBytes k (n / 256)

/-- Value number `i` of width `w` in the LSB-first bit stream `S`. -/
def bitField (w i S : Nat) : Nat := S / 2 ^ (i * w) % 2 ^ w

/-- The first `n` values of width `w` of the bit stream `S`. -/
def unpackNat (w n S : Nat) : List Nat := (List.range n).map (fun i => bitField w i S)

/-- Bit-packed decode: `n` values of width `w`, LSB first, from bytes `bs`. -/
def unpackLE (w n : Nat) (bs : List Nat) : List Nat := unpackNat w n (leNat bs)

/-- Bit stream holding `vs` at width `w` (each value truncated to `w` bits). -/
def packNat (w : Nat) : List Nat → Nat
  | [] => 0
  | v :: vs => v % 2 ^ w + 2 ^ w * packNat w vs

/-- Bit-packed encode to `⌈len·w / 8⌉` bytes. -/
def packLE (w : Nat) (vs : List Nat) : List Nat :=
  leBytes ((vs.length * w + 7) / 8) (packNat w vs)

/-- PLAIN booleans: one bit per value, LSB first. -/
def packBools (bs : List Bool) : List Nat := packLE 1 (bs.map (fun b => if b then 1 else 0))
def unpackBools (n : Nat) (bytes : List Nat) : List Bool := (unpackLE 1 n bytes).map (· != 0)

/-- two's complement reinterpretation of a `bits`-wide unsigned value. -/
def toSigned (bits : Nat) (u : Nat) : Int :=
  if u % 2 ^ bits < 2 ^ (bits - 1) then (u % 2 ^ bits : Nat) else ((u % 2 ^ bits : Nat) : Int) - (2 ^ bits : Nat)

def ofSigned (bits : Nat) (i : Int) : Nat := (i % (2 ^ bits : Nat)).toNat

end PqV.Spec
