import PqV.Spec.Thrift
import PqV.Spec.Plain
import PqV.Spec.Typed
import PqV.Spec.Dremel
/-
  Spec.File — a Parquet file reader / validator written from the format specification only
  (parquet-format: file layout, metadata IDL, page layouts, encodings).  It is the "independent
  implementation" that C02 calls for: it reads the bytes fastparquet writes.  Compression codecs
  are outside Lean: the caller supplies, for every compressed page, the decompressed payload.
-/
namespace PqV.Spec

/-! ### metadata access -/
def TVal.field (v : TVal) (id : Nat) : Option TVal :=
  match v with
  | .struct fs => (fs.find? (·.1 == id)).map (·.2)
  | _ => none

def TVal.asInt : TVal → Option Int
  | .i8 n | .i16 n | .i32 n | .i64 n => some n
  | _ => none
def TVal.asNat (v : TVal) : Option Nat := v.asInt.bind fun i => if i < 0 then none else some i.toNat
def TVal.asBytes : TVal → Option (List Nat)
  | .binary b => some b
  | _ => none
def TVal.asList : TVal → Option (List TVal)
  | .list _ l => some l
  | _ => none
def TVal.asBool : TVal → Option Bool
  | .bool b => some b
  | _ => none

def natField (v : TVal) (id : Nat) : Option Nat := (v.field id).bind TVal.asNat
def listField (v : TVal) (id : Nat) : List TVal := ((v.field id).bind TVal.asList).getD []

structure SchemaEl where
  name : List Nat
  ptype : Option Nat
  typeLength : Nat
  rep : Option Nat          -- 0 REQUIRED, 1 OPTIONAL, 2 REPEATED
  numChildren : Nat
  converted : Option Nat
  tsUnit : Nat := 0         -- LogicalType.TIMESTAMP.unit: 1 MILLIS, 2 MICROS, 3 NANOS (0 = none)
  deriving Repr

def parseSchemaEl (v : TVal) : SchemaEl :=
  { name := ((v.field 4).bind TVal.asBytes).getD [], ptype := natField v 1, typeLength := (natField v 2).getD 0,
    rep := natField v 3, numChildren := (natField v 5).getD 0, converted := natField v 6,
    tsUnit := match ((v.field 10).bind (·.field 8)).bind (·.field 2) with
      | some (.struct fs) => (fs.head?.map (·.1)).getD 0
      | _ => 0 }

structure Leaf where
  path : List (List Nat)
  ptype : Nat
  typeLength : Nat
  maxDef : Nat
  maxRep : Nat
  converted : Option Nat
  tsUnit : Nat := 0
  rep : Option Nat := none
  repDef : Nat := 0         -- definition level reached at the (innermost) REPEATED ancestor, 0 if none
  deriving Repr

/-- depth-first walk of the flattened schema list; returns leaves and the unread rest -/
def walkSchema : Nat → List SchemaEl → List (List Nat) → Nat → Nat → Nat → Nat → List Leaf × List SchemaEl
  | 0, els, _, _, _, _, _ => ([], els)
  | _ + 1, els, _, _, _, _, 0 => ([], els)
  | fuel + 1, els, prefix_, d, r, rd, n + 1 =>
    match els with
    | [] => ([], [])
    | e :: rest =>
      let d' := d + (if e.rep = some 1 ∨ e.rep = some 2 then 1 else 0)
      let r' := r + (if e.rep = some 2 then 1 else 0)
      let rd' := if e.rep = some 2 then d' else rd
      let path := prefix_ ++ [e.name]
      let (mine, rest') :=
        if e.numChildren = 0 then
          ([{ path, ptype := e.ptype.getD 0, typeLength := e.typeLength, maxDef := d', maxRep := r', converted := e.converted, tsUnit := e.tsUnit, rep := e.rep, repDef := rd' : Leaf }], rest)
        else walkSchema fuel rest path d' r' rd' e.numChildren
      let (sibs, rest'') := walkSchema fuel rest' prefix_ d r rd n
      (mine ++ sibs, rest'')

def leavesOf (schema : List SchemaEl) : List Leaf :=
  match schema with
  | [] => []
  | root :: rest => (walkSchema (2 * schema.length + 2) rest [] 0 0 0 root.numChildren).1

/-! ### pages -/
structure PageInfo where
  hdrOff : Nat             -- file offset of the page header
  dataOff : Nat            -- file offset of the page payload
  compSize : Nat
  uncompSize : Nat
  ptypeTag : Nat           -- PageType: 0 data v1, 2 dictionary, 3 data v2
  numValues : Nat
  encoding : Nat
  numNulls : Option Nat    -- v2
  numRows : Option Nat     -- v2
  defLen : Nat             -- v2
  repLen : Nat             -- v2
  isCompressed : Bool      -- v2 flag (default true)
  deriving Repr

def parsePage (file : Array Nat) (off : Nat) : Except String PageInfo :=
  let slice := (file.extract off (min file.size (off + 4096))).toList
  match decStruct slice with
  | none => .error s!"page header at {off} does not parse"
  | some (h, rest) =>
    let hlen := slice.length - rest.length
    match conformant "PageHeader" h with
    | e :: _ => .error s!"page header at {off} does not follow the IDL: {e}"
    | [] =>
    let ty := (natField h 1).getD 99
    let sub := if ty = 0 then h.field 5 else if ty = 2 then h.field 7 else if ty = 3 then h.field 8 else none
    match natField h 2, natField h 3, sub with
    | some u, some c, some s =>
      .ok { hdrOff := off, dataOff := off + hlen, compSize := c, uncompSize := u, ptypeTag := ty,
            numValues := (natField s 1).getD 0,
            encoding := (if ty = 3 then natField s 4 else natField s 2).getD 99,
            numNulls := if ty = 3 then natField s 2 else none,
            numRows := if ty = 3 then natField s 3 else none,
            defLen := if ty = 3 then (natField s 5).getD 0 else 0,
            repLen := if ty = 3 then (natField s 6).getD 0 else 0,
            isCompressed := if ty = 3 then ((s.field 7).bind TVal.asBool).getD true else true }
    | _, _, _ => .error s!"page header at {off}: missing sizes or sub-header (type {ty})"

/-- all pages of a column chunk: they must tile `[start, start + totalCompressed)` exactly -/
def chunkPages (file : Array Nat) : Nat → Nat → Nat → List PageInfo → Except String (List PageInfo)
  | 0, _, _, _ => .error "too many pages"
  | fuel + 1, pos, stop, acc =>
    if pos = stop then .ok acc.reverse
    else if pos > stop then .error s!"pages overrun the chunk: position {pos} > end {stop}"
    else do
      let p ← parsePage file pos
      chunkPages file fuel (p.dataOff + p.compSize) stop (p :: acc)

structure ChunkMeta where
  ptype : Nat
  path : List (List Nat)
  codec : Nat
  numValues : Nat
  totalUncomp : Nat
  totalComp : Nat
  dataOff : Nat
  dictOff : Option Nat
  encodings : List Nat
  nullCount : Option Nat
  statMin : Option (List Nat)
  statMax : Option (List Nat)
  filePath : Option (List Nat)
  encStats : Option (List (Nat × Nat × Nat)) := none     -- encoding_stats: (page_type, encoding, count)
  deriving Repr

def parseChunk (c : TVal) : Except String ChunkMeta :=
  match c.field 3 with
  | none => .error "column chunk without meta_data"
  | some m =>
    match natField m 1, natField m 4, natField m 5, natField m 6, natField m 7, natField m 9 with
    | some t, some codec, some nv, some tu, some tc, some dpo =>
      let st := m.field 12
      .ok { ptype := t, path := (listField m 3).filterMap TVal.asBytes, codec, numValues := nv, totalUncomp := tu, totalComp := tc,
            dataOff := dpo, dictOff := natField m 11, encodings := (listField m 2).filterMap TVal.asNat,
            nullCount := st.bind (natField · 3), statMin := st.bind fun s => (s.field 2).bind TVal.asBytes,
            statMax := st.bind fun s => (s.field 1).bind TVal.asBytes,
            filePath := (c.field 1).bind TVal.asBytes,
            encStats := (m.field 13).map fun _ => (listField m 13).map fun e =>
              ((natField e 1).getD 99, (natField e 2).getD 99, (natField e 3).getD 0) }
    | _, _, _, _, _, _ => .error "column meta data lacks a required field (type, codec, num_values, sizes, data_page_offset)"

/-- `ColumnMetaData.encodings` / `encoding_stats` describe the pages present: every page's encoding is listed; when
    statistics per (page type, encoding) are given they count exactly the pages of that kind in the chunk, and every
    kind present is counted.  First problem found, if any. -/
def encodingsProblem (encodings : List Nat) (encStats : Option (List (Nat × Nat × Nat))) (pages : List (Nat × Nat)) : Option String :=
  match pages.find? (fun p => !encodings.contains p.2) with
  | some p => some s!"a page of type {p.1} uses encoding {p.2}, which ColumnMetaData.encodings {encodings} does not list"
  | none =>
    match encStats with
    | none => none
    | some st =>
      match st.find? (fun e => (pages.filter (· == (e.1, e.2.1))).length != e.2.2) with
      | some e => some s!"encoding_stats counts {e.2.2} page(s) of type {e.1} with encoding {e.2.1}, the chunk holds {(pages.filter (· == (e.1, e.2.1))).length}"
      | none =>
        match pages.find? (fun p => !st.any (fun e => e.1 == p.1 && e.2.1 == p.2)) with
        | some p => some s!"encoding_stats does not mention the page(s) of type {p.1} with encoding {p.2}"
        | none => none

/-- result of decoding one column chunk -/
structure ChunkData where
  path : List (List Nat)
  defs : List Nat
  reps : List Nat
  values : List Cell          -- non-null values in order
  cells : List Cell           -- flat columns: values scattered over the definition levels
  nulls : Nat
  loose : Nat := 0            -- hybrid streams (levels, dictionary indices, RLE booleans) with a run whose announced payload is not all there
  deriving Repr

/-- 1 if the v1 level block is not tightly framed (see `hybridTight`) -/
def levelsLooseV1 (maxLevel n : Nat) (bs : List Nat) : Nat :=
  if maxLevel = 0 then 0 else
  if hybridTight (widthFor maxLevel) n ((bs.drop 4).take (leNat (bs.take 4))) then 0 else 1

/-- 1 if the hybrid stream inside a data page's value section is not tightly framed -/
def valuesLoose (ptype enc n : Nat) (bs : List Nat) : Nat :=
  if enc = ENC_PLAIN_DICTIONARY ∨ enc = ENC_RLE_DICTIONARY then
    match bs with
    | [] => 0
    | w :: rest => if hybridTight w n rest then 0 else 1
  else if enc = ENC_RLE ∧ ptype = PT_BOOLEAN then
    if hybridTight 1 n ((bs.drop 4).take (leNat (bs.take 4))) then 0 else 1
  else 0

/-- payload of a page: the caller-supplied decompressed bytes if any, else the raw bytes -/
def payloadOf (file : Array Nat) (payloads : List (Nat × List Nat)) (p : PageInfo) : List Nat :=
  match payloads.find? (·.1 == p.dataOff) with
  | some (_, b) => b
  | none => (file.extract p.dataOff (p.dataOff + p.compSize)).toList

/-- what the pages of one column chunk have yielded so far -/
structure PageAcc where
  dict : Option (List Cell) := none
  defs : List Nat := []
  reps : List Nat := []
  vals : List Cell := []
  count : Nat := 0
  loose : Nat := 0
  deriving Repr

/-- decode ONE page (dictionary, data v1, data v2) from its uncompressed body and add it to what the
    earlier pages of the chunk yielded.  Pure: the theorems of Props/C01 and Props/C02 about whole
    written chunks are about this very function, which `decodeChunk` runs on the real bytes. -/
def decodePage (leaf : Leaf) (acc : PageAcc) (p : PageInfo) (body : List Nat) : Except String PageAcc :=
  if body.length ≠ p.uncompSize then .error s!"page at {p.hdrOff}: uncompressed_page_size {p.uncompSize} but payload has {body.length} bytes" else
  if p.ptypeTag = 2 then
    match plainDecode leaf.ptype leaf.typeLength p.numValues body with
    | some d => .ok { acc with dict := some d }
    | none => .error s!"dictionary page at {p.hdrOff} does not decode"
  else if p.ptypeTag = 0 then
    match levelsV1 leaf.maxRep p.numValues body with
    | none => .error s!"page at {p.hdrOff}: repetition levels do not decode"
    | some (rl, r1) =>
    match levelsV1 leaf.maxDef p.numValues r1 with
    | none => .error s!"page at {p.hdrOff}: definition levels do not decode"
    | some (dl, r2) =>
    let nn := (dl.filter (· == leaf.maxDef)).length
    match decodeValues leaf.ptype leaf.typeLength p.encoding acc.dict nn r2 with
    | none => .error s!"page at {p.hdrOff}: values (encoding {p.encoding}) do not decode"
    | some vs =>
      .ok { acc with defs := acc.defs ++ dl, reps := acc.reps ++ rl, vals := acc.vals ++ vs, count := acc.count + p.numValues,
                     loose := acc.loose + levelsLooseV1 leaf.maxRep p.numValues body + levelsLooseV1 leaf.maxDef p.numValues r1
                       + valuesLoose leaf.ptype p.encoding nn r2 }
  else
    let rb := body.take p.repLen
    let db := (body.drop p.repLen).take p.defLen
    let vb := body.drop (p.repLen + p.defLen)
    let rl := if leaf.maxRep = 0 then List.replicate p.numValues 0 else decodeHybrid (widthFor leaf.maxRep) p.numValues rb
    let dl := if leaf.maxDef = 0 then List.replicate p.numValues 0 else decodeHybrid (widthFor leaf.maxDef) p.numValues db
    if dl.length ≠ p.numValues ∨ rl.length ≠ p.numValues then .error s!"page at {p.hdrOff}: v2 levels do not decode" else
    let nn := (dl.filter (· == leaf.maxDef)).length
    -- a v2 page holds whole records: it starts one, and num_rows counts the records it starts
    if leaf.maxRep > 0 ∧ p.numValues > 0 ∧ rl.head? ≠ some 0 then .error s!"page at {p.hdrOff}: a v2 page must start at a record boundary" else
    let nrec := if leaf.maxRep = 0 then p.numValues else (rl.filter (· == 0)).length
    if p.numRows ≠ some nrec then .error s!"page at {p.hdrOff}: num_rows {p.numRows} but the page starts {nrec} records" else
    if p.numNulls ≠ some (p.numValues - nn) then .error s!"page at {p.hdrOff}: num_nulls {p.numNulls} but {p.numValues - nn} levels are below the maximum" else
    match decodeValues leaf.ptype leaf.typeLength p.encoding acc.dict nn vb with
    | none => .error s!"page at {p.hdrOff}: values (encoding {p.encoding}) do not decode"
    | some vs =>
      .ok { acc with defs := acc.defs ++ dl, reps := acc.reps ++ rl, vals := acc.vals ++ vs, count := acc.count + p.numValues,
                     loose := acc.loose + (if leaf.maxRep = 0 ∨ hybridTight (widthFor leaf.maxRep) p.numValues rb then 0 else 1)
                       + (if leaf.maxDef = 0 ∨ hybridTight (widthFor leaf.maxDef) p.numValues db then 0 else 1)
                       + valuesLoose leaf.ptype p.encoding nn vb }

/-- the pages of a chunk in file order -/
def decodePages (leaf : Leaf) : PageAcc → List (PageInfo × List Nat) → Except String PageAcc
  | acc, [] => .ok acc
  | acc, (p, body) :: rest =>
    match decodePage leaf acc p body with
    | .error e => .error e
    | .ok acc' => decodePages leaf acc' rest

def decodeChunk (file : Array Nat) (payloads : List (Nat × List Nat)) (leaf : Leaf) (cm : ChunkMeta) (rgRows : Nat) :
    Except String ChunkData := do
  let start := match cm.dictOff with | some d => min d cm.dataOff | none => cm.dataOff
  if start + cm.totalComp > file.size then throw s!"chunk [{start}, {start + cm.totalComp}) exceeds the file ({file.size} bytes)"
  let pages ← chunkPages file (cm.totalComp + 2) start (start + cm.totalComp) []
  -- sizes recorded for the chunk describe exactly the bytes present
  let uncompSum := (pages.map fun p => (p.dataOff - p.hdrOff) + p.uncompSize).sum
  if uncompSum ≠ cm.totalUncomp then throw s!"total_uncompressed_size {cm.totalUncomp} but pages add up to {uncompSum}"
  match pages.find? (·.ptypeTag != 2) with
  | some p => if p.hdrOff ≠ cm.dataOff then throw s!"data_page_offset {cm.dataOff} but the first data page is at {p.hdrOff}"
  | none => pure ()
  match encodingsProblem cm.encodings cm.encStats (pages.map fun p => (p.ptypeTag, p.encoding)) with
  | some e => throw e
  | none => pure ()
  match pages.find? (fun p => p.ptypeTag == 2 && p.hdrOff != cm.dictOff.getD p.hdrOff) with
  | some p => throw s!"dictionary_page_offset {cm.dictOff} but the dictionary page is at {p.hdrOff}"
  | none => pure ()
  let acc ← decodePages leaf {} (pages.map fun p => (p, payloadOf file payloads p))
  let defs := acc.defs
  let reps := acc.reps
  let vals := acc.vals
  let count := acc.count
  let loose := acc.loose
  if count ≠ cm.numValues then throw s!"num_values {cm.numValues} but pages hold {count}"
  if leaf.maxRep = 0 ∧ count ≠ rgRows then throw s!"pages hold {count} values but the row group has {rgRows} rows"
  if leaf.maxRep > 0 ∧ (reps.filter (· == 0)).length ≠ rgRows then throw s!"repetition levels start {(reps.filter (· == 0)).length} records but the row group has {rgRows} rows"
  let nulls := (defs.filter (· != leaf.maxDef)).length
  match cm.nullCount with
  | some k => if leaf.maxRep = 0 ∧ k ≠ nulls then throw s!"statistics null_count {k} but {nulls} cells are null"
  | none => pure ()
  pure { path := leaf.path, defs, reps, values := vals, cells := scatter leaf.maxDef defs vals, nulls, loose }

structure RowGroupData where
  numRows : Nat
  filePath : Option (List Nat)
  chunks : List ChunkData
  deriving Repr

def footerOf (file : Array Nat) (isMetaFile : Bool) : Except String (TVal × Nat × Nat) :=
  let n := file.size
  if n < 12 then .error "file shorter than 12 bytes" else
  if (file.extract 0 4).toList ≠ [0x50, 0x41, 0x52, 0x31] then .error "leading magic PAR1 missing" else
  if (file.extract (n - 4) n).toList ≠ [0x50, 0x41, 0x52, 0x31] then .error "trailing magic PAR1 missing" else
  let flen := leNat (file.extract (n - 8) (n - 4)).toList
  if flen + 12 > n then .error s!"footer length {flen} does not fit in {n} bytes" else
  let loc := n - 8 - flen
  if isMetaFile ∧ loc ≠ 4 then .error s!"metadata-only file: footer should start at 4, starts at {loc}" else
  let fb := (file.extract loc (n - 8)).toList
  match decStruct fb with
  | none => .error "footer does not parse as a Thrift compact struct"
  | some (v, rest) =>
    if rest.length ≠ 0 then .error s!"footer struct ends {rest.length} bytes before the recorded footer length" else
    match conformant "FileMetaData" v with
    | e :: _ => .error s!"footer does not follow the IDL: {e}"
    | [] => .ok (v, loc, flen)

/-- the row count a footer announces is the sum over its row groups (data files and summary files alike) -/
def rowCountProblem (fmd : TVal) : Option String :=
  match natField fmd 3 with
  | none => some "FileMetaData.num_rows missing"
  | some total =>
    let s := ((listField fmd 4).map fun rg => (natField rg 3).getD 0).sum
    if s ≠ total then some s!"FileMetaData.num_rows {total} but row groups add up to {s}" else none

/-- the pages of every chunk stored in THIS file (for the caller to decompress) -/
def listPages (file : Array Nat) : Except String (List (PageInfo × Nat)) := do
  let (fmd, _, _) ← footerOf file false
  let mut out : List (PageInfo × Nat) := []
  for rg in listField fmd 4 do
    for c in listField rg 1 do
      let cm ← parseChunk c
      if cm.filePath.isSome then continue
      let start := match cm.dictOff with | some d => min d cm.dataOff | none => cm.dataOff
      let pages ← chunkPages file (cm.totalComp + 2) start (start + cm.totalComp) []
      out := out ++ pages.map (·, cm.codec)
  pure out

/-- decode (and validate) a data file: every row group, every column -/
def decodeFile (file : Array Nat) (payloads : List (Nat × List Nat)) : Except String (Nat × List Leaf × List RowGroupData) := do
  let (fmd, _, _) ← footerOf file false
  let schema := (listField fmd 2).map parseSchemaEl
  let leaves := leavesOf schema
  let some total := natField fmd 3 | throw "FileMetaData.num_rows missing"
  let mut rgs : List RowGroupData := []
  let mut rowsSeen := 0
  for rg in listField fmd 4 do
    let some nr := natField rg 3 | throw "RowGroup.num_rows missing"
    let cols := listField rg 1
    if cols.length ≠ leaves.length then throw s!"row group has {cols.length} column chunks, the schema has {leaves.length} leaves"
    let mut chunks : List ChunkData := []
    for (c, leaf) in cols.zip leaves do
      let cm ← parseChunk c
      if cm.ptype ≠ leaf.ptype then throw s!"chunk type {cm.ptype} differs from the schema's {leaf.ptype}"
      if cm.path ≠ leaf.path then throw "chunk path_in_schema differs from the schema"
      if cm.filePath.isSome then throw "chunk lives in another file"
      let cd ← decodeChunk file payloads leaf cm nr
      chunks := chunks ++ [cd]
    rgs := rgs ++ [{ numRows := nr, filePath := none, chunks }]
    rowsSeen := rowsSeen + nr
  if rowsSeen ≠ total then throw s!"FileMetaData.num_rows {total} but row groups add up to {rowsSeen}"
  pure (total, leaves, rgs)

end PqV.Spec
