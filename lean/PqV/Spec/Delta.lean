import PqV.Spec.Varint
import PqV.Spec.Bits
/-
  Spec.Delta — DELTA_BINARY_PACKED as the Parquet encoding document defines it.
    header  := varint(block_size) varint(miniblocks_per_block) varint(total_count) zigzag(first)
    block   := zigzag(min_delta) bitwidth[miniblocks_per_block] miniblock*
    miniblock := values_per_miniblock deltas (minus min_delta) bit-packed LSB first
  Arithmetic is modulo 2^bits (bits = 32 or 64); results are the signed reinterpretation.
-/
namespace PqV.Spec

structure DeltaShape where
  blockSize : Nat
  mpb : Nat               -- miniblocks per block
  extraWidth : Nat := 0   -- encoder choice: widen every miniblock by this many bits (capped at `bits`)
  deriving Repr

def zzVar (bs : List Nat) : Option (Int × List Nat) :=
  (uvarintDec bs).map fun (u, r) => (zigzagDec u, r)

/-- decode the miniblocks of one block; `need` deltas still wanted -/
def deltaMinis (bits vpm : Nat) (minDelta : Int) :
    List Nat → List Nat → Nat → Int → List Int → (List Int × Int × Nat × List Nat)
  -- widths, data, need, last value, acc  ↦ (acc, last, need, rest)
  | [], bs, need, last, acc => (acc, last, need, bs)
  | w :: ws, bs, need, last, acc =>
    if need = 0 then (acc, last, need, bs) else
    let nbytes := vpm * w / 8
    let ds := unpackLE w vpm (bs.take nbytes)
    let take := min need vpm
    let (acc, last) := (ds.take take).foldl
      (fun (p : List Int × Int) (d : Nat) =>
        let v := toSigned bits (ofSigned bits (p.2 + minDelta + (d : Int)))
        (p.1 ++ [v], v)) (acc, last)
    deltaMinis bits vpm minDelta ws (bs.drop nbytes) (need - take) last acc

def deltaBlocks (bits mpb vpm : Nat) : Nat → List Nat → Nat → Int → List Int → Option (List Int × List Nat)
  | 0, bs, _, _, acc => some (acc, bs)
  | fuel + 1, bs, need, last, acc =>
    if need = 0 then some (acc, bs) else
    match zzVar bs with
    | none => none
    | some (minDelta, r) =>
      let widths := r.take mpb
      let (acc, last, need, rest) := deltaMinis bits vpm minDelta widths (r.drop mpb) need last acc
      deltaBlocks bits mpb vpm fuel rest need last acc

/-- Decode a DELTA_BINARY_PACKED stream: the values (signed, `bits` wide) and the unread rest. -/
def decodeDelta (bits : Nat) (bs : List Nat) : Option (List Int × List Nat) := do
  let (blockSize, r) ← uvarintDec bs
  let (mpb, r) ← uvarintDec r
  let (total, r) ← uvarintDec r
  let (first, r) ← zzVar r
  if mpb = 0 then none else
  let vpm := blockSize / mpb
  if total = 0 then some ([], r) else
  let first := toSigned bits (ofSigned bits first)
  deltaBlocks bits mpb vpm (bs.length + 1) r (total - 1) first [first]

/-- width needed for `n` -/
def bitLen : Nat → Nat
  | 0 => 0
  | n + 1 => Nat.log2 (n + 1) + 1

def chunk {α} (k : Nat) : Nat → List α → List (List α)
  | 0, _ => []
  | fuel + 1, l => if l.isEmpty ∨ k = 0 then [] else l.take k :: chunk k fuel (l.drop k)

/-- Encode (specification-level encoder; deltas taken modulo 2^bits). -/
def encodeDelta (bits : Nat) (sh : DeltaShape) (vs : List Int) : List Nat :=
  let vpm := sh.blockSize / sh.mpb
  let hdr := uvarintEnc sh.blockSize ++ uvarintEnc sh.mpb ++ uvarintEnc vs.length
  match vs with
  | [] => hdr ++ uvarintEnc (zigzagEnc 0)
  | v0 :: rest =>
    let deltas : List Int := ((v0 :: rest).zip rest).map fun (a, b) =>
      toSigned bits (ofSigned bits (b - a))
    let blocks := chunk sh.blockSize (deltas.length + 1) deltas
    let body := blocks.flatMap fun blk =>
      let minD : Int := blk.foldl min (blk.headD 0)
      let rel : List Nat := blk.map fun d => ofSigned bits (d - minD)
      let minis := chunk vpm (rel.length + 1) rel
      let widths := (List.range sh.mpb).map fun i =>
        match minis[i]? with
        | none => 0
        | some m => min bits (bitLen (m.foldl max 0) + sh.extraWidth)
      let packed := (List.range sh.mpb).flatMap fun i =>
        match minis[i]? with
        | none => []
        | some m =>
          let w := widths.getD i 0
          let padded := m ++ List.replicate (vpm - m.length) 0
          leBytes (vpm * w / 8) (packNat w padded)
      uvarintEnc (zigzagEnc minD) ++ widths ++ packed
    hdr ++ uvarintEnc (zigzagEnc v0) ++ body

end PqV.Spec
