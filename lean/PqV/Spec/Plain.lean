import PqV.Spec.Bits
import PqV.Spec.Hybrid
import PqV.Spec.Delta
/-
  Spec.Plain — value encodings of the Parquet format at page level: PLAIN for every physical type,
  dictionary indices (RLE_DICTIONARY / PLAIN_DICTIONARY), RLE booleans, DELTA_BINARY_PACKED, and
  definition / repetition levels.  Values are physical: integers and floats are unsigned bit
  patterns of the type's width, booleans 0/1, byte arrays raw bytes.  Nothing is interpreted.
-/
namespace PqV.Spec

inductive Cell where
  | null
  | int (n : Nat)
  | bytes (bs : List Nat)
  deriving Repr, DecidableEq, BEq

/-- physical types (parquet.thrift `Type`) -/
abbrev PT_BOOLEAN := 0
abbrev PT_INT32 := 1
abbrev PT_INT64 := 2
abbrev PT_INT96 := 3
abbrev PT_FLOAT := 4
abbrev PT_DOUBLE := 5
abbrev PT_BYTE_ARRAY := 6
abbrev PT_FLBA := 7

def fixedWidth (ptype typeLength : Nat) : Option Nat :=
  if ptype = PT_INT32 ∨ ptype = PT_FLOAT then some 4
  else if ptype = PT_INT64 ∨ ptype = PT_DOUBLE then some 8
  else if ptype = PT_INT96 then some 12
  else if ptype = PT_FLBA then some typeLength
  else none

def plainByteArrays : Nat → List Nat → List Cell → Option (List Cell)
  | 0, _, acc => some acc.reverse
  | k + 1, bs, acc =>
    if bs.length < 4 then none else
    let len := leNat (bs.take 4)
    let rest := bs.drop 4
    if rest.length < len then none else plainByteArrays k (rest.drop len) (Cell.bytes (rest.take len) :: acc)

def plainFixed (w : Nat) (asBytes : Bool) : Nat → List Nat → List Cell → List Cell
  | 0, _, acc => acc.reverse
  | k + 1, bs, acc =>
    plainFixed w asBytes k (bs.drop w) ((if asBytes then Cell.bytes (bs.take w) else Cell.int (leNat (bs.take w))) :: acc)

/-- PLAIN decode of `n` values -/
def plainDecode (ptype typeLength : Nat) (n : Nat) (bs : List Nat) : Option (List Cell) :=
  if ptype = PT_BOOLEAN then
    if bs.length * 8 < n then none else some ((unpackLE 1 n bs).map Cell.int)
  else if ptype = PT_BYTE_ARRAY then plainByteArrays n bs []
  else match fixedWidth ptype typeLength with
    | none => none
    | some w => if bs.length < n * w then none else some (plainFixed w (ptype = PT_FLBA) n bs [])

/-- PLAIN encode -/
def plainEncode (ptype typeLength : Nat) (vals : List Cell) : List Nat :=
  if ptype = PT_BOOLEAN then
    packLE 1 (vals.map fun c => match c with | .int n => n | _ => 0)
  else if ptype = PT_BYTE_ARRAY then
    vals.flatMap fun c => match c with | .bytes b => leBytes 4 b.length ++ b | _ => leBytes 4 0
  else
    let w := (fixedWidth ptype typeLength).getD 0
    vals.flatMap fun c => match c with | .int n => leBytes w n | .bytes b => b | .null => []

/-- bit width needed for levels / dictionary indices up to `maxVal` -/
def widthFor : Nat → Nat
  | 0 => 0
  | n + 1 => Nat.log2 (n + 1) + 1

/-- a v1 level block: 4-byte little-endian byte length, then a hybrid stream -/
def levelsV1 (maxLevel n : Nat) (bs : List Nat) : Option (List Nat × List Nat) :=
  if maxLevel = 0 then some (List.replicate n 0, bs) else
  if bs.length < 4 then none else
  let len := leNat (bs.take 4)
  let body := (bs.drop 4).take len
  if (bs.drop 4).length < len then none else
  let lv := decodeHybrid (widthFor maxLevel) n body
  if lv.length ≠ n then none else some (lv, (bs.drop 4).drop len)

/-- dictionary-encoded data: one byte bit width, then a hybrid stream of indices -/
def dictIndices (n : Nat) (bs : List Nat) : Option (List Nat) :=
  match bs with
  | [] => if n = 0 then some [] else none
  | w :: rest =>
    let ix := decodeHybrid w n rest
    if ix.length ≠ n then none else some ix

/-- encodings (parquet.thrift `Encoding`) -/
abbrev ENC_PLAIN := 0
abbrev ENC_PLAIN_DICTIONARY := 2
abbrev ENC_RLE := 3
abbrev ENC_BIT_PACKED := 4
abbrev ENC_DELTA_BINARY_PACKED := 5
abbrev ENC_RLE_DICTIONARY := 8

/-- decode the `n` non-null values of a data page body -/
def decodeValues (ptype typeLength enc : Nat) (dict : Option (List Cell)) (n : Nat) (bs : List Nat) : Option (List Cell) :=
  if enc = ENC_PLAIN then plainDecode ptype typeLength n bs
  else if enc = ENC_PLAIN_DICTIONARY ∨ enc = ENC_RLE_DICTIONARY then
    match dict, dictIndices n bs with
    | some d, some ix => ix.mapM (fun i => d[i]?)
    | _, _ => none
  else if enc = ENC_RLE ∧ ptype = PT_BOOLEAN then
    -- RLE booleans: 4-byte length + hybrid of width 1
    if bs.length < 4 then none else
    let len := leNat (bs.take 4)
    let v := decodeHybrid 1 n ((bs.drop 4).take len)
    if v.length ≠ n then none else some (v.map Cell.int)
  else if enc = ENC_DELTA_BINARY_PACKED ∧ (ptype = PT_INT32 ∨ ptype = PT_INT64) then
    let bits := if ptype = PT_INT32 then 32 else 64
    match decodeDelta bits bs with
    | some (vs, _) => if vs.length ≠ n then none else some (vs.map fun v => Cell.int (ofSigned bits v))
    | none => none
  else none

/-- scatter values over definition levels: level = max ⇒ next value, else null -/
def scatter (maxDef : Nat) : List Nat → List Cell → List Cell
  | [], _ => []
  | d :: ds, vals =>
    if d = maxDef then
      match vals with
      | v :: vs => v :: scatter maxDef ds vs
      | [] => Cell.null :: scatter maxDef ds []
    else Cell.null :: scatter maxDef ds vals

end PqV.Spec
