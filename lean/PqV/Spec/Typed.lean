import PqV.Spec.Thrift
import PqV.Gen.Idl
/-
  Spec.Typed — does a decoded Thrift value carry, for every field, an id the IDL declares for that
  struct and the wire type the IDL gives it?  (The IDL table is REGENERATED from parquet.thrift.)
-/
namespace PqV.Spec
open PqV.Gen.Idl

def structFields (s : String) : Option (List Field) := (structs.find? (·.1 == s)).map (·.2)

/-- wire type code a value of IDL type `t` must have (bool: 1 or 2) -/
def wireOk (t : TT) (v : TVal) : Bool :=
  match t, v with
  | .bool, .bool _ => true
  | .i8, .i8 _ => true
  | .i16, .i16 _ => true
  | .i32, .i32 _ => true
  | .enum _, .i32 _ => true
  | .i64, .i64 _ => true
  | .double, .double _ => true
  | .binary, .binary _ => true
  | .string, .binary _ => true
  | .struct _, .struct _ => true
  | .list _, .list _ _ => true
  | _, _ => false

def elemCode : TT → Nat
  | .bool => 1 | .i8 => 3 | .i16 => 4 | .i32 => 5 | .enum _ => 5 | .i64 => 6 | .double => 7
  | .binary => 8 | .string => 8 | .list _ => 9 | .struct _ => 12

mutual
  /-- list of complaints (empty = conformant) -/
  def typedErrs : Nat → String → TVal → List String
    | 0, _, _ => []
    | fuel + 1, sname, v =>
      match structFields sname, v with
      | none, _ => []                           -- struct outside the table: not checked
      | some fs, .struct fields =>
        fieldErrs fuel sname fs fields ++
          (fs.filter (fun f => f.required && !(fields.any (·.1 == f.id)))).map (fun f => s!"{sname}.{f.name}: required field missing")
      | some _, _ => [s!"{sname}: not a struct"]
  def fieldErrs : Nat → String → List Field → List (Nat × TVal) → List String
    | 0, _, _, _ => []
    | _ + 1, _, _, [] => []
    | fuel + 1, sname, fs, (id, v) :: rest =>
      (match fs.find? (·.id == id) with
        | none => [s!"{sname}: field id {id} is not declared in the IDL"]
        | some f =>
          if !wireOk f.ty v then [s!"{sname}.{f.name} (id {id}): wire type {v.wireType} but the IDL declares {repr f.ty}"]
          else valueErrs fuel s!"{sname}.{f.name}" f.ty v)
      ++ fieldErrs fuel sname fs rest
  def valueErrs : Nat → String → TT → TVal → List String
    | 0, _, _, _ => []
    | fuel + 1, path, t, v =>
      match t, v with
      | .struct s, .struct _ => typedErrs fuel s v
      | .list et, .list ety items =>
        (if items.isEmpty ∨ ety == elemCode et then [] else [s!"{path}: list element type {ety} but the IDL declares {elemCode et}"])
          ++ itemsErrs fuel path et items
      | _, _ => []
  def itemsErrs : Nat → String → TT → List TVal → List String
    | 0, _, _, _ => []
    | _ + 1, _, _, [] => []
    | fuel + 1, path, et, x :: xs =>
      (if wireOk et x then valueErrs fuel path et x else [s!"{path}: list item of wire type {x.wireType}"]) ++ itemsErrs fuel path et xs
end

def conformant (sname : String) (v : TVal) (fuel : Nat := 100000) : List String := typedErrs fuel sname v

end PqV.Spec
