import PqV.Spec.Varint
import PqV.Spec.Bits
/-
  Spec.Thrift — the Thrift *compact protocol* as its specification defines it, for the value
  shapes Parquet metadata uses.  Wire type codes: 1/2 bool true/false, 3 byte, 4 i16, 5 i32, 6 i64,
  7 double, 8 binary, 9 list, 12 struct.
-/
namespace PqV.Spec

inductive TVal where
  | bool (b : Bool)
  | i8 (n : Int)
  | i16 (n : Int)
  | i32 (n : Int)
  | i64 (n : Int)
  | double (bits : Nat)                 -- IEEE-754 bit pattern, never interpreted
  | binary (bs : List Nat)
  | list (ety : Nat) (items : List TVal)
  | struct (fields : List (Nat × TVal)) -- (field id, value), ids strictly increasing
  deriving Repr

def TVal.wireType : TVal → Nat
  | .bool true => 1
  | .bool false => 2
  | .i8 _ => 3
  | .i16 _ => 4
  | .i32 _ => 5
  | .i64 _ => 6
  | .double _ => 7
  | .binary _ => 8
  | .list _ _ => 9
  | .struct _ => 12

/-- element type code inside a list header (bools are 1 there) -/
def elemType : TVal → Nat
  | .bool _ => 1
  | v => v.wireType

mutual
  /-- encode the *value part* (what follows a field header / sits in a list) -/
  def encVal : TVal → List Nat
    | .bool _ => []                       -- carried by the field header
    | .i8 n => [ofSigned 8 n]
    | .i16 n => uvarintEnc (zigzagEnc n)
    | .i32 n => uvarintEnc (zigzagEnc n)
    | .i64 n => uvarintEnc (zigzagEnc n)
    | .double bits => leBytes 8 bits
    | .binary bs => uvarintEnc bs.length ++ bs
    | .list ety items =>
      (if items.length < 15 then [items.length * 16 + ety] else (0xF0 + ety) :: uvarintEnc items.length)
        ++ encItems items
    | .struct fields => encFields 0 fields
  def encItems : List TVal → List Nat
    | [] => []
    | v :: vs => (match v with | .bool b => [if b then 1 else 2] | _ => encVal v) ++ encItems vs
  def encFields (prev : Nat) : List (Nat × TVal) → List Nat
    | [] => [0]
    | (id, v) :: rest =>
      (if prev < id ∧ id - prev ≤ 15 then [(id - prev) * 16 + v.wireType]
       else v.wireType :: uvarintEnc (zigzagEnc id))
        ++ encVal v ++ encFields id rest
end

end PqV.Spec

namespace PqV.Spec

/-- self-describing decoder (the compact protocol carries wire types); `fuel` bounds nesting+length -/
def takeN (n : Nat) (bs : List Nat) : Option (List Nat × List Nat) :=
  -- cost proportional to `n`, not to the length of `bs` (a footer holds thousands of binaries)
  if (bs.take n).length < n then none else some (bs.take n, bs.drop n)

mutual
  def decVal : Nat → Nat → List Nat → Option (TVal × List Nat)
    | 0, _, _ => none
    | fuel + 1, ty, bs =>
      match ty with
      | 1 => some (.bool true, bs)
      | 2 => some (.bool false, bs)
      | 3 => match bs with | b :: r => some (.i8 (toSigned 8 b), r) | [] => none
      | 4 => (uvarintDec bs).map fun (u, r) => (.i16 (zigzagDec u), r)
      | 5 => (uvarintDec bs).map fun (u, r) => (.i32 (zigzagDec u), r)
      | 6 => (uvarintDec bs).map fun (u, r) => (.i64 (zigzagDec u), r)
      | 7 => (takeN 8 bs).map fun (b, r) => (.double (leNat b), r)
      | 8 => match uvarintDec bs with
        | some (n, r) => (takeN n r).map fun (b, r') => (.binary b, r')
        | none => none
      | 9 => match bs with
        | [] => none
        | h :: r =>
          let ety := h % 16
          if h / 16 = 15 then
            match uvarintDec r with
            | some (n, r') => (decItems fuel ety n r').map fun (items, r'') => (.list ety items, r'')
            | none => none
          else (decItems fuel ety (h / 16) r).map fun (items, r'') => (.list ety items, r'')
      | 12 => (decFields fuel 0 bs).map fun (fs, r) => (.struct fs, r)
      | _ => none
  def decItems : Nat → Nat → Nat → List Nat → Option (List TVal × List Nat)
    | 0, _, _, _ => none
    | _ + 1, _, 0, bs => some ([], bs)
    | fuel + 1, ety, n + 1, bs =>
      let first : Option (TVal × List Nat) :=
        if ety = 1 ∨ ety = 2 then
          match bs with | b :: r => some (.bool (b == 1), r) | [] => none
        else decVal fuel ety bs
      match first with
      | none => none
      | some (v, r) => (decItems fuel ety n r).map fun (vs, r') => (v :: vs, r')
  def decFields : Nat → Nat → List Nat → Option (List (Nat × TVal) × List Nat)
    | 0, _, _ => none
    | fuel + 1, prev, bs =>
      match bs with
      | [] => none
      | 0 :: r => some ([], r)
      | h :: r =>
        let ty := h % 16
        let hdr : Option (Nat × List Nat) :=
          if h / 16 = 0 then (uvarintDec r).map fun (u, r') => ((zigzagDec u).toNat, r')
          else some (prev + h / 16, r)
        match hdr with
        | none => none
        | some (id, r') =>
          match decVal fuel ty r' with
          | none => none
          | some (v, r'') => (decFields fuel id r'').map fun (fs, r3) => ((id, v) :: fs, r3)
end

def decStruct (bs : List Nat) : Option (TVal × List Nat) :=
  (decFields (2 * bs.length + 4) 0 bs).map fun (fs, r) => (.struct fs, r)

end PqV.Spec
