/-
  Impl.Dataset — model of the filesystem effects of a multi-file (hive/drill) dataset append:
  `writer.write` (append branch) → `api.write_row_groups` → `writer.write_multi`
  (`find_max_part`, `partition_on_columns`, `make_part_file`) → `write_common_metadata` twice.

  Paths are structured: a part file is (directory, part number); rendering to text and the
  `PART_ID` regular expression are outside the model (tied by correspondence on real paths).
  File contents are abstract: a data file holds a list of row ids; `_metadata` holds the ordered
  list of row-group references.  Core Lean only.
-/
namespace PqV.Impl.Dataset

inductive Path where
  | part (dir : String) (id : Nat)
  | pmeta
  | cmeta
  deriving DecidableEq, Repr

structure RgRef where
  dir : String
  id : Nat
  rows : List Nat
  deriving DecidableEq, Repr

inductive Content where
  | data (rows : List Nat)
  | refs (rgs : List RgRef)
  | torn                         -- opened for writing ('wb' truncates) but not completely written
  deriving DecidableEq, Repr

/-- a filesystem: association list, first match wins -/
abbrev FS := List (Path × Content)

def FS.get (fs : FS) (p : Path) : Option Content := (fs.find? (·.1 == p)).map (·.2)
def FS.put (fs : FS) (p : Path) (c : Content) : FS := (p, c) :: fs.filter (·.1 != p)

inductive FsOp where
  | mkdir (dir : String)
  | openW (p : Path)             -- open(path, 'wb'): creates or truncates
  | write (p : Path) (c : Content)
  | close (p : Path)
  deriving DecidableEq, Repr

def applyOp (fs : FS) : FsOp → FS
  | .mkdir _ => fs
  | .openW p => fs.put p .torn
  | .write p c => fs.put p c
  | .close _ => fs

def runOps (fs : FS) (ops : List FsOp) : FS := ops.foldl applyOp fs

/-- what a fresh `ParquetFile(dir).to_pandas()` returns: the rows of every referenced file in
    metadata order; `none` if `_metadata` or a referenced file is missing / incomplete / wrong -/
def readRefs (fs : FS) : List RgRef → Option (List Nat)
  | [] => some []
  | r :: rs =>
    match fs.get (.part r.dir r.id), readRefs fs rs with
    | some (.data rows), some rest => if rows = r.rows then some (rows ++ rest) else none
    | _, _ => none

def readDS (fs : FS) : Option (List Nat) :=
  match fs.get .pmeta with
  | some (.refs rgs) => readRefs fs rgs
  | _ => none

/-- `find_max_part`: 1 + highest part number among referenced paths, 0 for none -/
def maxPart : List RgRef → Nat
  | [] => 0
  | r :: rs => max (r.id + 1) (maxPart rs)

/-- ops writing one part file -/
def partOps (partitioned : Bool) (dir : String) (id : Nat) (rows : List Nat) : List FsOp :=
  (if partitioned then [.mkdir dir] else []) ++
  [.openW (.part dir id), .write (.part dir id) (.data rows), .close (.part dir id)]

/-- new row groups: per incoming row group `i`, its pieces (directory, rows) — one piece with
    directory "" when the dataset is not partitioned -/
abbrev NewData := List (List (String × List Nat))

def dataOps (partitioned : Bool) (offset : Nat) : Nat → NewData → List FsOp
  | _, [] => []
  | i, pieces :: rest =>
    pieces.flatMap (fun (d, rows) => partOps partitioned d (i + offset) rows) ++ dataOps partitioned offset (i + 1) rest

def newRefs (offset : Nat) : Nat → NewData → List RgRef
  | _, [] => []
  | i, pieces :: rest => pieces.map (fun (d, rows) => { dir := d, id := i + offset, rows }) ++ newRefs offset (i + 1) rest

def metaOps (refs : List RgRef) : List FsOp :=
  [.openW .pmeta, .write .pmeta (.refs refs), .close .pmeta,
   .openW .cmeta, .write .cmeta (.refs []), .close .cmeta]

/-- the whole append: parts first (fresh numbers), summary metadata last -/
def appendOps (partitioned : Bool) (old : List RgRef) (nd : NewData) : List FsOp :=
  dataOps partitioned (maxPart old) 0 nd ++ metaOps (old ++ newRefs (maxPart old) 0 nd)

end PqV.Impl.Dataset
