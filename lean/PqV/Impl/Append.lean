import PqV.Impl.Footer
/-
  Impl.Append — single-file append (`writer.write_simple`, append branch, 979-997) at byte level and
  the reader's treatment of dictionary-encoded categorical columns across row groups
  (`core.read_col` 487-505: the output column's categories are *set from each row group's
  dictionary page in turn*, the stored codes are copied verbatim).
-/
namespace PqV.Impl.Append
open PqV.Spec PqV.Impl.Footer

/-- `f.seek(-(head_size+8), 2)`, then new row groups, new footer, length, magic; mode 'rb+' -/
def appendSimple (f newRgs nf : List Nat) : List Nat :=
  overlay f (footerLoc false f) (newRgs ++ nf ++ leBytes 4 nf.length ++ magic)

/-- a dictionary-encoded chunk of one row group: its dictionary page and its index values -/
structure CatChunk where
  dict : List String
  codes : List Nat
  deriving Repr, DecidableEq

/-- what the chunk encodes -/
def CatChunk.labels (c : CatChunk) : List (Option String) := c.codes.map (fun i => c.dict[i]?)

/-- what `to_pandas` returns for the column: codes of all row groups side by side, interpreted
    through the categories left behind by the LAST dictionary page read -/
def readCats (chunks : List CatChunk) : List (Option String) :=
  let cats := (chunks.getLast?.map (·.dict)).getD []
  (chunks.flatMap (·.codes)).map (fun i => cats[i]?)

end PqV.Impl.Append
