import PqV.Spec.Dremel
import PqV.Gen.Nested
/-
  Impl.Assemble — code-shaped model of `_assemble_objects` (cencoding.pyx 431-494) and of the way
  `read_col` (core.py) chains it over the v1 pages of a chunk (`row_idx[0] = 1 + result`).
  `assign` is the object array of the row group (one slot per row, initially None);
  a store outside it is an explicit fault (Cython's bounds check raises IndexError).
-/
namespace PqV.Impl.Assemble
open PqV.Spec

inductive AFault where
  | index (i : Int) (len : Nat)      -- assign[i] out of range
  | extendNone (i : Int)             -- assign[i-1].extend on a slot holding None
  | valIndex (i len : Nat)           -- val[vali] out of range
  deriving Repr, DecidableEq

abbrev A := Except AFault

structure St where
  assign : List Row
  i : Nat
  part : List Cell
  vali : Nat
  started : Bool
  haveNull : Bool
  deriving Repr

def setSlot (a : List Row) (i : Nat) (r : Row) : A (List Row) :=
  if i < a.length then .ok (a.set i r) else .error (.index i a.length)

/-- `assign[i - 1].extend(part)`  (Python index -1 = the last slot) -/
def extendPrev (a : List Row) (i : Nat) (part : List Cell) : A (List Row) :=
  let j : Int := if i = 0 then (a.length : Int) - 1 else (i : Int) - 1
  if j < 0 ∨ j ≥ a.length then .error (.index ((i : Int) - 1) a.length) else
  match a[j.toNat]? with
  | some (Row.list es) => .ok (a.set j.toNat (Row.list (es ++ part)))
  | _ => .error (.extendNone ((i : Int) - 1))

/-- `if not re:` block — a new row starts: save what we have -/
def flush (s : St) (re : Nat) : A St :=
  if re = 0 then
    if s.started then
      match setSlot s.assign s.i (if s.haveNull then Row.none else Row.list s.part) with
      | .ok a => .ok { s with assign := a, part := [], i := s.i + 1 }
      | .error f => .error f
    else if s.vali > 0 then
      match extendPrev s.assign s.i s.part with
      | .ok a => .ok { s with assign := a, part := [], started := true }
      | .error f => .error f
    else .ok { s with started := true }
  else .ok s

/-- `if de == max_defi: part.append(val[vali]) ... elif de > null: part.append(None)` -/
def addElem (null : Bool) (maxDefi : Nat) (vals : List Cell) (s : St) (de : Nat) : A St :=
  if de = maxDefi then
    match vals[s.vali]? with
    | some v => .ok { s with part := s.part ++ [v], vali := s.vali + 1 }
    | none => .error (.valIndex s.vali vals.length)
  else if de > (if null then 1 else 0) then .ok { s with part := s.part ++ [Cell.null] }
  else .ok s

/-- one iteration of `for counter in range(rep.shape[0])` -/
def step (null : Bool) (maxDefi : Nat) (vals : List Cell) (s : St) (de re : Nat) : A St :=
  match flush s re with
  | .error f => .error f
  | .ok s1 =>
    match addElem null maxDefi vals s1 de with
    | .error f => .error f
    | .ok s2 => .ok { s2 with haveNull := (de == 0 && null) }

def loop (null : Bool) (maxDefi : Nat) (vals : List Cell) : List (Nat × Nat) → St → A St
  | [], s => pure s
  | (de, re) :: rest, s =>
    match step null maxDefi vals s de re with
    | .error f => .error f
    | .ok s' => loop null maxDefi vals rest s'

/-- `_assemble_objects(assign, defi, rep, val, dic, d, null, null_val, max_defi, prev_i)`;
    returns the array and the returned index `i`. -/
def assembleObjects (assign : List Row) (levels : List (Nat × Nat)) (vals : List Cell)
    (null : Bool) (maxDefi prevI : Nat) : A (List Row × Nat) := do
  let s ← loop null maxDefi vals levels
    { assign, i := prevI, part := [], vali := 0, started := false, haveNull := false }
  if s.started then do
    let a ← setSlot s.assign s.i (if s.haveNull then Row.none else Row.list s.part)
    pure (a, s.i)
  else do
    let a ← extendPrev s.assign s.i s.part
    pure (a, s.i)

/-- `read_col`'s chaining over the v1 data pages of one chunk; the way the row index advances is
    REGENERATED from core.py (`Gen.Nested.chainByZeros`): by the number of records the page starts
    (current code) or `1 + result` (the code before the repair, wrong for a page that only continues a row) -/
def readPages (null : Bool) (maxDefi : Nat) :
    List (List (Nat × Nat) × List Cell) → List Row → Nat → A (List Row)
  | [], a, _ => pure a
  | (levels, vals) :: rest, a, rowIdx => do
    let (a, i) ← assembleObjects a levels vals null maxDefi rowIdx
    readPages null maxDefi rest a
      (if PqV.Gen.Nested.chainByZeros then rowIdx + (levels.filter (·.2 == 0)).length else i + 1)

def readChunk (nrows : Nat) (null : Bool) (maxDefi : Nat) (pages : List (List (Nat × Nat) × List Cell)) : A (List Row) :=
  readPages null maxDefi pages (List.replicate nrows Row.none) 0

end PqV.Impl.Assemble
