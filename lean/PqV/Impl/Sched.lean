/-
  Impl.Sched — shared-state access model of dataset handles used from several threads.
  Shared state = locations (the schema-element dictionaries with their `children` trees, the
  statistics objects with their memo keys `converted_min/max`, module-level caches).  Each handle
  operation is a list of atomic steps (the GIL makes a single dict/list read or write atomic):
    read loc        observe a location nobody is supposed to write
    memo loc        `if key not in obj: obj[key] = f(immutable inputs); use obj[key]` — the value
                    depends on immutable data only (`g loc`), whoever computes it first
    write loc v     plain mutation (what `SchemaHelper.__init__` / `schema_tree` does to the shared
                    `children` dictionaries when a handle is derived by slicing)
-/
namespace PqV.Impl.Sched

inductive Step where
  | read (loc : Nat)
  | memo (loc : Nat)
  | write (loc : Nat) (v : Int)
  deriving Repr, DecidableEq

abbrev State := Nat → Int

/-- one atomic step: new state and what the thread observes -/
def exec (g : Nat → Int) (s : State) : Step → State × Option Int
  | .read l => (s, some (s l))
  | .memo l => (fun x => if x = l then g l else s x, some (g l))
  | .write l v => (fun x => if x = l then v else s x, none)

/-- run a thread alone: its observations -/
def runAlone (g : Nat → Int) (s : State) : List Step → List (Option Int)
  | [] => []
  | st :: rest => let (s', o) := exec g s st; o :: runAlone g s' rest

/-- run an interleaving: `sched` picks, at each point, which thread makes its next step.
    Returns per-thread observation lists (in order). -/
def runSched (g : Nat → Int) : State → List (List Step) → List Nat → List (List (Option Int)) → List (List (Option Int))
  | _, _, [], obs => obs
  | s, threads, t :: sched, obs =>
    match threads[t]? with
    | none => runSched g s threads sched obs
    | some [] => runSched g s threads sched obs
    | some (st :: rest) =>
      let (s', o) := exec g s st
      runSched g s' (threads.set t rest) sched (obs.modify t (· ++ [o]))

def isReadOnly (written : Nat → Bool) : Step → Bool
  | .read l => !written l
  | .memo _ => true
  | .write _ _ => false

end PqV.Impl.Sched
