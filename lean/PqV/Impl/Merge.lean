/-
  Impl.Merge — `util.analyse_paths` (355-379) on paths given as lists of segments, and the row
  bookkeeping of `util.metadata_from_many` (163-269): row groups of the files in the given order,
  `num_rows` their sum.
-/
namespace PqV.Impl.Merge

/-- index of the first position where the two lists differ, scanning `zip base path` -/
def firstDiff : List String → List String → Nat → Option Nat
  | b :: bs, p :: ps, k => if b != p then some k else firstDiff bs ps (k + 1)
  | _, _, _ => none

/-- one iteration of the loop over paths: `j = len(path_parts) - 1` unless a difference is found -/
def step (base path : List String) : List String :=
  match firstDiff base path 0 with
  | some k => base.take k
  | none => base.take (path.length - 1)

/-- `analyse_paths(file_list, root=False)`: (basepath, relative paths) -/
def analysePaths (paths : List (List String)) : List String × List (List String) :=
  match paths with
  | [] => ([], [])
  | p0 :: _ =>
    let base := paths.foldl step p0.dropLast
    (base, paths.map (fun p => p.drop base.length))

/-- with an explicit root: every path must begin with it -/
def analysePathsRoot (root : List String) (paths : List (List String)) : Option (List String × List (List String)) :=
  if paths.all (fun p => p.take root.length == root) then some (root, paths.map (fun p => p.drop root.length)) else none

/-- the merged dataset: rows of the files in the given order -/
def mergeRows (files : List (List Nat)) : List Nat := files.flatten
def numRows (files : List (List Nat)) : Nat := (files.map List.length).sum

end PqV.Impl.Merge
