/-
  Impl.Stats — statistics bookkeeping of `writer.write_column` (525-564, 568-596, 723-727):
  global min/max computed from the whole column before paging (pandas contract: missing values
  are skipped; an all-missing column has no bounds), null count accumulated page by page, and the
  categorical branch (min/max of the labels present).  `api.sorted_partitioned_columns` on top.
  Cells are `Option Int` (order-preserving images of the real values; `none` = missing).
-/
namespace PqV.Impl.Stats

structure Stats where
  min : Option Int
  max : Option Int
  nullCount : Nat
  deriving Repr, DecidableEq

def optMin : Option Int → Int → Option Int
  | none, x => some x
  | some m, x => some (if x < m then x else m)
def optMax : Option Int → Int → Option Int
  | none, x => some x
  | some m, x => some (if m < x then x else m)

def presentVals (col : List (Option Int)) : List Int := col.filterMap id

/-- `data0.min()` / `data0.max()`: over non-missing values; `none` when there is none -/
def colMin (col : List (Option Int)) : Option Int := (presentVals col).foldl optMin none
def colMax (col : List (Option Int)) : Option Int := (presentVals col).foldl optMax none

def pageNulls (page : List (Option Int)) : Nat := (page.filter Option.isNone).length

/-- the loop over pages: `global_num_nulls += num_nulls` -/
def nullTally (pages : List (List (Option Int))) : Nat := pages.foldl (fun acc p => acc + pageNulls p) 0

/-- statistics of one chunk written as `pages` -/
def colStats (pages : List (List (Option Int))) : Stats :=
  let col := pages.flatten
  { min := colMin col, max := colMax col, nullCount := nullTally pages }

/-- categorical column: `cats` are the labels (as ordered values), `codes` the per-row code
    (`none` = missing).  `byCategoryOrder = true` is the old behaviour (`unique().as_ordered()`:
    the order is the position in `cats`), `false` the order of the label values themselves. -/
def catStats (byCategoryOrder : Bool) (cats : List Int) (codes : List (Option Nat)) : Option Int × Option Int :=
  let present := codes.filterMap id
  if byCategoryOrder then
    let lo := present.foldl (fun (a : Option Nat) c => match a with | none => some c | some m => some (min m c)) none
    let hi := present.foldl (fun (a : Option Nat) c => match a with | none => some c | some m => some (max m c)) none
    (lo.bind (cats[·]?), hi.bind (cats[·]?))
  else
    let labels : List (Option Int) := present.map (cats[·]?)
    (colMin labels, colMax labels)

/-- `sorted_partitioned_columns`: mins sorted, maxes sorted, and every max below the next min -/
def strictlyChained : List (Int × Int) → Bool
  | [] => true
  | [_] => true
  | (_, mx) :: (mn, mx') :: rest => decide (mx < mn) && strictlyChained ((mn, mx') :: rest)

end PqV.Impl.Stats
