import PqV.Spec.Bits
/-
  Impl.Footer — byte-level model of `writer.update_file_custom_metadata` (1613-1666) and the key
  merge rules of `util.update_custom_metadata` (283-337).

  A data file is  `data ++ footer ++ le4 |footer| ++ "PAR1"`;
  a `_metadata` file is  `"PAR1" ++ footer ++ le4 |footer| ++ "PAR1"`.
  The serialised new footer `nf` is a parameter (the Thrift serialiser is C10's business).
-/
namespace PqV.Impl.Footer
open PqV.Spec

def magic : List Nat := [0x50, 0x41, 0x52, 0x31]   -- "PAR1"

/-- writing `bs` at offset `loc` of an open `rb+` file: replaces exactly those bytes and extends
    the file if needed, never shrinks it (POSIX semantics, assumed) -/
def overlay (f : List Nat) (loc : Nat) (bs : List Nat) : List Nat :=
  f.take loc ++ bs ++ f.drop (loc + bs.length)

/-- where the code starts reading / rewriting the footer -/
def footerLoc (isMeta : Bool) (f : List Nat) : Nat :=
  if isMeta then 4 else
    let loc0 := f.length - 8
    loc0 - leNat ((f.drop loc0).take 4)

/-- the in-place rewrite; `truncate` = whether the code truncates the file after the new trailer -/
def rewrite (truncate : Bool) (isMeta : Bool) (f : List Nat) (nf : List Nat) : List Nat :=
  let loc := footerLoc isMeta f
  let tail := nf ++ leBytes 4 nf.length ++ magic
  if truncate then f.take loc ++ tail else overlay f loc tail

/-- Framing a reader relies on: last four bytes are the magic and the recorded length points at
    `loc`, where the footer `nf` starts.  (strict = nothing but `nf` between `loc` and the trailer) -/
def framedStrict (f : List Nat) (loc : Nat) (nf : List Nat) : Prop :=
  f = f.take loc ++ nf ++ leBytes 4 nf.length ++ magic

/-- lenient framing: the trailer is intact and the region it frames *starts with* `nf`
    (a Thrift reader stops at the struct's stop byte; dead bytes may follow) -/
def framedLenient (f : List Nat) (loc : Nat) (nf : List Nat) : Prop :=
  ∃ dead k, f = f.take loc ++ nf ++ dead ++ leBytes 4 k ++ magic ∧ k = nf.length + dead.length

/-! ### key merge (`update_custom_metadata`) -/
abbrev KV := List (List Nat × List Nat)          -- key bytes, value bytes

/-- one `for key, value in custom_metadata.items()` step; `keys` is the spare list `kvm_keys` -/
def mergeStep (st : KV × List (List Nat)) (u : List Nat × Option (List Nat)) : KV × List (List Nat) :=
  let (kvm, keys) := st
  let (k, v) := u
  match keys.idxOf? k with
  | some idx =>
    match v with
    | none => (kvm.eraseIdx idx, keys.eraseIdx idx)
    | some val => (kvm.set idx (k, val), keys)
  | none =>
    match v with
    | none => (kvm, keys)
    | some val => (kvm ++ [(k, val)], keys)      -- note: `kvm_keys` is NOT extended by the code

def merge (kvm : KV) (upd : List (List Nat × Option (List Nat))) : KV :=
  (upd.foldl mergeStep (kvm, kvm.map (·.1))).1

/-- what the dict view (`key_value_metadata`, last entry wins) shows for key `k` -/
def lookup (kvm : KV) (k : List Nat) : Option (List Nat) :=
  (kvm.reverse.find? (·.1 == k)).map (·.2)

/-- the plain specification: a finite map updated key by key -/
def specStep (m : List Nat → Option (List Nat)) (u : List Nat × Option (List Nat)) : List Nat → Option (List Nat) :=
  fun k => if k = u.1 then u.2 else m k

end PqV.Impl.Footer
