/-
  Impl.Access — row placement and selection algebra of partial reads in `fastparquet/api.py`:
  `to_pandas` (pre-allocated buffer, running `start`, per-row-group slice; 737-794),
  `__getitem__` (309-324), `iter_row_groups` (397-413), `head` (288-307), `count`, `__len__`.
  A dataset is a list of row groups; a row group is the list of its rows (global row ids).
-/
namespace PqV.Impl.Access

abbrev RG := List Nat

/-- assigning one row group's rows into the views `v[start:start+thislen]` -/
def place (buf : List (Option Nat)) (start : Nat) (rows : RG) : List (Option Nat) :=
  buf.take start ++ rows.map some ++ buf.drop (start + rows.length)

/-- the loop of `to_pandas`: `start = 0; for rg in rgs: assign at start; start += thislen` -/
def fill : List RG → Nat → List (Option Nat) → List (Option Nat)
  | [], _, buf => buf
  | rg :: rest, start, buf => fill rest (start + rg.length) (place buf start rg)

def total (rgs : List RG) : Nat := (rgs.map List.length).sum

/-- `to_pandas()` on the handle: allocate `sum(num_rows)` slots, fill -/
def toPandas (rgs : List RG) : List (Option Nat) := fill rgs 0 (List.replicate (total rgs) none)

/-- Python slice `l[start:stop:step]` with `None`/negative handling (step ≠ 0) -/
def pySliceIdx (n : Nat) (start stop : Option Int) (step : Int) : List Nat :=
  let len : Int := n
  let norm (v : Int) (lo hi : Int) : Int :=
    let v := if v < 0 then v + len else v
    if v < lo then lo else if v > hi then hi else v
  if step > 0 then
    let s := match start with | none => 0 | some v => norm v 0 len
    let e := match stop with | none => len | some v => norm v 0 len
    (List.range n).filter (fun (i : Nat) => decide (s ≤ (i : Int)) && decide ((i : Int) < e) && decide (((i : Int) - s) % step = 0))
  else if step < 0 then
    let s := match start with | none => len - 1 | some v => norm v (-1) (len - 1)
    let e := match stop with | none => -1 | some v => norm v (-1) (len - 1)
    ((List.range n).filter (fun (i : Nat) => decide ((i : Int) ≤ s) && decide (e < (i : Int)) && decide ((s - (i : Int)) % (-step) = 0))).reverse
  else []

def getSlice (rgs : List RG) (start stop : Option Int) (step : Int) : List RG :=
  (pySliceIdx rgs.length start stop step).filterMap (fun i => rgs[i]?)

/-- integer pick `pf[i]` (negative from the end); `none` = IndexError -/
def getInt (rgs : List RG) (i : Int) : Option (List RG) :=
  let j := if i < 0 then i + rgs.length else i
  if j < 0 then none else (rgs[j.toNat]?).map (fun r => [r])

/-- one selection step of an access program -/
inductive Sel where
  | slice (start stop : Option Int) (step : Int)     -- `pf[start:stop:step]`
  | pick (i : Int)                                   -- `pf[i]`
  deriving Repr

def applySel (rgs : List RG) : Sel → Option (List RG)
  | .slice a b k => some (getSlice rgs a b k)
  | .pick i => getInt rgs i

/-- a chain of selections, `none` = IndexError somewhere -/
def runSels (rgs : List RG) (sels : List Sel) : Option (List RG) :=
  sels.foldl (fun acc s => acc.bind (fun r => applySel r s)) (some rgs)

/-- `head(nrows)` as written: `for i, rg in enumerate(row_groups): total += rg.num_rows; if total >=
    nrows: break`, then `self[:i+1].to_pandas().head(nrows)`.  `headTake` is `i + 1`: one more than
    the first index at which the cumulative row count reaches `nrows`, or all row groups if it never
    does.  With no row groups the loop variable is never bound: `none` = UnboundLocalError unless the
    code initialises it (`initI`, regenerated from the source). -/
def headTake : List RG → Nat → Nat
  | [], _ => 0
  | rg :: rest, n => if rg.length ≥ n then 1 else 1 + headTake rest (n - rg.length)

def head (initI : Bool) (rgs : List RG) (n : Nat) : Option (List (Option Nat)) :=
  match rgs with
  | [] => if initI then some [] else none
  | _ => some ((toPandas (rgs.take (headTake rgs n))).take n)

/-- `iter_row_groups`: one frame per row group, empty frames dropped -/
def iterRowGroups (rgs : List RG) : List (List (Option Nat)) :=
  (rgs.map (fun rg => toPandas [rg])).filter (fun f => !f.isEmpty)

def count (rgs : List RG) : Nat := total rgs

end PqV.Impl.Access
