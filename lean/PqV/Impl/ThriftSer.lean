import PqV.Impl.Kernels
import PqV.Gen.Specs
/-
  Impl.ThriftSer — code-shaped model of the metadata (de)serialiser in `cencoding.pyx`:
  `write_thrift` / `write_list` (602-720), `read_thrift` / `read_list` (523-599), `to_bytes`
  size heuristic (792-805), `dict_eq` (899-933).  Structures are Python dicts `int key ↦ value`
  with the side-channel markers `'i32'` / `'i32list'`.  The field loop bound, the list-header switch
  and the buffer heuristic are the REGENERATED constants of `Gen.Specs`.
-/
namespace PqV.Impl.ThriftSer
open PqV.Impl PqV.Spec

inductive Marker where
  | none
  | all                      -- 'i32' in data
  | ids (l : List Nat)       -- data['i32list']
  deriving Repr, DecidableEq

inductive PyT where
  | none
  | bool (b : Bool)
  | int (n : Int)
  | float (bits : Nat)
  | bytes (bs : List Nat)
  | str (utf8 : List Nat)
  | list (items : List PyT)
  | dict (m : Marker) (entries : List (Nat × PyT))
  deriving Repr

def lookup (entries : List (Nat × PyT)) (i : Nat) : Option PyT := (entries.find? (·.1 == i)).map (·.2)

def isI32 (m : Marker) (i : Nat) : Bool :=
  match m with
  | .none => false
  | .all => true
  | .ids l => l.contains i

mutual
  /-- body of the `for i in range(lo, hi)` loop, from field `i` on (`steps` iterations left).
      Every call decreases `fuel` (structural recursion); `none` = fuel exhausted. -/
  def writeFields : Nat → Marker → List (Nat × PyT) → Nat → Nat → Nat → Option (List Nat)
    | 0, _, _, _, _, _ => Option.none
    | _ + 1, _, _, 0, _, _ => some [0]
    | fuel + 1, m, entries, steps + 1, i, prev =>
      match lookup entries i with
      | Option.none => writeFields fuel m entries steps (i + 1) prev
      | some PyT.none => writeFields fuel m entries steps (i + 1) prev
      | some v =>
        let delt := i - prev
        let hdr (ty : Nat) : Nat := (delt * 16 + ty) % 256
        let body : Option (List Nat) :=
          match v with
          | .bool true => some [hdr 1]
          | .bool false => some [hdr 2]
          | .int n => some ([hdr (if isI32 m i then 5 else 6)] ++ encodeUvarint (longZigzag n))
          | .float bits => some ([hdr 7] ++ leBytes 8 bits)
          | .bytes bs => some ([hdr 8] ++ encodeUvarint bs.length ++ bs)
          | .str bs => some ([hdr 8] ++ encodeUvarint bs.length ++ bs)
          | .list items => (writeList fuel items).map ([hdr 9] ++ ·)
          | .dict m' es => (writeThrift fuel m' es).map ([hdr 12] ++ ·)
          | .none => some []
        match body, writeFields fuel m entries steps (i + 1) i with
        | some b, some r => some (b ++ r)
        | _, _ => Option.none
  def writeThrift : Nat → Marker → List (Nat × PyT) → Option (List Nat)
    | 0, _, _ => Option.none
    | fuel + 1, m, entries =>
      writeFields fuel m entries (PqV.Gen.Specs.loopHi - PqV.Gen.Specs.loopLo) PqV.Gen.Specs.loopLo 0
  def writeList : Nat → List PyT → Option (List Nat)
    | 0, _ => Option.none
    | _ + 1, [] => some (encodeUvarint 0)
    | fuel + 1, first :: rest =>
      let l := (first :: rest).length
      let hdr (ty : Nat) : List Nat :=
        if l > PqV.Gen.Specs.listShortMax then [(ty ||| 0xF0)] ++ encodeUvarint l else [(ty ||| (l * 16)) % 256]
      let kind : Nat := match first with | .int _ => 0 | .bytes _ => 1 | .str _ => 1 | _ => 2
      let ty : Nat := match kind with | 0 => 5 | 1 => 8 | _ => 12
      (writeListItems fuel kind (first :: rest)).map (hdr ty ++ ·)
  def writeListItems : Nat → Nat → List PyT → Option (List Nat)
    | 0, _, _ => Option.none
    | _ + 1, _, [] => some []
    | fuel + 1, kind, v :: vs =>
      let item : Option (List Nat) :=
        match kind, v with
        | 0, .int n => some (encodeUvarint (longZigzag n))
        | 1, .bytes bs => some (encodeUvarint bs.length ++ bs)
        | 1, .str bs => some (encodeUvarint bs.length ++ bs)
        | 2, .dict m es => writeThrift fuel m es
        | _, _ => Option.none                  -- heterogeneous list: the code raises TypeError
      match item, writeListItems fuel kind vs with
      | some a, some b => some (a ++ b)
      | _, _ => Option.none
end

mutual
  def PyT.weight : PyT → Nat
    | .list items => 2 + weightItems items
    | .dict _ es => 20 + weightEntries es
    | _ => 1
  def weightItems : List PyT → Nat
    | [] => 0
    | v :: vs => 1 + v.weight + weightItems vs
  def weightEntries : List (Nat × PyT) → Nat
    | [] => 0
    | (_, v) :: es => 1 + v.weight + weightEntries es
end

/-- serialise a structure (fuel from its size) -/
def toBytes (v : PyT) : Option (List Nat) :=
  match v with
  | .dict m es => writeThrift (v.weight + 2) m es
  | _ => Option.none

/-- `ThriftObject.to_bytes`: size of the fixed buffer the serialiser writes into -/
def toBytesSize (name : String) (v : PyT) : Nat :=
  let len (i : Nat) : Nat := match v with
    | .dict _ es => (match lookup es i with | some (.list l) => l.length | _ => 0)
    | _ => 0
  let size :=
    if name == "RowGroup" then PqV.Gen.Specs.sizePerUnit * len 1
    else if name == "FileMetaData" then PqV.Gen.Specs.sizePerUnit * len 4 * len 2   -- + len(str(kv)) not modelled (≥ 0)
    else 0
  if size < PqV.Gen.Specs.sizeFloor then PqV.Gen.Specs.sizeFloor else size

/-! ### reader -/
mutual
  def readThrift : Nat → List Nat → Option (PyT × List Nat)
    | 0, _ => Option.none
    | fuel + 1, bs => (readFields fuel bs 0 [] false false []).map fun (es, i32s, h32, h64, r) =>
        (.dict (if h32 then (if h64 then .ids i32s else .all) else .none) es, r)
  def readFields : Nat → List Nat → Nat → List (Nat × PyT) → Bool → Bool → List Nat →
      Option (List (Nat × PyT) × List Nat × Bool × Bool × List Nat)
    | 0, _, _, _, _, _, _ => Option.none
    | fuel + 1, bs, id, acc, h32, h64, i32s =>
      match bs with
      | [] => Option.none
      | 0 :: r => some (acc, i32s, h32, h64, r)
      | byte :: r =>
        let id := (id + (byte &&& 0xF0) / 16) % 256      -- `char id`
        let bit := byte &&& 0x0F
        let put (v : PyT) (r' : List Nat) (h32' h64' : Bool) (i32s' : List Nat) :=
          readFields fuel r' id (acc.filter (·.1 != id) ++ [(id, v)]) h32' h64' i32s'
        if bit = 5 then
          match readUvarint r 0 with
          | .ok (u, k) => put (.int (zigzagLong u)) (r.drop k) true h64 (i32s ++ [id])
          | .error _ => Option.none
        else if bit = 6 ∨ bit = 4 then
          match readUvarint r 0 with
          | .ok (u, k) => put (.int (zigzagLong u)) (r.drop k) h32 (h64 || bit == 6) i32s
          | .error _ => Option.none
        else if bit = 7 then
          if r.length < 8 then Option.none else put (.float (leNat (r.take 8))) (r.drop 8) h32 h64 i32s
        else if bit = 8 then
          match readUvarint r 0 with
          | .ok (n, k) => if (r.drop k).length < n then Option.none else put (.bytes ((r.drop k).take n)) ((r.drop k).drop n) h32 h64 i32s
          | .error _ => Option.none
        else if bit = 9 then
          match readList fuel r with
          | some (l, r') => put (.list l) r' h32 h64 i32s
          | Option.none => Option.none
        else if bit = 12 then
          match readThrift fuel r with
          | some (d, r') => put d r' h32 h64 i32s
          | Option.none => Option.none
        else if bit = 1 then put (.bool true) r h32 h64 i32s
        else if bit = 2 then put (.bool false) r h32 h64 i32s
        else if bit = 3 then
          match r with | b :: r' => put (.int b) r' h32 h64 i32s | [] => Option.none
        else Option.none                                      -- "Corrupted thrift data" is printed
  def readList : Nat → List Nat → Option (List PyT × List Nat)
    | 0, _ => Option.none
    | fuel + 1, bs =>
      match bs with
      | [] => Option.none
      | byte :: r =>
        let typ := byte &&& 0x0F
        let hdr : Option (Nat × List Nat) :=
          if byte ≥ PqV.Gen.Specs.readLongFrom then
            match readUvarint r 0 with | .ok (n, k) => some (n, r.drop k) | .error _ => Option.none
          else some ((byte &&& 0xF0) / 16, r)
        match hdr with
        | Option.none => Option.none
        | some (size, r') => readItems fuel typ size r'
  def readItems : Nat → Nat → Nat → List Nat → Option (List PyT × List Nat)
    | 0, _, _, _ => Option.none
    | _ + 1, _, 0, bs => some ([], bs)
    | fuel + 1, typ, n + 1, bs =>
      let first : Option (PyT × List Nat) :=
        if typ = 5 ∨ typ = 6 then
          match readUvarint bs 0 with | .ok (u, k) => some (.int (zigzagLong u), bs.drop k) | .error _ => Option.none
        else if typ = 8 then
          match readUvarint bs 0 with
          | .ok (m, k) => if (bs.drop k).length < m then Option.none else some (.str ((bs.drop k).take m), (bs.drop k).drop m)
          | .error _ => Option.none
        else readThrift fuel bs
      match first with
      | Option.none => Option.none
      | some (v, r) => (readItems fuel typ n r).map fun (vs, r') => (v :: vs, r')
end

def fromBuffer (bs : List Nat) : Option (PyT × List Nat) := readThrift (2 * bs.length + 4) bs

end PqV.Impl.ThriftSer
