import PqV.Spec.File
import PqV.Impl.WritePage
import PqV.Gen.SkipDef
/-
  Impl.ReadPage — code-shaped model of fastparquet's OWN reader for v1 data pages of a flat column:
  `core.read_data_page` (repetition levels absent; definition levels through `read_def`, or stepped over by
  `skip_definition_bytes` when the chunk statistics of a fastparquet-written file say there is no null; values by
  `read_plain`, or dictionary indices — the byte-exact shortcut `np.frombuffer` for fastparquet's own 8/16/32-bit code
  runs, the hybrid decoder otherwise) and the placement `core.read_col` does with the result (`part[defi == max] = val`,
  `piece[:] = val`).  Control flow is the code's; hybrid streams and PLAIN values are read with the specification
  functions the kernels are proved (C11) and checked to refine.

  Tied to the code by the `rpage.v1` correspondence stream: the real `core.read_data_page` is run on every v1 page of
  every file the C01 run writes, with the `skip_nulls` / `selfmade` flags `read_col` computes, and must return the
  model's levels and values.
-/
namespace PqV.Impl
open PqV.Spec PqV.Gen.SkipDef

/-- iterations of `while n: ...; n //= shrink` -/
def iters (shrink : Nat) : Nat → Nat → Nat
  | 0, _ => 0
  | fuel + 1, n => if n = 0 then 0 else 1 + iters shrink fuel (n / shrink)

/-- bytes `skip_definition_bytes(io, num)` steps over (constants regenerated from core.py) -/
def skipLen (num : Nat) : Nat := base + step * iters shrink (num + 1) (num / div)

/-- what a page's value section decodes to before dictionary look-up / conversion -/
inductive PageVals where
  | plain (vals : List Cell)
  | indices (ix : List Int)
  deriving Repr, DecidableEq

/-- `read_def` for an OPTIONAL flat column (one length-prefixed hybrid block at the level width):
    levels, `num_nulls = num_values - (levels == max).sum()`, and `definition_levels = None` when that is 0 -/
def readDef (maxDef n : Nat) (bs : List Nat) : Option (Option (List Nat) × Nat × List Nat) :=
  match levelsV1 maxDef n bs with
  | none => none
  | some (lv, rest) =>
    let nn := n - (lv.filter (· == maxDef)).length
    some (if nn = 0 then none else some lv, nn, rest)

/-- the value section of `read_data_page` -/
def readValues (ptype tl enc : Nat) (selfmade : Bool) (nval : Nat) (bs : List Nat) : Option PageVals :=
  if enc = ENC_PLAIN then (plainDecode ptype tl nval bs).map PageVals.plain
  else if enc = ENC_PLAIN_DICTIONARY ∨ enc = ENC_RLE_DICTIONARY then
    match bs with
    | [] => none
    | bw :: rest =>
      if (bw = 8 ∨ bw = 16 ∨ bw = 32) ∧ selfmade then
        -- num = (varint >> 1) * 8 ; np.frombuffer(io.read(num * bw // 8), 'int<bw>')[:nval]
        match uvarintDec rest with
        | none => none
        | some (h, rest2) =>
          let num := h / 2 * 8
          if rest2.length < num * (bw / 8) then none else
          some (.indices (((List.range num).map fun i => toSigned bw (leNat ((rest2.drop (i * (bw / 8))).take (bw / 8)))).take nval))
      else if bw ≠ 0 then
        let ix := decodeHybrid bw nval rest
        if ix.length ≠ nval then none else some (.indices (ix.map Int.ofNat))
      else some (.indices (List.replicate nval 0))
  else none

/-- `read_data_page` for a flat column: (definition_levels, values) -/
def readDataPage (required : Bool) (maxDef ptype tl enc n : Nat) (skipNulls selfmade : Bool) (body : List Nat) :
    Option (Option (List Nat) × PageVals) :=
  if skipNulls ∧ ¬ required then
    -- statistics of a fastparquet-written chunk say "no null": step over the level block
    (readValues ptype tl enc selfmade n (body.drop (skipLen n))).map fun v => (none, v)
  else if required then
    (readValues ptype tl enc selfmade n body).map fun v => (none, v)
  else
    match readDef maxDef n body with
    | none => none
    | some (defs, nn, rest) => (readValues ptype tl enc selfmade (n - nn) rest).map fun v => (defs, v)

/-- dictionary look-up `dic[val]` (numpy indexing: a negative index counts from the end) / the values themselves -/
def deref (dict : Option (List Cell)) : PageVals → Option (List Cell)
  | .plain vs => some vs
  | .indices ix =>
    match dict with
    | none => none
    | some d => ix.mapM fun i => if 0 ≤ i then d[i.toNat]? else if i.natAbs ≤ d.length then d[d.length - i.natAbs]? else none

/-- what `read_col` puts into the output for one page: values at the rows whose level is the maximum -/
def placePage (maxDef : Nat) (dict : Option (List Cell)) (r : Option (List Nat) × PageVals) : Option (List Cell) :=
  match deref dict r.2 with
  | none => none
  | some vs =>
    match r.1 with
    | none => some vs
    | some defs => some (scatter maxDef defs vs)

end PqV.Impl
