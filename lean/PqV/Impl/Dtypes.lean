import PqV.Gen.Typemap
/-
  Impl.Dtypes — dtype prediction from metadata alone: `converted_types.typemap` (the branch without
  pandas metadata; the tables `simple` / `complex` / `nullable` are REGENERATED) and the
  nullable-promotion loop of `ParquetFile._dtypes` over the null statistics of every row group.
-/
namespace PqV.Impl.Dtypes
open PqV.Gen.Typemap

def lookupT (t : List (String × String)) (k : String) : Option String := (t.find? (·.1 == k)).map (·.2)

/-- `typemap(se)` without pandas metadata and without a TIMESTAMP logical type -/
def typemap (ptype : String) (ctype : Option String) (typeLength : Nat) : String :=
  match ctype with
  | none => match lookupT simple ptype with
    | some d => d
    | none => s!"S{typeLength}"
  | some c => match lookupT complexT c with
    | some d => d
    | none => "O"

/-- statistics of one column chunk as `_dtypes` reads them -/
structure ChunkStat where
  numRows : Nat                   -- rows of the row group
  stats : Option (Option Nat)     -- none: no Statistics; some none: Statistics without null_count
  deriving Repr, DecidableEq

/-- the loop `for rg in self.row_groups` deciding whether the column may hold nulls -/
def mayHaveNulls (missingMeansNulls : Bool) : List ChunkStat → Bool
  | [] => false
  | c :: cs =>
    if c.numRows = 0 then mayHaveNulls missingMeansNulls cs
    else match c.stats with
      | none => true
      | some none => if missingMeansNulls then true else mayHaveNulls missingMeansNulls cs
      | some (some k) => if k ≠ 0 then true else mayHaveNulls missingMeansNulls cs

/-- the predicted dtype of a column -/
def predict (base : String) (rgs : List ChunkStat) (pandasNulls : Bool) : String :=
  match lookupT nullable base with
  | none => if base == "S12" then "M8[ns]" else base
  | some ext =>
    if mayHaveNulls missingNullCountMeansNulls rgs then (if pandasNulls then ext else "float64") else base

def isPlainIntOrBool (d : String) : Bool :=
  ["int8", "int16", "int32", "int64", "uint8", "uint16", "uint32", "uint64", "bool"].contains d

end PqV.Impl.Dtypes
