import PqV.Impl.Dataset
/-
  Impl.DatasetOps — state machine of multi-file dataset edits:
  `write` (hive), `write(..., append=True)`, `write(..., append='overwrite')` = `writer.overwrite`
  (1497-1601), `ParquetFile.remove_row_groups` (415-489), `ParquetFile._sort_part_names`
  (576-620, with `part_ids` keyed by the bare part number) and the summary rewrite.
  State: the part files on disk and the row-group list of `_metadata`.
-/
namespace PqV.Impl.DatasetOps
open PqV.Impl.Dataset

structure DS where
  files : List ((String × Nat) × List Nat)      -- (dir, part number) ↦ rows held
  refs : List RgRef                              -- row groups of `_metadata`, in order
  deriving Repr, DecidableEq

def DS.getFile (ds : DS) (k : String × Nat) : Option (List Nat) := (ds.files.find? (·.1 == k)).map (·.2)
def putFile (fs : List ((String × Nat) × List Nat)) (k : String × Nat) (rows : List Nat) :=
  (k, rows) :: fs.filter (·.1 != k)
def delFile (fs : List ((String × Nat) × List Nat)) (k : String × Nat) := fs.filter (·.1 != k)

/-- `fs.rename(src, dst)`: replaces the destination; a missing source raises -/
def rename (fs : List ((String × Nat) × List Nat)) (src dst : String × Nat) :
    Except String (List ((String × Nat) × List Nat)) :=
  match (fs.find? (·.1 == src)).map (·.2) with
  | none => .error s!"rename: missing {src.1}/part.{src.2}"
  | some rows => .ok (putFile (delFile fs src) dst rows)

/-- write the pieces of new row groups to fresh part numbers and reference them -/
def addNew (ds : DS) (nd : NewData) : DS :=
  let off := maxPart ds.refs
  let new := newRefs off 0 nd
  { files := new.foldl (fun fs r => putFile fs (r.dir, r.id) r.rows) ds.files, refs := ds.refs ++ new }

/-- one entry per part *file* (keyed by its path): (part number, index of the FIRST row group the
    file holds), in order of first appearance -/
def partFiles (refs : List RgRef) : List ((String × Nat) × Nat) :=
  refs.zipIdx.foldl (fun (acc : List ((String × Nat) × Nat)) (p : RgRef × Nat) =>
    if acc.any (·.1 == (p.1.dir, p.1.id)) then acc else acc ++ [((p.1.dir, p.1.id), p.2)]) []

/-- `_sort_part_names`: two-pass rename through `.tmp` names (tmp names are modelled as part
    numbers shifted by a large constant), then re-point the row group at index `rgid` -/
def tmpBase : Nat := 1000000

def sortPartNames (ds : DS) : Except String DS := do
  -- keep only files whose number differs from the position of their first row group
  let todo := (partFiles ds.refs).filter (fun e => e.1.2 != e.2)
  -- pass 1: src = dir/part.pid  ->  dir/part.rgid.parquet.tmp
  let files ← todo.foldlM (fun fs e => rename fs e.1 (e.1.1, tmpBase + e.2)) ds.files
  -- pass 2: tmp -> dir/part.rgid.parquet ; fmd.row_groups[rgid] file_path := that
  let (files, refs) ← todo.foldlM (fun (st : List ((String × Nat) × List Nat) × List RgRef) e => do
      let fs ← rename st.1 (e.1.1, tmpBase + e.2) (e.1.1, e.2)
      let refs := st.2.mapIdx (fun i r => if i == e.2 then { r with dir := e.1.1, id := e.2 } else r)
      pure (fs, refs)) (files, ds.refs)
  pure { files, refs }

/-- `remove_row_groups(rgs, sort_pnames)`: drop the references, delete their files -/
def removeRGs (ds : DS) (idxs : List Nat) (sortP : Bool) : Except String DS := do
  let gone := idxs.filterMap (fun i => ds.refs[i]?)
  let refs := (ds.refs.zipIdx.filter (fun p => !idxs.contains p.2)).map (·.1)
  let files := gone.foldl (fun fs r => delFile fs (r.dir, r.id)) ds.files
  let ds' : DS := { files, refs }
  if sortP then sortPartNames ds' else pure ds'

/-- insertion sort by key, stable (`sorted(row_groups, key=sort_key)`) -/
def insertBy (k : RgRef → Nat) (x : RgRef) : List RgRef → List RgRef
  | [] => [x]
  | y :: ys => if k x ≤ k y then x :: y :: ys else y :: insertBy k x ys
def stableSortBy (k : RgRef → Nat) (l : List RgRef) : List RgRef := l.foldr (fun x acc => insertBy k x acc) []

/-- `writer.overwrite`: new data first, then remove the old row groups of the same partitions -/
def overwrite (ds : DS) (nd : NewData) (sortP : Bool) : Except String DS := do
  let n := ds.refs.length
  let starts : String → Nat := fun d => match ds.refs.findIdx? (·.dir == d) with | some i => i | none => n
  let newDirs := (nd.flatMap (·.map (·.1))).eraseDups
  let toRemove := ds.refs.filter (fun r => newDirs.contains r.dir)
  let ds1 := addNew ds nd
  let sorted := stableSortBy (fun r => starts r.dir) ds1.refs
  let ds2 : DS := { ds1 with refs := sorted }
  -- remove_row_groups takes row-group objects; find their current indexes
  let idxs := (sorted.zipIdx.filter (fun p => toRemove.contains p.1)).map (·.2)
  removeRGs ds2 idxs sortP

/-- `write_row_groups(data, sort_key=partition text, sort_pnames)`: add, stable-sort the whole
    row-group list by partition directory, optionally renumber -/
def writeSorted (ds : DS) (nd : NewData) (sortP : Bool) : Except String DS := do
  let ds1 := addNew ds nd
  let dirs := (ds1.refs.map (·.dir)).eraseDups
  let rank : String → Nat := fun d => (dirs.filter (fun e => e < d)).length
  let ds2 : DS := { ds1 with refs := stableSortBy (fun r => rank r.dir) ds1.refs }
  if sortP then sortPartNames ds2 else pure ds2

/-- the edit operations of the property (the driver parses the harness's lines into these) -/
inductive Op where
  | write (nd : NewData)                          -- fresh `write(..., file_scheme='hive')`
  | append (nd : NewData)                         -- `write(..., append=True)`
  | overwrite (nd : NewData) (sortP : Bool)       -- `write(..., append='overwrite')`
  | remove (idxs : List Nat) (sortP : Bool)       -- `remove_row_groups`
  | writeSorted (nd : NewData) (sortP : Bool)     -- `write_row_groups(sort_key=…, sort_pnames=…)`
  | sortNames                                     -- `_sort_part_names()`
  deriving Repr

def empty : DS := { files := [], refs := [] }

def step (ds : DS) : Op → Except String DS
  | .write nd => .ok (addNew empty nd)
  | .append nd => .ok (addNew ds nd)
  | .overwrite nd sp => overwrite ds nd sp
  | .remove idxs sp => removeRGs ds idxs sp
  | .writeSorted nd sp => writeSorted ds nd sp
  | .sortNames => sortPartNames ds

def run (ds : DS) (ops : List Op) : Except String DS := ops.foldlM step ds

/-- metadata and directory agree -/
def agree (ds : DS) : Bool :=
  ds.refs.all (fun r => ds.getFile (r.dir, r.id) == some r.rows) &&
  ds.files.all (fun f => ds.refs.any (fun r => (r.dir, r.id) == f.1))

/-- content per partition directory, in metadata order -/
def content (ds : DS) : List (String × List Nat) := ds.refs.map (fun r => (r.dir, r.rows))

end PqV.Impl.DatasetOps
