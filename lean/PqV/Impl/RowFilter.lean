import PqV.Impl.Prune
/-
  Impl.RowFilter — row-level filtering in `fastparquet/api.py` / `core.py`:
  `_column_filter` (evaluation of the filter expression on the frame of filter columns),
  the per-row-group slicing of the selection in `to_pandas`, and the per-page application of the
  selection inside `core.read_col` (levels and values are separate arrays there).
-/
namespace PqV.Impl.RowFilter
open PqV.Impl.Prune

/-- predicate on a present value (as in C05) -/
def satV (op : String) (val : Int) (vals : List Int) (x : Int) : Bool :=
  if op == "==" || op == "=" then x == val
  else if op == "!=" then x != val
  else if op == "<" then decide (x < val)
  else if op == "<=" then decide (x ≤ val)
  else if op == ">" then decide (x > val)
  else if op == ">=" then decide (x ≥ val)
  else if op == "in" then vals.contains x
  else if op == "not in" then !vals.contains x
  else false

/-- pandas semantics on a frame cell: a missing cell compares False, except that `!=` and
    `~isin` are True on it (the oracle treats those rows as don't-care) -/
def evalCond (c : Cond) (row : List (Option Int)) : Bool :=
  match row.getD c.col none with
  | none => c.op == "!=" || c.op == "not in"
  | some x => satV c.op c.val c.vals x

inductive Filt where
  | flat (l : List Cond)
  | nested (l : List (List Cond))

/-- `if filters and isinstance(filters[0][0], str): filters = [filters]` -/
def normalise : Filt → List (List Cond)
  | .flat [] => []
  | .flat l => [l]
  | .nested l => l

def andPart (isPart : Nat → Bool) (rows : List (List (Option Int))) : List Cond → List Bool → List Bool
  | [], acc => acc
  | c :: cs, acc =>
    if isPart c.col then andPart isPart rows cs acc
    else andPart isPart rows cs (List.zipWith (· && ·) acc (rows.map (evalCond c)))

/-- the loops of `_column_filter` -/
def columnFilterLoop (isPart : Nat → Bool) (rows : List (List (Option Int))) : List (List Cond) → List Bool → List Bool
  | [], out => out
  | g :: gs, out =>
    columnFilterLoop isPart rows gs (List.zipWith (· || ·) out (andPart isPart rows g (List.replicate rows.length true)))

def columnFilter (isPart : Nat → Bool) (f : Filt) (rows : List (List (Option Int))) : List Bool :=
  columnFilterLoop isPart rows (normalise f) (List.replicate rows.length false)

/-! ### the repaired `_column_filter`: a condition on a partition column is no longer skipped but evaluated PER ROW GROUP
(`_partition_term`: the row-group pruning's own test on the row group's partition value, one flag repeated over the
row group's rows) and merged like any other condition -/

/-- `np.repeat([not filter_out_cats(rg, [cond]) for rg in rgs], [rg.num_rows for rg in rgs])` -/
def partitionTerm (rgSat : Nat → Cond → Bool) (sizes : List Nat) (c : Cond) : List Bool :=
  (sizes.zipIdx.flatMap fun p => List.replicate p.1 (rgSat p.2 c))

def andPartRG (isPart : Nat → Bool) (rgSat : Nat → Cond → Bool) (sizes : List Nat) (rows : List (List (Option Int))) :
    List Cond → List Bool → List Bool
  | [], acc => acc
  | c :: cs, acc =>
    if isPart c.col then andPartRG isPart rgSat sizes rows cs (List.zipWith (· && ·) acc (partitionTerm rgSat sizes c))
    else andPartRG isPart rgSat sizes rows cs (List.zipWith (· && ·) acc (rows.map (evalCond c)))

def columnFilterLoopRG (isPart : Nat → Bool) (rgSat : Nat → Cond → Bool) (sizes : List Nat) (rows : List (List (Option Int))) :
    List (List Cond) → List Bool → List Bool
  | [], out => out
  | g :: gs, out =>
    columnFilterLoopRG isPart rgSat sizes rows gs
      (List.zipWith (· || ·) out (andPartRG isPart rgSat sizes rows g (List.replicate rows.length true)))

def columnFilterRG (isPart : Nat → Bool) (rgSat : Nat → Cond → Bool) (sizes : List Nat) (f : Filt)
    (rows : List (List (Option Int))) : List Bool :=
  columnFilterLoopRG isPart rgSat sizes rows (normalise f) (List.replicate rows.length false)

/-- `selected.append(sel[start:start+rg.num_rows]); start += rg.num_rows` over the row groups that
    survive pruning; and the same shape inside `read_col` over the pages of a chunk -/
def sliceSel : List Nat → List Bool → List (List Bool)
  | [], _ => []
  | n :: rest, sel => sel.take n :: sliceSel rest (sel.drop n)

/-- one page inside `read_col`: `defi` says which rows carry a value, `vals` are those values;
    `sel` is the slice of the selection for this page:
    `val = val[sel[defi == max_defi]]; defi = defi[sel]` -/
def selectPage {α} (defi : List Bool) (vals : List α) (sel : List Bool) : List Bool × List α :=
  let selAtValues := ((sel.zip defi).filter (·.2)).map (·.1)
  (((defi.zip sel).filter (·.2)).map (·.1), ((vals.zip selAtValues).filter (·.2)).map (·.1))

/-- scatter values back to rows: `part[defi == max] = val`, the rest is null -/
def assemble {α} : List Bool → List α → List (Option α)
  | [], _ => []
  | true :: ds, v :: vs => some v :: assemble ds vs
  | true :: ds, [] => none :: assemble ds []
  | false :: ds, vs => none :: assemble ds vs

def keep {α} (l : List α) (sel : List Bool) : List α := ((l.zip sel).filter (·.2)).map (·.1)

end PqV.Impl.RowFilter
