import PqV.Spec.File
import PqV.Impl.Kernels
import PqV.Gen.WriteLayout
/-
  Impl.WritePage — code-shaped model of what `writer.write_column` lays down for ONE flat column
  chunk, before compression: the optional dictionary page, and for every page the definition-level
  block of `make_definitions`, the values section of `encode_plain` / `encode_dict`, the 8 zero bytes
  a v1 page ends with, and the page-header numbers.  Cells are physical (see `Spec.Cell`): integers
  and floats are unsigned bit patterns, booleans 0/1, byte arrays raw bytes; for a categorical column
  the cells of a data page are the CODES and the categories go to the dictionary page.

  Tied to the code by the `wpage.*` correspondence streams (harness/c02.py): for every file the real
  writer produces, every page payload (decompressed) must equal `writerPageBody` of the cells the
  harness expects on that page, byte for byte, and the header numbers must equal `writerPageInfo`.
-/
namespace PqV.Impl
open PqV.Spec

/-- what `write_column` is told about the column -/
structure ColSpec where
  ptype : Nat
  typeLength : Nat := 0
  hasNulls : Bool                     -- schema element OPTIONAL (definition levels are written)
  v2 : Bool                           -- DATAPAGE_VERSION == 2
  dictItem : Option Nat := none       -- categorical: bytes per code (`data.cat.codes.dtype.itemsize`)
  deriving Repr

def notNullBits (cells : List Cell) : List Nat := cells.map fun c => if c = Cell.null then 0 else 1
def nonNull (cells : List Cell) : List Cell := cells.filter fun c => decide (c ≠ Cell.null)
def cellNat : Cell → Nat
  | .int n => n
  | _ => 0

/-- `make_definitions`, hybrid stream: no nulls in the page → ONE RLE run `varint(n << 1)`, value byte 1;
    otherwise ONE bit-packed run `varint(len(out) << 1 | 1)` over `convert`'s boolean packing -/
def writerDefBody (bits : List Nat) : List Nat :=
  -- the run headers and the value byte are REGENERATED from `make_definitions` (Gen.WriteLayout)
  if bits.all (· == 1) then uvarintEnc (PqV.Gen.WriteLayout.defRleHeader bits.length).toNat ++ [PqV.Gen.WriteLayout.defRleValue.toNat]
  else uvarintEnc (PqV.Gen.WriteLayout.defBpHeader (writerPackBools bits).length).toNat ++ writerPackBools bits

/-- v1 pages prefix the stream with its byte length (`struct.pack('<I', …)`), v2 pages do not -/
def writerDefBlock (v2 : Bool) (bits : List Nat) : List Nat :=
  if v2 then writerDefBody bits else leBytes PqV.Gen.WriteLayout.defPrefixBytes (writerDefBody bits).length ++ writerDefBody bits

/-- `encode_plain` on the null-stripped values: `convert(...).tobytes()` / `pack_byte_array`;
    booleans through `convert`'s own packing (which always pads, a whole byte for a multiple of 8) -/
def writerPlain (ptype tl : Nat) (vals : List Cell) : List Nat :=
  if ptype = PT_BOOLEAN then writerPackBools (vals.map cellNat) else plainEncode ptype tl vals

/-- `encode_dict`: width byte = 8 · itemsize, ONE bit-packed run announcing ⌈n/8⌉ groups, the codes as
    little-endian items (`data.values.tobytes()`), zero bytes up to whole groups of 8 -/
def writerDictData (item : Nat) (codes : List Nat) : List Nat :=
  -- width byte, run header and amount of padding are REGENERATED from `encode_dict` (Gen.WriteLayout)
  [(PqV.Gen.WriteLayout.dictWidthByte item).toNat] ++ uvarintEnc (PqV.Gen.WriteLayout.dictHeader codes.length item).toNat
    ++ codes.flatMap (leBytes item) ++ List.replicate (PqV.Gen.WriteLayout.dictPad codes.length item).toNat 0

def writerValues (c : ColSpec) (vals : List Cell) : List Nat :=
  match c.dictItem with
  | none => writerPlain c.ptype c.typeLength vals
  | some item => writerDictData item (vals.map cellNat)

def writerLevels (c : ColSpec) (cells : List Cell) : List Nat :=
  if c.hasNulls then writerDefBlock c.v2 (notNullBits cells) else []

/-- uncompressed payload of one data page -/
def writerPageBody (c : ColSpec) (cells : List Cell) : List Nat :=
  writerLevels c cells ++ writerValues c (nonNull cells) ++ (if c.v2 then [] else List.replicate PqV.Gen.WriteLayout.v1Trailer 0)

/-- the numbers `write_column` puts into the page header (offsets are not part of the model) -/
def writerPageInfo (c : ColSpec) (cells : List Cell) : PageInfo :=
  { hdrOff := 0, dataOff := 0, compSize := (writerPageBody c cells).length, uncompSize := (writerPageBody c cells).length,
    ptypeTag := if c.v2 then 3 else 0, numValues := cells.length,
    encoding := if c.dictItem.isSome then ENC_RLE_DICTIONARY else ENC_PLAIN,
    numNulls := if c.v2 then some (cells.length - (nonNull cells).length) else none,
    numRows := if c.v2 then some cells.length else none,
    defLen := if c.v2 then (writerLevels c cells).length else 0, repLen := 0, isCompressed := true }

/-- the dictionary page of a categorical column: the categories, PLAIN -/
def writerDictBody (c : ColSpec) (cats : List Cell) : List Nat := writerPlain c.ptype c.typeLength cats
def writerDictInfo (c : ColSpec) (cats : List Cell) : PageInfo :=
  { hdrOff := 0, dataOff := 0, compSize := (writerDictBody c cats).length, uncompSize := (writerDictBody c cats).length,
    ptypeTag := 2, numValues := cats.length, encoding := ENC_PLAIN, numNulls := none, numRows := none,
    defLen := 0, repLen := 0, isCompressed := true }

/-- the schema leaf the reader sees for such a column -/
def leafOf (c : ColSpec) : Leaf :=
  { path := [], ptype := c.ptype, typeLength := c.typeLength, maxDef := if c.hasNulls then 1 else 0, maxRep := 0, converted := none }

/-- all pages of the chunk, given the categories (if categorical) and the cells of each page -/
def writerChunk (c : ColSpec) (cats : List Cell) (pages : List (List Cell)) : List (PageInfo × List Nat) :=
  (if c.dictItem.isSome then [(writerDictInfo c cats, writerDictBody c cats)] else [])
    ++ pages.map fun cells => (writerPageInfo c cells, writerPageBody c cells)

/-- `ColumnMetaData.encodings` and `encoding_stats` as `write_column` records them -/
def writerEncodings (c : ColSpec) : List Nat := if c.dictItem.isSome then [ENC_PLAIN, ENC_RLE_DICTIONARY] else [ENC_PLAIN]
def writerEncStats (c : ColSpec) (npages : Nat) : List (Nat × Nat × Nat) :=
  if c.dictItem.isSome then [(2, ENC_PLAIN, 1), (if c.v2 then 3 else 0, ENC_RLE_DICTIONARY, npages)]
  else [(if c.v2 then 3 else 0, ENC_PLAIN, npages)]

/-- `Statistics.null_count` of the chunk as `write_column` records it: the per-page tallies added up (`global_num_nulls`) -/
def writerNullCount (pages : List (List Cell)) : Nat := (pages.map fun p => p.length - (nonNull p).length).sum

end PqV.Impl
