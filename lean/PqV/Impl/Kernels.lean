import PqV.Spec.Varint
import PqV.Spec.Bits
/-
  Impl.Kernels — code-shaped models of the Cython kernels in `fastparquet/cencoding.pyx`
  (and the byte-array helpers of `speedups.pyx`), statement for statement, with the declared
  machine-integer widths kept where the code's behaviour depends on them, and an explicit
  `Fault` result for (a) a load or store outside the buffer the kernel was handed,
  (b) a shift whose count is negative or ≥ the width of the promoted operand (undefined in C),
  (c) a division by zero.  Left shifts of a signed `int` into or past the sign bit are modelled
  with gcc's wrap-around semantics (noted in DESIGN §4).

  Conventions: a buffer is a `List Nat` of bytes; `ip`/`loc` are indices into it; the output
  `NumpyIO o` is modelled by the list of *items already stored* together with the free capacity
  in bytes (`cap`), because every kernel only appends at `o.loc`.
-/
namespace PqV.Impl

inductive Fault where
  | oobRead (idx len : Nat)
  | oobWrite (idx len : Nat)
  | shift (count width : Int)
  | divZero
  | fuel
  deriving Repr, DecidableEq

abbrev K := Except Fault

def rd (buf : List Nat) (i : Nat) : K Nat :=
  match buf[i]? with
  | some b => .ok b
  | none => .error (.oobRead i buf.length)

def wrapU (bits : Nat) (n : Int) : Nat := (n % (2 ^ bits : Nat)).toNat
def wrapS (bits : Nat) (n : Int) : Int :=
  let u := wrapU bits n
  if u < 2 ^ (bits - 1) then u else (u : Int) - (2 ^ bits : Nat)

/-! ### width_from_max_int (cencoding.pyx 55-61)
  `for i in range(0, 64): if value == 0: return i; value >>= 1` on an `int64`; falling out of the loop
  returns 0 (C default for a `cpdef int32_t`).  A negative argument never reaches 0 (arithmetic shift). -/
def widthLoop : Nat → Nat → Int → Nat
  | 0, _, _ => 0
  | f + 1, i, v => if v = 0 then i else widthLoop f (i + 1) (v / 2)
def widthFromMaxInt (value : Int) : Nat := widthLoop 64 0 (wrapS 64 value)

/-! ### read_unsigned_var_int (cencoding.pyx 172-189)
  `uint64 result`, `int32 shift`; `result |= (<int64>(byte & 0x7F) << shift)`. -/
def readUvarintLoop (buf : List Nat) : Nat → Nat → Nat → Nat → K (Nat × Nat)
  | 0, _, _, _ => .error .fuel
  | fuel + 1, ip, shift, result => do
    let byte ← rd buf ip
    if shift ≥ 64 then .error (.shift shift 64) else
    let result' := (result ||| ((byte &&& 0x7F) <<< shift)) % 2 ^ 64
    if byte &&& 0x80 = 0 then .ok (result', ip + 1)
    else readUvarintLoop buf fuel (ip + 1) (shift + 7) result'

/-- returns (value, new loc) -/
def readUvarint (buf : List Nat) (loc : Nat) : K (Nat × Nat) :=
  readUvarintLoop buf (buf.length + 1 - loc) loc 0 0

/-! ### encode_unsigned_varint (286-290): `write_byte` is bounds-checked and silently drops. -/
def encodeUvarintLoop : Nat → Nat → List Nat → List Nat
  | 0, _, acc => acc
  | fuel + 1, x, acc =>
    if x > 127 then encodeUvarintLoop fuel (x / 128) (acc ++ [(x &&& 0x7F) ||| 0x80])
    else acc ++ [x % 256]

def encodeUvarint (x : Nat) : List Nat := encodeUvarintLoop 11 (x % 2 ^ 64) []

/-! ### zigzag (511-520), 64-bit two's complement -/
def zigzagLong (n : Nat) : Int :=            -- (n >> 1) ^ -(n & 1)  as int64
  let m : Nat := n % 2 ^ 64
  if m % 2 = 0 then wrapS 64 ((m / 2 : Nat) : Int) else wrapS 64 (-((m / 2 : Nat) : Int) - 1)

def longZigzag (n : Int) : Nat :=            -- (n << 1) ^ (n >> 63) as uint64
  let n := wrapS 64 n
  if 0 ≤ n then wrapU 64 (2 * n) else wrapU 64 (-2 * n - 1)

/-! ### read_rle (24-52) -/
structure Out where
  items : List Nat      -- items stored so far (as unsigned values of the item width)
  cap : Nat             -- bytes still free behind o.loc
  deriving Repr

def rleData (buf : List Nat) (ip : Nat) : Nat → Nat → Nat → K Nat
  | 0, _, data => .ok data
  | k + 1, i, data => do
    let b ← rd buf (ip + i)
    if i * 8 ≥ 32 then .error (.shift (i * 8) 32) else
    rleData buf ip k (i + 1) ((data ||| ((b &&& 0xff) <<< (i * 8))) % 2 ^ 32)

/-- returns (new output, new input loc) -/
def readRle (buf : List Nat) (ip : Nat) (header bitWidth : Nat) (o : Out) (itemsize : Nat) :
    K (Out × Nat) := do
  let count := header / 2
  let width := (bitWidth + 7) / 8
  let data ← rleData buf ip width 0 0
  let valsLeft := o.cap / itemsize
  let count := if count > valsLeft then valsLeft else count
  let v := if itemsize = 4 then data else data &&& 0xff
  .ok ({ items := o.items ++ List.replicate count v, cap := o.cap - count * itemsize }, ip + width)

/-! ### read_bitpacked1 (69-96) -/
def readBitpacked1 (buf : List Nat) (ip : Nat) (count : Nat) (o : Out) : K (Out × Nat) := do
  let startcount := count
  let count := if count > o.cap then o.cap else count
  let nb := count / 8 + (if count % 8 = 0 then 0 else 1)
  let rec bytes : Nat → Nat → List Nat → K (List Nat)
    | 0, _, acc => .ok acc
    | k + 1, i, acc => do
      let b ← rd buf (ip + i)
      bytes k (i + 1) (acc ++ [b])
  let bs ← bytes nb 0 []
  let vals := (List.range count).map (fun j => (bs.getD (j / 8) 0 >>> (j % 8)) &&& 1)
  .ok ({ items := o.items ++ vals, cap := o.cap - count }, ip + (startcount + 7) / 8)

/-! ### read_bitpacked (129-169): `uint32 count, mask, data`; `unsigned char left = 8, right = 0` -/
structure BP where
  ip : Nat
  data : Nat
  left : Nat
  right : Nat
  count : Nat
  emitted : List Nat     -- values stored (outptr advanced)
  deriving Repr

def maskForBits (i : Nat) : Nat := wrapU 32 ((2 : Int) ^ i - 1)     -- `(1 << i) - 1` as int32→uint32

def bpStep (buf : List Nat) (width itemsize capItems : Nat) (s : BP) : K BP :=
  if s.right > 8 then
    .ok { s with data := s.data / 256, left := wrapU 8 ((s.left : Int) - 8), right := s.right - 8 }
  else if (s.left : Int) - s.right < width then
    if s.left ≥ 32 then .error (.shift s.left 32) else do
    let b ← rd buf s.ip
    .ok { s with data := (s.data ||| ((b &&& 0xff) <<< s.left)) % 2 ^ 32, ip := s.ip + 1,
                 left := wrapU 8 ((s.left : Int) + 8) }
  else
    if s.right ≥ 32 then .error (.shift s.right 32) else
    let v := (s.data >>> s.right) &&& maskForBits width
    let v := if itemsize = 4 then v else v &&& 0xff
    .ok { s with emitted := if s.emitted.length < capItems then s.emitted ++ [v] else s.emitted,
                 count := s.count - 1, right := wrapU 8 ((s.right : Int) + width) }

def bpLoop (buf : List Nat) (width itemsize capItems : Nat) : Nat → BP → K BP
  | 0, s => if s.count = 0 then .ok s else .error .fuel
  | fuel + 1, s =>
    if s.count = 0 then .ok s else do
    let s' ← bpStep buf width itemsize capItems s
    bpLoop buf width itemsize capItems fuel s'

/-- `read_bitpacked(file_obj, header, width, o, itemsize)`; returns (new output, new input loc) -/
def readBitpacked (buf : List Nat) (ip : Nat) (header width : Nat) (o : Out) (itemsize : Nat) :
    K (Out × Nat) := do
  let count := (header / 2) * 8
  if width = 1 ∧ itemsize = 1 then readBitpacked1 buf ip count o else
  if width ≥ 31 then .error (.shift width 32) else   -- `_mask_for_bits`: (1 << 31) - 1 overflows int32, 1 << 32 is out of range
  let capItems := o.cap / itemsize
  let b0 ← rd buf ip
  let s0 : BP := { ip := ip + 1, data := b0 &&& 0xff, left := 8, right := 0, count := count, emitted := [] }
  let s ← bpLoop buf width itemsize capItems (count * (width + 12) + 16) s0
  .ok ({ items := o.items ++ s.emitted, cap := o.cap - s.emitted.length * itemsize }, s.ip)

/-! ### read_rle_bit_packed_hybrid (192-213) — `length` given (bytes of the encoded region) -/
def readHybridLoop (buf : List Nat) (width length start itemsize : Nat) : Nat → Nat → Out → K (Out × Nat)
  | 0, loc, o => .ok (o, loc)
  | fuel + 1, loc, o =>
    if loc - start < length ∧ o.cap > 0 then do
      let (h, loc') ← readUvarint buf loc
      let header := h % 2 ^ 32
      if header % 2 = 0 then
        let (o', loc'') ← readRle buf loc' header width o itemsize
        readHybridLoop buf width length start itemsize fuel loc'' o'
      else
        let (o', loc'') ← readBitpacked buf loc' header width o itemsize
        readHybridLoop buf width length start itemsize fuel loc'' o'
    else .ok (o, loc)

def readHybrid (buf : List Nat) (loc width length : Nat) (o : Out) (itemsize : Nat) : K (Out × Nat) :=
  readHybridLoop buf width length loc itemsize (buf.length + 2) loc o

/-! ### encode_bitpacked (293-310): `int32 bit, bits, v` -/
def encBpLoop (width : Nat) : List Nat → Int → Nat → List Nat → K (List Nat × Int × Nat)
  -- `bits` is kept as the 32-bit pattern of the `int32` variable
  | [], bit, bits, acc => .ok (acc, bit, bits)
  | v :: vs, bit, bits, acc =>
    if bit ≥ 32 ∨ bit < 0 then .error (.shift bit 32) else
    let bits := (bits ||| ((v % 2 ^ 32) <<< bit.toNat)) % 2 ^ 32
    let bit := bit + width
    -- while bit >= 8: write_byte(bits & 0xff); bit -= 8; bits >>= 8  (arithmetic shift of int32)
    let rec drain : Nat → Int → Nat → List Nat → (Int × Nat × List Nat)
      | 0, bit, bits, acc => (bit, bits, acc)
      | f + 1, bit, bits, acc =>
        if bit ≥ 8 then drain f (bit - 8) (wrapU 32 (wrapS 32 bits / 256)) (acc ++ [bits % 256])
        else (bit, bits, acc)
    let (bit, bits, acc) := drain 8 bit bits acc
    encBpLoop width vs bit bits acc

def encodeBitpacked (values : List Nat) (width : Nat) : K (List Nat) := do
  let groups := (values.length + 7) / 8
  let hdr := encodeUvarint (groups * 2 + 1)
  let (acc, bit, bits) ← encBpLoop width values 0 0 []
  .ok (hdr ++ acc ++ (if bit ≠ 0 then [bits % 256] else []))

/-! ### delta_read_bitpacked (216-237): `uint64 data`, `int8 left, right` -/
structure DBP where
  loc : Nat
  data : Nat
  left : Int
  right : Int
  count : Nat
  vals : List Nat
  deriving Repr

def dbpStep (buf : List Nat) (bitwidth mask : Nat) (s : DBP) : K DBP :=
  if s.left - s.right < bitwidth then
    if s.left < 0 ∨ s.left ≥ 64 then .error (.shift s.left 64) else do
    let b ← rd buf s.loc
    .ok { s with data := (s.data ||| (b <<< s.left.toNat)) % 2 ^ 64, loc := s.loc + 1,
                 left := wrapS 8 (s.left + 8) }
  else if s.right > 8 then
    .ok { s with data := s.data / 256, left := wrapS 8 (s.left - 8), right := wrapS 8 (s.right - 8) }
  else
    if s.right < 0 ∨ s.right ≥ 64 then .error (.shift s.right 64) else
    .ok { s with vals := s.vals ++ [(s.data >>> s.right.toNat) &&& mask],
                 right := wrapS 8 (s.right + bitwidth), count := s.count - 1 }

def dbpLoop (buf : List Nat) (bitwidth mask : Nat) : Nat → DBP → K DBP
  | 0, s => if s.count = 0 then .ok s else .error .fuel
  | fuel + 1, s =>
    if s.count = 0 then .ok s else do
    let s' ← dbpStep buf bitwidth mask s
    dbpLoop buf bitwidth mask fuel s'

/-- returns the `count` unpacked values (before they are stored) and the new input loc -/
def deltaReadBitpacked (buf : List Nat) (loc bitwidth count : Nat) : K (List Nat × Nat) := do
  if bitwidth = 0 ∨ bitwidth > 64 then .error (.shift (64 - (bitwidth : Int)) 64) else
  let mask := (2 ^ 64 - 1) >>> (64 - bitwidth)
  let s ← dbpLoop buf bitwidth mask (count * 24 + 16) { loc, data := 0, left := 0, right := 0, count, vals := [] }
  .ok (s.vals, s.loc)

/-! ### delta_binary_unpack (240-283)
  The output `o` is an int32/int64 array; `write_int/long` are bounds-checked (silently drop),
  `read_int/long` return 0 when fewer than 4/8 bytes remain.  We model the output as an array of
  `capItems` slots of which `o.loc/itemsize = pos` are filled. -/
structure DOut where
  slots : Array Nat     -- whole output array (item values, unsigned)
  pos : Nat             -- o.loc / itemsize
  deriving Repr

def DOut.write (o : DOut) (v : Nat) : DOut :=
  if o.pos < o.slots.size then { slots := o.slots.set! o.pos v, pos := o.pos + 1 } else o
def DOut.read (o : DOut) : Nat × DOut :=
  if o.pos < o.slots.size then (o.slots[o.pos]!, { o with pos := o.pos + 1 }) else (0, o)

def deltaMini (itemBits : Nat) (minDelta : Int) : Nat → DOut → Int → Int → (DOut × Int × Int × Bool)
  -- j-loop over one miniblock whose deltas are already in the output: returns (o, value, count, done)
  | 0, o, value, count => (o, value, count, false)
  | j + 1, o, value, count =>
    let (t, o1) := o.read
    let temp := wrapS itemBits t
    let o2 := { o1 with pos := if o.pos < o.slots.size then o1.pos - 1 else o1.pos }
    let o3 := o2.write (wrapU itemBits value)
    let value := wrapS 64 (value + minDelta + temp)
    let count := count - 1
    if count ≤ 0 then (o3, value, count, true) else deltaMini itemBits minDelta j o3 value count

def deltaZero (itemBits : Nat) (minDelta : Int) : Nat → DOut → Int → Int → (DOut × Int × Int × Bool)
  | 0, o, value, count => (o, value, count, false)
  | j + 1, o, value, count =>
    let o := o.write (wrapU itemBits value)
    let value := wrapS 64 (value + minDelta)
    let count := count - 1
    if count ≤ 0 then (o, value, count, true) else deltaZero itemBits minDelta j o value count

def deltaBlockLoop (buf : List Nat) (itemBits vpm : Nat) (minDelta : Int) (bwLoc : Nat) :
    Nat → Nat → Nat → DOut → Int → Int → K (Nat × DOut × Int × Int × Bool)
  | 0, _, loc, o, value, count => .ok (loc, o, value, count, false)
  | k + 1, i, loc, o, value, count => do
    let bitwidth ← rd buf (bwLoc + i)
    if bitwidth ≠ 0 then
      let temp := o.pos
      let (o, loc) ← (if count > 1 then do
          let (vals, loc') ← deltaReadBitpacked buf loc bitwidth vpm
          .ok (vals.foldl (fun (o : DOut) v => o.write (v % 2 ^ itemBits)) o, loc')
        else .ok (o, loc) : K (DOut × Nat))
      let o := { o with pos := temp }
      let (o, value, count, done) := deltaMini itemBits minDelta vpm o value count
      if done then .ok (loc, o, value, count, true)
      else deltaBlockLoop buf itemBits vpm minDelta bwLoc k (i + 1) loc o value count
    else
      let (o, value, count, done) := deltaZero itemBits minDelta vpm o value count
      if done then .ok (loc, o, value, count, true)
      else deltaBlockLoop buf itemBits vpm minDelta bwLoc k (i + 1) loc o value count

def deltaOuter (buf : List Nat) (itemBits mpb vpm : Nat) :
    Nat → Nat → DOut → Int → Int → K (Nat × DOut)
  | 0, _, _, _, _ => .error .fuel
  | fuel + 1, loc, o, value, count => do
    let (md, loc) ← readUvarint buf loc
    let minDelta := zigzagLong md
    -- bitwidths = file_obj.read(miniblock_per_block)
    let bwLoc := loc
    let loc := loc + (if mpb < 1 then buf.length - loc else mpb)
    let (loc, o, value, count, done) ← deltaBlockLoop buf itemBits vpm minDelta bwLoc mpb 0 loc o value count
    if done then .ok (loc, o) else deltaOuter buf itemBits mpb vpm fuel loc o value count

/-- `delta_binary_unpack(file_obj, o, longval)`: returns the output array and the new input loc. -/
def deltaBinaryUnpack (buf : List Nat) (loc : Nat) (capItems : Nat) (longval : Bool) : K (Array Nat × Nat) := do
  let itemBits := if longval then 64 else 32
  let (blockSize, loc) ← readUvarint buf loc
  let (mpb, loc) ← readUvarint buf loc
  let (cnt, loc) ← readUvarint buf loc
  let count := wrapS 64 cnt
  let (v0, loc) ← readUvarint buf loc
  let value := zigzagLong v0
  if mpb = 0 then .error .divZero else
  let vpm := blockSize / mpb
  let (loc, o) ← deltaOuter buf itemBits mpb vpm (buf.length + 2) loc
    { slots := Array.replicate capItems 0, pos := 0 } value count
  .ok (o.slots, loc)

/-! ### speedups.pyx pack_byte_array / unpack_byte_array -/
def packByteArray (items : List (List Nat)) : List Nat :=
  items.flatMap (fun it => Spec.leBytes 4 it.length ++ it)

/-- `unpack_byte_array(raw, n)`: `while i < n and bytecount > 0`; the 4-byte length load and the
    payload copy are unchecked, so running past the buffer is a fault.  Items not reached stay
    `None` (the result list is then shorter than `n`). -/
def unpackByteArray (raw : List Nat) (pos : Nat) : Nat → K (List (List Nat))
  | 0 => .ok []
  | n + 1 =>
    if raw.length ≤ pos then .ok [] else
    if raw.length < pos + 4 then .error (.oobRead (pos + 3) raw.length) else
    let len := Spec.leNat ((raw.drop pos).take 4)
    if len ≥ 2 ^ 31 then .error (.oobRead 0 raw.length) else
    if raw.length < pos + 4 + len then .error (.oobRead (pos + 4 + len - 1) raw.length) else do
    let rest ← unpackByteArray raw (pos + 4 + len) n
    .ok ((raw.drop (pos + 4)).take len :: rest)

/-! ### encoding.py read_plain_boolean: `read_bitpacked1(NumpyIO(data), count, NumpyIO(out))`, `out[:count]` -/
def readPlainBoolean (raw : List Nat) (count : Nat) : K (List Nat) := do
  let (o, _) ← readBitpacked1 raw 0 count { items := [], cap := count }
  .ok (o.items.take count)

/-! ### writer.py convert, bool branch: pad to a multiple of 8, reshape(-1, 8)[:, ::-1], packbits -/
def writerPackBools (vals : List Nat) : List Nat :=
  let padded := vals ++ List.replicate (8 - vals.length % 8) 0
  (List.range (padded.length / 8)).map fun g =>
    (List.range 8).foldl (fun acc j => acc + (if padded.getD (g * 8 + j) 0 ≠ 0 then 2 ^ j else 0)) 0

end PqV.Impl
