/-
  Impl.Partition — `writer.partition_on_columns` (1368-1409): one incoming row group is split by
  `groupby(sort=True)` on the key columns; rows with a null key are dropped; empty groups skipped;
  each group is written to the directory named by its key.  Plus the text layer of the directory
  names: segments joined by '/', hive segments `name=value`.
  Rows are (row id, key) with `none` = a null in some key column; keys are order-preserving
  integer images of the key tuples.
-/
namespace PqV.Impl.Partition

abbrev Row := Nat × Option Nat

/-- insertion of a key into a sorted duplicate-free list -/
def insertKey (k : Nat) : List Nat → List Nat
  | [] => [k]
  | x :: xs => if k < x then k :: x :: xs else if k = x then x :: xs else x :: insertKey k xs

/-- sorted distinct non-null keys of a row group -/
def keysOf (rows : List Row) : List Nat := rows.foldr (fun r acc => match r.2 with | some k => insertKey k acc | none => acc) []

/-- the groups in write order: (key, row ids in original order) -/
def groups (rows : List Row) : List (Nat × List Nat) :=
  (keysOf rows).map (fun k => (k, (rows.filter (fun r => r.2 == some k)).map (·.1)))

/-! ### directory text -/

/-- split a path on a separator character -/
def splitOn (sep : Char) : List Char → List (List Char)
  | [] => [[]]
  | c :: cs =>
    if c = sep then [] :: splitOn sep cs
    else match splitOn sep cs with
      | [] => [[c]]
      | s :: ss => (c :: s) :: ss

def joinWith (sep : Char) : List (List Char) → List Char
  | [] => []
  | [s] => s
  | s :: ss => s ++ sep :: joinWith sep ss

/-- hive directory text for (name, value) pairs: `n1=v1/n2=v2` -/
def renderHive (kvs : List (List Char × List Char)) : List Char :=
  joinWith '/' (kvs.map (fun kv => kv.1 ++ '=' :: kv.2))

/-- `[p.split("=") for p in path.split("/") if "=" in p]`, kept when it has exactly two parts -/
def parseHive (path : List Char) : List (List Char × List Char) :=
  (splitOn '/' path).filterMap (fun seg =>
    match splitOn '=' seg with
    | [k, v] => some (k, v)
    | _ => none)

end PqV.Impl.Partition
