import PqV.Gen.Filter
/-
  Impl.Prune — code-shaped model of row-group pruning in `fastparquet/api.py`:
  `filter_out_stats` (1125-1183), `filter_out_cats` (1385-1422), `filter_row_groups` (1330-1382).
  The interval tests themselves are NOT modelled here: they are the regenerated `Gen.Filter`.
  Columns are identified by `Nat` ids; values are order-preserving integer images of the real
  scalars (the harness ranks them), which is all the decision logic depends on.
-/
namespace PqV.Impl.Prune
open PqV.Py PqV.Gen.Filter

structure Cond where
  col : Nat
  op : String
  val : Int
  vals : List Int
  deriving Repr

/-- `Statistics` of one column chunk as the pruning code reads it. -/
structure Stats where
  nullCount : Option Nat
  max : Option Int
  maxValue : Option Int
  min : Option Int
  minValue : Option Int
  deriving Repr

structure Chunk where
  col : Nat
  numValues : Nat
  stats : Option Stats
  deriving Repr

structure RowGroup where
  numRows : Nat
  chunks : List Chunk
  parts : List (Nat × Int)        -- partition (column, value) pairs parsed from the file path
  hasPath : Bool := true
  deriving Repr

/-- Python `a or b` on optional values (`None` is falsy; an empty bytes bound is not modelled). -/
def pyOrOpt (a b : Option Int) : Option Int := match a with | some x => some x | none => b

/-- inner loop `for op, val in app_filters` for one column chunk -/
def chunkOut (c : Chunk) : List Cond → Py Bool
  | [] => .ok false
  | f :: fs =>
    if f.col ≠ c.col then chunkOut c fs else
    match c.stats with
    | none => chunkOut c fs
    | some s =>
      if s.nullCount = some c.numValues then .ok true else
      let vmax := pyOrOpt s.max s.maxValue
      let vmin := pyOrOpt s.min s.minValue
      filter_val f.op f.val f.vals vmin vmax >>= fun b => if b then .ok true else chunkOut c fs

def chunksOut : List Chunk → List Cond → Py Bool
  | [], _ => .ok false
  | c :: cs, fs => chunkOut c fs >>= fun b => if b then .ok true else chunksOut cs fs

def statsOut (rg : RowGroup) (fs : List Cond) : Py Bool :=
  if rg.numRows = 0 then .ok true
  else if fs.isEmpty then .ok false
  else chunksOut rg.chunks fs

/-- `filter_out_cats`: every condition on a partition column is tested against `vmin = vmax = v`. -/
def partOut (cat : Nat) (v : Int) : List Cond → Py Bool
  | [] => .ok false
  | f :: fs =>
    if f.col ≠ cat then partOut cat v fs else
    filter_val f.op f.val f.vals (some v) (some v) >>= fun b => if b then .ok true else partOut cat v fs

def partsOut : List (Nat × Int) → List Cond → Py Bool
  | [], _ => .ok false
  | (c, v) :: ps, fs => partOut c v fs >>= fun b => if b then .ok true else partsOut ps fs

def catsOut (rg : RowGroup) (fs : List Cond) : Py Bool :=
  if fs.isEmpty ∨ !rg.hasPath then .ok false else partsOut rg.parts fs

/-- one AND group keeps the row group unless statistics or partition values exclude it -/
def groupKeeps (rg : RowGroup) (fs : List Cond) : Py Bool :=
  statsOut rg fs >>= fun s => if s then .ok false else (catsOut rg fs).map not

/-- `any([...])` over the OR groups: the list is built first, so every group is evaluated. -/
def keeps (rg : RowGroup) : List (List Cond) → Py Bool
  | [] => .ok false
  | g :: gs => groupKeeps rg g >>= fun a => (keeps rg gs).map (fun b => a || b)

/-- `filter_row_groups(..., as_idx=True)`: indexes of kept row groups, in order. -/
def filterRowGroups (rgs : List RowGroup) (dnf : List (List Cond)) : Py (List Nat) :=
  let dnf := if dnf.isEmpty then [[]] else dnf
  let rec go : List RowGroup → Nat → Py (List Nat)
    | [], _ => .ok []
    | rg :: rest, i => keeps rg dnf >>= fun k => (go rest (i + 1)).map (fun t => if k then i :: t else t)
  go rgs 0

end PqV.Impl.Prune
