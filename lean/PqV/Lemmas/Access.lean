import PqV.Impl.Access
import Mathlib.Data.List.Induction
/-! helper lemmas for C06: membership of selected row groups, `range` / `getElem?` round trip -/
namespace PqV.Props.C06
open PqV.Impl.Access

theorem getSlice_mem (rgs : List RG) (a b : Option Int) (k : Int) : ∀ rg ∈ getSlice rgs a b k, rg ∈ rgs := by
  intro rg h
  simp only [getSlice, List.mem_filterMap] at h
  obtain ⟨i, _, hi⟩ := h
  exact List.mem_of_getElem? hi

theorem getInt_mem (rgs out : List RG) (i : Int) (h : getInt rgs i = some out) : ∀ rg ∈ out, rg ∈ rgs := by
  simp only [getInt] at h
  by_cases hj : (if i < 0 then i + (rgs.length : Int) else i) < 0
  · rw [if_pos hj] at h; cases h
  · rw [if_neg hj, Option.map_eq_some_iff] at h
    obtain ⟨r, hr, rfl⟩ := h
    intro rg hrg
    simp only [List.mem_singleton] at hrg
    subst hrg
    exact List.mem_of_getElem? hr

theorem filterMap_congr' {α β} (l : List α) (f g : α → Option β) (h : ∀ a ∈ l, f a = g a) : l.filterMap f = l.filterMap g := by
  induction l with
  | nil => rfl
  | cons a t ih =>
    simp only [List.filterMap_cons, h a List.mem_cons_self, ih (fun x hx => h x (List.mem_cons_of_mem _ hx))]

theorem range_filterMap_getElem (rgs : List RG) : (List.range rgs.length).filterMap (fun i => rgs[i]?) = rgs := by
  induction rgs using List.reverseRecOn with
  | nil => simp
  | append_singleton l a ih =>
    rw [List.length_append, List.length_singleton, List.range_succ, List.filterMap_append]
    have h1 : (List.range l.length).filterMap (fun i => (l ++ [a])[i]?) = l := by
      rw [filterMap_congr' _ _ (fun i => l[i]?)]
      · exact ih
      · intro j hj
        have : j < l.length := by simpa using hj
        rw [List.getElem?_append_left this]
    rw [h1]
    simp


end PqV.Props.C06
