import PqV.Lemmas.Footer
namespace PqV.Impl.Footer

theorem idxOf?_append_left (k' : List Nat) (a b : List (List Nat)) (h : k' ∉ b) :
    List.idxOf? k' (a ++ b) = List.idxOf? k' a := by
  induction a with
  | nil =>
    simp only [List.nil_append]
    have : List.idxOf? k' b = none := by
      rw [List.idxOf?, List.findIdx?_eq_none_iff]
      intro x hx
      have : x ≠ k' := fun e => h (e ▸ hx)
      simpa using this
    rw [this]; rfl
  | cons x xs ih =>
    simp only [List.cons_append, List.idxOf?_cons, ih]

theorem map_eraseIdx' {α β} (f : α → β) : ∀ (l : List α) (i : Nat), (l.map f).eraseIdx i = (l.eraseIdx i).map f
  | [], _ => by simp
  | _ :: _, 0 => by simp
  | x :: xs, i + 1 => by simp [map_eraseIdx' f xs i]

/-- the spare key list only covers the entries present at the start (`base`); as long as the
    update does not name a key that was added in the meantime, the step acts as if it were complete -/
theorem mergeStep_prefix (base added : KV) (u : List Nat × Option (List Nat)) (hu : u.1 ∉ added.map (·.1)) :
    ∃ base' added', mergeStep (base ++ added, base.map (·.1)) u = (base' ++ added', base'.map (·.1)) ∧
      base' ++ added' = (mergeStep (base ++ added, (base ++ added).map (·.1)) u).1 ∧
      (added'.map (·.1) = added.map (·.1) ∨ added'.map (·.1) = added.map (·.1) ++ [u.1]) := by
  obtain ⟨k', v⟩ := u
  have hidx : List.idxOf? k' ((base ++ added).map (·.1)) = List.idxOf? k' (base.map (·.1)) := by
    rw [List.map_append]; exact idxOf?_append_left k' _ _ hu
  simp only [mergeStep, hidx]
  cases hi : List.idxOf? k' (base.map (·.1)) with
  | none =>
    cases v with
    | none => exact ⟨base, added, rfl, rfl, Or.inl rfl⟩
    | some val => exact ⟨base, added ++ [(k', val)], by simp, by simp, Or.inr (by simp)⟩
  | some idx =>
    have hlt : idx < base.length := by
      have := List.findIdx?_eq_some_iff_getElem.mp (by rw [List.idxOf?] at hi; exact hi)
      obtain ⟨h, _⟩ := this
      simpa using h
    cases v with
    | none =>
      refine ⟨base.eraseIdx idx, added, ?_, ?_, Or.inl rfl⟩
      · simp [List.eraseIdx_append_of_lt_length hlt, map_eraseIdx']
      · simp [List.eraseIdx_append_of_lt_length hlt]
    | some val =>
      have hkey : (base.set idx (k', val)).map (·.1) = base.map (·.1) := by
        have hget : (base.map (·.1))[idx]? = some k' := by
          have := List.findIdx?_eq_some_iff_getElem.mp (by rw [List.idxOf?] at hi; exact hi)
          obtain ⟨h, hb, _⟩ := this
          rw [List.getElem?_eq_getElem h]
          simpa using hb
        rw [List.map_set]
        apply List.ext_getElem?
        intro i
        by_cases hie : i = idx
        · subst hie
          have : k' = base[i].1 := by simpa [List.getElem?_map, List.getElem?_eq_getElem hlt] using hget.symm
          simp [List.getElem?_set, hlt, this]
        · simp [List.getElem?_set, Ne.symm hie]
      refine ⟨base.set idx (k', val), added, ?_, ?_, Or.inl rfl⟩
      · simp [List.set_append_left _ _ hlt, hkey]
      · simp [List.set_append_left _ _ hlt]


theorem merge_one_nodup (kvm : KV) (u : List Nat × Option (List Nat)) (hnd : (kvm.map (·.1)).Nodup) :
    ((merge kvm [u]).map (·.1)).Nodup := by
  obtain ⟨k', v⟩ := u
  unfold merge
  simp only [List.foldl_cons, List.foldl_nil, mergeStep]
  cases hi : List.idxOf? k' (kvm.map (·.1)) with
  | none =>
    have hnotin := idx_none kvm k' hi
    cases v with
    | none => exact hnd
    | some val =>
      simp only [List.map_append, List.map_cons, List.map_nil]
      exact List.nodup_append.mpr ⟨hnd, by simp, by intro a ha b hb; simp at hb; subst hb; intro e; exact hnotin (e ▸ ha)⟩
  | some idx =>
    have hf := List.findIdx?_eq_some_iff_getElem.mp (by rw [List.idxOf?] at hi; exact hi)
    obtain ⟨hlt', hb, _⟩ := hf
    have hlt : idx < kvm.length := by simpa using hlt'
    cases v with
    | none =>
      simp only [← map_eraseIdx']
      exact hnd.sublist (List.eraseIdx_sublist _ _)
    | some val =>
      have hkey : (kvm.set idx (k', val)).map (·.1) = kvm.map (·.1) := by
        rw [List.map_set]
        apply List.ext_getElem?
        intro i
        by_cases hie : i = idx
        · subst hie
          have : k' = kvm[i].1 := by
            have h2 : kvm[i].1 = k' := by simpa using hb
            exact h2.symm
          simp [List.getElem?_set, hlt, this]
        · simp [List.getElem?_set, Ne.symm hie]
      simp only [hkey]; exact hnd

/-- **any update dict (distinct keys), applied key by key, behaves like the plain map** -/
theorem merge_seq_lookup : ∀ (upd : List (List Nat × Option (List Nat))), (upd.map (·.1)).Nodup →
    ∀ (base added : KV), ((base ++ added).map (·.1)).Nodup → (∀ u ∈ upd, u.1 ∉ added.map (·.1)) →
      ∀ k, lookup ((upd.foldl mergeStep (base ++ added, base.map (·.1))).1) k = (upd.foldl specStep (lookup (base ++ added))) k := by
  intro upd
  induction upd with
  | nil => intro _ base added _ _ k; rfl
  | cons u us ih =>
    intro hupd base added hnd hadd k
    simp only [List.map_cons, List.nodup_cons] at hupd
    obtain ⟨base', added', hstep, hwhole, hkeys⟩ := mergeStep_prefix base added u (hadd u (List.mem_cons_self))
    have hmerge : base' ++ added' = merge (base ++ added) [u] := by
      rw [hwhole]; simp [merge]
    have hnd' : ((base' ++ added').map (·.1)).Nodup := by rw [hmerge]; exact merge_one_nodup _ u hnd
    have hadd' : ∀ u' ∈ us, u'.1 ∉ added'.map (·.1) := by
      intro u' hu'
      have h1 := hadd u' (List.mem_cons_of_mem _ hu')
      rcases hkeys with hk | hk
      · rw [hk]; exact h1
      · rw [hk]
        simp only [List.mem_append, List.mem_cons, List.mem_nil_iff, or_false, not_or]
        refine ⟨h1, ?_⟩
        intro e
        exact hupd.1 (List.mem_map.mpr ⟨u', hu', e⟩)
    simp only [List.foldl_cons, hstep]
    rw [ih hupd.2 base' added' hnd' hadd' k]
    have hfun : lookup (base' ++ added') = specStep (lookup (base ++ added)) u := by
      funext x
      rw [hmerge]
      exact merge_one_lookup (base ++ added) u hnd x
    rw [hfun]

/-- top level: `merge kvm upd` (the spare key list starts as all keys) -/
theorem merge_lookup (kvm : KV) (upd : List (List Nat × Option (List Nat))) (hnd : (kvm.map (·.1)).Nodup)
    (hupd : (upd.map (·.1)).Nodup) (k : List Nat) :
    lookup (merge kvm upd) k = (upd.foldl specStep (lookup kvm)) k := by
  have := merge_seq_lookup upd hupd kvm [] (by simpa using hnd) (by simp) k
  simpa [merge] using this

end PqV.Impl.Footer
