import PqV.Spec.Bits
import Mathlib.Tactic.Ring
import Mathlib.Tactic.Linarith
/-! Lemmas about `Spec.Bits`: little-endian bytes and bit packing round trips. -/
namespace PqV.Spec

theorem leNat_leBytes (k n : Nat) : leNat (leBytes k n) = n % 256 ^ k := by
  induction k generalizing n with
  | zero => simp [leBytes, leNat, Nat.mod_one]
  | succ k ih =>
    simp only [leBytes, leNat, ih]
    rw [Nat.pow_succ, Nat.mul_comm (256 ^ k) 256, Nat.mod_mul]
    
theorem leBytes_length (k n : Nat) : (leBytes k n).length = k := by
  induction k generalizing n with
  | zero => simp [leBytes]
  | succ k ih => simp [leBytes, ih]

theorem leBytes_lt (k n : Nat) : ∀ b ∈ leBytes k n, b < 256 := by
  induction k generalizing n with
  | zero => simp [leBytes]
  | succ k ih =>
    intro b hb
    simp only [leBytes, List.mem_cons] at hb
    rcases hb with hb | hb
    · omega
    · exact ih _ b hb

theorem leNat_lt (bs : List Nat) (h : ∀ b ∈ bs, b < 256) : leNat bs < 256 ^ bs.length := by
  induction bs with
  | nil => simp [leNat]
  | cons b bs ih =>
    simp only [leNat, List.length_cons, Nat.pow_succ]
    have hb := h b (by simp)
    have := ih (fun x hx => h x (by simp [hx]))
    nlinarith

theorem leBytes_leNat (bs : List Nat) (h : ∀ b ∈ bs, b < 256) : leBytes bs.length (leNat bs) = bs := by
  induction bs with
  | nil => simp [leBytes]
  | cons b bs ih =>
    have hb := h b (by simp)
    simp only [List.length_cons, leBytes, leNat]
    have h1 : (b + 256 * leNat bs) % 256 = b := by omega
    have h2 : (b + 256 * leNat bs) / 256 = leNat bs := by omega
    rw [h1, h2, ih (fun x hx => h x (by simp [hx]))]

theorem packNat_lt (w : Nat) (vs : List Nat) : packNat w vs < 2 ^ (vs.length * w) := by
  induction vs with
  | nil => simp [packNat]
  | cons v vs ih =>
    simp only [packNat, List.length_cons]
    have hv : v % 2 ^ w < 2 ^ w := Nat.mod_lt _ (Nat.two_pow_pos w)
    have e : 2 ^ ((vs.length + 1) * w) = 2 ^ w * 2 ^ (vs.length * w) := by
      rw [← Nat.pow_add]; congr 1; ring
    rw [e]
    nlinarith [Nat.two_pow_pos w]

theorem bitField_packNat (w : Nat) (vs : List Nat) (i : Nat) (hi : i < vs.length) :
    bitField w i (packNat w vs) = vs[i] % 2 ^ w := by
  induction vs generalizing i with
  | nil => simp at hi
  | cons v vs ih =>
    unfold bitField at *
    cases i with
    | zero =>
      simp only [packNat, Nat.zero_mul, Nat.pow_zero, Nat.div_one, List.getElem_cons_zero]
      rw [Nat.add_mul_mod_self_left, Nat.mod_mod]
    | succ i =>
      simp only [packNat, List.getElem_cons_succ]
      have e : 2 ^ ((i + 1) * w) = 2 ^ w * 2 ^ (i * w) := by
        rw [← Nat.pow_add]; congr 1; ring
      rw [e, ← Nat.div_div_eq_div_mul]
      have hv : v % 2 ^ w < 2 ^ w := Nat.mod_lt _ (Nat.two_pow_pos w)
      have : (v % 2 ^ w + 2 ^ w * packNat w vs) / 2 ^ w = packNat w vs := by
        rw [Nat.add_mul_div_left _ _ (Nat.two_pow_pos w), Nat.div_eq_of_lt hv, Nat.zero_add]
      rw [this]
      exact ih i (by simpa using hi)

/-- Bit-packing round trip at the level of the bit stream. -/
theorem unpackNat_packNat (w : Nat) (vs : List Nat) (h : ∀ v ∈ vs, v < 2 ^ w) :
    unpackNat w vs.length (packNat w vs) = vs := by
  apply List.ext_getElem
  · simp [unpackNat]
  · intro i h1 h2
    simp only [unpackNat, List.getElem_map, List.getElem_range]
    have hi : i < vs.length := by simpa [unpackNat] using h1
    rw [bitField_packNat w vs i hi]
    exact Nat.mod_eq_of_lt (h _ (List.getElem_mem hi))

/-- Bit-packing round trip at byte level: `packLE` emits `⌈n·w/8⌉` bytes which decode back. -/
theorem unpackLE_packLE (w : Nat) (vs : List Nat) (h : ∀ v ∈ vs, v < 2 ^ w) :
    unpackLE w vs.length (packLE w vs) = vs := by
  unfold unpackLE packLE
  rw [leNat_leBytes]
  have hlt := packNat_lt w vs
  have : packNat w vs < 256 ^ ((vs.length * w + 7) / 8) := by
    have e : (256 : Nat) = 2 ^ 8 := by norm_num
    rw [e, ← Nat.pow_mul]
    exact Nat.lt_of_lt_of_le hlt (Nat.pow_le_pow_right (by norm_num) (by omega))
  rw [Nat.mod_eq_of_lt this]
  exact unpackNat_packNat w vs h

theorem packLE_length (w : Nat) (vs : List Nat) : (packLE w vs).length = (vs.length * w + 7) / 8 := by
  simp [packLE, leBytes_length]

/-- Trailing bytes do not disturb the first `n` values (a decoder may be handed a longer buffer). -/
theorem leNat_append (a b : List Nat) : leNat (a ++ b) = leNat a + 256 ^ a.length * leNat b := by
  induction a with
  | nil => simp [leNat]
  | cons x xs ih => simp only [List.cons_append, leNat, ih, List.length_cons, Nat.pow_succ]; ring

end PqV.Spec
