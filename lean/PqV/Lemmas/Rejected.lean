/-
  Lemmas.Rejected — a multi-file append that fails anywhere in its data phase is invisible to everything that follows:
  it only creates or tears part files whose numbers no row group of `_metadata` carries, and the next operation, planned
  from the unchanged `_metadata`, re-creates ('wb') every file it is going to reference.
-/
import PqV.Lemmas.Dataset
namespace PqV.Impl.Dataset

/-- two filesystems a reader cannot tell apart: the same `_metadata`, and the same content in every file it references -/
def Agree (fs fs' : FS) : Prop :=
  fs.get .pmeta = fs'.get .pmeta ∧
  ∀ refs, fs.get .pmeta = some (.refs refs) → ∀ r ∈ refs, fs.get (.part r.dir r.id) = fs'.get (.part r.dir r.id)

theorem Agree.refl (fs : FS) : Agree fs fs := ⟨rfl, fun _ _ _ _ => rfl⟩

theorem readDS_agree (fs fs' : FS) (h : Agree fs fs') : readDS fs = readDS fs' := by
  unfold readDS
  rw [← h.1]
  cases hm : fs.get .pmeta with
  | none => rfl
  | some c =>
    cases c with
    | refs rgs => exact readRefs_congr fs' fs rgs (fun r hr => h.2 rgs hm r hr)
    | data _ => rfl
    | torn => rfl

theorem applyOp_get_congr (fs fs' : FS) (op : FsOp) (q : Path) (h : fs.get q = fs'.get q) :
    (applyOp fs op).get q = (applyOp fs' op).get q := by
  cases op with
  | mkdir d => exact h
  | close p => exact h
  | openW p =>
    by_cases e : q = p
    · subst e; simp [applyOp, get_put_eq]
    · simp only [applyOp]; rw [get_put_ne fs p q _ e, get_put_ne fs' p q _ e]; exact h
  | write p c =>
    by_cases e : q = p
    · subst e; simp [applyOp, get_put_eq]
    · simp only [applyOp]; rw [get_put_ne fs p q _ e, get_put_ne fs' p q _ e]; exact h

theorem runOps_get_congr (ops : List FsOp) (q : Path) : ∀ (fs fs' : FS), fs.get q = fs'.get q →
    (runOps fs ops).get q = (runOps fs' ops).get q := by
  induction ops with
  | nil => intro fs fs' h; exact h
  | cons op rest ih =>
    intro fs fs' h
    simp only [runOps, List.foldl_cons]
    exact ih (applyOp fs op) (applyOp fs' op) (applyOp_get_congr fs fs' op q h)

theorem applyOp_get_target (fs fs' : FS) (op : FsOp) (q : Path) (h : target op = some q) :
    (applyOp fs op).get q = (applyOp fs' op).get q := by
  cases op with
  | mkdir d => simp [target] at h
  | close p => simp [target] at h
  | openW p => simp only [target, Option.some.injEq] at h; subst h; simp [applyOp, get_put_eq]
  | write p c => simp only [target, Option.some.injEq] at h; subst h; simp [applyOp, get_put_eq]

/-- a path some operation of the list creates / writes ends up with the same content whatever was there before -/
theorem runOps_get_written (ops : List FsOp) (q : Path) (hw : ∃ op ∈ ops, target op = some q) :
    ∀ (fs fs' : FS), (runOps fs ops).get q = (runOps fs' ops).get q := by
  induction ops with
  | nil => obtain ⟨op, hop, _⟩ := hw; cases hop
  | cons op rest ih =>
    intro fs fs'
    simp only [runOps, List.foldl_cons]
    by_cases hr : ∃ o ∈ rest, target o = some q
    · exact ih hr (applyOp fs op) (applyOp fs' op)
    · obtain ⟨o, ho, hto⟩ := hw
      rcases List.mem_cons.mp ho with rfl | ho'
      · exact runOps_get_congr rest q _ _ (applyOp_get_target fs fs' o q hto)
      · exact absurd ⟨o, ho', hto⟩ hr

/-- every part file the new references name is written by the data phase -/
theorem newRefs_written (partitioned : Bool) (offset : Nat) (nd : NewData) : ∀ (i : Nat),
    ∀ r ∈ newRefs offset i nd, ∃ op ∈ dataOps partitioned offset i nd, target op = some (.part r.dir r.id) := by
  induction nd with
  | nil => intro i r hr; simp [newRefs] at hr
  | cons pieces rest ih =>
    intro i r hr
    simp only [newRefs, List.mem_append, List.mem_map] at hr
    rcases hr with ⟨⟨d, rows⟩, hmem, rfl⟩ | hr
    · refine ⟨.write (.part d (i + offset)) (.data rows), ?_, rfl⟩
      simp only [dataOps, List.mem_append, List.mem_flatMap]
      exact Or.inl ⟨(d, rows), hmem, by simp [partOps]⟩
    · obtain ⟨op, hop, ht⟩ := ih (i + 1) r hr
      exact ⟨op, by simp only [dataOps, List.mem_append]; exact Or.inr hop, ht⟩

theorem metaOps_pmeta (fs : FS) (refs : List RgRef) : (runOps fs (metaOps refs)).get .pmeta = some (.refs refs) := by
  simp only [metaOps, runOps, List.foldl_cons, List.foldl_nil, applyOp]
  rw [get_put_ne _ .cmeta .pmeta _ (by decide), get_put_ne _ .cmeta .pmeta _ (by decide), get_put_eq]

theorem metaOps_part (fs : FS) (refs : List RgRef) (d : String) (i : Nat) :
    (runOps fs (metaOps refs)).get (.part d i) = fs.get (.part d i) :=
  runOps_get fs _ _ (by intro op hop; simp only [metaOps, List.mem_cons, List.mem_nil_iff, or_false] at hop
                        rcases hop with rfl | rfl | rfl | rfl | rfl | rfl <;> simp [target])

theorem appendOps_pmeta (partitioned : Bool) (fs : FS) (old : List RgRef) (nd : NewData) :
    (runOps fs (appendOps partitioned old nd)).get .pmeta = some (.refs (old ++ newRefs (maxPart old) 0 nd)) := by
  unfold appendOps runOps
  rw [List.foldl_append]
  exact metaOps_pmeta _ _

/-- **a completed append keeps two indistinguishable filesystems indistinguishable** -/
theorem append_agree (partitioned : Bool) (fs fs' : FS) (old : List RgRef) (nd : NewData) (h : Agree fs fs')
    (hm : fs.get .pmeta = some (.refs old)) :
    Agree (runOps fs (appendOps partitioned old nd)) (runOps fs' (appendOps partitioned old nd)) := by
  refine ⟨by rw [appendOps_pmeta, appendOps_pmeta], ?_⟩
  intro refs hrefs r hr
  rw [appendOps_pmeta] at hrefs
  simp only [Option.some.injEq, Content.refs.injEq] at hrefs
  subst hrefs
  rcases List.mem_append.mp hr with hold | hnew
  · -- an old row group: its file is not touched by the append, and the two agreed on it
    have hnt : ∀ op ∈ appendOps partitioned old nd, target op ≠ some (.part r.dir r.id) := by
      intro op hop heq
      simp only [appendOps, List.mem_append] at hop
      rcases hop with hop | hop
      · obtain ⟨d, id, hp, hge⟩ := dataOps_targets partitioned (maxPart old) nd 0 op hop _ heq
        have := lt_maxPart old r hold
        injection hp with h1 h2
        omega
      · simp only [metaOps, List.mem_cons, List.mem_nil_iff, or_false] at hop
        rcases hop with rfl | rfl | rfl | rfl | rfl | rfl <;> simp [target] at heq
    rw [runOps_get fs _ _ hnt, runOps_get fs' _ _ hnt]
    exact h.2 old hm r hold
  · -- a new row group: its file is written by this very append
    obtain ⟨op, hop, ht⟩ := newRefs_written partitioned (maxPart old) nd 0 r hnew
    exact runOps_get_written _ _ ⟨op, by simp only [appendOps, List.mem_append]; exact Or.inl hop, ht⟩ fs fs'

/-- **an append that fails anywhere in its data phase leaves an indistinguishable filesystem** -/
theorem failed_agree (partitioned : Bool) (fs fs' : FS) (old : List RgRef) (nd : NewData) (k : Nat) (h : Agree fs fs')
    (hm : fs.get .pmeta = some (.refs old)) :
    Agree (runOps fs ((dataOps partitioned (maxPart old) 0 nd).take k)) fs' := by
  have hsub : ∀ op ∈ (dataOps partitioned (maxPart old) 0 nd).take k, op ∈ dataOps partitioned (maxPart old) 0 nd :=
    fun op ho => List.mem_of_mem_take ho
  have hpm : (runOps fs ((dataOps partitioned (maxPart old) 0 nd).take k)).get .pmeta = fs.get .pmeta := by
    apply runOps_get
    intro op hop heq
    obtain ⟨d, id, hp, _⟩ := dataOps_targets partitioned (maxPart old) nd 0 op (hsub op hop) _ heq
    cases hp
  refine ⟨by rw [hpm]; exact h.1, ?_⟩
  intro refs hrefs r hr
  rw [hpm, hm] at hrefs
  simp only [Option.some.injEq, Content.refs.injEq] at hrefs
  subst hrefs
  have hnt : ∀ op ∈ (dataOps partitioned (maxPart old) 0 nd).take k, target op ≠ some (.part r.dir r.id) := by
    intro op hop heq
    obtain ⟨d, id, hp, hge⟩ := dataOps_targets partitioned (maxPart old) nd 0 op (hsub op hop) _ heq
    have := lt_maxPart old r hr
    injection hp with h1 h2
    omega
  rw [runOps_get fs _ _ hnt]
  exact h.2 old hm r hr

/-- one attempted append: planned from the `_metadata` it finds; completes, or fails after `k` data operations -/
structure Attempt where
  nd : NewData
  fail : Option Nat
  deriving Repr

def attempt (partitioned : Bool) (fs : FS) (a : Attempt) : FS :=
  match fs.get .pmeta with
  | some (.refs old) =>
    match a.fail with
    | none => runOps fs (appendOps partitioned old a.nd)
    | some k => runOps fs ((dataOps partitioned (maxPart old) 0 a.nd).take k)
  | _ => fs

theorem attempts_agree (partitioned : Bool) (as : List Attempt) : ∀ (fs fs' : FS), Agree fs fs' →
    Agree (as.foldl (attempt partitioned) fs) ((as.filter (·.fail.isNone)).foldl (attempt partitioned) fs') := by
  induction as with
  | nil => intro fs fs' h; exact h
  | cons a rest ih =>
    intro fs fs' h
    simp only [List.foldl_cons, List.filter_cons]
    cases hm : fs.get .pmeta with
    | none =>
      have hm' : fs'.get .pmeta = none := by rw [← h.1]; exact hm
      have e1 : attempt partitioned fs a = fs := by simp [attempt, hm]
      have e2 : attempt partitioned fs' a = fs' := by simp [attempt, hm']
      rw [e1]
      split
      · rw [List.foldl_cons, e2]; exact ih fs fs' h
      · exact ih fs fs' h
    | some c =>
      have hm' : fs'.get .pmeta = some c := by rw [← h.1]; exact hm
      cases c with
      | data rows =>
        have e1 : attempt partitioned fs a = fs := by simp [attempt, hm]
        have e2 : attempt partitioned fs' a = fs' := by simp [attempt, hm']
        rw [e1]
        split
        · rw [List.foldl_cons, e2]; exact ih fs fs' h
        · exact ih fs fs' h
      | torn =>
        have e1 : attempt partitioned fs a = fs := by simp [attempt, hm]
        have e2 : attempt partitioned fs' a = fs' := by simp [attempt, hm']
        rw [e1]
        split
        · rw [List.foldl_cons, e2]; exact ih fs fs' h
        · exact ih fs fs' h
      | refs old =>
        cases hf : a.fail with
        | none =>
          have e1 : attempt partitioned fs a = runOps fs (appendOps partitioned old a.nd) := by simp [attempt, hm, hf]
          have e2 : attempt partitioned fs' a = runOps fs' (appendOps partitioned old a.nd) := by simp [attempt, hm', hf]
          simp only [Option.isNone_none, if_true, List.foldl_cons, e1, e2]
          exact ih _ _ (append_agree partitioned fs fs' old a.nd h hm)
        | some k =>
          have e1 : attempt partitioned fs a = runOps fs ((dataOps partitioned (maxPart old) 0 a.nd).take k) := by
            simp [attempt, hm, hf]
          simp only [Option.isNone_some, Bool.false_eq_true, if_false, e1]
          exact ih _ _ (failed_agree partitioned fs fs' old a.nd k h hm)

end PqV.Impl.Dataset
