import PqV.Lemmas.Dataset
namespace PqV.Impl.Dataset

theorem runOps_append (fs : FS) (a b : List FsOp) : runOps fs (a ++ b) = runOps (runOps fs a) b := by
  simp [runOps, List.foldl_append]

theorem readRefs_append (fs : FS) (a b : List RgRef) (ra rb : List Nat)
    (ha : readRefs fs a = some ra) (hb : readRefs fs b = some rb) : readRefs fs (a ++ b) = some (ra ++ rb) := by
  induction a generalizing ra with
  | nil => simp [readRefs] at ha; subst ha; simpa using hb
  | cons r rs ih =>
    simp only [readRefs] at ha
    cases hg : fs.get (.part r.dir r.id) with
    | none => simp [hg] at ha
    | some c =>
      cases c with
      | refs x => simp [hg] at ha
      | torn => simp [hg] at ha
      | data rows =>
        cases hr : readRefs fs rs with
        | none => simp [hg, hr] at ha
        | some rest =>
          simp only [hg, hr] at ha
          by_cases he : rows = r.rows
          · simp only [he, if_true, Option.some.injEq] at ha
            subst ha
            have := ih rest hr
            simp only [List.cons_append, readRefs, hg, this, he, if_true, List.append_assoc]
          · simp [he] at ha

/-- well-formed new data: within one incoming row group every piece goes to its own directory -/
def NdOk (nd : NewData) : Prop := ∀ pieces ∈ nd, (pieces.map (·.1)).Nodup

def rowsOf (refs : List RgRef) : List Nat := refs.flatMap (·.rows)

theorem partOps_targets (partitioned : Bool) (d : String) (id : Nat) (rows : List Nat) :
    ∀ op ∈ partOps partitioned d id rows, ∀ p, target op = some p → p = .part d id := by
  intro op hop p hp
  simp only [partOps, List.mem_append] at hop
  rcases hop with hop | hop
  · split at hop
    · simp at hop; subst hop; simp [target] at hp
    · simp at hop
  · simp only [List.mem_cons, List.mem_nil_iff, or_false] at hop
    rcases hop with rfl | rfl | rfl <;> simp [target] at hp <;> exact hp.symm

theorem partOps_get (fs : FS) (partitioned : Bool) (d : String) (id : Nat) (rows : List Nat) :
    (runOps fs (partOps partitioned d id rows)).get (.part d id) = some (.data rows) := by
  cases partitioned <;> simp [partOps, runOps, applyOp, get_put_eq]

/-- the pieces of one incoming row group: afterwards every piece's file holds its rows -/
theorem pieces_get (partitioned : Bool) (id : Nat) : ∀ (pieces : List (String × List Nat)) (fs : FS),
    (pieces.map (·.1)).Nodup → ∀ pr ∈ pieces,
      (runOps fs (pieces.flatMap fun (d, rows) => partOps partitioned d id rows)).get (.part pr.1 id) = some (.data pr.2) := by
  intro pieces
  induction pieces with
  | nil => intro fs _ pr h; cases h
  | cons p ps ih =>
    intro fs hnd pr hpr
    obtain ⟨d, rows⟩ := p
    simp only [List.map_cons, List.nodup_cons] at hnd
    simp only [List.flatMap_cons, runOps_append]
    rcases List.mem_cons.mp hpr with rfl | hin
    · -- this piece: later pieces go elsewhere
      rw [runOps_get]
      · exact partOps_get fs partitioned d id rows
      · intro op hop heq
        simp only [List.mem_flatMap] at hop
        obtain ⟨⟨d2, rows2⟩, hmem, hop⟩ := hop
        have := partOps_targets partitioned d2 id rows2 op hop _ heq
        injection this with h1 _
        have h1' : d = d2 := h1
        subst h1'
        exact hnd.1 (List.mem_map.mpr ⟨(d, rows2), hmem, rfl⟩)
    · exact ih _ hnd.2 pr hin

theorem dataOps_ids (partitioned : Bool) (offset : Nat) (nd : NewData) (i : Nat) :
    ∀ op ∈ dataOps partitioned offset i nd, ∀ d id, target op = some (.part d id) → i + offset ≤ id := by
  induction nd generalizing i with
  | nil => simp [dataOps]
  | cons pieces rest ih =>
    intro op hop d id hp
    simp only [dataOps, List.mem_append, List.mem_flatMap] at hop
    rcases hop with ⟨⟨d2, rows⟩, _, hop⟩ | hop
    · have := partOps_targets partitioned d2 (i + offset) rows op hop _ hp
      injection this with _ h2
      omega
    · have := ih (i + 1) op hop d id hp
      omega

theorem dataOps_newRefs (partitioned : Bool) (offset : Nat) : ∀ (nd : NewData) (i : Nat) (fs : FS), NdOk nd →
    readRefs (runOps fs (dataOps partitioned offset i nd)) (newRefs offset i nd) = some (rowsOf (newRefs offset i nd)) := by
  intro nd
  induction nd with
  | nil => intro i fs _; simp [dataOps, newRefs, readRefs, rowsOf, runOps]
  | cons pieces rest ih =>
    intro i fs hok
    have hnd := hok pieces (List.mem_cons_self)
    have hok' : NdOk rest := fun p hp => hok p (List.mem_cons_of_mem _ hp)
    simp only [dataOps, newRefs, runOps_append]
    set fs1 := runOps fs (pieces.flatMap fun (d, rows) => partOps partitioned d (i + offset) rows) with hfs1
    have hrest := ih (i + 1) fs1 hok'
    -- the refs of this row group's pieces, read after ALL data operations
    have hthis : readRefs (runOps fs1 (dataOps partitioned offset (i + 1) rest))
        (pieces.map fun (d, rows) => ({ dir := d, id := i + offset, rows } : RgRef))
        = some (rowsOf (pieces.map fun (d, rows) => ({ dir := d, id := i + offset, rows } : RgRef))) := by
      have key : ∀ (sub : List (String × List Nat)), (∀ pr ∈ sub, pr ∈ pieces) →
          readRefs (runOps fs1 (dataOps partitioned offset (i + 1) rest))
            (sub.map fun (d, rows) => ({ dir := d, id := i + offset, rows } : RgRef))
            = some (rowsOf (sub.map fun (d, rows) => ({ dir := d, id := i + offset, rows } : RgRef))) := by
        intro sub
        induction sub with
        | nil => intro _; simp [readRefs, rowsOf]
        | cons pr ps ihs =>
          intro hsub
          obtain ⟨d, rows⟩ := pr
          have hget : (runOps fs1 (dataOps partitioned offset (i + 1) rest)).get (.part d (i + offset)) = some (.data rows) := by
            rw [runOps_get]
            · exact pieces_get partitioned (i + offset) pieces fs hnd (d, rows) (hsub _ (List.mem_cons_self))
            · intro op hop heq
              have := dataOps_ids partitioned offset rest (i + 1) op hop _ _ heq
              omega
          have := ihs (fun x hx => hsub x (List.mem_cons_of_mem _ hx))
          simp only [List.map_cons, readRefs, hget, this, if_true, rowsOf, List.flatMap_cons]
      exact key pieces (fun _ h => h)
    have := readRefs_append _ _ _ _ _ hthis hrest
    simp only [rowsOf, List.flatMap_append] at this ⊢
    exact this


theorem metaOps_pmeta (fs : FS) (refs : List RgRef) : (runOps fs (metaOps refs)).get .pmeta = some (.refs refs) := by
  simp only [metaOps, runOps, List.foldl_cons, List.foldl_nil, applyOp]
  rw [get_put_ne _ _ _ _ (by decide), get_put_ne _ _ _ _ (by decide), get_put_eq]

theorem metaOps_parts (fs : FS) (refs : List RgRef) (d : String) (id : Nat) :
    (runOps fs (metaOps refs)).get (.part d id) = fs.get (.part d id) := by
  apply runOps_get
  intro op hop heq
  simp only [metaOps, List.mem_cons, List.mem_nil_iff, or_false] at hop
  rcases hop with rfl | rfl | rfl | rfl | rfl | rfl <;> simp [target] at heq

/-- **a completed append**: after ALL operations a fresh open reads the previous rows followed by the
    new rows, in order -/
theorem append_complete (partitioned : Bool) (fs : FS) (old : List RgRef) (nd : NewData) (oldRows : List Nat)
    (hold : readRefs fs old = some oldRows) (hok : NdOk nd) :
    readDS (runOps fs (appendOps partitioned old nd)) = some (oldRows ++ rowsOf (newRefs (maxPart old) 0 nd)) := by
  unfold appendOps readDS
  rw [runOps_append, metaOps_pmeta]
  simp only
  set fs1 := runOps fs (dataOps partitioned (maxPart old) 0 nd) with hfs1
  have hold1 : readRefs fs1 old = some oldRows := by
    rw [← hold]
    apply readRefs_congr
    intro r hr
    apply runOps_get
    intro op hop heq
    have := dataOps_ids partitioned (maxPart old) nd 0 op hop _ _ heq
    have := lt_maxPart old r hr
    omega
  have hnew1 := dataOps_newRefs partitioned (maxPart old) nd 0 fs hok
  have h1 := readRefs_append fs1 _ _ _ _ hold1 hnew1
  rw [← h1]
  apply readRefs_congr
  intro r _
  exact metaOps_parts fs1 _ r.dir r.id

end PqV.Impl.Dataset
