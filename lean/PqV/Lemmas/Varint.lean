import PqV.Spec.Varint
import Mathlib.Tactic.Ring
/-! Lemmas about `Spec.Varint` (round trips, byte range, length bounds). -/
namespace PqV.Spec

theorem uvarintEnc_bytes (x : Nat) : ∀ b ∈ uvarintEnc x, b < 256 := by
  induction x using Nat.strongRecOn with
  | _ x ih =>
    intro b hb
    unfold uvarintEnc at hb
    split at hb
    · simp at hb; omega
    · simp at hb
      rcases hb with hb | hb
      · omega
      · exact ih (x / 128) (by omega) b hb

theorem uvarintDecAux_enc (x : Nat) (rest : List Nat) (shift acc : Nat) :
    uvarintDecAux (uvarintEnc x ++ rest) shift acc = some (acc + x * 2 ^ shift, rest) := by
  induction x using Nat.strongRecOn generalizing shift acc with
  | _ x ih =>
    unfold uvarintEnc
    split
    · rename_i h
      simp [uvarintDecAux, h]
    · rename_i h
      have h1 : ¬ (x % 128 + 128 < 128) := by omega
      simp only [List.cons_append, uvarintDecAux, h1, if_false]
      rw [ih (x / 128) (by omega)]
      have : (x % 128 + 128) % 128 = x % 128 := by omega
      rw [this]
      congr 2
      rw [Nat.pow_add]
      have hx : x = 128 * (x / 128) + x % 128 := (Nat.div_add_mod x 128).symm
      generalize x / 128 = q at *
      generalize x % 128 = r at *
      subst hx
      have : (2:Nat) ^ 7 = 128 := by decide
      rw [this]
      ring

/-- Round trip, with arbitrary trailing bytes. -/
theorem uvarint_rt (x : Nat) (rest : List Nat) :
    uvarintDec (uvarintEnc x ++ rest) = some (x, rest) := by
  simp [uvarintDec, uvarintDecAux_enc]

theorem uvarintEnc_length_pos (x : Nat) : 0 < (uvarintEnc x).length := by
  unfold uvarintEnc; split <;> simp

/-- length bound: a value below `2^(7k)` takes at most `k` bytes (k ≥ 1). -/
theorem uvarintLen_le (k : Nat) (hk : 1 ≤ k) (x : Nat) (hx : x < 2 ^ (7 * k)) :
    uvarintLen x ≤ k := by
  induction k generalizing x with
  | zero => omega
  | succ k ih =>
    unfold uvarintLen uvarintEnc
    split
    · simp
    · rename_i h
      simp only [List.length_cons]
      by_cases hk0 : k = 0
      · subst hk0; simp at hx; omega
      · have : x / 128 < 2 ^ (7 * k) := by
          have e : 2 ^ (7 * (k + 1)) = 2 ^ (7 * k) * 128 := by
            rw [show 7 * (k + 1) = 7 * k + 7 by omega, Nat.pow_add]
          rw [e] at hx
          exact Nat.div_lt_of_lt_mul (by rwa [Nat.mul_comm] at hx)
        have := ih (by omega) (x / 128) this
        unfold uvarintLen at this
        omega

theorem zigzag_rt (n : Int) : zigzagDec (zigzagEnc n) = n := by
  unfold zigzagDec zigzagEnc
  split <;> split <;> omega

theorem zigzag_rt' (u : Nat) : zigzagEnc (zigzagDec u) = u := by
  unfold zigzagDec zigzagEnc
  split <;> split <;> omega

end PqV.Spec
