/-
  Lemmas.KEncode — the writer-side kernel `encode_bitpacked` (cencoding.pyx 293-310) refines the specification's
  bit packing: loop invariant over the `int32` accumulator (`bit` pending bits, `bits` their pattern, bytes drained so
  far), lifted to the byte level with `leBytes`.
-/
import PqV.Impl.Kernels
import PqV.Lemmas.Bits
import PqV.Lemmas.KVarint
import PqV.Lemmas.KDeltaLoop
import PqV.Lemmas.Hybrid
import PqV.Lemmas.Varint
import PqV.Lemmas.KBitpacked
namespace PqV.Impl
open PqV.Spec

theorem leBytes_congr : ∀ (k a b : Nat), a % 256 ^ k = b % 256 ^ k → leBytes k a = leBytes k b := by
  intro k
  induction k with
  | zero => intros; rfl
  | succ k ih =>
    intro a b h
    have h1 : a % 256 = b % 256 := by
      have := congrArg (· % 256) h
      simp only [Nat.pow_succ, Nat.mod_mul_left_mod] at this
      exact this
    have h2 : (a / 256) % 256 ^ k = (b / 256) % 256 ^ k := by
      have e : ∀ x, (x / 256) % 256 ^ k = x % 256 ^ (k + 1) / 256 := by
        intro x
        rw [Nat.pow_succ, Nat.mul_comm, Nat.mod_mul_right_div_self]
      rw [e, e, h]
    simp only [leBytes, h1, ih _ _ h2]

theorem leBytes_add : ∀ (k m n : Nat), leBytes (k + m) n = leBytes k n ++ leBytes m (n / 256 ^ k) := by
  intro k
  induction k with
  | zero => intro m n; simp [leBytes]
  | succ k ih =>
    intro m n
    have : k + 1 + m = (k + m) + 1 := by omega
    rw [this]
    simp only [leBytes, ih, List.cons_append]
    congr 2
    rw [Nat.div_div_eq_div_mul, Nat.pow_succ, Nat.mul_comm]

theorem drain_eq : ∀ (f b bits : Nat) (acc : List Nat), b / 8 ≤ f → bits < 2 ^ 31 →
    encBpLoop.drain f (b : Int) bits acc = (((b % 8 : Nat) : Int), bits / 256 ^ (b / 8), acc ++ leBytes (b / 8) bits) := by
  intro f
  induction f with
  | zero =>
    intro b bits acc hf _
    have : b / 8 = 0 := by omega
    have hb : b % 8 = b := by omega
    simp [encBpLoop.drain, this, hb, leBytes]
  | succ f ih =>
    intro b bits acc hf hbits
    unfold encBpLoop.drain
    by_cases h8 : 8 ≤ b
    · have hge : (b : Int) ≥ 8 := by omega
      rw [if_pos hge]
      have e1 : wrapS 32 (bits : Int) = (bits : Int) := wrapS_small 32 bits (by omega) (by simpa using hbits)
      have e2 : (bits : Int) / 256 = ((bits / 256 : Nat) : Int) := by norm_cast
      have e3 : wrapU 32 (((bits / 256 : Nat)) : Int) = bits / 256 := wrapU_small 32 _ (by omega)
      rw [e1, e2, e3]
      have e4 : (b : Int) - 8 = ((b - 8 : Nat) : Int) := by omega
      rw [e4, ih (b - 8) (bits / 256) _ (by omega) (by omega)]
      have q : b / 8 = (b - 8) / 8 + 1 := by omega
      have r : b % 8 = (b - 8) % 8 := by omega
      rw [q, r]
      refine Prod.ext rfl (Prod.ext ?_ ?_)
      · simp only [Nat.pow_succ, Nat.div_div_eq_div_mul]; rw [Nat.mul_comm]
      · simp only [leBytes, List.append_assoc, List.singleton_append]
    · have hlt : ¬ ((b : Int) ≥ 8) := by omega
      rw [if_neg hlt]
      have : b / 8 = 0 := by omega
      have hb : b % 8 = b := by omega
      simp [this, hb, leBytes]

theorem or_shift_add (bits v b : Nat) (h : bits < 2 ^ b) : bits ||| (v <<< b) = bits + v * 2 ^ b := by
  rw [Nat.or_comm, ← Nat.shiftLeft_add_eq_or_of_lt h, Nat.shiftLeft_eq, Nat.add_comm]

theorem encBpLoop_eq (w : Nat) (hw : w ≤ 24) : ∀ (vs : List Nat) (b bits : Nat) (acc : List Nat), b < 8 → bits < 2 ^ b →
    (∀ v ∈ vs, v < 2 ^ w) →
    encBpLoop w vs (b : Int) bits acc =
      .ok (acc ++ leBytes ((b + vs.length * w) / 8) (bits + 2 ^ b * packNat w vs),
           (((b + vs.length * w) % 8 : Nat) : Int),
           (bits + 2 ^ b * packNat w vs) / 256 ^ ((b + vs.length * w) / 8)) := by
  intro vs
  induction vs with
  | nil =>
    intro b bits acc hb _ _
    have h0 : b / 8 = 0 := by omega
    have h1 : b % 8 = b := by omega
    simp [encBpLoop, packNat, h0, h1, leBytes]
  | cons v vs ih =>
    intro b bits acc hb hbits hv
    have hvw : v < 2 ^ w := hv v (by simp)
    have hw24 : 2 ^ w ≤ 2 ^ 24 := Nat.pow_le_pow_right (by omega) hw
    have hb7 : 2 ^ b ≤ 2 ^ 7 := Nat.pow_le_pow_right (by omega) (by omega)
    unfold encBpLoop
    have hc : ¬ ((b : Int) ≥ 32 ∨ (b : Int) < 0) := by omega
    rw [if_neg hc]
    have hv32 : v % 2 ^ 32 = v := Nat.mod_eq_of_lt (by omega)
    have hbits1 : bits + v * 2 ^ b < 2 ^ (b + w) := by
      rw [Nat.pow_add]
      calc bits + v * 2 ^ b < 2 ^ b + v * 2 ^ b := by omega
        _ = (v + 1) * 2 ^ b := by ring
        _ ≤ 2 ^ w * 2 ^ b := Nat.mul_le_mul_right _ (by omega)
        _ = 2 ^ b * 2 ^ w := Nat.mul_comm _ _
    have hbw31 : 2 ^ (b + w) ≤ 2 ^ 31 := Nat.pow_le_pow_right (by omega) (by omega)
    have e0 : (bits ||| ((v % 2 ^ 32) <<< (b : Int).toNat)) % 2 ^ 32 = bits + v * 2 ^ b := by
      rw [hv32, Int.toNat_natCast, or_shift_add _ _ _ hbits]
      exact Nat.mod_eq_of_lt (by omega)
    simp only [e0]
    have e1 : (b : Int) + (w : Int) = ((b + w : Nat) : Int) := by norm_cast
    rw [e1, drain_eq 8 (b + w) _ acc (by omega) (by omega)]
    simp only []
    rw [ih ((b + w) % 8) _ _ (by omega) ?_ (fun x hx => hv x (by simp [hx]))]
    · have hk : b + w = 8 * ((b + w) / 8) + (b + w) % 8 := by omega
      generalize hkd : (b + w) / 8 = k at *
      generalize hrd : (b + w) % 8 = r at *
      have hp : 2 ^ b * 2 ^ w = 256 ^ k * 2 ^ r := by
        rw [← Nat.pow_add, hk, Nat.pow_add, Nat.pow_mul]
      have hT : bits + 2 ^ b * packNat w (v :: vs) = (bits + v * 2 ^ b) + 256 ^ k * (2 ^ r * packNat w vs) := by
        simp only [packNat, Nat.mod_eq_of_lt hvw]
        rw [Nat.mul_add, ← Nat.mul_assoc, hp]; ring
      have hpos : 0 < 256 ^ k := Nat.pow_pos (by omega)
      have hdiv : (bits + 2 ^ b * packNat w (v :: vs)) / 256 ^ k = (bits + v * 2 ^ b) / 256 ^ k + 2 ^ r * packNat w vs := by
        rw [hT, Nat.add_mul_div_left _ _ hpos]
      have hmod : leBytes k (bits + 2 ^ b * packNat w (v :: vs)) = leBytes k (bits + v * 2 ^ b) :=
        leBytes_congr _ _ _ (by rw [hT, Nat.add_mul_mod_self_left])
      have hlen : b + (v :: vs).length * w = 8 * k + (r + vs.length * w) := by
        simp only [List.length_cons, Nat.add_mul, Nat.one_mul]; omega
      have hq : (b + (v :: vs).length * w) / 8 = k + (r + vs.length * w) / 8 := by omega
      have hr' : (b + (v :: vs).length * w) % 8 = (r + vs.length * w) % 8 := by omega
      rw [hq, hr', leBytes_add, hmod, hdiv, Nat.pow_add, ← Nat.div_div_eq_div_mul, hdiv, List.append_assoc]
    · have hk : b + w = 8 * ((b + w) / 8) + (b + w) % 8 := by omega
      generalize hkd : (b + w) / 8 = k at *
      generalize hrd : (b + w) % 8 = r at *
      have hpos : 0 < 256 ^ k := Nat.pow_pos (by omega)
      rw [Nat.div_lt_iff_lt_mul hpos]
      calc bits + v * 2 ^ b < 2 ^ (b + w) := hbits1
        _ = 2 ^ r * 256 ^ k := by rw [hk, Nat.pow_add, Nat.pow_mul, Nat.mul_comm]

/-- `encode_bitpacked` (cencoding.pyx 293-310) on its bounded domain: widths 0..24 (the `int32` accumulator holds at most
    7 pending bits plus one value), values that fit the width, fewer than 2^31 of them.  The output is the run header
    announcing `⌈n/8⌉` groups followed by exactly the specification's LSB-first packing `packLE` — `⌈n·w/8⌉` bytes, the
    last group NOT padded to a whole group. -/
theorem encodeBitpacked_eq (w : Nat) (hw : w ≤ 24) (vals : List Nat) (hv : ∀ v ∈ vals, v < 2 ^ w) (hn : vals.length < 2 ^ 31) :
    encodeBitpacked vals w = .ok (uvarintEnc ((vals.length + 7) / 8 * 2 + 1) ++ packLE w vals) := by
  unfold encodeBitpacked
  have h := encBpLoop_eq w hw vals 0 0 [] (by omega) (by simp) hv
  simp only [Nat.cast_zero] at h
  have h' : encBpLoop w vals 0 0 [] = _ := h
  simp only [bind, Except.bind, h']
  rw [encodeUvarint_eq _ (by omega)]
  simp only [Nat.zero_add, Nat.pow_zero, Nat.one_mul, List.nil_append, List.append_assoc]
  congr 2
  unfold packLE
  generalize packNat w vals = T
  generalize vals.length * w = L
  by_cases h0 : L % 8 = 0
  · have : (L + 7) / 8 = L / 8 := by omega
    simp [h0, this]
  · have : (L + 7) / 8 = L / 8 + 1 := by omega
    have hne : ((L % 8 : Nat) : Int) ≠ 0 := by omega
    rw [this, leBytes_add, if_pos hne]
    simp [leBytes]

theorem unpackLE_packLE_append (w : Nat) (vs tail : List Nat) (h : ∀ v ∈ vs, v < 2 ^ w) :
    unpackLE w vs.length (packLE w vs ++ tail) = vs := by
  conv => rhs; rw [← unpackLE_packLE w vs h]
  unfold unpackLE unpackNat
  apply List.map_congr_left
  intro i hi
  have hi' : i < vs.length := by simpa using hi
  have hl := packLE_length w vs
  rw [bitField_prefix (packLE w vs ++ tail) (packLE w vs).length w i (by simp) ?_]
  · simp
  · rw [hl]
    have : (i + 1) * w ≤ vs.length * w := Nat.mul_le_mul_right _ (by omega)
    omega

/-- what `encode_bitpacked` writes is read back by the specification, whatever bytes follow: the header announces
    `⌈n/8⌉` groups and the first `n` values of the payload are the input (the missing part of a short last group is
    whatever follows — which is why a writer must pad, see C02's framing rule). -/
theorem encodeBitpacked_decodes (w : Nat) (hw : w ≤ 24) (vals tail : List Nat) (hv : ∀ v ∈ vals, v < 2 ^ w) (hn : vals.length < 2 ^ 31) :
    ∃ out payload, encodeBitpacked vals w = .ok out ∧
      uvarintDec (out ++ tail) = some ((vals.length + 7) / 8 * 2 + 1, payload) ∧ unpackLE w vals.length payload = vals := by
  refine ⟨_, packLE w vals ++ tail, encodeBitpacked_eq w hw vals hv hn, ?_, unpackLE_packLE_append w vals tail hv⟩
  rw [List.append_assoc]
  exact uvarint_rt _ _

/-- for whole groups the kernel's output IS the specification's bit-packed run, so the hybrid decoder returns the input -/
theorem encodeBitpacked_whole_groups (w : Nat) (hw : w ≤ 24) (vals tail : List Nat) (hv : ∀ v ∈ vals, v < 2 ^ w) (hn : vals.length < 2 ^ 31)
    (h8 : vals.length % 8 = 0) :
    encodeBitpacked vals w = .ok (encodeRun w (.bp vals)) ∧ decodeHybrid w vals.length (encodeRun w (.bp vals) ++ tail) = vals := by
  constructor
  · rw [encodeBitpacked_eq w hw vals hv hn]
    have : (vals.length + 7) / 8 = vals.length / 8 := by omega
    simp [encodeRun, this]
  · have := decodeHybrid_encodeRuns w vals.length [.bp vals] tail
      (by intro r hr; simp at hr; subst hr; simp [Run.wf, h8]; exact hv) (by simp [Run.values])
    simpa [encodeRuns, Run.values] using this
end PqV.Impl
