import PqV.Lemmas.Filter
/-! Soundness of the regenerated interval tests (`Gen.Filter`), used by Props/C05 and Lemmas/Prune. -/
namespace PqV.Filter
open PqV.Py PqV.Gen.Filter

/-- `filter_in` excludes a row group only if no listed value can occur within the bounds. -/
theorem filter_in_sound (vals : List Int) (vmin vmax : Option Int) (x : Int)
    (h : filter_in vals vmin vmax = .ok true) (hb : inBounds vmin vmax x) : vals.contains x = false := by
  rcases hb with ⟨hmin, hmax⟩
  by_contra hx
  have hx : x ∈ vals := by simpa using hx
  have hne : vals ≠ [] := List.ne_nil_of_mem hx
  have hlen : ¬ ((vals.length : Int) = 0) := by
    have : 0 < vals.length := List.length_pos_of_mem hx
    omega
  cases vmin with
  | none =>
    cases vmax with
    | none => simp [filter_in, pyIf, pyAnd, pyEq, pyIsNone, pyIsNotNone, pyNotIn, pyIn, toPy, hne] at h
    | some M =>
      have hM := hmax M rfl
      simp [filter_in, pyIf, pyAnd, pyEq, pyIsNone, pyIsNotNone, pyNotIn, pyIn, toPy, hne] at h
      -- sorted_values[0] > vmax
      cases hs : pySorted vals with
      | nil =>
        have : x ∈ pySorted vals := (mem_pySorted x vals).mpr hx
        simp [hs] at this
      | cons a t =>
        simp [hs, pyIndex, pyGt, pyCmp] at h
        have := head_le_all vals a t hs x hx
        omega
  | some m =>
    have hm := hmin m rfl
    cases vmax with
    | none =>
      simp [filter_in, pyIf, pyAnd, pyEq, pyIsNone, pyIsNotNone, pyNotIn, pyIn, toPy, hne] at h
      -- sorted_values[-1] < vmin
      have hxs : x ∈ pySorted vals := (mem_pySorted x vals).mpr hx
      have hne' : pySorted vals ≠ [] := List.ne_nil_of_mem hxs
      have hlast := pairwise_le_getLast _ (sorted_pySorted vals) hne' x hxs
      have hpos : 0 < (pySorted vals).length := List.length_pos_of_mem hxs
      simp only [pyIndex] at h
      have e1 : ((-1 : Int) + ((pySorted vals).length : Int)) = (((pySorted vals).length - 1 : Nat) : Int) := by omega
      have hidx : ¬ ((-1 : Int) + ((pySorted vals).length : Int) < 0) := by omega
      simp [hidx, e1] at h
      have hget : (pySorted vals)[(pySorted vals).length - 1]? = some ((pySorted vals).getLast hne') := by
        rw [List.getLast_eq_getElem]; exact List.getElem?_eq_getElem (by omega)
      have hnn : ¬ ((((pySorted vals).length - 1 : Nat) : Int) < 0) := by omega
      simp [hget, pyLt, pyCmp, hnn] at h
      omega
    | some M =>
      have hM := hmax M rfl
      by_cases heq : M = m
      · subst heq
        have hxM : x = M := by omega
        subst hxM
        simp [filter_in, pyIf, pyAnd, pyEq, pyIsNone, pyIsNotNone, pyNotIn, pyIn, toPy, hne, hx,
          searchsortedLeft, searchsortedRight] at h
        have := filter_len_eq_imp (fun y => decide (y < x)) (fun y => decide (y ≤ x)) (pySorted vals)
          (by intro a ha; simp at *; omega) h x ((mem_pySorted x vals).mpr hx) (by simp)
        simp at this
      · have hne2 : ¬ (PyVal.int M = PyVal.int m) := by intro hc; injection hc with hc; exact heq hc
        simp [filter_in, pyIf, pyAnd, pyEq, pyIsNone, pyIsNotNone, pyNotIn, pyIn, toPy, hne, hne2,
          searchsortedLeft, searchsortedRight] at h
        have := filter_len_eq_imp (fun y => decide (y < m)) (fun y => decide (y ≤ M)) (pySorted vals)
          (by intro a ha; simp at *; omega) h x ((mem_pySorted x vals).mpr hx) (by simp; omega)
        simp at this; omega

/-- The interval test of every comparison operator and of `in` is sound for pruning. -/
theorem filter_val_sound (op : String) (val : Int) (vals : List Int) (vmin vmax : Option Int) (x : Int)
    (hop : op ∈ ["==", "=", "!=", "<", "<=", ">", ">=", "in"])
    (h : filter_val op val vals vmin vmax = .ok true) (hb : inBounds vmin vmax x) :
    sat op val vals x = false := by
  simp only [List.mem_cons, List.mem_nil_iff, or_false] at hop
  rcases hop with rfl | rfl | rfl | rfl | rfl | rfl | rfl | rfl
  case' inr.inr.inr.inr.inr.inr.inr =>
    have hin : filter_in vals vmin vmax = .ok true := by
      simpa [filter_val, handle_np_array, pyIf] using h
    simpa [sat] using filter_in_sound vals vmin vmax x hin hb
  all_goals
    rcases hb with ⟨hmin, hmax⟩
    cases vmin <;> cases vmax <;>
      simp [filter_val, handle_np_array, pyIf, pyAnd, pyEq, pyGt, pyGe, pyLt, pyLe, pyCmp,
        pyIsNotNone, toPy, sat] at * <;> omega


end PqV.Filter
