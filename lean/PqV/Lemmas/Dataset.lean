import PqV.Impl.Dataset
import Mathlib.Tactic.Linarith
/-! Lemmas: ordering and freshness of the filesystem operations of a multi-file append. -/
namespace PqV.Impl.Dataset

theorem get_put_ne (fs : FS) (p q : Path) (c : Content) (h : q ≠ p) : (fs.put p c).get q = fs.get q := by
  unfold FS.put FS.get
  have h1 : ((p, c).1 == q) = false := by simpa using fun e => h e.symm
  simp only [List.find?_cons, h1]
  congr 1
  induction fs with
  | nil => rfl
  | cons x xs ih =>
    simp only [List.filter_cons]
    by_cases hx : x.1 = p
    · have : (x.1 != p) = false := by simp [hx]
      have hq : (x.1 == q) = false := by simpa [hx] using fun e => h e.symm
      simp [this, List.find?_cons, hq, ih]
    · have : (x.1 != p) = true := by simpa using hx
      simp only [this, if_true, List.find?_cons]
      split <;> simp_all

theorem get_put_eq (fs : FS) (p : Path) (c : Content) : (fs.put p c).get p = some c := by
  simp [FS.put, FS.get]

/-- the path an operation writes to (creates, truncates or fills) -/
def target : FsOp → Option Path
  | .mkdir _ => none
  | .openW p => some p
  | .write p _ => some p
  | .close _ => none

theorem applyOp_get (fs : FS) (op : FsOp) (q : Path) (h : target op ≠ some q) :
    (applyOp fs op).get q = fs.get q := by
  cases op with
  | mkdir d => rfl
  | close p => rfl
  | openW p => exact get_put_ne fs p q _ (by intro e; apply h; simp [target, e])
  | write p c => exact get_put_ne fs p q _ (by intro e; apply h; simp [target, e])

theorem runOps_get (fs : FS) (ops : List FsOp) (q : Path) (h : ∀ op ∈ ops, target op ≠ some q) :
    (runOps fs ops).get q = fs.get q := by
  induction ops generalizing fs with
  | nil => rfl
  | cons op rest ih =>
    simp only [runOps, List.foldl_cons]
    have := ih (applyOp fs op) (fun o ho => h o (List.mem_cons_of_mem _ ho))
    simp only [runOps] at this
    rw [this]
    exact applyOp_get fs op q (h op (List.mem_cons_self ..))

theorem lt_maxPart (old : List RgRef) (r : RgRef) (h : r ∈ old) : r.id < maxPart old := by
  induction old with
  | nil => cases h
  | cons x xs ih =>
    simp only [maxPart]
    rcases List.mem_cons.mp h with rfl | h
    · omega
    · have := ih h; omega

/-- every path written by the data phase is a part file numbered at or above the offset -/
theorem dataOps_targets (partitioned : Bool) (offset : Nat) (nd : NewData) (i : Nat) :
    ∀ op ∈ dataOps partitioned offset i nd, ∀ p, target op = some p → ∃ d id, p = .part d id ∧ offset ≤ id := by
  induction nd generalizing i with
  | nil => simp [dataOps]
  | cons pieces rest ih =>
    intro op hop p hp
    simp only [dataOps, List.mem_append, List.mem_flatMap] at hop
    rcases hop with ⟨⟨d, rows⟩, _, hop⟩ | hop
    · simp only [partOps, List.mem_append] at hop
      rcases hop with hop | hop
      · split at hop
        · simp at hop; subst hop; simp [target] at hp
        · simp at hop
      · simp only [List.mem_cons, List.mem_nil_iff, or_false] at hop
        rcases hop with rfl | rfl | rfl
        · simp [target] at hp; exact ⟨d, i + offset, hp.symm, by omega⟩
        · simp [target] at hp; exact ⟨d, i + offset, hp.symm, by omega⟩
        · simp [target] at hp
    · exact ih (i + 1) op hop p hp

theorem readRefs_congr (fs fs' : FS) (refs : List RgRef)
    (h : ∀ r ∈ refs, fs'.get (.part r.dir r.id) = fs.get (.part r.dir r.id)) :
    readRefs fs' refs = readRefs fs refs := by
  induction refs with
  | nil => rfl
  | cons r rs ih =>
    simp only [readRefs]
    rw [h r (List.mem_cons_self ..), ih (fun x hx => h x (List.mem_cons_of_mem _ hx))]

end PqV.Impl.Dataset
