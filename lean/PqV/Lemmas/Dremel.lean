import PqV.Spec.Dremel
/-! Record assembly (Spec.Dremel): page-split independence and the shredding round trip. -/
namespace PqV.Spec

theorem assemble_append (o : Nat) (a b : List Entry) :
    assemble o (a ++ b) = b.foldl (pushEntry o) (assemble o a) := by
  simp [assemble, List.foldl_append]

theorem push_cont (o : Nat) (acc : List Row) (es : List Cell) (e : Entry) (hr : e.r ≠ 0) :
    pushEntry o (acc ++ [Row.list es]) e = acc ++ [Row.list (es ++ [e.c])] := by
  simp [pushEntry, hr]

theorem foldl_conts (o maxDef : Nat) (acc : List Row) (cs : List Cell) :
    ∀ es, (cs.map (elemEntry maxDef 1)).foldl (pushEntry o) (acc ++ [Row.list es]) = acc ++ [Row.list (es ++ cs)] := by
  induction cs with
  | nil => intro es; simp
  | cons c cs ih =>
    intro es
    simp only [List.map_cons, List.foldl_cons]
    rw [push_cont o acc es _ (by simp [elemEntry])]
    rw [ih]
    simp [elemEntry]

theorem elemEntry_d_gt (o maxDef : Nat) (c : Cell) (h1 : o < maxDef) (h2 : c = Cell.null → o + 2 ≤ maxDef) (r : Nat) :
    o < (elemEntry maxDef r c).d := by
  unfold elemEntry
  by_cases hc : c = Cell.null
  · simp only [hc, if_true]; have := h2 hc; omega
  · simp only [hc, if_false]; exact h1

/-- one shredded row is assembled back, after whatever rows came before -/
theorem foldl_encodeRow (o maxDef : Nat) (h1 : o < maxDef) (acc : List Row) (row : Row) (hok : row.ok o maxDef = true) :
    (encodeRow o maxDef row).foldl (pushEntry o) acc = acc ++ [row] := by
  cases row with
  | none =>
    have ho : 1 ≤ o := by simpa [Row.ok] using hok
    have : o - 1 < o := by omega
    simp [encodeRow, pushEntry, rowStart, this]
  | list es =>
    cases es with
    | nil => simp [encodeRow, pushEntry, rowStart]
    | cons c cs =>
      have hc : c = Cell.null → o + 2 ≤ maxDef := by
        intro h
        have := hok
        simp only [Row.ok, List.all_cons, Bool.and_eq_true, Bool.or_eq_true, ne_eq, decide_eq_true_eq, decide_not, Bool.not_eq_true'] at this
        rcases this.1 with h' | h'
        · simp [h] at h'
        · exact h'
      have hd := elemEntry_d_gt o maxDef c h1 hc 0
      simp only [encodeRow, List.foldl_cons]
      have hstart : pushEntry o acc (elemEntry maxDef 0 c) = acc ++ [Row.list [c]] := by
        have h1' : ¬ (elemEntry maxDef 0 c).d < o := by omega
        have h2' : ¬ (elemEntry maxDef 0 c).d = o := by omega
        simp only [pushEntry, rowStart, h1', h2', if_false]
        simp [elemEntry]
      rw [hstart, foldl_conts]
      simp

theorem foldl_encodeRows (o maxDef : Nat) (h1 : o < maxDef) (rows : List Row) (hok : ∀ r ∈ rows, r.ok o maxDef = true) :
    ∀ acc, (encodeRows o maxDef rows).foldl (pushEntry o) acc = acc ++ rows := by
  induction rows with
  | nil => intro acc; simp [encodeRows]
  | cons r rs ih =>
    intro acc
    simp only [encodeRows, List.flatMap_cons, List.foldl_append]
    rw [foldl_encodeRow o maxDef h1 acc r (hok r (List.mem_cons_self))]
    have := ih (fun x hx => hok x (List.mem_cons_of_mem _ hx)) (acc ++ [r])
    simp only [encodeRows] at this
    rw [this]; simp

/-- **shredding round trip**: assembling the shredded rows gives the rows back — null rows, empty
    collections, null elements and element order are all preserved. -/
theorem assemble_encodeRows (o maxDef : Nat) (h1 : o < maxDef) (rows : List Row) (hok : ∀ r ∈ rows, r.ok o maxDef = true) :
    assemble o (encodeRows o maxDef rows) = rows := by
  have := foldl_encodeRows o maxDef h1 rows hok []
  simpa [assemble] using this

end PqV.Spec
