import PqV.Impl.ThriftSer
import PqV.Lemmas.Thrift
import PqV.Lemmas.KVarint
import PqV.Lemmas.KZigzag
namespace PqV.Impl.ThriftSer
open PqV.Impl PqV.Spec

def okInt (n : Int) : Bool := decide (-(2 ^ 63 : Int) ≤ n) && decide (n < (2 ^ 63 : Int))

/-! the IDL-level value a Python-side structure stands for, computed with the same recursion as the
    serialiser; `none` where the serialiser departs from the protocol or the value is out of range
    (empty lists, heterogeneous lists, integers beyond int64; `None` holes are simply skipped) -/
mutual
  def specFields : Nat → Marker → List (Nat × PyT) → Nat → Nat → Option (List (Nat × TVal))
    | 0, _, _, _, _ => Option.none
    | _ + 1, _, _, 0, _ => some []
    | fuel + 1, m, entries, steps + 1, i =>
      match lookup entries i with
      | Option.none => specFields fuel m entries steps (i + 1)
      | some PyT.none => specFields fuel m entries steps (i + 1)
      | some v =>
        let tv : Option TVal :=
          match v with
          | .bool b => some (TVal.bool b)
          | .int n => if okInt n then some (if isI32 m i then TVal.i32 n else TVal.i64 n) else Option.none
          | .float bits => if bits < 2 ^ 64 then some (TVal.double bits) else Option.none
          | .bytes bs => if bs.length < 2 ^ 64 then some (TVal.binary bs) else Option.none
          | .str bs => if bs.length < 2 ^ 64 then some (TVal.binary bs) else Option.none
          | .list items => specList fuel items
          | .dict m' es => (specThrift fuel m' es).map TVal.struct
          | .none => Option.none
        match tv, specFields fuel m entries steps (i + 1) with
        | some t, some r => some ((i, t) :: r)
        | _, _ => Option.none
  def specThrift : Nat → Marker → List (Nat × PyT) → Option (List (Nat × TVal))
    | 0, _, _ => Option.none
    | fuel + 1, m, entries =>
      specFields fuel m entries (PqV.Gen.Specs.loopHi - PqV.Gen.Specs.loopLo) PqV.Gen.Specs.loopLo
  def specList : Nat → List PyT → Option TVal
    | 0, _ => Option.none
    | _ + 1, [] => Option.none
    | fuel + 1, first :: rest =>
      let kind : Nat := match first with | .int _ => 0 | .bytes _ => 1 | .str _ => 1 | _ => 2
      let ty : Nat := match kind with | 0 => 5 | 1 => 8 | _ => 12
      if (first :: rest).length < 2 ^ 64 then (specListItems fuel kind (first :: rest)).map (TVal.list ty) else Option.none
  def specListItems : Nat → Nat → List PyT → Option (List TVal)
    | 0, _, _ => Option.none
    | _ + 1, _, [] => some []
    | fuel + 1, kind, v :: vs =>
      let item : Option TVal :=
        match kind, v with
        | 0, .int n => if okInt n then some (TVal.i32 n) else Option.none
        | 1, .bytes bs => if bs.length < 2 ^ 64 then some (TVal.binary bs) else Option.none
        | 1, .str bs => if bs.length < 2 ^ 64 then some (TVal.binary bs) else Option.none
        | 2, .dict m es => (specThrift fuel m es).map TVal.struct
        | _, _ => Option.none
      match item, specListItems fuel kind vs with
      | some a, some b => some (a :: b)
      | _, _ => Option.none
end

theorem enc_int (n : Int) (h : okInt n = true) : encodeUvarint (longZigzag n) = uvarintEnc (zigzagEnc n) := by
  simp only [okInt, Bool.and_eq_true, decide_eq_true_eq] at h
  rw [longZigzag_eq n h.1 h.2]
  apply encodeUvarint_eq
  unfold zigzagEnc
  split
  · have : (2 * n).toNat < 2 ^ 64 := by
      have h2 : 2 * n < 2 ^ 64 := by have := h.2; omega
      omega
    exact this
  · have : (-2 * n - 1).toNat < 2 ^ 64 := by
      have := h.1; omega
    exact this


theorem or_low (ty l : Nat) (h : ty < 16) : ty ||| (l * 16) = l * 16 + ty := by
  have e : l * 16 = l <<< 4 := by rw [Nat.shiftLeft_eq]
  rw [e, Nat.or_comm, ← Nat.shiftLeft_add_eq_or_of_lt (by simpa using h)]

theorem specListItems_length : ∀ (fuel kind : Nat) (items : List PyT) (ts : List TVal),
    specListItems fuel kind items = some ts → ts.length = items.length := by
  intro fuel
  induction fuel with
  | zero => intro kind items ts h; simp [specListItems] at h
  | succ f ih =>
    intro kind items ts h
    cases items with
    | nil => simp [specListItems] at h; subst h; rfl
    | cons v vs =>
      simp only [specListItems] at h
      split at h
      · rename_i a b ha hb
        injection h with h; subst h
        simp [ih kind vs b hb]
      · cases h

def kindOf (first : PyT) : Nat := match first with | .int _ => 0 | .bytes _ => 1 | .str _ => 1 | _ => 2
def tyOf (kind : Nat) : Nat := match kind with | 0 => 5 | 1 => 8 | _ => 12

theorem tyOf_lt (k : Nat) : tyOf k < 16 := by
  unfold tyOf; split <;> norm_num

theorem writeList_eq (fuel : Nat) (first : PyT) (rest : List PyT) :
    writeList (fuel + 1) (first :: rest) =
      (writeListItems fuel (kindOf first) (first :: rest)).map
        ((if (first :: rest).length > PqV.Gen.Specs.listShortMax then [(tyOf (kindOf first) ||| 0xF0)] ++ encodeUvarint (first :: rest).length
          else [(tyOf (kindOf first) ||| ((first :: rest).length * 16)) % 256]) ++ ·) := by
  cases first <;> rfl

theorem specList_eq (fuel : Nat) (first : PyT) (rest : List PyT) :
    specList (fuel + 1) (first :: rest) =
      if (first :: rest).length < 2 ^ 64 then (specListItems fuel (kindOf first) (first :: rest)).map (TVal.list (tyOf (kindOf first)))
      else Option.none := by
  cases first <;> rfl

theorem hdr_long (ty : Nat) (tl : List Nat) (h : ty < 16) : [ty ||| 0xF0] ++ tl = (0xF0 + ty) :: tl := by
  have := or_low ty 15 h
  simp at this ⊢
  omega

theorem hdr_short (ty l : Nat) (h : ty < 16) (hl : l < 15) : [(ty ||| l * 16) % 256] = [l * 16 + ty] := by
  rw [or_low ty l h]
  congr 1
  apply Nat.mod_eq_of_lt; omega

theorem ty_match_lt (first : PyT) :
    (match (match first with | .int _ => 0 | .bytes _ => 1 | .str _ => 1 | _ => 2 : Nat) with | 0 => 5 | 1 => 8 | _ => 12 : Nat) < 16 := by
  cases first <;> simp

theorem specList_wt : ∀ (fuel : Nat) (items : List PyT) (t : TVal), specList fuel items = some t → t.wireType = 9 := by
  intro fuel items t h
  cases fuel with
  | zero => simp [specList] at h
  | succ f =>
    cases items with
    | nil => simp [specList] at h
    | cons a as =>
      simp only [specList] at h
      split at h
      · rw [Option.map_eq_some_iff] at h
        obtain ⟨its, _, rfl⟩ := h
        rfl
      · cases h

/-- the four serialiser functions agree with the specification encoder wherever the translation is defined -/
theorem refine_all : ∀ (fuel : Nat),
    (∀ m es steps i prev fs, specFields fuel m es steps i = some fs → prev < i → i + steps ≤ 15 →
        writeFields fuel m es steps i prev = some (encFields prev fs)) ∧
    (∀ m es fs, specThrift fuel m es = some fs → writeThrift fuel m es = some (encFields 0 fs)) ∧
    (∀ items t, specList fuel items = some t → writeList fuel items = some (encVal t)) ∧
    (∀ kind items ts, specListItems fuel kind items = some ts → writeListItems fuel kind items = some (encItems ts)) := by
  intro fuel
  induction fuel with
  | zero =>
    refine ⟨?_, ?_, ?_, ?_⟩
    · intro m es steps i prev fs h; simp [specFields] at h
    · intro m es fs h; simp [specThrift] at h
    · intro items t h; simp [specList] at h
    · intro kind items ts h; simp [specListItems] at h
  | succ f ih =>
    obtain ⟨ihF, ihT, ihL, ihI⟩ := ih
    refine ⟨?_, ?_, ?_, ?_⟩
    · -- writeFields
      intro m es steps i prev fs h hprev hbound
      cases steps with
      | zero => simp [specFields] at h; subst h; simp [writeFields, encFields]
      | succ steps =>
        simp only [specFields] at h
        simp only [writeFields]
        cases hl : lookup es i with
        | none => simp only [hl] at h ⊢; exact ihF m es steps (i + 1) prev fs h (by omega) (by omega)
        | some v =>
          have hdelt : i - prev ≤ 15 := by omega
          have hshort : prev < i ∧ i - prev ≤ 15 := ⟨hprev, hdelt⟩
          cases v with
          | none => simp only [hl] at h ⊢; exact ihF m es steps (i + 1) prev fs h (by omega) (by omega)
          | bool b =>
            simp only [hl] at h ⊢
            cases hr : specFields f m es steps (i + 1) with
            | none => simp [hr] at h
            | some r =>
              simp only [hr, Option.some.injEq] at h; subst h
              rw [ihF m es steps (i + 1) i r hr (by omega) (by omega)]
              cases b <;> simp [encFields, hshort, TVal.wireType, encVal] <;> omega
          | int n =>
            simp only [hl] at h ⊢
            by_cases hok : okInt n = true
            · simp only [hok, if_true] at h
              cases hr : specFields f m es steps (i + 1) with
              | none => simp [hr] at h
              | some r =>
                simp only [hr, Option.some.injEq] at h; subst h
                rw [ihF m es steps (i + 1) i r hr (by omega) (by omega), enc_int n hok]
                by_cases h32 : isI32 m i = true
                · simp [encFields, hshort, TVal.wireType, encVal, h32]; omega
                · have : isI32 m i = false := by simpa using h32
                  simp [encFields, hshort, TVal.wireType, encVal, this]; omega
            · simp [hok] at h
          | float bits =>
            simp only [hl] at h ⊢
            by_cases hb : bits < 2 ^ 64
            · simp only [hb, if_true] at h
              cases hr : specFields f m es steps (i + 1) with
              | none => simp [hr] at h
              | some r =>
                simp only [hr, Option.some.injEq] at h; subst h
                rw [ihF m es steps (i + 1) i r hr (by omega) (by omega)]
                simp [encFields, hshort, TVal.wireType, encVal]; omega
            · rw [if_neg hb] at h; simp at h
          | bytes bs =>
            simp only [hl] at h ⊢
            by_cases hb : bs.length < 2 ^ 64
            · simp only [hb, if_true] at h
              cases hr : specFields f m es steps (i + 1) with
              | none => simp [hr] at h
              | some r =>
                simp only [hr, Option.some.injEq] at h; subst h
                rw [ihF m es steps (i + 1) i r hr (by omega) (by omega), encodeUvarint_eq _ hb]
                simp [encFields, hshort, TVal.wireType, encVal]; omega
            · rw [if_neg hb] at h; simp at h
          | str bs =>
            simp only [hl] at h ⊢
            by_cases hb : bs.length < 2 ^ 64
            · simp only [hb, if_true] at h
              cases hr : specFields f m es steps (i + 1) with
              | none => simp [hr] at h
              | some r =>
                simp only [hr, Option.some.injEq] at h; subst h
                rw [ihF m es steps (i + 1) i r hr (by omega) (by omega), encodeUvarint_eq _ hb]
                simp [encFields, hshort, TVal.wireType, encVal]; omega
            · rw [if_neg hb] at h; simp at h
          | list items =>
            simp only [hl] at h ⊢
            cases ht : specList f items with
            | none => simp [ht] at h
            | some t =>
              cases hr : specFields f m es steps (i + 1) with
              | none => simp [ht, hr] at h
              | some r =>
                simp only [ht, hr, Option.some.injEq] at h; subst h
                rw [ihF m es steps (i + 1) i r hr (by omega) (by omega), ihL items t ht]
                have hwt := specList_wt f items t ht
                simp [encFields, hshort, hwt]; omega
          | dict m' es' =>
            simp only [hl] at h ⊢
            cases ht : specThrift f m' es' with
            | none => simp [ht] at h
            | some fs' =>
              cases hr : specFields f m es steps (i + 1) with
              | none => simp [ht, hr] at h
              | some r =>
                simp only [ht, hr, Option.map_some, Option.some.injEq] at h; subst h
                rw [ihF m es steps (i + 1) i r hr (by omega) (by omega), ihT m' es' fs' ht]
                simp [encFields, hshort, TVal.wireType, encVal]; omega
    · -- writeThrift
      intro m es fs h
      simp only [specThrift] at h
      simp only [writeThrift]
      exact ihF m es _ _ 0 fs h (by decide) (by decide)
    · -- writeList
      intro items t h
      cases items with
      | nil => simp [specList] at h
      | cons first rest =>
        rw [specList_eq] at h
        rw [writeList_eq]
        have hty := tyOf_lt (kindOf first)
        generalize tyOf (kindOf first) = ty at *
        generalize kindOf first = kind at *
        by_cases hlen : (first :: rest).length < 2 ^ 64
        · simp only [hlen, if_true] at h
          rw [Option.map_eq_some_iff] at h
          obtain ⟨its, hi, rfl⟩ := h
          have hl := specListItems_length f _ _ its hi
          rw [ihI _ _ its hi]
          simp only [Option.map_some, encVal, hl]
          congr 1
          by_cases hbig : (first :: rest).length > PqV.Gen.Specs.listShortMax
          · have h15 : ¬ ((first :: rest).length < 15) := by simp [PqV.Gen.Specs.listShortMax] at hbig ⊢; omega
            simp only [hbig, if_true, h15, if_false, encodeUvarint_eq _ hlen]
            rw [hdr_long ty _ hty]
          · have h15 : (first :: rest).length < 15 := by simp [PqV.Gen.Specs.listShortMax] at hbig ⊢; omega
            simp only [hbig, if_false, h15, if_true]
            rw [hdr_short ty _ hty h15]
        · rw [if_neg hlen] at h; cases h
    · -- writeListItems
      intro kind items ts h
      cases items with
      | nil => simp [specListItems] at h; subst h; simp [writeListItems, encItems]
      | cons v vs =>
        simp only [specListItems] at h
        simp only [writeListItems]
        split at h
        · rename_i a b ha hb
          injection h with h; subst h
          rw [ihI kind vs b hb]
          -- the item
          match kind, v, ha with
          | 0, .int n, ha =>
            simp only at ha ⊢
            by_cases hok : okInt n = true
            · simp only [hok, if_true, Option.some.injEq] at ha; subst ha
              simp [enc_int n hok, encItems, encVal]
            · rw [if_neg hok] at ha; cases ha
          | 1, .bytes bs, ha =>
            simp only at ha ⊢
            by_cases hb' : bs.length < 2 ^ 64
            · simp only [hb', if_true, Option.some.injEq] at ha; subst ha
              simp [encodeUvarint_eq _ hb', encItems, encVal]
            · rw [if_neg hb'] at ha; cases ha
          | 1, .str bs, ha =>
            simp only at ha ⊢
            by_cases hb' : bs.length < 2 ^ 64
            · simp only [hb', if_true, Option.some.injEq] at ha; subst ha
              simp [encodeUvarint_eq _ hb', encItems, encVal]
            · rw [if_neg hb'] at ha; cases ha
          | 2, .dict m es, ha =>
            simp only at ha ⊢
            cases ht : specThrift f m es with
            | none => simp [ht] at ha
            | some fs' =>
              simp only [ht, Option.map_some, Option.some.injEq] at ha; subst ha
              simp [ihT m es fs' ht, encItems, encVal]
        · cases h


/-- what the translation produces is a well-formed IDL-level value (ids strictly increasing, lists
    homogeneous with the declared element type, doubles 64 bits wide) -/
theorem spec_ok_all : ∀ (fuel : Nat),
    (∀ m es steps i prev fs, specFields fuel m es steps i = some fs → prev < i → fieldsOk prev fs = true) ∧
    (∀ m es fs, specThrift fuel m es = some fs → fieldsOk 0 fs = true) ∧
    (∀ items t, specList fuel items = some t → t.ok = true) ∧
    (∀ kind items ts, specListItems fuel kind items = some ts → itemsOk (tyOf kind) ts = true) := by
  intro fuel
  induction fuel with
  | zero =>
    refine ⟨?_, ?_, ?_, ?_⟩
    · intro m es steps i prev fs h; simp [specFields] at h
    · intro m es fs h; simp [specThrift] at h
    · intro items t h; simp [specList] at h
    · intro kind items ts h; simp [specListItems] at h
  | succ f ih =>
    obtain ⟨ihF, ihT, ihL, ihI⟩ := ih
    refine ⟨?_, ?_, ?_, ?_⟩
    · intro m es steps i prev fs h hprev
      cases steps with
      | zero => simp [specFields] at h; subst h; rfl
      | succ steps =>
        simp only [specFields] at h
        cases hl : lookup es i with
        | none => simp only [hl] at h; exact ihF m es steps (i + 1) prev fs h (by omega)
        | some v =>
          cases v with
          | none => simp only [hl] at h; exact ihF m es steps (i + 1) prev fs h (by omega)
          | bool b =>
            simp only [hl] at h
            cases hr : specFields f m es steps (i + 1) with
            | none => simp [hr] at h
            | some r =>
              simp only [hr, Option.some.injEq] at h; subst h
              simp [fieldsOk, hprev, TVal.ok, ihF m es steps (i + 1) i r hr (by omega)]
          | int n =>
            simp only [hl] at h
            by_cases hok : okInt n = true
            · simp only [hok, if_true] at h
              cases hr : specFields f m es steps (i + 1) with
              | none => simp [hr] at h
              | some r =>
                simp only [hr, Option.some.injEq] at h; subst h
                by_cases h32 : isI32 m i = true <;>
                  simp [fieldsOk, hprev, TVal.ok, h32, ihF m es steps (i + 1) i r hr (by omega)]
            · rw [if_neg hok] at h; simp at h
          | float bits =>
            simp only [hl] at h
            by_cases hb : bits < 2 ^ 64
            · simp only [hb, if_true] at h
              cases hr : specFields f m es steps (i + 1) with
              | none => simp [hr] at h
              | some r =>
                simp only [hr, Option.some.injEq] at h; subst h
                simp [fieldsOk, hprev, TVal.ok, ihF m es steps (i + 1) i r hr (by omega)]
                norm_num at hb ⊢; exact hb
            · rw [if_neg hb] at h; simp at h
          | bytes bs =>
            simp only [hl] at h
            by_cases hb : bs.length < 2 ^ 64
            · simp only [hb, if_true] at h
              cases hr : specFields f m es steps (i + 1) with
              | none => simp [hr] at h
              | some r =>
                simp only [hr, Option.some.injEq] at h; subst h
                simp [fieldsOk, hprev, TVal.ok, ihF m es steps (i + 1) i r hr (by omega)]
            · rw [if_neg hb] at h; simp at h
          | str bs =>
            simp only [hl] at h
            by_cases hb : bs.length < 2 ^ 64
            · simp only [hb, if_true] at h
              cases hr : specFields f m es steps (i + 1) with
              | none => simp [hr] at h
              | some r =>
                simp only [hr, Option.some.injEq] at h; subst h
                simp [fieldsOk, hprev, TVal.ok, ihF m es steps (i + 1) i r hr (by omega)]
            · rw [if_neg hb] at h; simp at h
          | list items =>
            simp only [hl] at h
            cases ht : specList f items with
            | none => simp [ht] at h
            | some t =>
              cases hr : specFields f m es steps (i + 1) with
              | none => simp [ht, hr] at h
              | some r =>
                simp only [ht, hr, Option.some.injEq] at h; subst h
                simp [fieldsOk, hprev, ihL items t ht, ihF m es steps (i + 1) i r hr (by omega)]
          | dict m' es' =>
            simp only [hl] at h
            cases ht : specThrift f m' es' with
            | none => simp [ht] at h
            | some fs' =>
              cases hr : specFields f m es steps (i + 1) with
              | none => simp [ht, hr] at h
              | some r =>
                simp only [ht, hr, Option.map_some, Option.some.injEq] at h; subst h
                simp [fieldsOk, hprev, TVal.ok, ihT m' es' fs' ht, ihF m es steps (i + 1) i r hr (by omega)]
    · intro m es fs h
      simp only [specThrift] at h
      exact ihF m es _ _ 0 fs h (by decide)
    · intro items t h
      cases items with
      | nil => simp [specList] at h
      | cons first rest =>
        rw [specList_eq] at h
        by_cases hlen : (first :: rest).length < 2 ^ 64
        · simp only [hlen, if_true] at h
          rw [Option.map_eq_some_iff] at h
          obtain ⟨its, hi, rfl⟩ := h
          simp [TVal.ok, tyOf_lt, ihI _ _ its hi]
        · rw [if_neg hlen] at h; cases h
    · intro kind items ts h
      cases items with
      | nil => simp [specListItems] at h; subst h; rfl
      | cons v vs =>
        simp only [specListItems] at h
        split at h
        · rename_i a b ha hb
          injection h with h; subst h
          have hrest := ihI kind vs b hb
          match kind, v, ha with
          | 0, .int n, ha =>
            simp only at ha
            by_cases hok : okInt n = true
            · simp only [hok, if_true, Option.some.injEq] at ha; subst ha
              simpa [itemsOk, tyOf, elemType, TVal.wireType, TVal.ok] using hrest
            · rw [if_neg hok] at ha; cases ha
          | 1, .bytes bs, ha =>
            simp only at ha
            by_cases hb' : bs.length < 2 ^ 64
            · simp only [hb', if_true, Option.some.injEq] at ha; subst ha
              simpa [itemsOk, tyOf, elemType, TVal.wireType, TVal.ok] using hrest
            · rw [if_neg hb'] at ha; cases ha
          | 1, .str bs, ha =>
            simp only at ha
            by_cases hb' : bs.length < 2 ^ 64
            · simp only [hb', if_true, Option.some.injEq] at ha; subst ha
              simpa [itemsOk, tyOf, elemType, TVal.wireType, TVal.ok] using hrest
            · rw [if_neg hb'] at ha; cases ha
          | 2, .dict m es, ha =>
            simp only at ha
            cases ht : specThrift f m es with
            | none => simp [ht] at ha
            | some fs' =>
              simp only [ht, Option.map_some, Option.some.injEq] at ha; subst ha
              have := ihT m es fs' ht
              simpa [itemsOk, tyOf, elemType, TVal.wireType, TVal.ok, this] using hrest
        · cases h

/-- **the serialiser is lossless wherever it follows the protocol**: whenever a Python-side structure
    has an IDL-level reading (`specThrift … = some fs`: all fields 1..13, no empty / mixed lists, integers
    within int64), `to_bytes` produces bytes that the specification decoder reads back as exactly that
    structure, leaving what follows untouched. -/
theorem toBytes_lossless (m : Marker) (es : List (Nat × PyT)) (fs : List (Nat × TVal)) (tail : List Nat)
    (h : specThrift ((PyT.dict m es).weight + 2) m es = some fs) :
    ∃ out, toBytes (.dict m es) = some out ∧ decStruct (out ++ tail) = some (.struct fs, tail) := by
  refine ⟨encFields 0 fs, ?_, ?_⟩
  · simp only [toBytes]
    exact (refine_all _).2.1 m es fs h
  · exact decStruct_enc fs ((spec_ok_all _).2.1 m es fs h) tail

end PqV.Impl.ThriftSer
