import PqV.Lemmas.Page
namespace PqV.Spec

/-- a v1 level block (4-byte length + hybrid stream with ANY run mixture) decodes to the levels -/
theorem levelsV1_runs (maxLevel n : Nat) (hm : maxLevel ≠ 0) (rs : List Run) (tail : List Nat)
    (hwf : ∀ r ∈ rs, r.wf (widthFor maxLevel) = true) (hn : n ≤ (rs.flatMap Run.values).length)
    (hlen : (encodeRuns (widthFor maxLevel) rs).length < 2 ^ 32) :
    levelsV1 maxLevel n (leBytes 4 (encodeRuns (widthFor maxLevel) rs).length ++ encodeRuns (widthFor maxLevel) rs ++ tail)
      = some ((rs.flatMap Run.values).take n, tail) := by
  generalize hw : widthFor maxLevel = w at *
  generalize hbody : encodeRuns w rs = body at *
  unfold levelsV1
  simp only [hm, if_false, hw]
  have h4 : (leBytes 4 body.length).length = 4 := leBytes_length _ _
  have hlen1 : ¬ ((leBytes 4 body.length ++ body ++ tail).length < 4) := by simp [h4]
  have htake : (leBytes 4 body.length ++ body ++ tail).take 4 = leBytes 4 body.length := by
    rw [List.append_assoc, List.take_left' h4]
  have hdrop : (leBytes 4 body.length ++ body ++ tail).drop 4 = body ++ tail := by
    rw [List.append_assoc, List.drop_left' h4]
  have hval : leNat (leBytes 4 body.length) = body.length := by
    rw [leNat_leBytes]; exact Nat.mod_eq_of_lt (by norm_num at hlen ⊢; exact hlen)
  simp only [hlen1, if_false, htake, hdrop, hval, List.take_left' rfl, List.drop_left' rfl]
  have hnot : ¬ ((body ++ tail).length < body.length) := by simp
  have hdec := decodeHybrid_encodeRuns w n rs [] hwf hn
  simp only [List.append_nil, hbody] at hdec
  have hl : ((rs.flatMap Run.values).take n).length = n := by rw [List.length_take]; exact Nat.min_eq_left hn
  simp only [hnot, if_false, hdec, hl, ne_eq, not_true_eq_false]

/-- PLAIN booleans: one bit per value, LSB first, padded to a whole byte -/
theorem plain_bool_rt (bits : List Nat) (hb : ∀ v ∈ bits, v < 2) :
    plainDecode PT_BOOLEAN 0 bits.length (packLE 1 bits) = some (bits.map Cell.int) := by
  unfold plainDecode
  have hlen : ¬ ((packLE 1 bits).length * 8 < bits.length) := by rw [packLE_length]; omega
  simp only [if_true, hlen, if_false]
  rw [unpackLE_packLE 1 bits (by simpa using hb)]

/-- PLAIN fixed-width values (INT32/INT64/FLOAT/DOUBLE/INT96 as little-endian patterns) -/
theorem plainFixed_rt (w : Nat) (vals : List Nat) (hv : ∀ v ∈ vals, v < 256 ^ w) (tail : List Nat) :
    ∀ acc, plainFixed w false vals.length (vals.flatMap (leBytes w) ++ tail) acc = acc.reverse ++ vals.map Cell.int := by
  induction vals with
  | nil => intro acc; simp [plainFixed]
  | cons v vs ih =>
    intro acc
    have h1 : (leBytes w v ++ (vs.flatMap (leBytes w) ++ tail)).take w = leBytes w v := List.take_left' (leBytes_length _ _)
    have h2 : (leBytes w v ++ (vs.flatMap (leBytes w) ++ tail)).drop w = vs.flatMap (leBytes w) ++ tail := List.drop_left' (leBytes_length _ _)
    have h3 : leNat (leBytes w v) = v := by rw [leNat_leBytes]; exact Nat.mod_eq_of_lt (hv v (List.mem_cons_self))
    simp only [List.flatMap_cons, List.length_cons, plainFixed, List.append_assoc, h1, h2, h3, Bool.false_eq_true, if_false]
    rw [ih (fun x hx => hv x (List.mem_cons_of_mem _ hx))]
    simp

/-- PLAIN byte arrays: 4-byte little-endian length, then the bytes -/
theorem plainByteArrays_rt (items : List (List Nat)) (hl : ∀ it ∈ items, it.length < 2 ^ 32) (tail : List Nat) :
    ∀ acc, plainByteArrays items.length (items.flatMap (fun it => leBytes 4 it.length ++ it) ++ tail) acc
      = some (acc.reverse ++ items.map Cell.bytes) := by
  induction items with
  | nil => intro acc; simp [plainByteArrays]
  | cons it its ih =>
    intro acc
    have h4 : (leBytes 4 it.length).length = 4 := leBytes_length _ _
    set rest := its.flatMap (fun it => leBytes 4 it.length ++ it) ++ tail
    have hshape : (it :: its).flatMap (fun it => leBytes 4 it.length ++ it) ++ tail = leBytes 4 it.length ++ (it ++ rest) := by
      simp [rest, List.append_assoc]
    rw [hshape]
    have hlen : ¬ ((leBytes 4 it.length ++ (it ++ rest)).length < 4) := by simp [h4]
    have h1 : (leBytes 4 it.length ++ (it ++ rest)).take 4 = leBytes 4 it.length := List.take_left' h4
    have h2 : (leBytes 4 it.length ++ (it ++ rest)).drop 4 = it ++ rest := List.drop_left' h4
    have h3 : leNat (leBytes 4 it.length) = it.length := by
      rw [leNat_leBytes]; exact Nat.mod_eq_of_lt (by have := hl it (List.mem_cons_self); norm_num at this ⊢; exact this)
    have hlen2 : ¬ ((it ++ rest).length < it.length) := by simp
    simp only [List.length_cons, plainByteArrays, hlen, if_false, h1, h2, h3, hlen2, List.take_left' rfl, List.drop_left' rfl]
    rw [ih (fun x hx => hl x (List.mem_cons_of_mem _ hx))]
    simp

end PqV.Spec
