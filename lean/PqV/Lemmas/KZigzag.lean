import PqV.Impl.Kernels
import PqV.Lemmas.Varint
import Mathlib.Tactic.NormNum
/-! 64-bit two's-complement zigzag kernels refine `Spec.zigzag*` on the int64 / uint64 range. -/
namespace PqV.Impl
open PqV.Spec

theorem zigzagLong_eq (u : Nat) (h : u < 2 ^ 64) : zigzagLong u = zigzagDec u := by
  unfold zigzagLong zigzagDec wrapS wrapU
  have e : (2:Nat) ^ 64 = 18446744073709551616 := by norm_num
  have e2 : (2:Nat) ^ (64 - 1) = 9223372036854775808 := by norm_num
  simp only [e, e2] at *
  rw [Nat.mod_eq_of_lt h]
  split <;> split <;> omega

theorem longZigzag_eq (n : Int) (h1 : -(2 ^ 63 : Int) ≤ n) (h2 : n < (2 ^ 63 : Int)) :
    longZigzag n = zigzagEnc n := by
  unfold longZigzag zigzagEnc wrapS wrapU
  have e : (2:Nat) ^ 64 = 18446744073709551616 := by norm_num
  have e2 : (2:Nat) ^ (64 - 1) = 9223372036854775808 := by norm_num
  have e3 : (2:Int) ^ 63 = 9223372036854775808 := by norm_num
  simp only [e, e2, e3] at *
  split <;> split <;> split <;> omega

/-- The kernels' zigzag pair round-trips on every int64. -/
theorem zigzag_kernel_rt (n : Int) (h1 : -(2 ^ 63 : Int) ≤ n) (h2 : n < (2 ^ 63 : Int)) :
    zigzagLong (longZigzag n) = n := by
  rw [longZigzag_eq n h1 h2, zigzagLong_eq, zigzag_rt]
  unfold zigzagEnc
  have e3 : (2:Int) ^ 63 = 9223372036854775808 := by norm_num
  have e : (2:Nat) ^ 64 = 18446744073709551616 := by norm_num
  simp only [e, e3] at *
  split <;> omega

end PqV.Impl
