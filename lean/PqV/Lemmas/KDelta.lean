import PqV.Lemmas.KBitpacked
namespace PqV.Impl
open PqV.Spec

theorem wrapS8_small (x : Int) (h0 : 0 ≤ x) (h1 : x < 128) : wrapS 8 x = x := by
  unfold wrapS wrapU
  have e : x % ((2 ^ 8 : Nat) : Int) = x := Int.emod_eq_of_lt h0 (by norm_num; omega)
  rw [e]
  have h2 : x.toNat < 2 ^ (8 - 1) := by norm_num; omega
  simp only [h2, if_true]
  omega

theorem mask64 (w : Nat) (h : w ≤ 64) : (2 ^ 64 - 1) >>> (64 - w) = 2 ^ w - 1 := by
  rw [Nat.shiftRight_eq_div_pow]
  have h64 : (2 : Nat) ^ 64 = 2 ^ (64 - w) * 2 ^ w := by rw [← Nat.pow_add]; congr 1; omega
  have hp1 : 1 ≤ 2 ^ (64 - w) := Nat.one_le_two_pow
  have hp2 : 1 ≤ 2 ^ w := Nat.one_le_two_pow
  rw [h64]
  generalize 2 ^ (64 - w) = a at *
  generalize 2 ^ w = b at *
  have hmul : (b - 1) * a = a * b - a := by rw [Nat.sub_mul, Nat.one_mul, Nat.mul_comm]
  have hge : a ≤ a * b := Nat.le_mul_of_pos_right _ (by omega)
  apply Nat.div_eq_of_lt_le
  · rw [hmul]; omega
  · have : (b - 1 + 1) * a = a * b := by rw [Nat.sub_add_cancel hp2, Nat.mul_comm]
    rw [this]; omega

/-- loop invariant of `delta_read_bitpacked` -/
structure DbpInv (S loc0 w n : Nat) (s : DBP) (L B k : Nat) : Prop where
  loc_eq : s.loc = loc0 + L
  B_le : B ≤ L
  left_eq : s.left = ((8 * (L - B) : Nat) : Int)
  left_le : 8 * (L - B) ≤ 64
  right_nn : 0 ≤ s.right
  right_eq : s.right.toNat + 8 * B = k * w
  right_le : s.right ≤ s.left
  right_bd : s.right ≤ 8 + w
  data_eq : s.data = S / 2 ^ (8 * B) % 2 ^ (8 * (L - B))
  count_eq : s.count + k = n
  vals_eq : s.vals = (List.range k).map (fun i => bitField w i S)
  hi : L = 0 ∨ 8 * (L - 1) < n * w

def dmu (w : Nat) (s : DBP) : Nat :=
  10 * s.count + (w + 7 - (s.left - s.right).toNat) / 8 + (s.right.toNat - 1) / 8

theorem dbpStep_inv (buf : List Nat) (hbytes : ∀ b ∈ buf, b < 256) (loc0 w n : Nat) (hw1 : 1 ≤ w) (hw : w ≤ 28)
    (hbuf : loc0 + (n * w + 7) / 8 ≤ buf.length)
    (s : DBP) (L B k : Nat) (inv : DbpInv (streamOf buf loc0) loc0 w n s L B k) (hc : s.count ≠ 0) :
    ∃ s' L' B' k', dbpStep buf w ((2 ^ 64 - 1) >>> (64 - w)) s = .ok s' ∧ DbpInv (streamOf buf loc0) loc0 w n s' L' B' k' ∧
      dmu w s' < dmu w s := by
  obtain ⟨loc_eq, B_le, left_eq, left_le, right_nn, right_eq, right_le, right_bd, data_eq, count_eq, vals_eq, hi⟩ := inv
  have hkn : k + 1 ≤ n := by omega
  have hXY : k * w + w ≤ n * w := by
    have := Nat.mul_le_mul_right w hkn
    rw [Nat.add_mul, Nat.one_mul] at this; exact this
  obtain ⟨r, hr⟩ : ∃ r : Nat, s.right = (r : Int) := ⟨s.right.toNat, by omega⟩
  have hrt : s.right.toNat = r := by omega
  rw [hrt] at right_eq
  unfold dbpStep
  by_cases hA : s.left - s.right < (w : Int)
  · -- load
    simp only [hA, if_true]
    have hl56 : 8 * (L - B) ≤ 56 := by omega
    have hnf : ¬ (s.left < 0 ∨ s.left ≥ 64) := by omega
    have hL : loc0 + L < buf.length := by omega
    have hrd : rd buf s.loc = .ok buf[loc0 + L] := by simp [rd, loc_eq, hL]
    have hb : buf[loc0 + L] < 256 := hbytes _ (List.getElem_mem hL)
    have e1 : wrapS 8 (s.left + 8) = ((8 * (L + 1 - B) : Nat) : Int) := by
      rw [wrapS8_small _ (by omega) (by omega)]; omega
    have etn : s.left.toNat = 8 * (L - B) := by omega
    simp only [hnf, if_false, hrd, bind, Except.bind, e1, etn]
    refine ⟨_, L + 1, B, k, rfl, ⟨by simp only [loc_eq]; omega, by omega, rfl, by omega, right_nn, by rw [hrt]; exact right_eq,
      by simp only; omega, right_bd, ?_, count_eq, vals_eq, by right; omega⟩, ?_⟩
    · simp only
      have hd : s.data < 2 ^ (8 * (L - B)) := by rw [data_eq]; exact Nat.mod_lt _ (Nat.two_pow_pos _)
      rw [or_shift _ _ _ hd]
      have e8 : 8 * (L + 1 - B) = 8 * (L - B) + 8 := by omega
      rw [e8, mod_pow_add8 (streamOf buf loc0 / 2 ^ (8 * B)) (8 * (L - B))]
      have hbyte := stream_byte buf hbytes loc0 L hL
      have e2 : streamOf buf loc0 / 2 ^ (8 * B) / 2 ^ (8 * (L - B)) = streamOf buf loc0 / 2 ^ (8 * L) := by
        rw [Nat.div_div_eq_div_mul, ← Nat.pow_add]; congr 2; omega
      rw [e2, hbyte, ← data_eq]
      have hlt : s.data + buf[loc0 + L] * 2 ^ (8 * (L - B)) < 2 ^ 64 := by
        have h1 : s.data + buf[loc0 + L] * 2 ^ (8 * (L - B)) < 2 ^ (8 * (L - B)) * 256 := by
          have : buf[loc0 + L] * 2 ^ (8 * (L - B)) ≤ 255 * 2 ^ (8 * (L - B)) := Nat.mul_le_mul_right _ (by omega)
          omega
        have h2 : 2 ^ (8 * (L - B)) * 256 ≤ 2 ^ 64 := by
          have : (256 : Nat) = 2 ^ 8 := by norm_num
          rw [this, ← Nat.pow_add]
          exact Nat.pow_le_pow_right (by norm_num) (by omega)
        omega
      rw [Nat.mod_eq_of_lt hlt]; ring
    · simp only [dmu, e1]; omega
  · simp only [hA, if_false]
    by_cases hS : s.right > 8
    · -- shift one byte out
      simp only [hS, if_true]
      have hl16 : 8 * (L - B) ≥ 16 := by omega
      have e1 : wrapS 8 (s.left - 8) = ((8 * (L - (B + 1)) : Nat) : Int) := by
        rw [wrapS8_small _ (by omega) (by omega)]; omega
      have e2 : wrapS 8 (s.right - 8) = ((r - 8 : Nat) : Int) := by
        rw [wrapS8_small _ (by omega) (by omega)]; omega
      refine ⟨_, L, B + 1, k, rfl, ⟨loc_eq, by omega, by simp only [e1], by omega, by simp only [e2]; omega,
        by simp only [e2]; omega, by simp only [e1, e2]; omega, by simp only [e2]; omega, ?_, count_eq, vals_eq, hi⟩, ?_⟩
      · simp only
        rw [data_eq]
        have h8 : (256 : Nat) = 2 ^ 8 := by norm_num
        rw [h8, mod_div_pow _ _ 8 (by omega), Nat.div_div_eq_div_mul, ← Nat.pow_add]
        have a1 : 8 * B + 8 = 8 * (B + 1) := by ring
        have a2 : 8 * (L - B) - 8 = 8 * (L - (B + 1)) := by omega
        rw [a1, a2]
      · simp only [dmu, e1, e2]; omega
    · -- emit
      simp only [hS, if_false]
      have hr64 : ¬ (s.right < 0 ∨ s.right ≥ 64) := by omega
      have e1 : wrapS 8 (s.right + w) = ((r + w : Nat) : Int) := by
        rw [wrapS8_small _ (by omega) (by omega)]; omega
      simp only [hr64, if_false, e1]
      have hmask := mask64 w (by omega)
      have hval : (s.data >>> s.right.toNat) &&& ((2 ^ 64 - 1) >>> (64 - w)) = bitField w k (streamOf buf loc0) := by
        rw [hmask, Nat.and_two_pow_sub_one_eq_mod, Nat.shiftRight_eq_div_pow, data_eq, hrt,
          mod_div_mod _ _ _ _ (by omega), Nat.div_div_eq_div_mul, ← Nat.pow_add, bitField]
        congr 3
        omega
      refine ⟨_, L, B, k + 1, rfl, ⟨loc_eq, B_le, left_eq, left_le, by simp only; omega,
        by simp only; rw [Nat.add_mul, Nat.one_mul]; omega, by simp only; omega, by simp only; omega, data_eq, by simp only; omega, ?_, hi⟩, ?_⟩
      · simp only [vals_eq, List.range_succ, List.map_append, List.map_cons, List.map_nil, hval]
      · simp only [dmu]; omega


theorem dbpLoop_inv (buf : List Nat) (hbytes : ∀ b ∈ buf, b < 256) (loc0 w n : Nat) (hw1 : 1 ≤ w) (hw : w ≤ 28)
    (hbuf : loc0 + (n * w + 7) / 8 ≤ buf.length) :
    ∀ (fuel : Nat) (s : DBP) (L B k : Nat), DbpInv (streamOf buf loc0) loc0 w n s L B k → dmu w s ≤ fuel →
      ∃ s' L' B', dbpLoop buf w ((2 ^ 64 - 1) >>> (64 - w)) fuel s = .ok s' ∧ DbpInv (streamOf buf loc0) loc0 w n s' L' B' n ∧ s'.count = 0 := by
  intro fuel
  induction fuel with
  | zero =>
    intro s L B k inv hmu
    have hc : s.count = 0 := by simp only [dmu] at hmu; omega
    have hk : k = n := by have := inv.count_eq; omega
    subst hk
    exact ⟨s, L, B, by simp [dbpLoop, hc], inv, hc⟩
  | succ fuel ih =>
    intro s L B k inv hmu
    by_cases hc : s.count = 0
    · have hk : k = n := by have := inv.count_eq; omega
      subst hk
      exact ⟨s, L, B, by simp [dbpLoop, hc], inv, hc⟩
    · obtain ⟨s1, L1, B1, k1, hstep, inv1, hlt⟩ := dbpStep_inv buf hbytes loc0 w n hw1 hw hbuf s L B k inv hc
      obtain ⟨s', L', B', hl, inv', hc'⟩ := ih s1 L1 B1 k1 inv1 (by omega)
      refine ⟨s', L', B', ?_, inv', hc'⟩
      simp only [dbpLoop, hc, if_false, hstep, bind, Except.bind]
      exact hl

/-- **`delta_read_bitpacked` (216-237) refines the specification for every miniblock bit width 1..28**:
    it yields the `count` values of the LSB-first bit stream and consumes exactly `⌈count·w/8⌉` bytes,
    without a fault.  (Widths ≥ 29: the 64-bit accumulator is shifted past its width — known finding.) -/
theorem deltaReadBitpacked_ok (buf : List Nat) (hbytes : ∀ b ∈ buf, b < 256) (loc0 w n : Nat) (hw1 : 1 ≤ w) (hw : w ≤ 28)
    (hbuf : loc0 + (n * w + 7) / 8 ≤ buf.length) :
    deltaReadBitpacked buf loc0 w n
      = .ok ((List.range n).map (fun i => bitField w i (streamOf buf loc0)), loc0 + (n * w + 7) / 8) := by
  unfold deltaReadBitpacked
  have h0 : ¬ (w = 0 ∨ w > 64) := by omega
  simp only [h0, if_false]
  have inv0 : DbpInv (streamOf buf loc0) loc0 w n { loc := loc0, data := 0, left := 0, right := 0, count := n, vals := [] } 0 0 0 := by
    refine ⟨rfl, by omega, by simp, by omega, by simp, by simp, by simp, by simp; omega, ?_, by simp, by simp, Or.inl rfl⟩
    simp [Nat.mod_one]
  obtain ⟨s', L', B', hl, inv', hc'⟩ := dbpLoop_inv buf hbytes loc0 w n hw1 hw hbuf (n * 24 + 16) _ 0 0 0 inv0
    (by simp only [dmu]; simp; omega)
  simp only [hl, bind, Except.bind]
  obtain ⟨loc_eq, B_le, left_eq, left_le, right_nn, right_eq, right_le, right_bd, data_eq, count_eq, vals_eq, hi⟩ := inv'
  rw [vals_eq, loc_eq]
  have : L' = (n * w + 7) / 8 := by omega
  rw [this]

end PqV.Impl
