import PqV.Impl.Prune
import PqV.Lemmas.FilterSound
namespace PqV.Impl.Prune
open PqV.Py PqV.Gen.Filter PqV.Filter

/-- a row: column id ↦ cell (`none` = null) -/
abbrev Row := Nat → Option Int

def satCond (row : Row) (f : Cond) : Bool :=
  match row f.col with
  | some x => sat f.op f.val f.vals x
  | none => false

def satGroup (row : Row) (g : List Cond) : Bool := g.all (satCond row)
def satDnf (row : Row) (dnf : List (List Cond)) : Bool := dnf.any (satGroup row)

/-- the row is one of the row group's rows: the recorded statistics and partition values are right for it -/
structure RowIn (rg : RowGroup) (row : Row) : Prop where
  rows_pos : rg.numRows ≠ 0
  chunk_ok : ∀ c ∈ rg.chunks, ∀ s, c.stats = some s →
      (s.nullCount = some c.numValues → row c.col = none) ∧
      (∀ x, row c.col = some x → inBounds (pyOrOpt s.min s.minValue) (pyOrOpt s.max s.maxValue) x)
  part_ok : ∀ p ∈ rg.parts, row p.1 = some p.2

def OpsOk (g : List Cond) : Prop := ∀ f ∈ g, f.op ∈ ["==", "=", "!=", "<", "<=", ">", ">=", "in"]

theorem chunkOut_false (row : Row) (c : Chunk)
    (hc : ∀ s, c.stats = some s → (s.nullCount = some c.numValues → row c.col = none) ∧
      (∀ x, row c.col = some x → inBounds (pyOrOpt s.min s.minValue) (pyOrOpt s.max s.maxValue) x)) :
    ∀ (fs : List Cond), OpsOk fs → (∀ f ∈ fs, satCond row f = true) → ∀ b, chunkOut c fs = .ok b → b = false := by
  intro fs
  induction fs with
  | nil => intro _ _ b h; simp [chunkOut] at h; exact h
  | cons f fs ih =>
    intro hops hsat b h
    have ih' := ih (fun x hx => hops x (List.mem_cons_of_mem _ hx)) (fun x hx => hsat x (List.mem_cons_of_mem _ hx))
    unfold chunkOut at h
    by_cases hcol : f.col ≠ c.col
    · simp only [hcol, ne_eq, not_false_eq_true, if_true] at h; exact ih' b h
    · simp only [hcol, if_false] at h
      have hcol' : f.col = c.col := by simpa using hcol
      cases hst : c.stats with
      | none => simp only [hst] at h; exact ih' b h
      | some s =>
        simp only [hst] at h
        obtain ⟨hnull, hbnd⟩ := hc s hst
        have hf := hsat f (List.mem_cons_self)
        simp only [satCond, hcol'] at hf
        cases hrow : row c.col with
        | none => simp [hrow] at hf
        | some x =>
          simp only [hrow] at hf
          by_cases hn : s.nullCount = some c.numValues
          · have := hnull hn; rw [hrow] at this; cases this
          · simp only [hn, if_false] at h
            cases hfv : filter_val f.op f.val f.vals (pyOrOpt s.min s.minValue) (pyOrOpt s.max s.maxValue) with
            | error e => simp [hfv] at h
            | ok b1 =>
              simp only [hfv, ok_bind] at h
              cases b1 with
              | true =>
                have := PqV.Filter.filter_val_sound f.op f.val f.vals _ _ x (hops f (List.mem_cons_self)) hfv (hbnd x hrow)
                rw [this] at hf; cases hf
              | false => simp only [Bool.false_eq_true, if_false] at h; exact ih' b h

theorem chunksOut_false (row : Row) (chunks : List Chunk)
    (hc : ∀ c ∈ chunks, ∀ s, c.stats = some s → (s.nullCount = some c.numValues → row c.col = none) ∧
      (∀ x, row c.col = some x → inBounds (pyOrOpt s.min s.minValue) (pyOrOpt s.max s.maxValue) x))
    (fs : List Cond) (hops : OpsOk fs) (hsat : ∀ f ∈ fs, satCond row f = true) :
    ∀ b, chunksOut chunks fs = .ok b → b = false := by
  induction chunks with
  | nil => intro b h; simp [chunksOut] at h; exact h
  | cons c cs ih =>
    intro b h
    unfold chunksOut at h
    cases hco : chunkOut c fs with
    | error e => simp [hco] at h
    | ok b1 =>
      have hb1 := chunkOut_false row c (hc c (List.mem_cons_self)) fs hops hsat b1 hco
      subst hb1
      simp only [hco, ok_bind, Bool.false_eq_true, if_false] at h
      exact ih (fun x hx => hc x (List.mem_cons_of_mem _ hx)) b h

theorem partOut_false (row : Row) (cat : Nat) (v : Int) (hp : row cat = some v) :
    ∀ (fs : List Cond), OpsOk fs → (∀ f ∈ fs, satCond row f = true) → ∀ b, partOut cat v fs = .ok b → b = false := by
  intro fs
  induction fs with
  | nil => intro _ _ b h; simp [partOut] at h; exact h
  | cons f fs ih =>
    intro hops hsat b h
    have ih' := ih (fun x hx => hops x (List.mem_cons_of_mem _ hx)) (fun x hx => hsat x (List.mem_cons_of_mem _ hx))
    unfold partOut at h
    by_cases hcol : f.col ≠ cat
    · simp only [hcol, ne_eq, not_false_eq_true, if_true] at h; exact ih' b h
    · simp only [hcol, if_false] at h
      have hcol' : f.col = cat := by simpa using hcol
      have hf := hsat f (List.mem_cons_self)
      simp only [satCond, hcol', hp] at hf
      cases hfv : filter_val f.op f.val f.vals (some v) (some v) with
      | error e => simp [hfv] at h
      | ok b1 =>
        simp only [hfv, ok_bind] at h
        cases b1 with
        | true =>
          have hb : inBounds (some v) (some v) v :=
            ⟨fun m hm => by injection hm with hm; omega, fun m hm => by injection hm with hm; omega⟩
          have := PqV.Filter.filter_val_sound f.op f.val f.vals _ _ v (hops f (List.mem_cons_self)) hfv hb
          rw [this] at hf; cases hf
        | false => simp only [Bool.false_eq_true, if_false] at h; exact ih' b h

theorem partsOut_false (row : Row) (parts : List (Nat × Int)) (hp : ∀ p ∈ parts, row p.1 = some p.2)
    (fs : List Cond) (hops : OpsOk fs) (hsat : ∀ f ∈ fs, satCond row f = true) :
    ∀ b, partsOut parts fs = .ok b → b = false := by
  induction parts with
  | nil => intro b h; simp [partsOut] at h; exact h
  | cons p ps ih =>
    intro b h
    obtain ⟨c, v⟩ := p
    unfold partsOut at h
    cases hpo : partOut c v fs with
    | error e => simp [hpo] at h
    | ok b1 =>
      have hb1 := partOut_false row c v (hp (c, v) (List.mem_cons_self)) fs hops hsat b1 hpo
      subst hb1
      simp only [hpo, ok_bind, Bool.false_eq_true, if_false] at h
      exact ih (fun x hx => hp x (List.mem_cons_of_mem _ hx)) b h

/-- a group the row satisfies keeps the row group -/
theorem groupKeeps_true (rg : RowGroup) (row : Row) (hin : RowIn rg row) (g : List Cond) (hops : OpsOk g)
    (hsat : satGroup row g = true) : ∀ b, groupKeeps rg g = .ok b → b = true := by
  intro b h
  have hsat' : ∀ f ∈ g, satCond row f = true := by simpa [satGroup] using hsat
  unfold groupKeeps at h
  have hs : ∀ s, statsOut rg g = .ok s → s = false := by
    intro s hs
    unfold statsOut at hs
    simp only [hin.rows_pos, if_false] at hs
    by_cases he : g.isEmpty
    · simp only [he, if_true] at hs; injection hs with hs; exact hs.symm
    · simp only [he, Bool.false_eq_true, if_false] at hs
      exact chunksOut_false row rg.chunks hin.chunk_ok g hops hsat' s hs
  cases hso : statsOut rg g with
  | error e => simp [hso] at h
  | ok s =>
    have := hs s hso
    subst this
    simp only [hso, ok_bind, Bool.false_eq_true, if_false] at h
    cases hco : catsOut rg g with
    | error e => simp [hco] at h
    | ok c =>
      have hc : c = false := by
        unfold catsOut at hco
        by_cases he : (g.isEmpty ∨ (!rg.hasPath) = true)
        · simp only [he, if_true] at hco; injection hco with hco; exact hco.symm
        · simp only [he, if_false] at hco
          exact partsOut_false row rg.parts hin.part_ok g hops hsat' c hco
      subst hc
      simp only [hco, map_ok, Bool.not_false] at h
      injection h with h; exact h.symm

/-- **pruning is sound at the level of whole filter programs** (OR of AND groups, statistics and
    partition values together): a row group that holds a row satisfying the filter is kept. -/
theorem keeps_sound (rg : RowGroup) (row : Row) (hin : RowIn rg row) :
    ∀ (dnf : List (List Cond)), (∀ g ∈ dnf, OpsOk g) → satDnf row dnf = true → ∀ k, keeps rg dnf = .ok k → k = true := by
  intro dnf
  induction dnf with
  | nil => intro _ hs; simp [satDnf] at hs
  | cons g gs ih =>
    intro hops hsat k h
    unfold keeps at h
    cases hg : groupKeeps rg g with
    | error e => simp [hg] at h
    | ok a =>
      simp only [hg, ok_bind] at h
      cases hk : keeps rg gs with
      | error e => simp [hk] at h
      | ok b =>
        simp only [hk, map_ok] at h
        injection h with h
        subst h
        simp only [satDnf, List.any_cons, Bool.or_eq_true] at hsat
        rcases hsat with hsat | hsat
        · have := groupKeeps_true rg row hin g (hops g (List.mem_cons_self)) hsat a hg
          simp [this]
        · have := ih (fun x hx => hops x (List.mem_cons_of_mem _ hx)) (by simpa [satDnf] using hsat) b hk
          simp [this]


theorem go_sound (dnf : List (List Cond)) (hops : ∀ g ∈ dnf, OpsOk g) (row : Row) (hsat : satDnf row dnf = true) :
    ∀ (rgs : List RowGroup) (base : Nat) (idxs : List Nat), filterRowGroups.go dnf rgs base = .ok idxs →
      ∀ (j : Nat) (rg : RowGroup), rgs[j]? = some rg → RowIn rg row → base + j ∈ idxs := by
  intro rgs
  induction rgs with
  | nil => intro base idxs _ j rg hj; simp at hj
  | cons r rest ih =>
    intro base idxs h j rg hj hin
    unfold filterRowGroups.go at h
    cases hk : keeps r dnf with
    | error e => simp [hk] at h
    | ok k =>
      simp only [hk, ok_bind] at h
      cases hg : filterRowGroups.go dnf rest (base + 1) with
      | error e => simp [hg] at h
      | ok t =>
        simp only [hg, map_ok] at h
        injection h with h
        subst h
        cases j with
        | zero =>
          simp only [List.getElem?_cons_zero, Option.some.injEq] at hj
          subst hj
          have := keeps_sound r row hin dnf hops hsat k hk
          simp [this]
        | succ j' =>
          simp only [List.getElem?_cons_succ] at hj
          have := ih (base + 1) t hg j' rg hj hin
          have e : base + (j' + 1) = base + 1 + j' := by omega
          rw [e]
          split
          · exact List.mem_cons_of_mem _ this
          · exact this

/-- **`filter_row_groups` never drops a row group that holds a qualifying row** (model level; the
    interval tests inside are the definitions regenerated from api.py) -/
theorem filterRowGroups_sound (rgs : List RowGroup) (dnf : List (List Cond)) (hne : dnf ≠ []) (hops : ∀ g ∈ dnf, OpsOk g)
    (row : Row) (hsat : satDnf row dnf = true) (idxs : List Nat) (h : filterRowGroups rgs dnf = .ok idxs)
    (j : Nat) (rg : RowGroup) (hj : rgs[j]? = some rg) (hin : RowIn rg row) : j ∈ idxs := by
  unfold filterRowGroups at h
  have he : dnf.isEmpty = false := by cases dnf with | nil => exact absurd rfl hne | cons _ _ => rfl
  simp only [he, Bool.false_eq_true, if_false] at h
  have := go_sound dnf hops row hsat rgs 0 idxs h j rg hj hin
  simpa using this

end PqV.Impl.Prune
