import PqV.Lemmas.ThriftSerRefine
namespace PqV.Impl.ThriftSer
open PqV.Impl PqV.Spec

/-! ## the reader model inverts the specification encoder on everything the serialiser can emit -/

/-! the shape of what `to_bytes` emits: field ids inside the serialiser's loop range, only
    bool / i32 / i64 / double / binary / list / struct values, non-empty lists of i32 / binary / struct -/
mutual
  def canon : TVal → Bool
    | .bool _ => true
    | .i32 n => okInt n
    | .i64 n => okInt n
    | .double b => decide (b < 2 ^ 64)
    | .binary bs => decide (bs.length < 2 ^ 64)
    | .list ety items => decide (items ≠ []) && decide (items.length < 2 ^ 64) && canonItems ety items
    | .struct fs => canonFields 0 fs
    | .i8 _ => false
    | .i16 _ => false
  def canonItems (ety : Nat) : List TVal → Bool
    | [] => true
    | v :: vs =>
      (match v with
        | .i32 n => decide (ety = 5) && okInt n
        | .binary bs => decide (ety = 8) && decide (bs.length < 2 ^ 64)
        | .struct fs => decide (ety = 12) && canonFields 0 fs
        | _ => false) && canonItems ety vs
  def canonFields (prev : Nat) : List (Nat × TVal) → Bool
    | [] => true
    | (id, v) :: rest => decide (prev < id) && decide (id < PqV.Gen.Specs.loopHi) && canon v && canonFields id rest
end

/-! what the reader returns for a specification value -/
mutual
  def pyOf : TVal → PyT
    | .bool b => .bool b
    | .i8 n => .int n
    | .i16 n => .int n
    | .i32 n => .int n
    | .i64 n => .int n
    | .double b => .float b
    | .binary bs => .bytes bs
    | .list _ items => .list (pyItems items)
    | .struct fs => .dict (if has32 fs then (if has64 fs then .ids (ids32 fs) else .all) else .none) (pyFields fs)
  def pyItems : List TVal → List PyT
    | [] => []
    | v :: vs => (match v with | .binary bs => PyT.str bs | .struct fs => pyOf (.struct fs) | .i32 n => .int n | _ => PyT.none) :: pyItems vs
  def pyFields : List (Nat × TVal) → List (Nat × PyT)
    | [] => []
    | (id, v) :: rest => (id, pyOf v) :: pyFields rest
  def has32 : List (Nat × TVal) → Bool
    | [] => false
    | (_, v) :: rest => (match v with | .i32 _ => true | _ => false) || has32 rest
  def has64 : List (Nat × TVal) → Bool
    | [] => false
    | (_, v) :: rest => (match v with | .i64 _ => true | _ => false) || has64 rest
  def ids32 : List (Nat × TVal) → List Nat
    | [] => []
    | (id, v) :: rest => (match v with | .i32 _ => [id] | _ => []) ++ ids32 rest
end

theorem nibbles : ∀ d, d < 16 → ∀ t, t < 16 → ((d * 16 + t) &&& 0xF0) / 16 = d ∧ ((d * 16 + t) &&& 0x0F) = t := by
  decide +kernel

theorem readUvarint0 (x : Nat) (hx : x < 2 ^ 64) (rest : List Nat) :
    readUvarint (uvarintEnc x ++ rest) 0 = .ok (x, uvarintLen x) ∧ (uvarintEnc x ++ rest).drop (uvarintLen x) = rest := by
  have := readUvarint_enc x hx [] rest
  simp only [List.nil_append, List.length_nil, Nat.zero_add] at this
  exact ⟨this, List.drop_left' rfl⟩

theorem zz_lt (n : Int) (h : okInt n = true) : zigzagEnc n < 2 ^ 64 := by
  simp only [okInt, Bool.and_eq_true, decide_eq_true_eq] at h
  unfold zigzagEnc
  split
  · have h2 : 2 * n < 2 ^ 64 := by have := h.2; omega
    omega
  · have := h.1; omega

theorem zz_back (n : Int) (h : okInt n = true) : zigzagLong (zigzagEnc n) = n := by
  rw [zigzagLong_eq _ (zz_lt n h), zigzag_rt]


theorem filter_noop (acc : List (Nat × PyT)) (prev id : Nat) (h : ∀ e ∈ acc, e.1 ≤ prev) (hp : prev < id) :
    acc.filter (·.1 != id) = acc := by
  rw [List.filter_eq_self]
  intro e he
  have := h e he
  simp only [bne_iff_ne, ne_eq]
  omega

/-- the head of `readFields` on a short-form field header: id and type nibble recovered -/
theorem readFields_head (f prev id t : Nat) (r : List Nat) (acc : List (Nat × PyT)) (h32 h64 : Bool) (i32s : List Nat)
    (hp : prev < id) (hid : id < 16) (ht1 : 1 ≤ t) (ht : t < 16) :
    ((id - prev) * 16 + t ≠ 0) ∧ ((prev + (((id - prev) * 16 + t) &&& 0xF0) / 16) % 256 = id) ∧ ((((id - prev) * 16 + t) &&& 0x0F) = t) := by
  obtain ⟨n1, n2⟩ := nibbles (id - prev) (by omega) t ht
  refine ⟨by omega, ?_, n2⟩
  rw [n1]; omega

theorem readFields_bool (f prev id : Nat) (b : Bool) (r : List Nat) (acc : List (Nat × PyT)) (h32 h64 : Bool) (i32s : List Nat)
    (hp : prev < id) (hid : id < 16) (hacc : ∀ e ∈ acc, e.1 ≤ prev) :
    readFields (f + 1) (((id - prev) * 16 + (if b then 1 else 2)) :: r) prev acc h32 h64 i32s
      = readFields f r id (acc ++ [(id, .bool b)]) h32 h64 i32s := by
  obtain ⟨h0, h1, h2⟩ := readFields_head f prev id (if b then 1 else 2) r acc h32 h64 i32s hp hid (by split <;> omega) (by split <;> omega)
  conv => lhs; unfold readFields
  split
  · rename_i heq; cases heq
  · rename_i heq; injection heq with ha; exact absurd ha h0
  · rename_i byte r' hne heq
    injection heq with ha hb
    subst ha; subst hb
    simp only [h1, h2, filter_noop acc prev id hacc hp]
    cases b <;> simp

/-- `readFields` opened on a short-form header: the field id and the type nibble are what the encoder put there -/
theorem readFields_open (f prev id t : Nat) (r : List Nat) (acc : List (Nat × PyT)) (h32 h64 : Bool) (i32s : List Nat)
    (hp : prev < id) (hid : id < 16) (ht1 : 1 ≤ t) (ht : t < 16) (hacc : ∀ e ∈ acc, e.1 ≤ prev) :
    readFields (f + 1) (((id - prev) * 16 + t) :: r) prev acc h32 h64 i32s =
      (let put (v : PyT) (r' : List Nat) (h32' h64' : Bool) (i32s' : List Nat) :=
          readFields f r' id (acc ++ [(id, v)]) h32' h64' i32s'
        if t = 5 then
          match readUvarint r 0 with
          | .ok (u, k) => put (.int (zigzagLong u)) (r.drop k) true h64 (i32s ++ [id])
          | .error _ => Option.none
        else if t = 6 ∨ t = 4 then
          match readUvarint r 0 with
          | .ok (u, k) => put (.int (zigzagLong u)) (r.drop k) h32 (h64 || t == 6) i32s
          | .error _ => Option.none
        else if t = 7 then
          if r.length < 8 then Option.none else put (.float (leNat (r.take 8))) (r.drop 8) h32 h64 i32s
        else if t = 8 then
          match readUvarint r 0 with
          | .ok (n, k) => if (r.drop k).length < n then Option.none else put (.bytes ((r.drop k).take n)) ((r.drop k).drop n) h32 h64 i32s
          | .error _ => Option.none
        else if t = 9 then
          match readList f r with
          | some (l, r') => put (.list l) r' h32 h64 i32s
          | Option.none => Option.none
        else if t = 12 then
          match readThrift f r with
          | some (d, r') => put d r' h32 h64 i32s
          | Option.none => Option.none
        else if t = 1 then put (.bool true) r h32 h64 i32s
        else if t = 2 then put (.bool false) r h32 h64 i32s
        else if t = 3 then
          match r with | b :: r' => put (.int b) r' h32 h64 i32s | [] => Option.none
        else Option.none) := by
  obtain ⟨h0, h1, h2⟩ := readFields_head f prev id t r acc h32 h64 i32s hp hid ht1 ht
  conv => lhs; unfold readFields
  split
  · rename_i heq; cases heq
  · rename_i heq; injection heq with ha; exact absurd ha h0
  · rename_i byte r' hne heq
    injection heq with ha hb
    subst ha; subst hb
    simp only [h1, h2, filter_noop acc prev id hacc hp]
    rfl


theorem readThrift_of_fields (fs : List (Nat × TVal)) (f : Nat) (bs tail : List Nat)
    (h : readFields f bs 0 [] false false [] = some ([] ++ pyFields fs, [] ++ ids32 fs, false || has32 fs, false || has64 fs, tail)) :
    readThrift (f + 1) bs = some (pyOf (.struct fs), tail) := by
  simp only [readThrift, h, Option.map_some, pyOf, List.nil_append, Bool.false_or]

/-- list header of the specification encoder, read by `read_list` -/
theorem readList_open (g ety n : Nat) (body : List Nat) (hety : ety < 16) (hn : n < 2 ^ 64) :
    readList (g + 1) ((if n < 15 then [n * 16 + ety] else (0xF0 + ety) :: uvarintEnc n) ++ body)
      = readItems g ety n body := by
  by_cases hl : n < 15
  · obtain ⟨n1, n2⟩ := nibbles n (by omega) ety hety
    have hlt : ¬ (n * 16 + ety ≥ PqV.Gen.Specs.readLongFrom) := by
      simp only [PqV.Gen.Specs.readLongFrom]; omega
    simp only [hl, if_true, List.cons_append, List.nil_append, readList, hlt, if_false, n1, n2]
  · have hge : (0xF0 + ety ≥ PqV.Gen.Specs.readLongFrom) := by
      simp only [PqV.Gen.Specs.readLongFrom]; omega
    have n2 : (0xF0 + ety) &&& 0x0F = ety := by
      have := (nibbles 15 (by omega) ety hety).2
      have e : 15 * 16 + ety = 0xF0 + ety := by omega
      rw [e] at this; exact this
    obtain ⟨r1, r2⟩ := readUvarint0 n hn body
    simp only [hl, if_false, List.cons_append, readList, hge, if_true, n2, r1, r2]


theorem loopHi_le : PqV.Gen.Specs.loopHi ≤ 16 := by decide

mutual
  theorem readItems_enc (ety : Nat) : ∀ (items : List TVal), canonItems ety items = true → ∀ (fuel : Nat), itemsSz items ≤ fuel →
      ∀ (tail : List Nat), readItems fuel ety items.length (encItems items ++ tail) = some (pyItems items, tail)
    | [], _, fuel, hf, tail => by
      obtain ⟨f, rfl⟩ : ∃ f, fuel = f + 1 := ⟨fuel - 1, by simp [itemsSz] at hf; omega⟩
      simp [readItems, encItems, pyItems]
    | v :: vs, hok, fuel, hf, tail => by
      obtain ⟨f, rfl⟩ : ∃ f, fuel = f + 1 := ⟨fuel - 1, by simp [itemsSz] at hf; omega⟩
      have hs1 : v.sz ≤ f := by simp only [itemsSz] at hf; omega
      have hs2 : itemsSz vs ≤ f := by simp only [itemsSz] at hf; omega
      cases v with
      | i32 n =>
        simp only [canonItems, Bool.and_eq_true, decide_eq_true_eq] at hok
        obtain ⟨⟨rfl, hn⟩, hvs⟩ := hok
        have ih2 := readItems_enc 5 vs hvs f hs2 tail
        obtain ⟨r1, r2⟩ := readUvarint0 (zigzagEnc n) (zz_lt n hn) (encItems vs ++ tail)
        simp only [List.length_cons, encItems, encVal, List.append_assoc, readItems, true_or, if_true, r1, r2, ih2,
          Option.map_some, zz_back n hn, pyItems]
      | binary bs =>
        simp only [canonItems, Bool.and_eq_true, decide_eq_true_eq] at hok
        obtain ⟨⟨rfl, hn⟩, hvs⟩ := hok
        have ih2 := readItems_enc 8 vs hvs f hs2 tail
        obtain ⟨r1, r2⟩ := readUvarint0 bs.length hn (bs ++ (encItems vs ++ tail))
        have hlen : ¬ ((bs ++ (encItems vs ++ tail)).length < bs.length) := by simp
        have e5 : ¬ ((8 : Nat) = 5 ∨ (8 : Nat) = 6) := by omega
        simp only [List.length_cons, encItems, encVal, List.append_assoc, readItems, e5, if_false, if_true, r1, r2, hlen,
          List.take_left' rfl, List.drop_left' rfl, ih2, Option.map_some, pyItems]
      | struct fs =>
        simp only [canonItems, Bool.and_eq_true, decide_eq_true_eq] at hok
        obtain ⟨⟨rfl, hfs⟩, hvs⟩ := hok
        have ih2 := readItems_enc 12 vs hvs f hs2 tail
        obtain ⟨g, rfl⟩ : ∃ g, f = g + 1 := ⟨f - 1, by simp only [TVal.sz] at hs1; omega⟩
        have hsz : fieldsSz fs ≤ g := by simp only [TVal.sz] at hs1; omega
        have ih1 := readFields_enc fs 0 hfs g hsz [] false false [] (encItems vs ++ tail) (by intro e he; cases he)
        have ht := readThrift_of_fields fs g _ _ ih1
        have e5 : ¬ ((12 : Nat) = 5 ∨ (12 : Nat) = 6) := by omega
        have e8 : ¬ ((12 : Nat) = 8) := by omega
        simp only [List.length_cons, encItems, encVal, List.append_assoc, readItems, e5, e8, if_false, ht, ih2,
          Option.map_some, pyItems]
      | bool b => simp [canonItems] at hok
      | i8 n => simp [canonItems] at hok
      | i16 n => simp [canonItems] at hok
      | i64 n => simp [canonItems] at hok
      | double b => simp [canonItems] at hok
      | list e its => simp [canonItems] at hok
  theorem readFields_enc : ∀ (fs : List (Nat × TVal)) (prev : Nat), canonFields prev fs = true → ∀ (fuel : Nat), fieldsSz fs ≤ fuel →
      ∀ (acc : List (Nat × PyT)) (h32 h64 : Bool) (i32s tail : List Nat), (∀ e ∈ acc, e.1 ≤ prev) →
      readFields fuel (encFields prev fs ++ tail) prev acc h32 h64 i32s
        = some (acc ++ pyFields fs, i32s ++ ids32 fs, h32 || has32 fs, h64 || has64 fs, tail)
    | [], prev, _, fuel, hf, acc, h32, h64, i32s, tail, _ => by
      obtain ⟨f, rfl⟩ : ∃ f, fuel = f + 1 := ⟨fuel - 1, by simp [fieldsSz] at hf; omega⟩
      simp [readFields, encFields, pyFields, ids32, has32, has64]
    | (id, v) :: rest, prev, hok, fuel, hf, acc, h32, h64, i32s, tail, hacc => by
      obtain ⟨f, rfl⟩ : ∃ f, fuel = f + 1 := ⟨fuel - 1, by simp [fieldsSz] at hf; omega⟩
      simp only [canonFields, Bool.and_eq_true, decide_eq_true_eq] at hok
      obtain ⟨⟨⟨hp, hid⟩, hv⟩, hrest⟩ := hok
      have hid16 : id < 16 := Nat.lt_of_lt_of_le hid loopHi_le
      have hs1 : v.sz ≤ f := by simp only [fieldsSz] at hf; omega
      have hs2 : fieldsSz rest ≤ f := by simp only [fieldsSz] at hf; omega
      have hshort : prev < id ∧ id - prev ≤ 15 := ⟨hp, by omega⟩
      obtain ⟨hwt, hwt1⟩ := wireType_lt v
      have hacc' : ∀ (x : PyT), ∀ e ∈ acc ++ [(id, x)], e.1 ≤ id := by
        intro x e he
        rcases List.mem_append.mp he with h | h
        · have := hacc e h; omega
        · simp only [List.mem_singleton] at h; subst h; exact Nat.le_refl _
      have ih2 := fun (x : PyT) (a b : Bool) (c : List Nat) =>
        readFields_enc rest id hrest f hs2 (acc ++ [(id, x)]) a b c tail (hacc' x)
      simp only [encFields, hshort, and_self, if_true, List.cons_append, List.nil_append, List.append_assoc]
      rw [readFields_open f prev id v.wireType _ acc h32 h64 i32s hp hid16 hwt1 hwt hacc]
      cases v with
      | bool b =>
        cases b <;>
          simp [TVal.wireType, encVal, ih2, pyFields, pyOf, ids32, has32, has64]
      | i32 n =>
        have hn : okInt n = true := by simpa [canon] using hv
        obtain ⟨r1, r2⟩ := readUvarint0 (zigzagEnc n) (zz_lt n hn) (encFields id rest ++ tail)
        simp only [TVal.wireType, encVal, if_true, r1, r2, ih2, zz_back n hn, pyFields, pyOf, ids32, has32, has64]
        simp
      | i64 n =>
        have hn : okInt n = true := by simpa [canon] using hv
        obtain ⟨r1, r2⟩ := readUvarint0 (zigzagEnc n) (zz_lt n hn) (encFields id rest ++ tail)
        have e5 : ¬ ((6 : Nat) = 5) := by omega
        simp only [TVal.wireType, encVal, e5, if_false, true_or, if_true, r1, r2, ih2, zz_back n hn, pyFields, pyOf, ids32, has32, has64]
        simp
      | double bits =>
        have hb : bits < 2 ^ 64 := by simpa [canon] using hv
        have hl8 : (leBytes 8 bits).length = 8 := leBytes_length 8 bits
        have hlen : ¬ ((leBytes 8 bits ++ (encFields id rest ++ tail)).length < 8) := by
          rw [List.length_append, hl8]; omega
        have hval : leNat (leBytes 8 bits) = bits := by
          rw [leNat_leBytes]; exact Nat.mod_eq_of_lt (by norm_num at hb ⊢; exact hb)
        have e5 : ¬ ((7 : Nat) = 5) := by omega
        have e6 : ¬ ((7 : Nat) = 6 ∨ (7 : Nat) = 4) := by omega
        simp only [TVal.wireType, encVal, e5, e6, if_false, if_true, hlen, List.take_left' hl8, List.drop_left' hl8, hval, ih2,
          pyFields, pyOf, ids32, has32, has64]
        simp
      | binary bs =>
        have hn : bs.length < 2 ^ 64 := by simpa [canon] using hv
        obtain ⟨r1, r2⟩ := readUvarint0 bs.length hn (bs ++ (encFields id rest ++ tail))
        have hlen : ¬ ((bs ++ (encFields id rest ++ tail)).length < bs.length) := by simp
        have e5 : ¬ ((8 : Nat) = 5) := by omega
        have e6 : ¬ ((8 : Nat) = 6 ∨ (8 : Nat) = 4) := by omega
        have e7 : ¬ ((8 : Nat) = 7) := by omega
        simp only [TVal.wireType, encVal, List.append_assoc, e5, e6, e7, if_false, if_true, r1, r2, hlen,
          List.take_left' rfl, List.drop_left' rfl, ih2, pyFields, pyOf, ids32, has32, has64]
        simp
      | list ety items =>
        simp only [canon, Bool.and_eq_true, decide_eq_true_eq] at hv
        obtain ⟨⟨hne, hlen⟩, hitems⟩ := hv
        obtain ⟨g, rfl⟩ : ∃ g, f = g + 1 := ⟨f - 1, by simp only [TVal.sz] at hs1; omega⟩
        have hsz : itemsSz items ≤ g := by simp only [TVal.sz] at hs1; omega
        have hety : ety < 16 := by
          cases items with
          | nil => exact absurd rfl hne
          | cons a t =>
            cases a <;> simp [canonItems] at hitems <;> omega
        have ih1 := readItems_enc ety items hitems g hsz (encFields id rest ++ tail)
        have hl := readList_open g ety items.length (encItems items ++ (encFields id rest ++ tail)) hety hlen
        have e5 : ¬ ((9 : Nat) = 5) := by omega
        have e6 : ¬ ((9 : Nat) = 6 ∨ (9 : Nat) = 4) := by omega
        have e7 : ¬ ((9 : Nat) = 7) := by omega
        have e8 : ¬ ((9 : Nat) = 8) := by omega
        simp only [TVal.wireType, encVal, List.append_assoc, e5, e6, e7, e8, if_false, if_true, hl, ih1, ih2,
          pyFields, pyOf, ids32, has32, has64]
        simp
      | struct fsv =>
        have hfs : canonFields 0 fsv = true := by simpa [canon] using hv
        obtain ⟨g, rfl⟩ : ∃ g, f = g + 1 := ⟨f - 1, by simp only [TVal.sz] at hs1; omega⟩
        have hsz : fieldsSz fsv ≤ g := by simp only [TVal.sz] at hs1; omega
        have ih1 := readFields_enc fsv 0 hfs g hsz [] false false [] (encFields id rest ++ tail) (by intro e he; cases he)
        have ht := readThrift_of_fields fsv g _ _ ih1
        have e5 : ¬ ((12 : Nat) = 5) := by omega
        have e6 : ¬ ((12 : Nat) = 6 ∨ (12 : Nat) = 4) := by omega
        have e7 : ¬ ((12 : Nat) = 7) := by omega
        have e8 : ¬ ((12 : Nat) = 8) := by omega
        have e9 : ¬ ((12 : Nat) = 9) := by omega
        simp only [TVal.wireType, encVal, e5, e6, e7, e8, e9, if_false, if_true, ht, ih2, pyFields, ids32, has32, has64]
        simp
      | i8 n => simp [canon] at hv
      | i16 n => simp [canon] at hv
end


/-- everything that has an IDL-level reading is in the canonical shape -/
theorem spec_canon_all : ∀ (fuel : Nat),
    (∀ m es steps i prev fs, specFields fuel m es steps i = some fs → prev < i → i + steps ≤ PqV.Gen.Specs.loopHi →
        canonFields prev fs = true) ∧
    (∀ m es fs, specThrift fuel m es = some fs → canonFields 0 fs = true) ∧
    (∀ items t, specList fuel items = some t → canon t = true) ∧
    (∀ kind items ts, specListItems fuel kind items = some ts → canonItems (tyOf kind) ts = true) := by
  intro fuel
  induction fuel with
  | zero =>
    refine ⟨?_, ?_, ?_, ?_⟩
    · intro m es steps i prev fs h; simp [specFields] at h
    · intro m es fs h; simp [specThrift] at h
    · intro items t h; simp [specList] at h
    · intro kind items ts h; simp [specListItems] at h
  | succ f ih =>
    obtain ⟨ihF, ihT, ihL, ihI⟩ := ih
    refine ⟨?_, ?_, ?_, ?_⟩
    · intro m es steps i prev fs h hprev hhi
      cases steps with
      | zero => simp [specFields] at h; subst h; rfl
      | succ steps =>
        have hid : i < PqV.Gen.Specs.loopHi := by omega
        have hnext : i + 1 + steps ≤ PqV.Gen.Specs.loopHi := by omega
        simp only [specFields] at h
        cases hl : lookup es i with
        | none => simp only [hl] at h; exact ihF m es steps (i + 1) prev fs h (by omega) hnext
        | some v =>
          cases v with
          | none => simp only [hl] at h; exact ihF m es steps (i + 1) prev fs h (by omega) hnext
          | bool b =>
            simp only [hl] at h
            cases hr : specFields f m es steps (i + 1) with
            | none => simp [hr] at h
            | some r =>
              simp only [hr, Option.some.injEq] at h; subst h
              simp [canonFields, canon, hprev, hid, ihF m es steps (i + 1) i r hr (by omega) hnext]
          | int n =>
            simp only [hl] at h
            by_cases hok : okInt n = true
            · simp only [hok, if_true] at h
              cases hr : specFields f m es steps (i + 1) with
              | none => simp [hr] at h
              | some r =>
                simp only [hr, Option.some.injEq] at h; subst h
                by_cases h32 : isI32 m i = true <;>
                  simp [canonFields, canon, hprev, hid, hok, h32, ihF m es steps (i + 1) i r hr (by omega) hnext]
            · rw [if_neg hok] at h; simp at h
          | float bits =>
            simp only [hl] at h
            by_cases hb : bits < 2 ^ 64
            · simp only [hb, if_true] at h
              cases hr : specFields f m es steps (i + 1) with
              | none => simp [hr] at h
              | some r =>
                simp only [hr, Option.some.injEq] at h; subst h
                simp [canonFields, canon, hprev, hid, ihF m es steps (i + 1) i r hr (by omega) hnext]
                norm_num at hb ⊢; exact hb
            · rw [if_neg hb] at h; simp at h
          | bytes bs =>
            simp only [hl] at h
            by_cases hb : bs.length < 2 ^ 64
            · simp only [hb, if_true] at h
              cases hr : specFields f m es steps (i + 1) with
              | none => simp [hr] at h
              | some r =>
                simp only [hr, Option.some.injEq] at h; subst h
                simp [canonFields, canon, hprev, hid, ihF m es steps (i + 1) i r hr (by omega) hnext]
                norm_num at hb ⊢; exact hb
            · rw [if_neg hb] at h; simp at h
          | str bs =>
            simp only [hl] at h
            by_cases hb : bs.length < 2 ^ 64
            · simp only [hb, if_true] at h
              cases hr : specFields f m es steps (i + 1) with
              | none => simp [hr] at h
              | some r =>
                simp only [hr, Option.some.injEq] at h; subst h
                simp [canonFields, canon, hprev, hid, ihF m es steps (i + 1) i r hr (by omega) hnext]
                norm_num at hb ⊢; exact hb
            · rw [if_neg hb] at h; simp at h
          | list items =>
            simp only [hl] at h
            cases ht : specList f items with
            | none => simp [ht] at h
            | some t =>
              cases hr : specFields f m es steps (i + 1) with
              | none => simp [ht, hr] at h
              | some r =>
                simp only [ht, hr, Option.some.injEq] at h; subst h
                simp [canonFields, hprev, hid, ihL items t ht, ihF m es steps (i + 1) i r hr (by omega) hnext]
          | dict m' es' =>
            simp only [hl] at h
            cases ht : specThrift f m' es' with
            | none => simp [ht] at h
            | some fs' =>
              cases hr : specFields f m es steps (i + 1) with
              | none => simp [ht, hr] at h
              | some r =>
                simp only [ht, hr, Option.map_some, Option.some.injEq] at h; subst h
                simp [canonFields, canon, hprev, hid, ihT m' es' fs' ht, ihF m es steps (i + 1) i r hr (by omega) hnext]
    · intro m es fs h
      simp only [specThrift] at h
      exact ihF m es _ _ 0 fs h (by decide) (by decide)
    · intro items t h
      cases items with
      | nil => simp [specList] at h
      | cons first rest =>
        rw [specList_eq] at h
        by_cases hlen : (first :: rest).length < 2 ^ 64
        · simp only [hlen, if_true] at h
          rw [Option.map_eq_some_iff] at h
          obtain ⟨its, hi, rfl⟩ := h
          have hl := specListItems_length _ _ _ _ hi
          have hne : its ≠ [] := by
            intro e; rw [e] at hl; simp at hl
          have hlt : its.length < 2 ^ 64 := by rw [hl]; exact hlen
          simp only [canon, Bool.and_eq_true, decide_eq_true_eq]
          exact ⟨⟨hne, hlt⟩, ihI _ _ its hi⟩
        · rw [if_neg hlen] at h; cases h
    · intro kind items ts h
      cases items with
      | nil => simp [specListItems] at h; subst h; rfl
      | cons v vs =>
        simp only [specListItems] at h
        split at h
        · rename_i a b ha hb
          injection h with h; subst h
          have hrest := ihI kind vs b hb
          match kind, v, ha with
          | 0, .int n, ha =>
            simp only at ha
            by_cases hok : okInt n = true
            · simp only [hok, if_true, Option.some.injEq] at ha; subst ha
              simpa [canonItems, tyOf, hok] using hrest
            · rw [if_neg hok] at ha; cases ha
          | 1, .bytes bs, ha =>
            simp only at ha
            by_cases hb' : bs.length < 2 ^ 64
            · simp only [hb', if_true, Option.some.injEq] at ha; subst ha
              have : bs.length < 18446744073709551616 := by norm_num at hb' ⊢; exact hb'
              simpa [canonItems, tyOf, this] using hrest
            · rw [if_neg hb'] at ha; cases ha
          | 1, .str bs, ha =>
            simp only at ha
            by_cases hb' : bs.length < 2 ^ 64
            · simp only [hb', if_true, Option.some.injEq] at ha; subst ha
              have : bs.length < 18446744073709551616 := by norm_num at hb' ⊢; exact hb'
              simpa [canonItems, tyOf, this] using hrest
            · rw [if_neg hb'] at ha; cases ha
          | 2, .dict m es, ha =>
            simp only at ha
            cases ht : specThrift f m es with
            | none => simp [ht] at ha
            | some fs' =>
              simp only [ht, Option.map_some, Option.some.injEq] at ha; subst ha
              have := ihT m es fs' ht
              simpa [canonItems, tyOf, this] using hrest
        · cases h

/-- the reader model on the specification encoding of a canonical structure -/
theorem fromBuffer_enc (fs : List (Nat × TVal)) (hc : canonFields 0 fs = true) (tail : List Nat) :
    fromBuffer (encFields 0 fs ++ tail) = some (pyOf (.struct fs), tail) := by
  unfold fromBuffer
  have hsz := fieldsSz_le fs 0
  have hf : 2 * (encFields 0 fs ++ tail).length + 4 = (2 * (encFields 0 fs ++ tail).length + 3) + 1 := by omega
  rw [hf]
  apply readThrift_of_fields
  exact readFields_enc fs 0 hc _ (by simp only [List.length_append]; omega) [] false false [] tail (by intro e he; cases he)

/-- **write then read, both through the models of the real code**: whenever a structure has an
    IDL-level reading `fs`, `from_buffer(to_bytes(x) + tail)` succeeds, consumes exactly the
    serialised bytes, and returns the structure that stands for `fs`. -/
theorem fromBuffer_toBytes (m : Marker) (es : List (Nat × PyT)) (fs : List (Nat × TVal)) (tail : List Nat)
    (h : specThrift ((PyT.dict m es).weight + 2) m es = some fs) :
    ∃ out, toBytes (.dict m es) = some out ∧ fromBuffer (out ++ tail) = some (pyOf (.struct fs), tail) := by
  refine ⟨encFields 0 fs, ?_, fromBuffer_enc fs ((spec_canon_all _).2.1 m es fs h) tail⟩
  simp only [toBytes]
  exact (refine_all _).2.1 m es fs h

end PqV.Impl.ThriftSer
