import PqV.Lemmas.ThriftSerRefine
namespace PqV.Impl.ThriftSer
open PqV.Impl PqV.Spec

/-! ## the reader model inverts the specification encoder on everything the serialiser can emit -/

/-! the shape of what `to_bytes` emits: field ids inside the serialiser's loop range, only
    bool / i32 / i64 / double / binary / list / struct values, non-empty lists of i32 / binary / struct -/
mutual
  def canon : TVal → Bool
    | .bool _ => true
    | .i32 n => okInt n
    | .i64 n => okInt n
    | .double b => decide (b < 2 ^ 64)
    | .binary bs => decide (bs.length < 2 ^ 64)
    | .list ety items => decide (items ≠ []) && decide (items.length < 2 ^ 64) && canonItems ety items
    | .struct fs => canonFields 0 fs
    | .i8 _ => false
    | .i16 _ => false
  def canonItems (ety : Nat) : List TVal → Bool
    | [] => true
    | v :: vs =>
      (match v with
        | .i32 n => decide (ety = 5) && okInt n
        | .binary bs => decide (ety = 8) && decide (bs.length < 2 ^ 64)
        | .struct fs => decide (ety = 12) && canonFields 0 fs
        | _ => false) && canonItems ety vs
  def canonFields (prev : Nat) : List (Nat × TVal) → Bool
    | [] => true
    | (id, v) :: rest => decide (prev < id) && decide (id < PqV.Gen.Specs.loopHi) && canon v && canonFields id rest
end

/-! what the reader returns for a specification value -/
mutual
  def pyOf : TVal → PyT
    | .bool b => .bool b
    | .i8 n => .int n
    | .i16 n => .int n
    | .i32 n => .int n
    | .i64 n => .int n
    | .double b => .float b
    | .binary bs => .bytes bs
    | .list _ items => .list (pyItems items)
    | .struct fs => .dict (if has32 fs then (if has64 fs then .ids (ids32 fs) else .all) else .none) (pyFields fs)
  def pyItems : List TVal → List PyT
    | [] => []
    | v :: vs => (match v with | .binary bs => PyT.str bs | .struct fs => pyOf (.struct fs) | .i32 n => .int n | _ => PyT.none) :: pyItems vs
  def pyFields : List (Nat × TVal) → List (Nat × PyT)
    | [] => []
    | (id, v) :: rest => (id, pyOf v) :: pyFields rest
  def has32 : List (Nat × TVal) → Bool
    | [] => false
    | (_, v) :: rest => (match v with | .i32 _ => true | _ => false) || has32 rest
  def has64 : List (Nat × TVal) → Bool
    | [] => false
    | (_, v) :: rest => (match v with | .i64 _ => true | _ => false) || has64 rest
  def ids32 : List (Nat × TVal) → List Nat
    | [] => []
    | (id, v) :: rest => (match v with | .i32 _ => [id] | _ => []) ++ ids32 rest
end

theorem nibbles : ∀ d, d < 16 → ∀ t, t < 16 → ((d * 16 + t) &&& 0xF0) / 16 = d ∧ ((d * 16 + t) &&& 0x0F) = t := by
  decide +kernel

theorem readUvarint0 (x : Nat) (hx : x < 2 ^ 64) (rest : List Nat) :
    readUvarint (uvarintEnc x ++ rest) 0 = .ok (x, uvarintLen x) ∧ (uvarintEnc x ++ rest).drop (uvarintLen x) = rest := by
  have := readUvarint_enc x hx [] rest
  simp only [List.nil_append, List.length_nil, Nat.zero_add] at this
  exact ⟨this, List.drop_left' rfl⟩

theorem zz_lt (n : Int) (h : okInt n = true) : zigzagEnc n < 2 ^ 64 := by
  simp only [okInt, Bool.and_eq_true, decide_eq_true_eq] at h
  unfold zigzagEnc
  split
  · have h2 : 2 * n < 2 ^ 64 := by have := h.2; omega
    omega
  · have := h.1; omega

theorem zz_back (n : Int) (h : okInt n = true) : zigzagLong (zigzagEnc n) = n := by
  rw [zigzagLong_eq _ (zz_lt n h), zigzag_rt]


theorem filter_noop (acc : List (Nat × PyT)) (prev id : Nat) (h : ∀ e ∈ acc, e.1 ≤ prev) (hp : prev < id) :
    acc.filter (·.1 != id) = acc := by
  rw [List.filter_eq_self]
  intro e he
  have := h e he
  simp only [bne_iff_ne, ne_eq]
  omega

/-- the head of `readFields` on a short-form field header: id and type nibble recovered -/
theorem readFields_head (f prev id t : Nat) (r : List Nat) (acc : List (Nat × PyT)) (h32 h64 : Bool) (i32s : List Nat)
    (hp : prev < id) (hid : id < 16) (ht1 : 1 ≤ t) (ht : t < 16) :
    ((id - prev) * 16 + t ≠ 0) ∧ ((prev + (((id - prev) * 16 + t) &&& 0xF0) / 16) % 256 = id) ∧ ((((id - prev) * 16 + t) &&& 0x0F) = t) := by
  obtain ⟨n1, n2⟩ := nibbles (id - prev) (by omega) t ht
  refine ⟨by omega, ?_, n2⟩
  rw [n1]; omega

theorem readFields_bool (f prev id : Nat) (b : Bool) (r : List Nat) (acc : List (Nat × PyT)) (h32 h64 : Bool) (i32s : List Nat)
    (hp : prev < id) (hid : id < 16) (hacc : ∀ e ∈ acc, e.1 ≤ prev) :
    readFields (f + 1) (((id - prev) * 16 + (if b then 1 else 2)) :: r) prev acc h32 h64 i32s
      = readFields f r id (acc ++ [(id, .bool b)]) h32 h64 i32s := by
  obtain ⟨h0, h1, h2⟩ := readFields_head f prev id (if b then 1 else 2) r acc h32 h64 i32s hp hid (by split <;> omega) (by split <;> omega)
  conv => lhs; unfold readFields
  split
  · rename_i heq; cases heq
  · rename_i heq; injection heq with ha; exact absurd ha h0
  · rename_i byte r' hne heq
    injection heq with ha hb
    subst ha; subst hb
    simp only [h1, h2, filter_noop acc prev id hacc hp]
    cases b <;> simp

/-- `readFields` opened on a short-form header: the field id and the type nibble are what the encoder put there -/
theorem readFields_open (f prev id t : Nat) (r : List Nat) (acc : List (Nat × PyT)) (h32 h64 : Bool) (i32s : List Nat)
    (hp : prev < id) (hid : id < 16) (ht1 : 1 ≤ t) (ht : t < 16) (hacc : ∀ e ∈ acc, e.1 ≤ prev) :
    readFields (f + 1) (((id - prev) * 16 + t) :: r) prev acc h32 h64 i32s =
      (let put (v : PyT) (r' : List Nat) (h32' h64' : Bool) (i32s' : List Nat) :=
          readFields f r' id (acc ++ [(id, v)]) h32' h64' i32s'
        if t = 5 then
          match readUvarint r 0 with
          | .ok (u, k) => put (.int (zigzagLong u)) (r.drop k) true h64 (i32s ++ [id])
          | .error _ => Option.none
        else if t = 6 ∨ t = 4 then
          match readUvarint r 0 with
          | .ok (u, k) => put (.int (zigzagLong u)) (r.drop k) h32 (h64 || t == 6) i32s
          | .error _ => Option.none
        else if t = 7 then
          if r.length < 8 then Option.none else put (.float (leNat (r.take 8))) (r.drop 8) h32 h64 i32s
        else if t = 8 then
          match readUvarint r 0 with
          | .ok (n, k) => if (r.drop k).length < n then Option.none else put (.bytes ((r.drop k).take n)) ((r.drop k).drop n) h32 h64 i32s
          | .error _ => Option.none
        else if t = 9 then
          match readList f r with
          | some (l, r') => put (.list l) r' h32 h64 i32s
          | Option.none => Option.none
        else if t = 12 then
          match readThrift f r with
          | some (d, r') => put d r' h32 h64 i32s
          | Option.none => Option.none
        else if t = 1 then put (.bool true) r h32 h64 i32s
        else if t = 2 then put (.bool false) r h32 h64 i32s
        else if t = 3 then
          match r with | b :: r' => put (.int b) r' h32 h64 i32s | [] => Option.none
        else Option.none) := by
  obtain ⟨h0, h1, h2⟩ := readFields_head f prev id t r acc h32 h64 i32s hp hid ht1 ht
  conv => lhs; unfold readFields
  split
  · rename_i heq; cases heq
  · rename_i heq; injection heq with ha; exact absurd ha h0
  · rename_i byte r' hne heq
    injection heq with ha hb
    subst ha; subst hb
    simp only [h1, h2, filter_noop acc prev id hacc hp]
    rfl


theorem readThrift_of_fields (fs : List (Nat × TVal)) (f : Nat) (bs tail : List Nat)
    (h : readFields f bs 0 [] false false [] = some ([] ++ pyFields fs, [] ++ ids32 fs, false || has32 fs, false || has64 fs, tail)) :
    readThrift (f + 1) bs = some (pyOf (.struct fs), tail) := by
  simp only [readThrift, h, Option.map_some, pyOf, List.nil_append, Bool.false_or]

/-- list header of the specification encoder, read by `read_list` -/
theorem readList_open (g ety n : Nat) (body : List Nat) (hety : ety < 16) (hn : n < 2 ^ 64) :
    readList (g + 1) ((if n < 15 then [n * 16 + ety] else (0xF0 + ety) :: uvarintEnc n) ++ body)
      = readItems g ety n body := by
  by_cases hl : n < 15
  · obtain ⟨n1, n2⟩ := nibbles n (by omega) ety hety
    have hlt : ¬ (n * 16 + ety ≥ PqV.Gen.Specs.readLongFrom) := by
      simp only [PqV.Gen.Specs.readLongFrom]; omega
    simp only [hl, if_true, List.cons_append, List.nil_append, readList, hlt, if_false, n1, n2]
  · have hge : (0xF0 + ety ≥ PqV.Gen.Specs.readLongFrom) := by
      simp only [PqV.Gen.Specs.readLongFrom]; omega
    have n2 : (0xF0 + ety) &&& 0x0F = ety := by
      have := (nibbles 15 (by omega) ety hety).2
      have e : 15 * 16 + ety = 0xF0 + ety := by omega
      rw [e] at this; exact this
    obtain ⟨r1, r2⟩ := readUvarint0 n hn body
    simp only [hl, if_false, List.cons_append, readList, hge, if_true, n2, r1, r2]


theorem loopHi_le : PqV.Gen.Specs.loopHi ≤ 16 := by decide

mutual
  theorem readItems_enc (ety : Nat) : ∀ (items : List TVal), canonItems ety items = true → ∀ (fuel : Nat), itemsSz items ≤ fuel →
      ∀ (tail : List Nat), readItems fuel ety items.length (encItems items ++ tail) = some (pyItems items, tail)
    | [], _, fuel, hf, tail => by
      obtain ⟨f, rfl⟩ : ∃ f, fuel = f + 1 := ⟨fuel - 1, by simp [itemsSz] at hf; omega⟩
      simp [readItems, encItems, pyItems]
    | v :: vs, hok, fuel, hf, tail => by
      obtain ⟨f, rfl⟩ : ∃ f, fuel = f + 1 := ⟨fuel - 1, by simp [itemsSz] at hf; omega⟩
      have hs1 : v.sz ≤ f := by simp only [itemsSz] at hf; omega
      have hs2 : itemsSz vs ≤ f := by simp only [itemsSz] at hf; omega
      cases v with
      | i32 n =>
        simp only [canonItems, Bool.and_eq_true, decide_eq_true_eq] at hok
        obtain ⟨⟨rfl, hn⟩, hvs⟩ := hok
        have ih2 := readItems_enc 5 vs hvs f hs2 tail
        obtain ⟨r1, r2⟩ := readUvarint0 (zigzagEnc n) (zz_lt n hn) (encItems vs ++ tail)
        simp only [List.length_cons, encItems, encVal, List.append_assoc, readItems, true_or, if_true, r1, r2, ih2,
          Option.map_some, zz_back n hn, pyItems]
      | binary bs =>
        simp only [canonItems, Bool.and_eq_true, decide_eq_true_eq] at hok
        obtain ⟨⟨rfl, hn⟩, hvs⟩ := hok
        have ih2 := readItems_enc 8 vs hvs f hs2 tail
        obtain ⟨r1, r2⟩ := readUvarint0 bs.length hn (bs ++ (encItems vs ++ tail))
        have hlen : ¬ ((bs ++ (encItems vs ++ tail)).length < bs.length) := by simp
        have e5 : ¬ ((8 : Nat) = 5 ∨ (8 : Nat) = 6) := by omega
        simp only [List.length_cons, encItems, encVal, List.append_assoc, readItems, e5, if_false, if_true, r1, r2, hlen,
          List.take_left' rfl, List.drop_left' rfl, ih2, Option.map_some, pyItems]
      | struct fs =>
        simp only [canonItems, Bool.and_eq_true, decide_eq_true_eq] at hok
        obtain ⟨⟨rfl, hfs⟩, hvs⟩ := hok
        have ih2 := readItems_enc 12 vs hvs f hs2 tail
        obtain ⟨g, rfl⟩ : ∃ g, f = g + 1 := ⟨f - 1, by simp only [TVal.sz] at hs1; omega⟩
        have hsz : fieldsSz fs ≤ g := by simp only [TVal.sz] at hs1; omega
        have ih1 := readFields_enc fs 0 hfs g hsz [] false false [] (encItems vs ++ tail) (by intro e he; cases he)
        have ht := readThrift_of_fields fs g _ _ ih1
        have e5 : ¬ ((12 : Nat) = 5 ∨ (12 : Nat) = 6) := by omega
        have e8 : ¬ ((12 : Nat) = 8) := by omega
        simp only [List.length_cons, encItems, encVal, List.append_assoc, readItems, e5, e8, if_false, ht, ih2,
          Option.map_some, pyItems]
      | bool b => simp [canonItems] at hok
      | i8 n => simp [canonItems] at hok
      | i16 n => simp [canonItems] at hok
      | i64 n => simp [canonItems] at hok
      | double b => simp [canonItems] at hok
      | list e its => simp [canonItems] at hok
  theorem readFields_enc : ∀ (fs : List (Nat × TVal)) (prev : Nat), canonFields prev fs = true → ∀ (fuel : Nat), fieldsSz fs ≤ fuel →
      ∀ (acc : List (Nat × PyT)) (h32 h64 : Bool) (i32s tail : List Nat), (∀ e ∈ acc, e.1 ≤ prev) →
      readFields fuel (encFields prev fs ++ tail) prev acc h32 h64 i32s
        = some (acc ++ pyFields fs, i32s ++ ids32 fs, h32 || has32 fs, h64 || has64 fs, tail)
    | [], prev, _, fuel, hf, acc, h32, h64, i32s, tail, _ => by
      obtain ⟨f, rfl⟩ : ∃ f, fuel = f + 1 := ⟨fuel - 1, by simp [fieldsSz] at hf; omega⟩
      simp [readFields, encFields, pyFields, ids32, has32, has64]
    | (id, v) :: rest, prev, hok, fuel, hf, acc, h32, h64, i32s, tail, hacc => by
      obtain ⟨f, rfl⟩ : ∃ f, fuel = f + 1 := ⟨fuel - 1, by simp [fieldsSz] at hf; omega⟩
      simp only [canonFields, Bool.and_eq_true, decide_eq_true_eq] at hok
      obtain ⟨⟨⟨hp, hid⟩, hv⟩, hrest⟩ := hok
      have hid16 : id < 16 := Nat.lt_of_lt_of_le hid loopHi_le
      have hs1 : v.sz ≤ f := by simp only [fieldsSz] at hf; omega
      have hs2 : fieldsSz rest ≤ f := by simp only [fieldsSz] at hf; omega
      have hshort : prev < id ∧ id - prev ≤ 15 := ⟨hp, by omega⟩
      obtain ⟨hwt, hwt1⟩ := wireType_lt v
      have hacc' : ∀ (x : PyT), ∀ e ∈ acc ++ [(id, x)], e.1 ≤ id := by
        intro x e he
        rcases List.mem_append.mp he with h | h
        · have := hacc e h; omega
        · simp only [List.mem_singleton] at h; subst h; exact Nat.le_refl _
      have ih2 := fun (x : PyT) (a b : Bool) (c : List Nat) =>
        readFields_enc rest id hrest f hs2 (acc ++ [(id, x)]) a b c tail (hacc' x)
      simp only [encFields, hshort, and_self, if_true, List.cons_append, List.nil_append, List.append_assoc]
      rw [readFields_open f prev id v.wireType _ acc h32 h64 i32s hp hid16 hwt1 hwt hacc]
      cases v with
      | bool b =>
        cases b <;>
          simp [TVal.wireType, encVal, ih2, pyFields, pyOf, ids32, has32, has64]
      | i32 n =>
        have hn : okInt n = true := by simpa [canon] using hv
        obtain ⟨r1, r2⟩ := readUvarint0 (zigzagEnc n) (zz_lt n hn) (encFields id rest ++ tail)
        simp only [TVal.wireType, encVal, if_true, r1, r2, ih2, zz_back n hn, pyFields, pyOf, ids32, has32, has64]
        simp
      | i64 n =>
        have hn : okInt n = true := by simpa [canon] using hv
        obtain ⟨r1, r2⟩ := readUvarint0 (zigzagEnc n) (zz_lt n hn) (encFields id rest ++ tail)
        have e5 : ¬ ((6 : Nat) = 5) := by omega
        simp only [TVal.wireType, encVal, e5, if_false, true_or, if_true, r1, r2, ih2, zz_back n hn, pyFields, pyOf, ids32, has32, has64]
        simp
      | double bits =>
        have hb : bits < 2 ^ 64 := by simpa [canon] using hv
        have hl8 : (leBytes 8 bits).length = 8 := leBytes_length 8 bits
        have hlen : ¬ ((leBytes 8 bits ++ (encFields id rest ++ tail)).length < 8) := by
          rw [List.length_append, hl8]; omega
        have hval : leNat (leBytes 8 bits) = bits := by
          rw [leNat_leBytes]; exact Nat.mod_eq_of_lt (by norm_num at hb ⊢; exact hb)
        have e5 : ¬ ((7 : Nat) = 5) := by omega
        have e6 : ¬ ((7 : Nat) = 6 ∨ (7 : Nat) = 4) := by omega
        simp only [TVal.wireType, encVal, e5, e6, if_false, if_true, hlen, List.take_left' hl8, List.drop_left' hl8, hval, ih2,
          pyFields, pyOf, ids32, has32, has64]
        simp
      | binary bs =>
        have hn : bs.length < 2 ^ 64 := by simpa [canon] using hv
        obtain ⟨r1, r2⟩ := readUvarint0 bs.length hn (bs ++ (encFields id rest ++ tail))
        have hlen : ¬ ((bs ++ (encFields id rest ++ tail)).length < bs.length) := by simp
        have e5 : ¬ ((8 : Nat) = 5) := by omega
        have e6 : ¬ ((8 : Nat) = 6 ∨ (8 : Nat) = 4) := by omega
        have e7 : ¬ ((8 : Nat) = 7) := by omega
        simp only [TVal.wireType, encVal, List.append_assoc, e5, e6, e7, if_false, if_true, r1, r2, hlen,
          List.take_left' rfl, List.drop_left' rfl, ih2, pyFields, pyOf, ids32, has32, has64]
        simp
      | list ety items =>
        simp only [canon, Bool.and_eq_true, decide_eq_true_eq] at hv
        obtain ⟨⟨hne, hlen⟩, hitems⟩ := hv
        obtain ⟨g, rfl⟩ : ∃ g, f = g + 1 := ⟨f - 1, by simp only [TVal.sz] at hs1; omega⟩
        have hsz : itemsSz items ≤ g := by simp only [TVal.sz] at hs1; omega
        have hety : ety < 16 := by
          cases items with
          | nil => exact absurd rfl hne
          | cons a t =>
            cases a <;> simp [canonItems] at hitems <;> omega
        have ih1 := readItems_enc ety items hitems g hsz (encFields id rest ++ tail)
        have hl := readList_open g ety items.length (encItems items ++ (encFields id rest ++ tail)) hety hlen
        have e5 : ¬ ((9 : Nat) = 5) := by omega
        have e6 : ¬ ((9 : Nat) = 6 ∨ (9 : Nat) = 4) := by omega
        have e7 : ¬ ((9 : Nat) = 7) := by omega
        have e8 : ¬ ((9 : Nat) = 8) := by omega
        simp only [TVal.wireType, encVal, List.append_assoc, e5, e6, e7, e8, if_false, if_true, hl, ih1, ih2,
          pyFields, pyOf, ids32, has32, has64]
        simp
      | struct fsv =>
        have hfs : canonFields 0 fsv = true := by simpa [canon] using hv
        obtain ⟨g, rfl⟩ : ∃ g, f = g + 1 := ⟨f - 1, by simp only [TVal.sz] at hs1; omega⟩
        have hsz : fieldsSz fsv ≤ g := by simp only [TVal.sz] at hs1; omega
        have ih1 := readFields_enc fsv 0 hfs g hsz [] false false [] (encFields id rest ++ tail) (by intro e he; cases he)
        have ht := readThrift_of_fields fsv g _ _ ih1
        have e5 : ¬ ((12 : Nat) = 5) := by omega
        have e6 : ¬ ((12 : Nat) = 6 ∨ (12 : Nat) = 4) := by omega
        have e7 : ¬ ((12 : Nat) = 7) := by omega
        have e8 : ¬ ((12 : Nat) = 8) := by omega
        have e9 : ¬ ((12 : Nat) = 9) := by omega
        simp only [TVal.wireType, encVal, e5, e6, e7, e8, e9, if_false, if_true, ht, ih2, pyFields, ids32, has32, has64]
        simp
      | i8 n => simp [canon] at hv
      | i16 n => simp [canon] at hv
end


/-- everything that has an IDL-level reading is in the canonical shape -/
theorem spec_canon_all : ∀ (fuel : Nat),
    (∀ m es steps i prev fs, specFields fuel m es steps i = some fs → prev < i → i + steps ≤ PqV.Gen.Specs.loopHi →
        canonFields prev fs = true) ∧
    (∀ m es fs, specThrift fuel m es = some fs → canonFields 0 fs = true) ∧
    (∀ items t, specList fuel items = some t → canon t = true) ∧
    (∀ kind items ts, specListItems fuel kind items = some ts → canonItems (tyOf kind) ts = true) := by
  intro fuel
  induction fuel with
  | zero =>
    refine ⟨?_, ?_, ?_, ?_⟩
    · intro m es steps i prev fs h; simp [specFields] at h
    · intro m es fs h; simp [specThrift] at h
    · intro items t h; simp [specList] at h
    · intro kind items ts h; simp [specListItems] at h
  | succ f ih =>
    obtain ⟨ihF, ihT, ihL, ihI⟩ := ih
    refine ⟨?_, ?_, ?_, ?_⟩
    · intro m es steps i prev fs h hprev hhi
      cases steps with
      | zero => simp [specFields] at h; subst h; rfl
      | succ steps =>
        have hid : i < PqV.Gen.Specs.loopHi := by omega
        have hnext : i + 1 + steps ≤ PqV.Gen.Specs.loopHi := by omega
        simp only [specFields] at h
        cases hl : lookup es i with
        | none => simp only [hl] at h; exact ihF m es steps (i + 1) prev fs h (by omega) hnext
        | some v =>
          cases v with
          | none => simp only [hl] at h; exact ihF m es steps (i + 1) prev fs h (by omega) hnext
          | bool b =>
            simp only [hl] at h
            cases hr : specFields f m es steps (i + 1) with
            | none => simp [hr] at h
            | some r =>
              simp only [hr, Option.some.injEq] at h; subst h
              simp [canonFields, canon, hprev, hid, ihF m es steps (i + 1) i r hr (by omega) hnext]
          | int n =>
            simp only [hl] at h
            by_cases hok : okInt n = true
            · simp only [hok, if_true] at h
              cases hr : specFields f m es steps (i + 1) with
              | none => simp [hr] at h
              | some r =>
                simp only [hr, Option.some.injEq] at h; subst h
                by_cases h32 : isI32 m i = true <;>
                  simp [canonFields, canon, hprev, hid, hok, h32, ihF m es steps (i + 1) i r hr (by omega) hnext]
            · rw [if_neg hok] at h; simp at h
          | float bits =>
            simp only [hl] at h
            by_cases hb : bits < 2 ^ 64
            · simp only [hb, if_true] at h
              cases hr : specFields f m es steps (i + 1) with
              | none => simp [hr] at h
              | some r =>
                simp only [hr, Option.some.injEq] at h; subst h
                simp [canonFields, canon, hprev, hid, ihF m es steps (i + 1) i r hr (by omega) hnext]
                norm_num at hb ⊢; exact hb
            · rw [if_neg hb] at h; simp at h
          | bytes bs =>
            simp only [hl] at h
            by_cases hb : bs.length < 2 ^ 64
            · simp only [hb, if_true] at h
              cases hr : specFields f m es steps (i + 1) with
              | none => simp [hr] at h
              | some r =>
                simp only [hr, Option.some.injEq] at h; subst h
                simp [canonFields, canon, hprev, hid, ihF m es steps (i + 1) i r hr (by omega) hnext]
                norm_num at hb ⊢; exact hb
            · rw [if_neg hb] at h; simp at h
          | str bs =>
            simp only [hl] at h
            by_cases hb : bs.length < 2 ^ 64
            · simp only [hb, if_true] at h
              cases hr : specFields f m es steps (i + 1) with
              | none => simp [hr] at h
              | some r =>
                simp only [hr, Option.some.injEq] at h; subst h
                simp [canonFields, canon, hprev, hid, ihF m es steps (i + 1) i r hr (by omega) hnext]
                norm_num at hb ⊢; exact hb
            · rw [if_neg hb] at h; simp at h
          | list items =>
            simp only [hl] at h
            cases ht : specList f items with
            | none => simp [ht] at h
            | some t =>
              cases hr : specFields f m es steps (i + 1) with
              | none => simp [ht, hr] at h
              | some r =>
                simp only [ht, hr, Option.some.injEq] at h; subst h
                simp [canonFields, hprev, hid, ihL items t ht, ihF m es steps (i + 1) i r hr (by omega) hnext]
          | dict m' es' =>
            simp only [hl] at h
            cases ht : specThrift f m' es' with
            | none => simp [ht] at h
            | some fs' =>
              cases hr : specFields f m es steps (i + 1) with
              | none => simp [ht, hr] at h
              | some r =>
                simp only [ht, hr, Option.map_some, Option.some.injEq] at h; subst h
                simp [canonFields, canon, hprev, hid, ihT m' es' fs' ht, ihF m es steps (i + 1) i r hr (by omega) hnext]
    · intro m es fs h
      simp only [specThrift] at h
      exact ihF m es _ _ 0 fs h (by decide) (by decide)
    · intro items t h
      cases items with
      | nil => simp [specList] at h
      | cons first rest =>
        rw [specList_eq] at h
        by_cases hlen : (first :: rest).length < 2 ^ 64
        · simp only [hlen, if_true] at h
          rw [Option.map_eq_some_iff] at h
          obtain ⟨its, hi, rfl⟩ := h
          have hl := specListItems_length _ _ _ _ hi
          have hne : its ≠ [] := by
            intro e; rw [e] at hl; simp at hl
          have hlt : its.length < 2 ^ 64 := by rw [hl]; exact hlen
          simp only [canon, Bool.and_eq_true, decide_eq_true_eq]
          exact ⟨⟨hne, hlt⟩, ihI _ _ its hi⟩
        · rw [if_neg hlen] at h; cases h
    · intro kind items ts h
      cases items with
      | nil => simp [specListItems] at h; subst h; rfl
      | cons v vs =>
        simp only [specListItems] at h
        split at h
        · rename_i a b ha hb
          injection h with h; subst h
          have hrest := ihI kind vs b hb
          match kind, v, ha with
          | 0, .int n, ha =>
            simp only at ha
            by_cases hok : okInt n = true
            · simp only [hok, if_true, Option.some.injEq] at ha; subst ha
              simpa [canonItems, tyOf, hok] using hrest
            · rw [if_neg hok] at ha; cases ha
          | 1, .bytes bs, ha =>
            simp only at ha
            by_cases hb' : bs.length < 2 ^ 64
            · simp only [hb', if_true, Option.some.injEq] at ha; subst ha
              have : bs.length < 18446744073709551616 := by norm_num at hb' ⊢; exact hb'
              simpa [canonItems, tyOf, this] using hrest
            · rw [if_neg hb'] at ha; cases ha
          | 1, .str bs, ha =>
            simp only at ha
            by_cases hb' : bs.length < 2 ^ 64
            · simp only [hb', if_true, Option.some.injEq] at ha; subst ha
              have : bs.length < 18446744073709551616 := by norm_num at hb' ⊢; exact hb'
              simpa [canonItems, tyOf, this] using hrest
            · rw [if_neg hb'] at ha; cases ha
          | 2, .dict m es, ha =>
            simp only at ha
            cases ht : specThrift f m es with
            | none => simp [ht] at ha
            | some fs' =>
              simp only [ht, Option.map_some, Option.some.injEq] at ha; subst ha
              have := ihT m es fs' ht
              simpa [canonItems, tyOf, this] using hrest
        · cases h

/-- the reader model on the specification encoding of a canonical structure -/
theorem fromBuffer_enc (fs : List (Nat × TVal)) (hc : canonFields 0 fs = true) (tail : List Nat) :
    fromBuffer (encFields 0 fs ++ tail) = some (pyOf (.struct fs), tail) := by
  unfold fromBuffer
  have hsz := fieldsSz_le fs 0
  have hf : 2 * (encFields 0 fs ++ tail).length + 4 = (2 * (encFields 0 fs ++ tail).length + 3) + 1 := by omega
  rw [hf]
  apply readThrift_of_fields
  exact readFields_enc fs 0 hc _ (by simp only [List.length_append]; omega) [] false false [] tail (by intro e he; cases he)

/-- **write then read, both through the models of the real code**: whenever a structure has an
    IDL-level reading `fs`, `from_buffer(to_bytes(x) + tail)` succeeds, consumes exactly the
    serialised bytes, and returns the structure that stands for `fs`. -/
theorem fromBuffer_toBytes (m : Marker) (es : List (Nat × PyT)) (fs : List (Nat × TVal)) (tail : List Nat)
    (h : specThrift ((PyT.dict m es).weight + 2) m es = some fs) :
    ∃ out, toBytes (.dict m es) = some out ∧ fromBuffer (out ++ tail) = some (pyOf (.struct fs), tail) := by
  refine ⟨encFields 0 fs, ?_, fromBuffer_enc fs ((spec_canon_all _).2.1 m es fs h) tail⟩
  simp only [toBytes]
  exact (refine_all _).2.1 m es fs h


def markerOf (fs : List (Nat × TVal)) : Marker :=
  if has32 fs then (if has64 fs then .ids (ids32 fs) else .all) else .none

theorem pyOf_struct (fs : List (Nat × TVal)) : pyOf (.struct fs) = .dict (markerOf fs) (pyFields fs) := by
  simp [pyOf, markerOf]

/-! fuel the IDL-level reading of the read-back structure needs -/
mutual
  def need : TVal → Nat
    | .list _ items => 2 + needItems items
    | .struct fs => 16 + needFields fs
    | _ => 1
  def needItems : List TVal → Nat
    | [] => 1
    | v :: vs => 1 + max (need v) (needItems vs)
  def needFields : List (Nat × TVal) → Nat
    | [] => 1
    | (_, v) :: rest => max (need v) (needFields rest)
end

theorem lookup_pyFields_lt (fs : List (Nat × TVal)) (prev i : Nat) (h : canonFields prev fs = true) (hi : i ≤ prev) :
    lookup (pyFields fs) i = Option.none := by
  induction fs generalizing prev with
  | nil => simp [lookup, pyFields]
  | cons p rest ih =>
    obtain ⟨id, v⟩ := p
    simp only [canonFields, Bool.and_eq_true, decide_eq_true_eq] at h
    have hne : (id == i) = false := by simpa using (by omega : id ≠ i)
    have := ih id h.2 (by omega)
    simp only [lookup, pyFields, List.find?_cons, hne] at this ⊢
    exact this

theorem mem_ids32 (fs : List (Nat × TVal)) (i : Nat) : i ∈ ids32 fs ↔ ∃ n, (i, TVal.i32 n) ∈ fs := by
  induction fs with
  | nil => simp [ids32]
  | cons p rest ih =>
    obtain ⟨id, v⟩ := p
    cases v <;> simp [ids32, ih]
    · constructor
      · rintro (rfl | ⟨n, h⟩)
        · exact ⟨_, Or.inl ⟨rfl, rfl⟩⟩
        · exact ⟨n, Or.inr h⟩
      · rintro ⟨n, (⟨rfl, _⟩ | h)⟩
        · exact Or.inl rfl
        · exact Or.inr ⟨n, h⟩

theorem has32_of_mem (fs : List (Nat × TVal)) (i : Nat) (n : Int) (h : (i, TVal.i32 n) ∈ fs) : has32 fs = true := by
  induction fs with
  | nil => cases h
  | cons p rest ih =>
    obtain ⟨id, v⟩ := p
    rcases List.mem_cons.mp h with e | h'
    · injection e with e1 e2; subst e2; simp [has32]
    · simp [has32, ih h']

theorem has64_of_mem (fs : List (Nat × TVal)) (i : Nat) (n : Int) (h : (i, TVal.i64 n) ∈ fs) : has64 fs = true := by
  induction fs with
  | nil => cases h
  | cons p rest ih =>
    obtain ⟨id, v⟩ := p
    rcases List.mem_cons.mp h with e | h'
    · injection e with e1 e2; subst e2; simp [has64]
    · simp [has64, ih h']

/-- ids of a canonical field list are pairwise different -/
theorem canon_ids_gt (fs : List (Nat × TVal)) (prev : Nat) (h : canonFields prev fs = true) : ∀ p ∈ fs, prev < p.1 := by
  induction fs generalizing prev with
  | nil => intro p hp; cases hp
  | cons q rest ih =>
    obtain ⟨id, v⟩ := q
    simp only [canonFields, Bool.and_eq_true, decide_eq_true_eq] at h
    intro p hp
    rcases List.mem_cons.mp hp with rfl | hp'
    · exact h.1.1.1
    · have := ih id h.2 p hp'; omega


/-- the serialiser's loop steps over ids that are not present -/
theorem specFields_skip (m : Marker) (entries : List (Nat × PyT)) : ∀ (k fuel steps i : Nat),
    (∀ j, i ≤ j → j < i + k → lookup entries j = Option.none) → k ≤ fuel →
    specFields fuel m entries (k + steps) i = specFields (fuel - k) m entries steps (i + k) := by
  intro k
  induction k with
  | zero => intro fuel steps i _ _; simp
  | succ k ih =>
    intro fuel steps i hmiss hf
    obtain ⟨f, rfl⟩ : ∃ f, fuel = f + 1 := ⟨fuel - 1, by omega⟩
    have h0 : lookup entries i = Option.none := hmiss i (Nat.le_refl _) (by omega)
    have e : k + 1 + steps = (k + steps) + 1 := by omega
    rw [e]
    simp only [specFields, h0]
    rw [ih f steps (i + 1) (fun j h1 h2 => hmiss j (by omega) (by omega)) (by omega)]
    have e1 : f + 1 - (k + 1) = f - k := by omega
    have e2 : i + 1 + k = i + (k + 1) := by omega
    rw [e1, e2]

theorem canon_unique (fs : List (Nat × TVal)) (prev : Nat) (h : canonFields prev fs = true) :
    ∀ p ∈ fs, ∀ q ∈ fs, p.1 = q.1 → p = q := by
  induction fs generalizing prev with
  | nil => intro p hp; cases hp
  | cons a rest ih =>
    obtain ⟨id, v⟩ := a
    have h' := h
    simp only [canonFields, Bool.and_eq_true, decide_eq_true_eq] at h'
    have hgt := canon_ids_gt rest id h'.2
    intro p hp q hq e
    rcases List.mem_cons.mp hp with rfl | hp' <;> rcases List.mem_cons.mp hq with rfl | hq'
    · rfl
    · have := hgt q hq'; simp only at e; omega
    · have := hgt p hp'; simp only at e; omega
    · exact ih id h'.2 p hp' q hq' e

theorem lookup_hit (fs : List (Nat × TVal)) (prev : Nat) (h : canonFields prev fs = true) :
    ∀ p ∈ fs, lookup (pyFields fs) p.1 = some (pyOf p.2) := by
  induction fs generalizing prev with
  | nil => intro p hp; cases hp
  | cons a rest ih =>
    obtain ⟨id, v⟩ := a
    have h' := h
    simp only [canonFields, Bool.and_eq_true, decide_eq_true_eq] at h'
    have hgt := canon_ids_gt rest id h'.2
    intro p hp
    rcases List.mem_cons.mp hp with rfl | hp'
    · simp [lookup, pyFields]
    · have hne : (id == p.1) = false := by
        have := hgt p hp'
        simpa using (by omega : id ≠ p.1)
      have := ih id h'.2 p hp'
      simp only [lookup, pyFields, List.find?_cons, hne] at this ⊢
      exact this

theorem lookup_miss (fs : List (Nat × TVal)) (j : Nat) (h : ∀ p ∈ fs, p.1 ≠ j) : lookup (pyFields fs) j = Option.none := by
  induction fs with
  | nil => simp [lookup, pyFields]
  | cons a rest ih =>
    obtain ⟨id, v⟩ := a
    have hne : (id == j) = false := by simpa using h (id, v) List.mem_cons_self
    have := ih (fun p hp => h p (List.mem_cons_of_mem _ hp))
    simp only [lookup, pyFields, List.find?_cons, hne] at this ⊢
    exact this

theorem marker_i32 (fs : List (Nat × TVal)) (prev : Nat) (h : canonFields prev fs = true) (i : Nat) (n : Int)
    (hm : (i, TVal.i32 n) ∈ fs) : isI32 (markerOf fs) i = true := by
  have h32 := has32_of_mem fs i n hm
  simp only [markerOf, h32, if_true]
  split
  · simp only [isI32, List.contains_eq_mem, decide_eq_true_eq]
    exact (mem_ids32 fs i).mpr ⟨n, hm⟩
  · rfl

theorem marker_i64 (fs : List (Nat × TVal)) (prev : Nat) (h : canonFields prev fs = true) (i : Nat) (n : Int)
    (hm : (i, TVal.i64 n) ∈ fs) : isI32 (markerOf fs) i = false := by
  have h64 := has64_of_mem fs i n hm
  simp only [markerOf, h64, if_true]
  split
  · simp only [isI32, List.contains_eq_mem, decide_eq_false_iff_not]
    intro hc
    obtain ⟨n', hn'⟩ := (mem_ids32 fs i).mp hc
    have := canon_unique fs prev h _ hm _ hn' rfl
    injection this with _ e2
    cases e2
  · rfl


def kindOfTy (ety : Nat) : Nat := if ety = 5 then 0 else if ety = 8 then 1 else 2

/-- what the fields theorem needs to know about the whole field list the loop looks fields up in -/
structure LookOk (all : List (Nat × TVal)) (m : Marker) (rest : List (Nat × TVal)) (prev : Nat) : Prop where
  hit : ∀ p ∈ rest, lookup (pyFields all) p.1 = some (pyOf p.2)
  miss : ∀ j, prev < j → (∀ p ∈ rest, p.1 ≠ j) → lookup (pyFields all) j = Option.none
  m32 : ∀ p ∈ rest, ∀ n, p.2 = TVal.i32 n → isI32 m p.1 = true
  m64 : ∀ p ∈ rest, ∀ n, p.2 = TVal.i64 n → isI32 m p.1 = false

theorem LookOk.tail {all m id v rest prev} (h : LookOk all m ((id, v) :: rest) prev) (hp : prev < id) : LookOk all m rest id :=
  ⟨fun p hp' => h.hit p (List.mem_cons_of_mem _ hp'),
   fun j hj hne => h.miss j (by omega) (fun p hp' => by
     rcases List.mem_cons.mp hp' with rfl | hp''
     · simp only; omega
     · exact hne p hp''),
   fun p hp' => h.m32 p (List.mem_cons_of_mem _ hp'),
   fun p hp' => h.m64 p (List.mem_cons_of_mem _ hp')⟩

theorem lookOk_self (fs : List (Nat × TVal)) (h : canonFields 0 fs = true) : LookOk fs (markerOf fs) fs 0 :=
  ⟨lookup_hit fs 0 h, fun j _ hne => lookup_miss fs j hne,
   fun p hp n e => marker_i32 fs 0 h p.1 n (by rw [← e]; exact hp),
   fun p hp n e => marker_i64 fs 0 h p.1 n (by rw [← e]; exact hp)⟩

mutual
  theorem specItems_py (ety : Nat) : ∀ (items : List TVal), canonItems ety items = true → ∀ (fuel : Nat), needItems items ≤ fuel →
      specListItems fuel (kindOfTy ety) (pyItems items) = some items
    | [], _, fuel, hf => by
      obtain ⟨f, rfl⟩ : ∃ f, fuel = f + 1 := ⟨fuel - 1, by simp [needItems] at hf; omega⟩
      simp [specListItems, pyItems]
    | v :: vs, hok, fuel, hf => by
      obtain ⟨f, rfl⟩ : ∃ f, fuel = f + 1 := ⟨fuel - 1, by simp [needItems] at hf; omega⟩
      have hs1 : need v ≤ f := by simp only [needItems] at hf; omega
      have hs2 : needItems vs ≤ f := by simp only [needItems] at hf; omega
      cases v with
      | i32 n =>
        simp only [canonItems, Bool.and_eq_true, decide_eq_true_eq] at hok
        obtain ⟨⟨rfl, hn⟩, hvs⟩ := hok
        have ih2 := specItems_py 5 vs hvs f hs2
        simp only [kindOfTy, if_true] at ih2 ⊢
        simp only [pyItems, specListItems, hn, if_true, ih2]
      | binary bs =>
        simp only [canonItems, Bool.and_eq_true, decide_eq_true_eq] at hok
        obtain ⟨⟨rfl, hn⟩, hvs⟩ := hok
        have ih2 := specItems_py 8 vs hvs f hs2
        have e : kindOfTy 8 = 1 := by decide
        rw [e] at ih2 ⊢
        simp only [pyItems, specListItems, hn, if_true, ih2]
      | struct fs =>
        simp only [canonItems, Bool.and_eq_true, decide_eq_true_eq] at hok
        obtain ⟨⟨rfl, hfs⟩, hvs⟩ := hok
        have ih2 := specItems_py 12 vs hvs f hs2
        have e : kindOfTy 12 = 2 := by decide
        rw [e] at ih2 ⊢
        obtain ⟨g, rfl⟩ : ∃ g, f = g + 1 := ⟨f - 1, by simp only [need] at hs1; omega⟩
        have hnf : 13 + needFields fs ≤ g := by simp only [need] at hs1; omega
        have ih1 := specFields_py fs 0 hfs fs (markerOf fs) (lookOk_self fs hfs) 1 13 g (by omega)
          (fun p hp => canon_ids_gt fs 0 hfs p hp) (by decide) hnf
        have ht : specThrift (g + 1) (markerOf fs) (pyFields fs) = some fs := by
          simp only [specThrift]; exact ih1
        simp only [pyItems, pyOf_struct, specListItems, ht, Option.map_some, ih2]
      | bool b => simp [canonItems] at hok
      | i8 n => simp [canonItems] at hok
      | i16 n => simp [canonItems] at hok
      | i64 n => simp [canonItems] at hok
      | double b => simp [canonItems] at hok
      | list e its => simp [canonItems] at hok
  theorem specFields_py : ∀ (rest : List (Nat × TVal)) (prev : Nat), canonFields prev rest = true →
      ∀ (all : List (Nat × TVal)) (m : Marker), LookOk all m rest prev → ∀ (i steps fuel : Nat), prev < i →
      (∀ p ∈ rest, i ≤ p.1) → i + steps = PqV.Gen.Specs.loopHi → steps + needFields rest ≤ fuel →
      specFields fuel m (pyFields all) steps i = some rest
    | [], prev, _, all, m, hl, i, steps, fuel, hp, _, _, hf => by
      have hskip := specFields_skip m (pyFields all) steps fuel 0 i
        (fun j h1 _ => hl.miss j (by omega) (fun p hp' => by cases hp')) (by simp only [needFields] at hf; omega)
      simp only [Nat.add_zero] at hskip
      rw [hskip]
      obtain ⟨f, hf'⟩ : ∃ f, fuel - steps = f + 1 := ⟨fuel - steps - 1, by simp only [needFields] at hf; omega⟩
      rw [hf']
      simp [specFields]
    | (id, v) :: rest, prev, hok, all, m, hl, i, steps, fuel, hp, hge, hsum, hf => by
      have hok' := hok
      simp only [canonFields, Bool.and_eq_true, decide_eq_true_eq] at hok'
      obtain ⟨⟨⟨hpid, hid⟩, hv⟩, hrest⟩ := hok'
      have hi : i ≤ id := hge (id, v) List.mem_cons_self
      have hgt := canon_ids_gt rest id hrest
      -- skip the absent ids i .. id-1
      obtain ⟨s, hs⟩ : ∃ s, steps = (id - i) + (s + 1) := ⟨steps - (id - i) - 1, by omega⟩
      have hskip := specFields_skip m (pyFields all) (id - i) fuel (s + 1) i
        (fun j h1 h2 => hl.miss j (by omega) (fun p hp' => by
          rcases List.mem_cons.mp hp' with rfl | hp''
          · simp only; omega
          · have := hgt p hp''; omega)) (by omega)
      rw [hs, hskip]
      have hii : i + (id - i) = id := by omega
      rw [hii]
      obtain ⟨f, hf'⟩ : ∃ f, fuel - (id - i) = f + 1 := ⟨fuel - (id - i) - 1, by omega⟩
      rw [hf']
      have hnv : need v ≤ f := by simp only [needFields] at hf; omega
      have hnr : s + needFields rest ≤ f := by simp only [needFields] at hf; omega
      have hlook := hl.hit (id, v) List.mem_cons_self
      simp only at hlook
      have ih2 := specFields_py rest id hrest all m (hl.tail hpid) (id + 1) s f (by omega)
        (fun p hp' => by have := hgt p hp'; omega) (by omega) hnr
      cases v with
      | bool b =>
        simp only [pyOf] at hlook
        simp only [specFields, hlook, ih2]
      | i32 n =>
        have hn : okInt n = true := by simpa [canon] using hv
        have h32 := hl.m32 (id, .i32 n) List.mem_cons_self n rfl
        simp only [pyOf] at hlook
        simp only at h32
        simp only [specFields, hlook, hn, if_true, h32, ih2]
      | i64 n =>
        have hn : okInt n = true := by simpa [canon] using hv
        have h64 := hl.m64 (id, .i64 n) List.mem_cons_self n rfl
        simp only [pyOf] at hlook
        simp only at h64
        simp only [specFields, hlook, hn, if_true, h64, ih2]
        simp
      | double bits =>
        have hb : bits < 2 ^ 64 := by simpa [canon] using hv
        simp only [pyOf] at hlook
        simp only [specFields, hlook, hb, if_true, ih2]
      | binary bs =>
        have hb : bs.length < 2 ^ 64 := by simpa [canon] using hv
        simp only [pyOf] at hlook
        simp only [specFields, hlook, hb, if_true, ih2]
      | list ety items =>
        simp only [canon, Bool.and_eq_true, decide_eq_true_eq] at hv
        obtain ⟨⟨hne, hlen⟩, hitems⟩ := hv
        obtain ⟨g, rfl⟩ : ∃ g, f = g + 1 := ⟨f - 1, by simp only [need] at hnv; omega⟩
        have hni : needItems items ≤ g := by simp only [need] at hnv; omega
        have ih1 := specItems_py ety items hitems g hni
        simp only [pyOf] at hlook
        -- the list's element type is the first item's
        have hlist : specList (g + 1) (pyItems items) = some (TVal.list ety items) := by
          cases items with
          | nil => exact absurd rfl hne
          | cons a t =>
            have hlen' : (pyItems (a :: t)).length < 2 ^ 64 := by
              have : ∀ l : List TVal, (pyItems l).length = l.length := by
                intro l; induction l with
                | nil => rfl
                | cons x xs ihx => simp [pyItems, ihx]
              rw [this]; exact hlen
            cases a with
            | i32 n =>
              have e : ety = 5 := by simp [canonItems] at hitems; exact hitems.1.1
              subst e
              simp only [pyItems] at ih1 hlen' ⊢
              rw [specList_eq]
              simp only [hlen', if_true, kindOf, tyOf]
              simp only [kindOfTy, if_true] at ih1
              rw [ih1]; rfl
            | binary bs =>
              have e : ety = 8 := by simp [canonItems] at hitems; exact hitems.1.1
              subst e
              simp only [pyItems] at ih1 hlen' ⊢
              rw [specList_eq]
              simp only [hlen', if_true, kindOf, tyOf]
              have e1 : kindOfTy 8 = 1 := by decide
              rw [e1] at ih1
              rw [ih1]; rfl
            | struct fs' =>
              have e : ety = 12 := by simp [canonItems] at hitems; exact hitems.1.1
              subst e
              simp only [pyItems, pyOf_struct] at ih1 hlen' ⊢
              rw [specList_eq]
              simp only [hlen', if_true, kindOf, tyOf]
              have e1 : kindOfTy 12 = 2 := by decide
              rw [e1] at ih1
              rw [ih1]; rfl
            | bool b => simp [canonItems] at hitems
            | i8 n => simp [canonItems] at hitems
            | i16 n => simp [canonItems] at hitems
            | i64 n => simp [canonItems] at hitems
            | double b => simp [canonItems] at hitems
            | list e its => simp [canonItems] at hitems
        simp only [specFields, hlook, hlist, ih2]
      | struct fsv =>
        have hfs : canonFields 0 fsv = true := by simpa [canon] using hv
        obtain ⟨g, rfl⟩ : ∃ g, f = g + 1 := ⟨f - 1, by simp only [need] at hnv; omega⟩
        have hnf : 13 + needFields fsv ≤ g := by simp only [need] at hnv; omega
        have ih1 := specFields_py fsv 0 hfs fsv (markerOf fsv) (lookOk_self fsv hfs) 1 13 g (by omega)
          (fun p hp' => canon_ids_gt fsv 0 hfs p hp') (by decide) hnf
        have ht : specThrift (g + 1) (markerOf fsv) (pyFields fsv) = some fsv := by
          simp only [specThrift]; exact ih1
        rw [pyOf_struct] at hlook
        simp only [specFields, hlook, ht, Option.map_some, ih2]
      | i8 n => simp [canon] at hv
      | i16 n => simp [canon] at hv
end


/-- **nothing of the IDL-level reading is lost by write + read**: the structure `from_buffer` returns
    for the bytes of `to_bytes x` has the same IDL-level reading as `x` -/
theorem spec_of_readback (fs : List (Nat × TVal)) (hc : canonFields 0 fs = true) (fuel : Nat) (hf : 15 + needFields fs ≤ fuel) :
    specThrift fuel (markerOf fs) (pyFields fs) = some fs := by
  obtain ⟨g, rfl⟩ : ∃ g, fuel = g + 1 := ⟨fuel - 1, by omega⟩
  simp only [specThrift]
  exact specFields_py fs 0 hc fs (markerOf fs) (lookOk_self fs hc) 1 13 g (by omega)
    (fun p hp => canon_ids_gt fs 0 hc p hp) (by decide) (by omega)

theorem roundtrip_same_reading (m : Marker) (es : List (Nat × PyT)) (fs : List (Nat × TVal)) (tail : List Nat)
    (h : specThrift ((PyT.dict m es).weight + 2) m es = some fs) :
    ∃ out m' es', toBytes (.dict m es) = some out ∧ fromBuffer (out ++ tail) = some (.dict m' es', tail) ∧
      ∀ fuel, 15 + needFields fs ≤ fuel → specThrift fuel m' es' = some fs := by
  obtain ⟨out, h1, h2⟩ := fromBuffer_toBytes m es fs tail h
  rw [pyOf_struct] at h2
  exact ⟨out, _, _, h1, h2, fun fuel hf => spec_of_readback fs ((spec_canon_all _).2.1 m es fs h) fuel hf⟩

end PqV.Impl.ThriftSer
