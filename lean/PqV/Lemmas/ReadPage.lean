/-
  Lemmas.ReadPage — fastparquet's own reader (model `Impl.readDataPage` + `placePage`, tied to `core.read_data_page` by
  the `rpage.v1` stream) applied to the page its own writer lays down (model `Impl.writerPageBody`, tied by `wpage.chunk`)
  returns the cells that went in: through `read_def`, through the `skip_definition_bytes` shortcut, through
  `read_plain`, and through the byte-exact `np.frombuffer` shortcut for 8/16/32-bit dictionary codes.
-/
import PqV.Lemmas.WritePage
import PqV.Lemmas.SkipDef
namespace PqV.Impl
open PqV.Spec

def encOf (c : ColSpec) : Nat := if c.dictItem.isSome then ENC_RLE_DICTIONARY else ENC_PLAIN
def dictOf (c : ColSpec) (cats : List Cell) : Option (List Cell) := if c.dictItem.isSome then some cats else none

/-- what the value section of a written page reads back as -/
def valsOf (c : ColSpec) (vals : List Cell) : PageVals :=
  match c.dictItem with
  | none => .plain vals
  | some _ => .indices (vals.map fun x => (cellNat x : Int))

/-! ### `np.frombuffer` over a run of little-endian items -/

theorem chunk_flatMap (k : Nat) (L : List Nat) (tail : List Nat) (hL : ∀ v ∈ L, v < 256 ^ k) :
    ∀ i (hi : i < L.length), leNat (((L.flatMap (leBytes k) ++ tail).drop (i * k)).take k) = L[i] := by
  induction L with
  | nil => intro i hi; simp at hi
  | cons v vs ih =>
    intro i hi
    have hv : v < 256 ^ k := hL v List.mem_cons_self
    cases i with
    | zero =>
      simp only [Nat.zero_mul, List.drop_zero, List.flatMap_cons, List.append_assoc, List.getElem_cons_zero]
      rw [List.take_left' (leBytes_length _ _), leNat_leBytes, Nat.mod_eq_of_lt hv]
    | succ j =>
      have e : (j + 1) * k = (leBytes k v).length + j * k := by rw [leBytes_length]; ring
      simp only [List.flatMap_cons, List.append_assoc, List.getElem_cons_succ]
      rw [e, List.drop_append, leBytes_length]
      have hz : (leBytes k v).drop (k + j * k) = [] := by
        apply List.drop_eq_nil_of_le; rw [leBytes_length]; omega
      rw [hz, List.nil_append, Nat.add_sub_cancel_left]
      exact ih (fun x hx => hL x (List.mem_cons_of_mem _ hx)) j (by simpa using hi)

theorem toSigned_small (bits u : Nat) (h : u < 2 ^ (bits - 1)) (hb : 1 ≤ bits) : toSigned bits u = (u : Int) := by
  unfold toSigned
  have hlt : 2 ^ (bits - 1) < 2 ^ bits := Nat.pow_lt_pow_right (by norm_num) (by omega)
  have : u % 2 ^ bits = u := Nat.mod_eq_of_lt (by omega)
  simp [this, h]

/-! ### the value section -/

theorem readValues_written (c : ColSpec) (hpt : c.ptype ≤ 7) (ncats : Nat) (vals : List Cell) (tail : List Nat)
    (hok : ∀ v ∈ vals, valOk c ncats v = true)
    (hitem : ∀ item, c.dictItem = some item → (item = 1 ∨ item = 2 ∨ item = 4) ∧ ∀ v ∈ vals, cellNat v < 2 ^ (item * 8 - 1)) :
    readValues c.ptype c.typeLength (encOf c) true vals.length (writerValues c vals ++ tail) = some (valsOf c vals) := by
  unfold readValues encOf valsOf writerValues
  cases hd : c.dictItem with
  | none =>
    have hok' : ∀ v ∈ vals, plainOk c.ptype c.typeLength v = true := by
      intro v hv; have := hok v hv; simpa [valOk, hd] using this
    simp only [Option.isSome_none, Bool.false_eq_true, if_false, if_true,
      writerPlain_decodes c.ptype c.typeLength hpt vals tail hok', Option.map_some]
  | some item =>
    obtain ⟨hi124, hsmall⟩ := hitem item hd
    have hcodes : ∀ v ∈ vals, ∃ n, v = Cell.int n ∧ n < ncats ∧ n < 256 ^ item := by
      intro v hv
      have := hok v hv
      cases v with
      | null => simp [valOk, hd] at this
      | int n => exact ⟨n, rfl, by simpa [valOk, hd] using this⟩
      | bytes b => simp [valOk, hd] at this
    set codes := vals.map cellNat with hcd
    have hlen : codes.length = vals.length := by simp [hcd]
    have hc256 : ∀ v ∈ codes, v < 256 ^ item := by
      intro v hv
      obtain ⟨x, hx, rfl⟩ := List.mem_map.mp hv
      obtain ⟨n, rfl, _, h2⟩ := hcodes x hx
      exact h2
    set g := (codes.length + 7) / 8 with hg
    set L := codes ++ List.replicate (g * 8 - codes.length) 0 with hLd
    have hLlen : L.length = g * 8 := by simp [hLd]; omega
    have hL256 : ∀ v ∈ L, v < 256 ^ item := by
      intro v hv
      rcases List.mem_append.mp hv with h1 | h1
      · exact hc256 v h1
      · rw [List.mem_replicate] at h1; rw [h1.2]; exact Nat.pow_pos (by norm_num)
    have hshape : writerDictData item codes ++ tail
        = (item * 8) :: (uvarintEnc (g * 2 + 1) ++ (L.flatMap (leBytes item) ++ tail)) := by
      rw [writerDictData_eq]
      simp only [hLd, List.flatMap_append, flatMap_replicate_zero, ← hg]
      simp [List.append_assoc]
    have h0 : ¬ (ENC_RLE_DICTIONARY = ENC_PLAIN) := by decide
    have hbw : (item * 8 = 8 ∨ item * 8 = 16 ∨ item * 8 = 32) := by omega
    have hdiv : item * 8 / 8 = item := by omega
    have hnum : (g * 2 + 1) / 2 * 8 = g * 8 := by omega
    have hroom : ¬ ((L.flatMap (leBytes item) ++ tail).length < g * 8 * item) := by
      rw [List.length_append, flatMap_length_const (leBytes item) item L (fun x _ => leBytes_length _ _), hLlen]; omega
    simp only [Option.isSome_some, if_true, h0, if_false, or_true, hshape, hbw, and_self, uvarint_rt, hnum, hdiv, hroom]
    congr 2
    -- the items read are L, the first `n` of them the codes
    have hmap : (List.range (g * 8)).map (fun i => toSigned (item * 8) (leNat (((L.flatMap (leBytes item) ++ tail).drop (i * item)).take item)))
        = L.map (fun v => toSigned (item * 8) v) := by
      apply List.ext_getElem
      · simp [hLlen]
      · intro i h1 h2
        have hi : i < L.length := by simpa using h2
        simp only [List.getElem_map, List.getElem_range]
        rw [chunk_flatMap item L tail hL256 i hi]
    rw [hmap, hLd, List.map_append, ← hlen, List.take_left' (by simp)]
    rw [hcd, List.map_map]
    apply List.map_congr_left
    intro x hx
    have hs := hsmall x hx
    simp only [Function.comp]
    exact toSigned_small (item * 8) (cellNat x) hs (by omega)

/-! ### levels: `read_def`, and the shortcut over a null-free block -/

theorem leafOf_maxDef_nulls (c : ColSpec) (h : c.hasNulls = true) : (leafOf c).maxDef = 1 := by simp [leafOf, h]
theorem leafOf_maxDef_req (c : ColSpec) (h : c.hasNulls = false) : (leafOf c).maxDef = 0 := by simp [leafOf, h]

theorem nonNull_length_le (cells : List Cell) : (nonNull cells).length ≤ cells.length := List.length_filter_le _ _

theorem nonNull_of_no_null (cells : List Cell) (h : ∀ v ∈ cells, v ≠ Cell.null) : nonNull cells = cells :=
  List.filter_eq_self.mpr (by intro a ha; simpa using h a ha)

theorem readDef_written (c : ColSpec) (hv : c.v2 = false) (hn : c.hasNulls = true) (cells : List Cell) (rest : List Nat)
    (hfit : (writerDefBody (notNullBits cells)).length < 2 ^ 32) :
    readDef (leafOf c).maxDef cells.length (writerLevels c cells ++ rest)
      = some (if cells.length - (nonNull cells).length = 0 then none else some (notNullBits cells),
              cells.length - (nonNull cells).length, rest) := by
  have hL := (levels_v1 c hv cells rest hfit).1
  have hC := count_levels c cells (by intro h; rw [hn] at h; cases h)
  have hlv : levelsOf c cells = notNullBits cells := by simp [levelsOf, hn]
  unfold readDef
  rw [hL]
  rw [hlv] at hC
  simp only [hlv, hC]

/-- the block the writer lays down for a page without nulls is exactly as long as what `skip_definition_bytes` steps over -/
theorem skip_written_block (c : ColSpec) (hv : c.v2 = false) (hn : c.hasNulls = true) (cells : List Cell) (rest : List Nat)
    (hall : ∀ v ∈ cells, v ≠ Cell.null) :
    (writerLevels c cells ++ rest).drop (skipLen cells.length) = rest := by
  have hbits : (notNullBits cells).all (· == 1) = true := by
    rw [List.all_eq_true]
    intro b hb
    obtain ⟨x, hx, rfl⟩ := List.mem_map.mp hb
    simp [hall x hx]
  have hlen : (writerLevels c cells).length = skipLen cells.length := by
    rw [skipLen_eq_blockLen]
    simp only [writerLevels, hn, if_true, writerDefBlock_eq, hv, Bool.false_eq_true, if_false, writerDefBody_eq, hbits,
      List.length_append, leBytes_length, notNullBits_length, List.length_cons, List.length_nil, blockLen,
      PqV.Gen.SkipDef.lenPrefix, PqV.Gen.SkipDef.shift, uvarintLen, Nat.shiftLeft_eq, Nat.pow_one]
    omega
  rw [← hlen, List.drop_left' rfl]

/-! ### dictionary look-up and placement -/

theorem deref_written (c : ColSpec) (cats : List Cell) (vals : List Cell) (hok : ∀ v ∈ vals, valOk c cats.length v = true) :
    deref (dictOf c cats) (valsOf c vals) = some (vals.map (render c cats)) := by
  unfold valsOf dictOf deref
  cases hd : c.dictItem with
  | none =>
    simp only
    congr 1
    conv => lhs; rw [← List.map_id vals]
    apply List.map_congr_left; intro x _; simp [render, hd]
  | some item =>
    simp only [Option.isSome_some, if_true]
    induction vals with
    | nil => simp
    | cons v vs ih =>
      have hv := hok v List.mem_cons_self
      have ih' := ih (fun x hx => hok x (List.mem_cons_of_mem _ hx))
      cases v with
      | null => simp [valOk, hd] at hv
      | bytes b => simp [valOk, hd] at hv
      | int n =>
        have hn : n < cats.length := by have := hv; simp [valOk, hd] at this; exact this.1
        have hstep : (if (0 : Int) ≤ ((cellNat (Cell.int n) : Nat) : Int) then cats[((cellNat (Cell.int n) : Nat) : Int).toNat]?
            else if ((cellNat (Cell.int n) : Nat) : Int).natAbs ≤ cats.length then cats[cats.length - ((cellNat (Cell.int n) : Nat) : Int).natAbs]? else none)
            = some cats[n] := by
          simp [cellNat, List.getElem?_eq_getElem hn]
        rw [List.map_cons, List.mapM_cons, hstep, ih']
        simp [render, hd, List.getD_eq_getElem?_getD, List.getElem?_eq_getElem hn]

/-- **the reader reads back what the writer wrote (v1 page)**: `core.read_data_page` followed by `read_col`'s placement,
    applied to the page body `write_column` lays down for ANY cells — through the level block, or stepping over it when
    the chunk statistics say "no null" (`skip = true`, which the writer only records when no page has a null) — returns
    the cells; for a categorical column the category each code names. -/
theorem read_back_written_page (c : ColSpec) (hv : c.v2 = false) (hpt : c.ptype ≤ 7) (cats cells : List Cell)
    (hok : PageOk c cats.length cells) (skip : Bool) (hskip : skip = true → ∀ v ∈ cells, v ≠ Cell.null)
    (hitem : ∀ item, c.dictItem = some item →
      (item = 1 ∨ item = 2 ∨ item = 4) ∧ ∀ v ∈ nonNull cells, cellNat v < 2 ^ (item * 8 - 1)) :
    (readDataPage (!c.hasNulls) (leafOf c).maxDef c.ptype c.typeLength (encOf c) cells.length skip true
        (writerPageBody c cells)).bind (placePage (leafOf c).maxDef (dictOf c cats))
      = some (cells.map (render c cats)) := by
  have hbody : writerPageBody c cells = writerLevels c cells ++ (writerValues c (nonNull cells) ++ List.replicate 8 0) := by
    simp [writerPageBody, hv, (write_layout_now 0 0).2.2.2.2]
  have hRV := readValues_written c hpt cats.length (nonNull cells) (List.replicate 8 0) hok.vals_ok hitem
  have hDR := deref_written c cats (nonNull cells) hok.vals_ok
  rw [hbody]
  unfold readDataPage
  cases hn : c.hasNulls with
  | false =>
    -- REQUIRED column: no level block at all
    have hall := hok.no_nulls hn
    have hnn := nonNull_of_no_null cells hall
    rw [hnn] at hRV hDR
    simp only [Bool.not_false, not_true_eq_false, and_false, if_false, if_true, writerLevels, hn, Bool.false_eq_true,
      List.nil_append, hnn, hRV, Option.map_some, Option.bind_some, placePage, hDR]
  | true =>
    simp only [Bool.not_true, Bool.false_eq_true, not_false_eq_true, and_true, if_false]
    cases hs : skip with
    | true =>
      -- statistics say "no null": the level block is stepped over
      have hall := hskip hs
      have hnn := nonNull_of_no_null cells hall
      rw [hnn] at hRV hDR
      simp only [if_true, skip_written_block c hv hn cells _ hall, hnn, hRV, Option.map_some, Option.bind_some, placePage, hDR]
    | false =>
      simp only [Bool.false_eq_true, if_false, readDef_written c hv hn cells _ hok.fits]
      have hsub : cells.length - (cells.length - (nonNull cells).length) = (nonNull cells).length := by
        have := nonNull_length_le cells; omega
      rw [hsub, hRV]
      simp only [Option.map_some, Option.bind_some, placePage, hDR]
      by_cases hz : cells.length - (nonNull cells).length = 0
      · -- no null in this page: `definition_levels = None`, values fill the page
        have hlen : (nonNull cells).length = cells.length := by have := nonNull_length_le cells; omega
        have hnn : nonNull cells = cells := by
          unfold nonNull at hlen ⊢
          exact List.filter_eq_self.mpr (List.length_filter_eq_length_iff.mp hlen)
        simp [hz, hnn]
      · simp only [hz, if_false]
        have := scatter_page c cats cells (by intro h; rw [hn] at h; cases h)
        simp only [levelsOf, hn, if_true] at this
        rw [this]

/-! ### the chunk statistics and the reader's shortcut -/

theorem nonNull_full_no_null (cells : List Cell) (h : cells.length - (nonNull cells).length = 0) : ∀ v ∈ cells, v ≠ Cell.null := by
  have hlen : (nonNull cells).length = cells.length := by have := nonNull_length_le cells; omega
  have := List.length_filter_eq_length_iff.mp (by unfold nonNull at hlen; exact hlen)
  intro v hv
  simpa using this v hv

/-- a recorded null count of 0 means no page of the chunk holds a null (the tallies are naturals, so they are all 0) -/
theorem no_null_of_count_zero (pages : List (List Cell)) (h : writerNullCount pages = 0) : ∀ p ∈ pages, ∀ v ∈ p, v ≠ Cell.null := by
  unfold writerNullCount at h
  induction pages with
  | nil => intro p hp; cases hp
  | cons q qs ih =>
    simp only [List.map_cons, List.sum_cons] at h
    intro p hp
    rcases List.mem_cons.mp hp with rfl | hp'
    · exact nonNull_full_no_null p (by omega)
    · exact ih (by omega) p hp'

end PqV.Impl
