import PqV.Spec.Plain
import PqV.Lemmas.Hybrid
/-! Page-level lemmas of the specification reader: null scatter, page splitting, dictionary
look-up, PLAIN round trips. -/
namespace PqV.Spec

def countMax (maxDef : Nat) (defs : List Nat) : Nat := (defs.filter (· == maxDef)).length

theorem countMax_cons (m d : Nat) (ds : List Nat) :
    countMax m (d :: ds) = (if d = m then 1 else 0) + countMax m ds := by
  unfold countMax
  by_cases h : d = m <;> simp [List.filter_cons, h] <;> omega

theorem countMax_append (m : Nat) (a b : List Nat) : countMax m (a ++ b) = countMax m a + countMax m b := by
  simp [countMax, List.filter_append]

theorem scatter_length (m : Nat) (defs : List Nat) (vals : List Cell) :
    (scatter m defs vals).length = defs.length := by
  induction defs generalizing vals with
  | nil => simp [scatter]
  | cons d ds ih =>
    unfold scatter
    split
    · cases vals <;> simp [ih]
    · simp [ih]

/-- **page splitting**: scattering the concatenation of two pages equals scattering each page with
    its own values, provided the first page carries exactly as many values as it has non-null
    slots (what `num_values - num_nulls` guarantees). -/
theorem scatter_append (m : Nat) (d1 d2 : List Nat) (v1 v2 : List Cell) (h : v1.length = countMax m d1) :
    scatter m (d1 ++ d2) (v1 ++ v2) = scatter m d1 v1 ++ scatter m d2 v2 := by
  induction d1 generalizing v1 with
  | nil =>
    have : v1 = [] := by simpa [countMax] using h
    subst this; simp [scatter]
  | cons d ds ih =>
    rw [countMax_cons] at h
    by_cases hd : d = m
    · cases v1 with
      | nil => simp only [hd, if_true, List.length_nil] at h; omega
      | cons v vs =>
        simp only [hd, if_true, List.length_cons] at h
        simp only [List.cons_append, scatter, hd, if_true]
        rw [ih vs (by omega)]
    · simp only [hd, if_false, Nat.zero_add] at h
      simp only [List.cons_append, scatter, hd, if_false]
      rw [ih v1 h]

/-- the non-null cells of a scattered column are the values, in order (values themselves non-null) -/
theorem scatter_filter (m : Nat) (defs : List Nat) (vals : List Cell)
    (h : vals.length = countMax m defs) (hnn : ∀ v ∈ vals, v ≠ Cell.null) :
    (scatter m defs vals).filter (fun c => decide (c ≠ Cell.null)) = vals := by
  induction defs generalizing vals with
  | nil =>
    have : vals = [] := by simpa [countMax] using h
    subst this; simp [scatter]
  | cons d ds ih =>
    rw [countMax_cons] at h
    by_cases hd : d = m
    · cases vals with
      | nil => simp only [hd, if_true, List.length_nil] at h; omega
      | cons v vs =>
        simp only [hd, if_true, List.length_cons] at h
        have hv : v ≠ Cell.null := hnn v (List.mem_cons_self)
        simp only [scatter, hd, if_true]
        rw [List.filter_cons]
        simp only [hv, ne_eq, not_false_eq_true, decide_true, if_true]
        rw [ih vs (by omega) (fun x hx => hnn x (List.mem_cons_of_mem _ hx))]
    · simp only [hd, if_false, Nat.zero_add] at h
      simp only [scatter, hd, if_false]
      rw [List.filter_cons]
      simp only [ne_eq, not_true_eq_false, decide_false, Bool.false_eq_true, if_false]
      exact ih vals h hnn

/-- a cell is null exactly where the definition level is below the maximum -/
theorem scatter_null_iff (m : Nat) (defs : List Nat) (vals : List Cell)
    (h : vals.length = countMax m defs) (hnn : ∀ v ∈ vals, v ≠ Cell.null) (i : Nat) (hi : i < defs.length) :
    ((scatter m defs vals)[i]'(by rw [scatter_length]; exact hi) = Cell.null) ↔ defs[i] ≠ m := by
  induction defs generalizing vals i with
  | nil => simp at hi
  | cons d ds ih =>
    rw [countMax_cons] at h
    by_cases hd : d = m
    · cases vals with
      | nil => simp only [hd, if_true, List.length_nil] at h; omega
      | cons v vs =>
        simp only [hd, if_true, List.length_cons] at h
        have hv : v ≠ Cell.null := hnn v (List.mem_cons_self)
        cases i with
        | zero => simp [scatter, hd, hv]
        | succ j =>
          simp only [scatter, hd, if_true, List.getElem_cons_succ]
          exact ih vs (by omega) (fun x hx => hnn x (List.mem_cons_of_mem _ hx)) j (by simpa using hi)
    · simp only [hd, if_false, Nat.zero_add] at h
      cases i with
      | zero => simp [scatter, hd]
      | succ j =>
        simp only [scatter, hd, if_false, List.getElem_cons_succ]
        exact ih vals h hnn j (by simpa using hi)

/-- dictionary look-up of in-range indices is total and is the plain map -/
theorem dict_lookup (d : List Cell) (ix : List Nat) (h : ∀ i ∈ ix, i < d.length) :
    ix.mapM (fun i => d[i]?) = some (ix.map fun i => d.getD i Cell.null) := by
  induction ix with
  | nil => rfl
  | cons i is ih =>
    have hi : i < d.length := h i (List.mem_cons_self)
    have := ih (fun j hj => h j (List.mem_cons_of_mem _ hj))
    simp [List.mapM_cons, this, List.getElem?_eq_getElem hi, List.getD_eq_getElem?_getD]

/-- dictionary indices written as ANY mixture of runs at ANY width byte decode to the indices -/
theorem dictIndices_runs (w n : Nat) (rs : List Run) (tail : List Nat)
    (hwf : ∀ r ∈ rs, r.wf w = true) (hn : n ≤ (rs.flatMap Run.values).length) :
    dictIndices n (w :: (encodeRuns w rs ++ tail)) = some ((rs.flatMap Run.values).take n) := by
  simp only [dictIndices]
  rw [decodeHybrid_encodeRuns w n rs tail hwf hn]
  have : ((rs.flatMap Run.values).take n).length = n := by
    rw [List.length_take]; exact Nat.min_eq_left hn
  simp only [this, ne_eq, not_true_eq_false, if_false]

end PqV.Spec
