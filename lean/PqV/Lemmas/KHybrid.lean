import PqV.Lemmas.KBitpacked
import PqV.Lemmas.KVarint
import PqV.Lemmas.Hybrid
namespace PqV.Impl
open PqV.Spec

/-- the byte loop of `read_rle` assembles the little-endian value of the bytes it reads -/
theorem rleData_eq (buf : List Nat) (hbytes : ∀ b ∈ buf, b < 256) (ip : Nat) :
    ∀ (k i : Nat), i + k ≤ 4 → ip + i + k ≤ buf.length →
      rleData buf ip k i (leNat ((buf.drop ip).take i)) = .ok (leNat ((buf.drop ip).take (i + k))) := by
  intro k
  induction k with
  | zero => intro i _ _; simp [rleData]
  | succ k ih =>
    intro i h4 hlen
    have hi : ip + i < buf.length := by omega
    have hrd : rd buf (ip + i) = .ok buf[ip + i] := by simp [rd, hi]
    have hb : buf[ip + i] < 256 := hbytes _ (List.getElem_mem hi)
    have hs : ¬ (i * 8 ≥ 32) := by omega
    unfold rleData
    simp only [hrd, bind, Except.bind, hs, if_false, and_ff _ hb]
    have htake : (buf.drop ip).take (i + 1) = (buf.drop ip).take i ++ [buf[ip + i]] := by
      rw [List.take_add_one]
      congr 1
      simp [List.getElem?_drop, hi]
    have hlt : leNat ((buf.drop ip).take i) < 256 ^ i := by
      have := leNat_lt ((buf.drop ip).take i) (fun b hb => hbytes b (List.mem_of_mem_drop (List.mem_of_mem_take hb)))
      have hl : ((buf.drop ip).take i).length = i := by simp; omega
      rw [hl] at this; exact this
    have e8 : (2 : Nat) ^ (i * 8) = 256 ^ i := by
      rw [Nat.mul_comm, Nat.pow_mul]
    have hnew : (leNat ((buf.drop ip).take i) ||| buf[ip + i] <<< (i * 8)) % 2 ^ 32 = leNat ((buf.drop ip).take (i + 1)) := by
      rw [or_shift _ _ _ (by rw [e8]; exact hlt), htake, leNat_append]
      have hl : ((buf.drop ip).take i).length = i := by simp; omega
      rw [hl, e8]
      simp only [leNat, Nat.mul_zero, Nat.add_zero]
      have hbound : leNat ((buf.drop ip).take i) + buf[ip + i] * 256 ^ i < 2 ^ 32 := by
        have h1 : leNat ((buf.drop ip).take i) + buf[ip + i] * 256 ^ i < 256 ^ i * 256 := by
          have : buf[ip + i] * 256 ^ i ≤ 255 * 256 ^ i := Nat.mul_le_mul_right _ (by omega)
          omega
        have h2 : 256 ^ i * 256 ≤ 2 ^ 32 := by
          have : (256 : Nat) ^ i * 256 = 256 ^ (i + 1) := by rw [Nat.pow_succ]
          rw [this]
          have : (256 : Nat) ^ (i + 1) ≤ 256 ^ 4 := Nat.pow_le_pow_right (by norm_num) (by omega)
          norm_num at this ⊢; exact this
        omega
      rw [Nat.mod_eq_of_lt hbound]; ring
    rw [hnew]
    have := ih (i + 1) (by omega) (by omega)
    rw [show i + 1 + k = i + (k + 1) by omega] at this
    exact this


theorem take_drop_mid {α} (p mid tail : List α) : ((p ++ mid ++ tail).drop p.length).take mid.length = mid := by
  rw [List.append_assoc, List.drop_left' rfl, List.take_left' rfl]

/-- one RLE run, read where it starts -/
theorem readRle_run (p tail : List Nat) (hp : ∀ b ∈ p, b < 256) (ht : ∀ b ∈ tail, b < 256) (w c v header : Nat) (o : Out)
    (hw : w ≤ 32) (hv : v < 2 ^ w) (hh : header / 2 = c) :
    readRle (p ++ leBytes ((w + 7) / 8) v ++ tail) p.length header w o 4
      = .ok ({ items := o.items ++ List.replicate (min c (o.cap / 4)) v, cap := o.cap - (min c (o.cap / 4)) * 4 },
             p.length + (w + 7) / 8) := by
  set k := (w + 7) / 8 with hk
  have hk4 : k ≤ 4 := by omega
  have hbytes : ∀ b ∈ p ++ leBytes k v ++ tail, b < 256 := by
    intro b hb
    simp only [List.mem_append] at hb
    rcases hb with (hb | hb) | hb
    · exact hp b hb
    · exact leBytes_lt k v b hb
    · exact ht b hb
  have hlen : p.length + 0 + k ≤ (p ++ leBytes k v ++ tail).length := by simp [leBytes_length]
  have hd := rleData_eq (p ++ leBytes k v ++ tail) hbytes p.length k 0 (by omega) hlen
  have hmid := take_drop_mid p (leBytes k v) tail
  rw [leBytes_length] at hmid
  simp only [List.take_zero, leNat, Nat.zero_add] at hd
  rw [hmid, leNat_leBytes] at hd
  have hvk : v % 256 ^ k = v := Nat.mod_eq_of_lt (Nat.lt_of_lt_of_le hv (pow_le_256 w))
  rw [hvk] at hd
  unfold readRle
  simp only [← hk, hd, bind, Except.bind, hh, if_true]
  have hmin : (if c > o.cap / 4 then o.cap / 4 else c) = min c (o.cap / 4) := by
    split <;> omega
  rw [hmin]

/-- one bit-packed run, read where it starts -/
theorem readBitpacked_run (p tail : List Nat) (hp : ∀ b ∈ p, b < 256) (ht : ∀ b ∈ tail, b < 256) (w : Nat) (vs : List Nat) (o : Out)
    (hw1 : 1 ≤ w) (hw : w ≤ 24) (hne : vs ≠ []) (h8 : vs.length % 8 = 0) (hv : ∀ v ∈ vs, v < 2 ^ w) (header : Nat)
    (hh : header / 2 = vs.length / 8) :
    readBitpacked (p ++ packLE w vs ++ tail) p.length header w o 4
      = .ok ({ items := o.items ++ vs.take (o.cap / 4), cap := o.cap - (min vs.length (o.cap / 4)) * 4 },
             p.length + (vs.length / 8) * w) := by
  have hpos : 0 < vs.length := List.length_pos_iff.mpr hne
  set g := vs.length / 8 with hg
  have hg1 : 1 ≤ g := by omega
  have hlen8 : g * 8 = vs.length := by omega
  have hpl : (packLE w vs).length = g * w := by
    rw [packLE_length, ← hlen8]
    have : g * 8 * w + 7 = 8 * (g * w) + 7 := by ring
    rw [this]; omega
  have hgw : 1 ≤ g * w := Nat.mul_pos hg1 hw1
  have hbytes : ∀ b ∈ p ++ packLE w vs ++ tail, b < 256 := by
    intro b hb
    simp only [List.mem_append] at hb
    rcases hb with (hb | hb) | hb
    · exact hp b hb
    · exact leBytes_lt _ _ b hb
    · exact ht b hb
  have hbuflen : (p ++ packLE w vs ++ tail).length = p.length + g * w + tail.length := by simp [hpl]; omega
  have hn : header / 2 * 8 = vs.length := by rw [hh]; exact hlen8
  have hceil : (vs.length * w + 7) / 8 = g * w := by
    rw [← hlen8]
    have : g * 8 * w + 7 = 8 * (g * w) + 7 := by ring
    rw [this]; omega
  have := readBitpacked_ok (p ++ packLE w vs ++ tail) hbytes p.length header w o hw (by omega) (by rw [hn, hceil]; omega)
  rw [this, hn, hceil]
  have hvals : (List.range vs.length).map (fun i => bitField w i (streamOf (p ++ packLE w vs ++ tail) p.length)) = vs := by
    rw [stream_values_eq_unpackLE _ p.length w vs.length (g * w) (by omega) (by rw [← hlen8]; ring_nf; omega)]
    have hmid := take_drop_mid p (packLE w vs) tail
    rw [hpl] at hmid
    rw [hmid]
    exact unpackLE_packLE w vs hv
  have htake : (List.range (min vs.length (o.cap / 4))).map (fun i => bitField w i (streamOf (p ++ packLE w vs ++ tail) p.length))
      = vs.take (o.cap / 4) := by
    have : List.range (min vs.length (o.cap / 4)) = (List.range vs.length).take (o.cap / 4) := by
      rw [List.take_range, Nat.min_comm]
    rw [this, List.map_take, hvals]
  rw [htake]
  have : max 1 (g * w) = g * w := by omega
  rw [this]


def RunOk : Run → Prop
  | .rle c _ => c * 2 < 2 ^ 32
  | .bp vs => vs ≠ [] ∧ (vs.length / 8) * 2 + 1 < 2 ^ 32

theorem encodeRun_bytes (w : Nat) (r : Run) : ∀ b ∈ encodeRun w r, b < 256 := by
  intro b hb
  cases r with
  | rle c v =>
    simp only [encodeRun, List.mem_append] at hb
    rcases hb with hb | hb
    · exact uvarintEnc_bytes _ b hb
    · exact leBytes_lt _ _ b hb
  | bp vs =>
    simp only [encodeRun, List.mem_append] at hb
    rcases hb with hb | hb
    · exact uvarintEnc_bytes _ b hb
    · exact leBytes_lt _ _ b hb

theorem take_replicate_append {α} (c q : Nat) (v : α) (rest : List α) :
    (List.replicate c v ++ rest).take q = List.replicate (min c q) v ++ rest.take (q - min c q) := by
  rw [List.take_append, List.take_replicate, List.length_replicate, Nat.min_comm]
  congr 2
  omega

theorem take_append_min {α} (vs rest : List α) (q : Nat) :
    (vs ++ rest).take q = vs.take q ++ rest.take (q - min vs.length q) := by
  rw [List.take_append]
  congr 2
  omega

/-- **the hybrid reader on any mixture of runs** (widths 1..24, 32-bit items): it stores the values the
    runs stand for, as many as fit the output -/
theorem readHybridLoop_runs (w : Nat) (hw1 : 1 ≤ w) (hw : w ≤ 24) :
    ∀ (rs : List Run) (fuel : Nat) (pre post : List Nat) (o : Out) (start length : Nat),
      (∀ r ∈ rs, r.wf w = true ∧ RunOk r) → rs.length < fuel → (∀ b ∈ pre, b < 256) → (∀ b ∈ post, b < 256) →
      start ≤ pre.length → pre.length - start + (encodeRuns w rs).length = length →
      ∃ o' loc', readHybridLoop (pre ++ encodeRuns w rs ++ post) w length start 4 fuel pre.length o = .ok (o', loc') ∧
        o'.items = o.items ++ (rs.flatMap Run.values).take (o.cap / 4) := by
  intro rs
  induction rs with
  | nil =>
    intro fuel pre post o start length _ hf _ _ hs hl
    obtain ⟨f, rfl⟩ : ∃ f, fuel = f + 1 := ⟨fuel - 1, by omega⟩
    have : ¬ (pre.length - start < length ∧ o.cap > 0) := by
      simp [encodeRuns] at hl; omega
    exact ⟨o, pre.length, by simp only [readHybridLoop, this, if_false], by simp⟩
  | cons r rs ih =>
    intro fuel pre post o start length hok hf hpre hpost hs hl
    obtain ⟨f, rfl⟩ : ∃ f, fuel = f + 1 := ⟨fuel - 1, by omega⟩
    have hf' : rs.length < f := by simpa using hf
    have hok' : ∀ r ∈ rs, r.wf w = true ∧ RunOk r := fun x hx => hok x (List.mem_cons_of_mem _ hx)
    obtain ⟨hwf, hrok⟩ := hok r (List.mem_cons_self)
    by_cases hcap : o.cap > 0
    · have hpos := encodeRun_length_pos w r
      have hcond : pre.length - start < length ∧ o.cap > 0 := by
        rw [encodeRuns_cons, List.length_append] at hl
        exact ⟨by omega, hcap⟩
      have hlen' : (pre ++ encodeRun w r).length - start + (encodeRuns w rs).length = length := by
        rw [encodeRuns_cons, List.length_append] at hl
        rw [List.length_append]; omega
      have hpre' : ∀ b ∈ pre ++ encodeRun w r, b < 256 := by
        intro b hb
        rcases List.mem_append.mp hb with hb | hb
        · exact hpre b hb
        · exact encodeRun_bytes w r b hb
      have htail : ∀ b ∈ encodeRuns w rs ++ post, b < 256 := by
        intro b hb
        rcases List.mem_append.mp hb with hb | hb
        · simp only [encodeRuns, List.mem_flatMap] at hb
          obtain ⟨x, _, hx⟩ := hb
          exact encodeRun_bytes w x b hx
        · exact hpost b hb
      cases r with
      | rle c v =>
        have hv := Run.wf_rle hwf
        have hc32 : c * 2 < 2 ^ 32 := hrok
        have hb1 : pre ++ encodeRuns w (Run.rle c v :: rs) ++ post
            = pre ++ uvarintEnc (c * 2) ++ (leBytes ((w + 7) / 8) v ++ encodeRuns w rs ++ post) := by
          simp [encodeRuns_cons, encodeRun, List.append_assoc]
        have hb2 : pre ++ encodeRuns w (Run.rle c v :: rs) ++ post
            = (pre ++ uvarintEnc (c * 2)) ++ leBytes ((w + 7) / 8) v ++ (encodeRuns w rs ++ post) := by
          simp [encodeRuns_cons, encodeRun, List.append_assoc]
        have hb3 : pre ++ encodeRuns w (Run.rle c v :: rs) ++ post
            = (pre ++ encodeRun w (Run.rle c v)) ++ encodeRuns w rs ++ post := by
          simp [encodeRuns_cons, List.append_assoc]
        have hrv := readUvarint_enc (c * 2) (by omega) pre (leBytes ((w + 7) / 8) v ++ encodeRuns w rs ++ post)
        have hp2 : ∀ b ∈ pre ++ uvarintEnc (c * 2), b < 256 := by
          intro b hb
          rcases List.mem_append.mp hb with hb | hb
          · exact hpre b hb
          · exact uvarintEnc_bytes _ b hb
        have hrr := readRle_run (pre ++ uvarintEnc (c * 2)) (encodeRuns w rs ++ post) hp2 htail w c v (c * 2) o (by omega) hv (by omega)
        obtain ⟨o', loc', hl', hitems⟩ := ih f (pre ++ encodeRun w (Run.rle c v)) post
          { items := o.items ++ List.replicate (min c (o.cap / 4)) v, cap := o.cap - (min c (o.cap / 4)) * 4 }
          start length hok' hf' hpre' hpost (by rw [List.length_append]; omega) hlen'
        refine ⟨o', loc', ?_, ?_⟩
        · unfold readHybridLoop
          simp only [hcond, and_self, if_true]
          rw [hb1, hrv]
          simp only [bind, Except.bind]
          have hm : c * 2 % 2 ^ 32 = c * 2 := Nat.mod_eq_of_lt hc32
          have he : c * 2 % 2 = 0 := by omega
          simp only [hm, he, if_true]
          rw [← hb1, hb2]
          have hloc : pre.length + uvarintLen (c * 2) = (pre ++ uvarintEnc (c * 2)).length := by
            simp [uvarintLen]
          rw [hloc, hrr]
          simp only
          rw [← hb2, hb3]
          have hloc2 : (pre ++ uvarintEnc (c * 2)).length + (w + 7) / 8 = (pre ++ encodeRun w (Run.rle c v)).length := by
            simp [encodeRun, leBytes_length]; omega
          rw [hloc2]
          exact hl'
        · rw [hitems]
          simp only [List.flatMap_cons, Run.values, take_replicate_append, List.append_assoc]
          congr 3
          omega
      | bp vs =>
        obtain ⟨h8, hv⟩ := Run.wf_bp hwf
        obtain ⟨hne, hh32⟩ := hrok
        set h := vs.length / 8 * 2 + 1 with hh
        have hb1 : pre ++ encodeRuns w (Run.bp vs :: rs) ++ post
            = pre ++ uvarintEnc h ++ (packLE w vs ++ encodeRuns w rs ++ post) := by
          simp [encodeRuns_cons, encodeRun, List.append_assoc, hh]
        have hb2 : pre ++ encodeRuns w (Run.bp vs :: rs) ++ post
            = (pre ++ uvarintEnc h) ++ packLE w vs ++ (encodeRuns w rs ++ post) := by
          simp [encodeRuns_cons, encodeRun, List.append_assoc, hh]
        have hb3 : pre ++ encodeRuns w (Run.bp vs :: rs) ++ post
            = (pre ++ encodeRun w (Run.bp vs)) ++ encodeRuns w rs ++ post := by
          simp [encodeRuns_cons, List.append_assoc]
        have hrv := readUvarint_enc h (by omega) pre (packLE w vs ++ encodeRuns w rs ++ post)
        have hp2 : ∀ b ∈ pre ++ uvarintEnc h, b < 256 := by
          intro b hb
          rcases List.mem_append.mp hb with hb | hb
          · exact hpre b hb
          · exact uvarintEnc_bytes _ b hb
        have hrr := readBitpacked_run (pre ++ uvarintEnc h) (encodeRuns w rs ++ post) hp2 htail w vs o hw1 hw hne h8 hv h (by omega)
        obtain ⟨o', loc', hl', hitems⟩ := ih f (pre ++ encodeRun w (Run.bp vs)) post
          { items := o.items ++ vs.take (o.cap / 4), cap := o.cap - (min vs.length (o.cap / 4)) * 4 }
          start length hok' hf' hpre' hpost (by rw [List.length_append]; omega) hlen'
        refine ⟨o', loc', ?_, ?_⟩
        · unfold readHybridLoop
          simp only [hcond, and_self, if_true]
          rw [hb1, hrv]
          simp only [bind, Except.bind]
          have hm : h % 2 ^ 32 = h := Nat.mod_eq_of_lt hh32
          have he : ¬ (h % 2 = 0) := by omega
          simp only [hm, he, if_false]
          rw [← hb1, hb2]
          have hloc : pre.length + uvarintLen h = (pre ++ uvarintEnc h).length := by
            simp [uvarintLen]
          rw [hloc, hrr]
          simp only
          rw [← hb2, hb3]
          have hpl : (packLE w vs).length = vs.length / 8 * w := by
            rw [packLE_length]
            have e : vs.length = 8 * (vs.length / 8) := by omega
            generalize vs.length / 8 = g at *
            rw [e]
            have : 8 * g * w + 7 = 8 * (g * w) + 7 := by ring
            rw [this]; omega
          have hloc2 : (pre ++ uvarintEnc h).length + vs.length / 8 * w = (pre ++ encodeRun w (Run.bp vs)).length := by
            simp [encodeRun, hpl, ← hh]; omega
          rw [hloc2]
          exact hl'
        · rw [hitems]
          simp only [List.flatMap_cons, Run.values, take_append_min, List.append_assoc]
          congr 3
          omega
    · have hc0 : o.cap = 0 := by omega
      have : ¬ (pre.length - start < length ∧ o.cap > 0) := by omega
      refine ⟨o, pre.length, by simp only [readHybridLoop, this, if_false], ?_⟩
      simp [hc0]


/-- **`read_rle_bit_packed_hybrid` on any mixture of runs**, anywhere in a buffer -/
theorem readHybrid_runs (w : Nat) (hw1 : 1 ≤ w) (hw : w ≤ 24) (rs : List Run) (pre post : List Nat) (o : Out)
    (hok : ∀ r ∈ rs, r.wf w = true ∧ RunOk r) (hpre : ∀ b ∈ pre, b < 256) (hpost : ∀ b ∈ post, b < 256) :
    ∃ o' loc', readHybrid (pre ++ encodeRuns w rs ++ post) pre.length w (encodeRuns w rs).length o 4 = .ok (o', loc') ∧
      o'.items = o.items ++ (rs.flatMap Run.values).take (o.cap / 4) := by
  unfold readHybrid
  have hlen := encodeRuns_length_ge w rs
  exact readHybridLoop_runs w hw1 hw rs _ pre post o pre.length _ hok
    (by simp only [List.length_append]; omega) hpre hpost (Nat.le_refl _) (by omega)

/-- the kernel and the specification decoder agree on every well-formed hybrid stream (widths 1..24) -/
theorem readHybrid_eq_spec (w : Nat) (hw1 : 1 ≤ w) (hw : w ≤ 24) (rs : List Run) (pre post : List Nat) (n : Nat)
    (hok : ∀ r ∈ rs, r.wf w = true ∧ RunOk r) (hpre : ∀ b ∈ pre, b < 256) (hpost : ∀ b ∈ post, b < 256)
    (hn : n ≤ (rs.flatMap Run.values).length) :
    ∃ o' loc', readHybrid (pre ++ encodeRuns w rs ++ post) pre.length w (encodeRuns w rs).length { items := [], cap := 4 * n } 4
        = .ok (o', loc') ∧ o'.items = decodeHybrid w n (encodeRuns w rs ++ post) := by
  obtain ⟨o', loc', h1, h2⟩ := readHybrid_runs w hw1 hw rs pre post { items := [], cap := 4 * n } hok hpre hpost
  refine ⟨o', loc', h1, ?_⟩
  rw [h2, decodeHybrid_encodeRuns w n rs post (fun r hr => (hok r hr).1) hn]
  have : 4 * n / 4 = n := by omega
  simp [this]

end PqV.Impl
