import PqV.Impl.Kernels
import PqV.Lemmas.Varint
import Mathlib.Tactic.Ring
import Mathlib.Tactic.Linarith
/-! The code-shaped varint / zigzag kernels refine `Spec.Varint`. -/
namespace PqV.Impl
open PqV.Spec

theorem and7F (b : Nat) : b &&& 0x7F = b % 128 := by
  have := Nat.and_two_pow_sub_one_eq_mod b 7
  simpa using this

theorem or80' : ∀ a, a < 128 → a ||| 0x80 = a + 128 := by decide +kernel
theorem or80 (a : Nat) (h : a < 128) : a ||| 0x80 = a + 128 := or80' a h

theorem and80 : ∀ b, b < 256 → ((b &&& 0x80 = 0) ↔ b < 128) := by decide +kernel

theorem encodeUvarintLoop_eq (fuel x : Nat) (acc : List Nat) (h : x < 2 ^ (7 * fuel)) (hf : 1 ≤ fuel) :
    encodeUvarintLoop fuel x acc = acc ++ uvarintEnc x := by
  induction fuel generalizing x acc with
  | zero => omega
  | succ f ih =>
    unfold encodeUvarintLoop uvarintEnc
    by_cases hx : x > 127
    · have hx' : ¬ x < 128 := by omega
      simp only [hx, hx', if_true, if_false]
      by_cases hf0 : f = 0
      · subst hf0; simp at h; omega
      · have : x / 128 < 2 ^ (7 * f) := by
          have e : 2 ^ (7 * (f + 1)) = 2 ^ (7 * f) * 128 := by
            rw [show 7 * (f + 1) = 7 * f + 7 by omega, Nat.pow_add]
          rw [e] at h
          exact Nat.div_lt_of_lt_mul (by rwa [Nat.mul_comm] at h)
        rw [ih _ _ this (by omega), and7F, or80 _ (Nat.mod_lt _ (by norm_num))]
        simp
    · have hx' : x < 128 := by omega
      simp only [hx, hx', if_true, if_false]
      congr 2
      omega

/-- `encode_unsigned_varint` writes exactly the ULEB128 bytes of its (uint64) argument. -/
theorem encodeUvarint_eq (x : Nat) (h : x < 2 ^ 64) : encodeUvarint x = uvarintEnc x := by
  unfold encodeUvarint
  rw [Nat.mod_eq_of_lt h, encodeUvarintLoop_eq 11 x [] (Nat.lt_of_lt_of_le h (by norm_num)) (by norm_num)]
  simp

theorem rd_append (pre : List Nat) (b : Nat) (tl : List Nat) : rd (pre ++ b :: tl) pre.length = .ok b := by
  simp [rd]

theorem readUvarintLoop_enc (x : Nat) : ∀ (pre rest : List Nat) (fuel shift result : Nat),
    result < 2 ^ shift → result + x * 2 ^ shift < 2 ^ 64 → shift ≤ 63 → uvarintLen x ≤ fuel →
    readUvarintLoop (pre ++ uvarintEnc x ++ rest) fuel pre.length shift result
      = .ok (result + x * 2 ^ shift, pre.length + uvarintLen x) := by
  induction x using Nat.strongRecOn with
  | _ x ih =>
    intro pre rest fuel shift result hres hbound hshift hfuel
    have hlen : uvarintLen x = (if x < 128 then 1 else 1 + uvarintLen (x / 128)) := by
      unfold uvarintLen; rw [uvarintEnc]; split <;> simp; omega
    cases fuel with
    | zero => have := uvarintEnc_length_pos x; unfold uvarintLen at hfuel; omega
    | succ fuel =>
      rw [uvarintEnc]
      by_cases hx : x < 128
      · simp only [hx, if_true, List.append_assoc, List.cons_append, List.nil_append]
        unfold readUvarintLoop
        rw [rd_append]
        have hs : ¬ shift ≥ 64 := by omega
        have hb : x &&& 0x80 = 0 := (and80 x (by omega)).mpr hx
        simp only [bind, Except.bind, hs, if_false, hb, if_true]
        rw [and7F, Nat.mod_eq_of_lt hx, Nat.or_comm, ← Nat.shiftLeft_add_eq_or_of_lt hres, Nat.shiftLeft_eq]
        rw [hlen]; simp only [hx, if_true]
        rw [Nat.mod_eq_of_lt (by omega)]
        congr 2; omega
      · simp only [hx, if_false, List.append_assoc, List.cons_append]
        unfold readUvarintLoop
        rw [rd_append]
        have hs : ¬ shift ≥ 64 := by omega
        have hb : ¬ ((x % 128 + 128) &&& 0x80 = 0) := by
          rw [and80 _ (by omega)]; omega
        simp only [bind, Except.bind, hs, if_false, hb]
        rw [and7F, show (x % 128 + 128) % 128 = x % 128 by omega, Nat.or_comm,
          ← Nat.shiftLeft_add_eq_or_of_lt hres, Nat.shiftLeft_eq]
        have hx1 : 1 ≤ x / 128 := by omega
        have hdecomp : x = 128 * (x / 128) + x % 128 := (Nat.div_add_mod x 128).symm
        have hpow : 2 ^ (shift + 7) = 2 ^ shift * 128 := by rw [Nat.pow_add]
        have hb2 : result + x % 128 * 2 ^ shift + (x / 128) * 2 ^ (shift + 7) = result + x * 2 ^ shift := by
          rw [hpow]; nth_rewrite 3 [hdecomp]; ring
        have hsmall : x % 128 * 2 ^ shift + result < 2 ^ 64 := by
          have : x % 128 * 2 ^ shift ≤ x * 2 ^ shift := Nat.mul_le_mul_right _ (Nat.mod_le _ _)
          omega
        rw [Nat.mod_eq_of_lt hsmall]
        have hsh' : shift + 7 ≤ 63 := by
          by_contra hc
          have : 2 ^ 64 ≤ 2 ^ (shift + 7) := Nat.pow_le_pow_right (by norm_num) (by omega)
          have : 2 ^ (shift + 7) ≤ (x / 128) * 2 ^ (shift + 7) := Nat.le_mul_of_pos_left _ hx1
          omega
        have hres' : x % 128 * 2 ^ shift + result < 2 ^ (shift + 7) := by
          rw [hpow]
          have : x % 128 < 128 := Nat.mod_lt _ (by norm_num)
          nlinarith
        have := ih (x / 128) (by omega) (pre ++ [x % 128 + 128]) rest fuel (shift + 7)
          (x % 128 * 2 ^ shift + result) hres' (by omega) hsh'
          (by rw [hlen] at hfuel; simp only [hx, if_false] at hfuel; omega)
        simp only [List.append_assoc, List.cons_append, List.nil_append, List.length_append,
          List.length_cons, List.length_nil] at this
        rw [this, hlen]; simp only [hx, if_false]
        congr 2
        · omega
        · omega

/-- `read_unsigned_var_int` on the ULEB128 encoding of any `x < 2^64`, at any position, followed by
    anything: returns `x`, advances by exactly the encoding's length, and does not fault. -/
theorem readUvarint_enc (x : Nat) (hx : x < 2 ^ 64) (pre rest : List Nat) :
    readUvarint (pre ++ uvarintEnc x ++ rest) pre.length = .ok (x, pre.length + uvarintLen x) := by
  unfold readUvarint
  have := readUvarintLoop_enc x pre rest ((pre ++ uvarintEnc x ++ rest).length + 1 - pre.length) 0 0
    (by norm_num) (by simpa using hx) (by norm_num)
    (by simp [uvarintLen]; omega)
  simpa using this

end PqV.Impl
