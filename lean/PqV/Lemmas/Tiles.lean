import PqV.Spec.File
namespace PqV.Spec

/-- consecutive pages: each starts where the previous one's payload ends -/
def Tiles : Nat → Nat → List PageInfo → Prop
  | start, stop, [] => start = stop
  | start, stop, p :: ps => p.hdrOff = start ∧ Tiles (p.dataOff + p.compSize) stop ps

theorem chunkPages_acc (file : Array Nat) : ∀ (fuel pos stop : Nat) (acc ps : List PageInfo),
    chunkPages file fuel pos stop acc = .ok ps → ∃ tail, ps = acc.reverse ++ tail ∧ Tiles pos stop tail ∧
      ∀ p ∈ tail, parsePage file p.hdrOff = .ok p := by
  intro fuel
  induction fuel with
  | zero => intro pos stop acc ps h; simp [chunkPages] at h
  | succ f ih =>
    intro pos stop acc ps h
    unfold chunkPages at h
    by_cases h1 : pos = stop
    · simp only [h1, if_true] at h
      injection h with h
      exact ⟨[], by simp [h], by simp [Tiles, h1], by simp⟩
    · simp only [h1, if_false] at h
      by_cases h2 : pos > stop
      · simp [h2] at h
      · simp only [h2, if_false] at h
        cases hp : parsePage file pos with
        | error e => simp [hp, bind, Except.bind] at h
        | ok p =>
          simp only [hp, bind, Except.bind] at h
          obtain ⟨tail, hps, ht, hall⟩ := ih _ _ _ _ h
          have hoff : p.hdrOff = pos := by
            unfold parsePage at hp
            simp only at hp
            split at hp
            · simp at hp
            · split at hp
              · simp at hp
              · split at hp
                · injection hp with hp; rw [← hp]
                · simp at hp
          refine ⟨p :: tail, by simp [hps], ⟨hoff, ht⟩, ?_⟩
          intro q hq
          rcases List.mem_cons.mp hq with rfl | hq'
          · rw [hoff]; exact hp
          · exact hall q hq'

end PqV.Spec
