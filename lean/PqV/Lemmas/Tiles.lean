import PqV.Spec.File
namespace PqV.Spec

/-- consecutive pages: each starts where the previous one's payload ends -/
def Tiles : Nat → Nat → List PageInfo → Prop
  | start, stop, [] => start = stop
  | start, stop, p :: ps => p.hdrOff = start ∧ Tiles (p.dataOff + p.compSize) stop ps

theorem chunkPages_acc (file : Array Nat) : ∀ (fuel pos stop : Nat) (acc ps : List PageInfo),
    chunkPages file fuel pos stop acc = .ok ps → ∃ tail, ps = acc.reverse ++ tail ∧ Tiles pos stop tail ∧
      ∀ p ∈ tail, parsePage file p.hdrOff = .ok p := by
  intro fuel
  induction fuel with
  | zero => intro pos stop acc ps h; simp [chunkPages] at h
  | succ f ih =>
    intro pos stop acc ps h
    unfold chunkPages at h
    by_cases h1 : pos = stop
    · simp only [h1, if_true] at h
      injection h with h
      exact ⟨[], by simp [h], by simp [Tiles, h1], by simp⟩
    · simp only [h1, if_false] at h
      by_cases h2 : pos > stop
      · simp [h2] at h
      · simp only [h2, if_false] at h
        cases hp : parsePage file pos with
        | error e => simp [hp, bind, Except.bind] at h
        | ok p =>
          simp only [hp, bind, Except.bind] at h
          obtain ⟨tail, hps, ht, hall⟩ := ih _ _ _ _ h
          have hoff : p.hdrOff = pos := by
            unfold parsePage at hp
            simp only at hp
            split at hp
            · simp at hp
            · split at hp
              · simp at hp
              · split at hp
                · injection hp with hp; rw [← hp]
                · simp at hp
          refine ⟨p :: tail, by simp [hps], ⟨hoff, ht⟩, ?_⟩
          intro q hq
          rcases List.mem_cons.mp hq with rfl | hq'
          · rw [hoff]; exact hp
          · exact hall q hq'

end PqV.Spec

namespace PqV.Spec

/-- what one accepted page adds: a dictionary page no rows; a data page exactly `num_values` rows -/
theorem decodePage_count (leaf : Leaf) (acc acc' : PageAcc) (p : PageInfo) (body : List Nat)
    (h : decodePage leaf acc p body = .ok acc') :
    acc'.count = acc.count + (if p.ptypeTag = 2 then 0 else p.numValues) := by
  unfold decodePage at h
  simp only at h
  by_cases h2 : p.ptypeTag = 2
  · simp only [h2, if_true] at h
    repeat' (first | (injection h with h; subst h; simp [h2]; done) | (simp at h; done) | split at h)
  · simp only [h2, if_false] at h
    repeat' (first | (injection h with h; subst h; simp [h2]; done) | (simp at h; done) | split at h)

/-- **value counts add up**: the row count the validator reports for a chunk is the sum of `num_values` over its data pages -/
theorem decodePages_count (leaf : Leaf) : ∀ (pages : List (PageInfo × List Nat)) (acc acc' : PageAcc),
    decodePages leaf acc pages = .ok acc' →
    acc'.count = acc.count + ((pages.filter (fun x => x.1.ptypeTag != 2)).map (fun x => x.1.numValues)).sum := by
  intro pages
  induction pages with
  | nil => intro acc acc' h; simp only [decodePages] at h; injection h with h; subst h; simp
  | cons x xs ih =>
    intro acc acc' h
    obtain ⟨p, body⟩ := x
    simp only [decodePages] at h
    cases hp : decodePage leaf acc p body with
    | error e => simp [hp] at h
    | ok a1 =>
      simp only [hp] at h
      have h1 := decodePage_count leaf acc a1 p body hp
      have h2 := ih a1 acc' h
      rw [h2, h1]
      by_cases ht : p.ptypeTag = 2
      · simp [ht, List.filter_cons]
      · simp [ht, List.filter_cons]; omega

end PqV.Spec

namespace PqV.Spec

theorem levelsV1_length (m n : Nat) (bs : List Nat) (lv rest : List Nat) (h : levelsV1 m n bs = some (lv, rest)) : lv.length = n := by
  unfold levelsV1 at h
  simp only at h
  repeat' (first
    | (injection h with h; injection h with h1 h2; subst h1; simp; done)
    | (simp at h; done)
    | split at h)
  all_goals (rename_i hl; injection h with h; injection h with h1 h2; subst h1; simpa using hl)

end PqV.Spec

namespace PqV.Spec

/-- every accepted data page contributes exactly `num_values` definition levels -/
theorem decodePage_defs (leaf : Leaf) (acc acc' : PageAcc) (p : PageInfo) (body : List Nat)
    (h : decodePage leaf acc p body = .ok acc') :
    acc'.defs.length = acc.defs.length + (if p.ptypeTag = 2 then 0 else p.numValues) := by
  unfold decodePage at h
  simp only at h
  by_cases hb : body.length ≠ p.uncompSize
  · simp [hb] at h
  · simp only [hb, if_false] at h
    by_cases h2 : p.ptypeTag = 2
    · simp only [h2, if_true] at h
      repeat' (first | (injection h with h; subst h; simp [h2]; done) | (simp at h; done) | split at h)
    · simp only [h2, if_false] at h
      by_cases h0 : p.ptypeTag = 0
      · simp only [h0, if_true] at h
        cases hr : levelsV1 leaf.maxRep p.numValues body with
        | none => simp [hr] at h
        | some pr =>
          obtain ⟨rl, r1⟩ := pr
          simp only [hr] at h
          cases hd : levelsV1 leaf.maxDef p.numValues r1 with
          | none => simp [hd] at h
          | some pd =>
            obtain ⟨dl, r2⟩ := pd
            simp only [hd] at h
            have hlen := levelsV1_length _ _ _ _ _ hd
            split at h
            · simp at h
            · injection h with h; subst h; simp [h2, hlen]
      · simp only [h0, if_false] at h
        generalize hdlv : (if leaf.maxDef = 0 then List.replicate p.numValues 0
            else decodeHybrid (widthFor leaf.maxDef) p.numValues (List.take p.defLen (List.drop p.repLen body))) = dl at h
        generalize hrlv : (if leaf.maxRep = 0 then List.replicate p.numValues 0
            else decodeHybrid (widthFor leaf.maxRep) p.numValues (List.take p.repLen body)) = rl at h
        by_cases hlv : dl.length ≠ p.numValues ∨ rl.length ≠ p.numValues
        · simp [hlv] at h
        · simp only [hlv, if_false] at h
          have hdl : dl.length = p.numValues := Decidable.byContradiction (fun hc => hlv (Or.inl hc))
          repeat' (first | (injection h with h; subst h; simp [h2, hdl]; done) | (simp at h; done) | split at h)

theorem decodePages_defs (leaf : Leaf) : ∀ (pages : List (PageInfo × List Nat)) (acc acc' : PageAcc),
    decodePages leaf acc pages = .ok acc' →
    acc'.defs.length = acc.defs.length + ((pages.filter (fun x => x.1.ptypeTag != 2)).map (fun x => x.1.numValues)).sum := by
  intro pages
  induction pages with
  | nil => intro acc acc' h; simp only [decodePages] at h; injection h with h; subst h; simp
  | cons x xs ih =>
    intro acc acc' h
    obtain ⟨p, body⟩ := x
    simp only [decodePages] at h
    cases hp : decodePage leaf acc p body with
    | error e => simp [hp] at h
    | ok a1 =>
      simp only [hp] at h
      have h1 := decodePage_defs leaf acc a1 p body hp
      have h2 := ih a1 acc' h
      rw [h2, h1]
      by_cases ht : p.ptypeTag = 2
      · simp [ht, List.filter_cons]
      · simp [ht, List.filter_cons]; omega

end PqV.Spec
