import PqV.Spec.Thrift
import PqV.Lemmas.Varint
import PqV.Lemmas.Bits
namespace PqV.Spec

mutual
  def TVal.ok : TVal → Bool
    | .bool _ => true
    | .i8 n => decide (-128 ≤ n) && decide (n < 128)
    | .i16 _ => true
    | .i32 _ => true
    | .i64 _ => true
    | .double b => decide (b < 2 ^ 64)
    | .binary _ => true
    | .list ety items => decide (ety < 16) && itemsOk ety items
    | .struct fs => fieldsOk 0 fs
  def itemsOk (ety : Nat) : List TVal → Bool
    | [] => true
    | v :: vs => decide (elemType v = ety) && v.ok && itemsOk ety vs
  def fieldsOk (prev : Nat) : List (Nat × TVal) → Bool
    | [] => true
    | (id, v) :: rest => decide (prev < id) && v.ok && fieldsOk id rest
end

mutual
  def TVal.sz : TVal → Nat
    | .list _ items => 1 + itemsSz items
    | .struct fs => 1 + fieldsSz fs
    | _ => 1
  def itemsSz : List TVal → Nat
    | [] => 1
    | v :: vs => 1 + max v.sz (itemsSz vs)
  def fieldsSz : List (Nat × TVal) → Nat
    | [] => 1
    | (_, v) :: rest => 1 + max v.sz (fieldsSz rest)
end

theorem toSigned8_ofSigned8 (n : Int) (h1 : -128 ≤ n) (h2 : n < 128) : toSigned 8 (ofSigned 8 n) = n := by
  unfold toSigned ofSigned
  have hm : (n % ((2 ^ 8 : Nat) : Int)).toNat % 2 ^ 8 = (n % ((2 ^ 8 : Nat) : Int)).toNat := by
    apply Nat.mod_eq_of_lt
    have := Int.emod_lt_of_pos n (show (0 : Int) < ((2 ^ 8 : Nat) : Int) by norm_num)
    have := Int.emod_nonneg n (show ((2 ^ 8 : Nat) : Int) ≠ 0 by norm_num)
    omega
  rw [hm]
  have hnn := Int.emod_nonneg n (show ((2 ^ 8 : Nat) : Int) ≠ 0 by norm_num)
  have hlt := Int.emod_lt_of_pos n (show (0 : Int) < ((2 ^ 8 : Nat) : Int) by norm_num)
  norm_num at hm hnn hlt ⊢
  split <;> omega

theorem wireType_lt (v : TVal) : v.wireType < 16 ∧ 1 ≤ v.wireType := by
  cases v <;> simp [TVal.wireType]
  case bool b => cases b <;> simp [TVal.wireType]


theorem takeN_append (a rest : List Nat) : takeN a.length (a ++ rest) = some (a, rest) := by
  simp [takeN, List.take_left' rfl, List.drop_left' rfl]

mutual
  theorem decVal_enc : ∀ (v : TVal), v.ok = true → ∀ (fuel : Nat), v.sz ≤ fuel → ∀ (rest : List Nat),
      decVal fuel v.wireType (encVal v ++ rest) = some (v, rest)
    | .bool b, _, fuel, hf, rest => by
      obtain ⟨f, rfl⟩ : ∃ f, fuel = f + 1 := ⟨fuel - 1, by simp [TVal.sz] at hf; omega⟩
      cases b <;> simp [TVal.wireType, encVal, decVal]
    | .i8 n, hok, fuel, hf, rest => by
      obtain ⟨f, rfl⟩ : ∃ f, fuel = f + 1 := ⟨fuel - 1, by simp [TVal.sz] at hf; omega⟩
      simp only [TVal.ok, Bool.and_eq_true, decide_eq_true_eq] at hok
      simp [TVal.wireType, encVal, decVal, toSigned8_ofSigned8 n hok.1 hok.2]
    | .i16 n, _, fuel, hf, rest => by
      obtain ⟨f, rfl⟩ : ∃ f, fuel = f + 1 := ⟨fuel - 1, by simp [TVal.sz] at hf; omega⟩
      simp [TVal.wireType, encVal, decVal, uvarint_rt, zigzag_rt]
    | .i32 n, _, fuel, hf, rest => by
      obtain ⟨f, rfl⟩ : ∃ f, fuel = f + 1 := ⟨fuel - 1, by simp [TVal.sz] at hf; omega⟩
      simp [TVal.wireType, encVal, decVal, uvarint_rt, zigzag_rt]
    | .i64 n, _, fuel, hf, rest => by
      obtain ⟨f, rfl⟩ : ∃ f, fuel = f + 1 := ⟨fuel - 1, by simp [TVal.sz] at hf; omega⟩
      simp [TVal.wireType, encVal, decVal, uvarint_rt, zigzag_rt]
    | .double bits, hok, fuel, hf, rest => by
      obtain ⟨f, rfl⟩ : ∃ f, fuel = f + 1 := ⟨fuel - 1, by simp [TVal.sz] at hf; omega⟩
      simp only [TVal.ok, decide_eq_true_eq] at hok
      have h8 := takeN_append (leBytes 8 bits) rest
      rw [leBytes_length] at h8
      have hv : leNat (leBytes 8 bits) = bits := by
        rw [leNat_leBytes]; exact Nat.mod_eq_of_lt (by norm_num at hok ⊢; exact hok)
      simp [TVal.wireType, encVal, decVal, h8, hv]
    | .binary bs, _, fuel, hf, rest => by
      obtain ⟨f, rfl⟩ : ∃ f, fuel = f + 1 := ⟨fuel - 1, by simp [TVal.sz] at hf; omega⟩
      simp only [TVal.wireType, encVal, decVal, List.append_assoc, uvarint_rt]
      simp [takeN_append]
    | .list ety items, hok, fuel, hf, rest => by
      obtain ⟨f, rfl⟩ : ∃ f, fuel = f + 1 := ⟨fuel - 1, by simp [TVal.sz] at hf; omega⟩
      simp only [TVal.ok, Bool.and_eq_true, decide_eq_true_eq] at hok
      obtain ⟨hety, hitems⟩ := hok
      have hsz : itemsSz items ≤ f := by simp only [TVal.sz] at hf; omega
      have ih := decItems_enc ety items hitems f hsz rest
      by_cases hl : items.length < 15
      · have h1 : (items.length * 16 + ety) % 16 = ety := by omega
        have h2 : (items.length * 16 + ety) / 16 = items.length := by omega
        have h3 : ¬ (items.length = 15) := by omega
        simp only [TVal.wireType, encVal, hl, if_true, List.cons_append, List.nil_append, decVal, h1, h2, h3, if_false, ih]
        simp
      · have h1 : (0xF0 + ety) % 16 = ety := by omega
        have h2 : (0xF0 + ety) / 16 = 15 := by omega
        simp only [TVal.wireType, encVal, hl, if_false, List.cons_append, List.append_assoc, decVal, h1, h2, if_true, uvarint_rt, ih]
        simp
    | .struct fs, hok, fuel, hf, rest => by
      obtain ⟨f, rfl⟩ : ∃ f, fuel = f + 1 := ⟨fuel - 1, by simp [TVal.sz] at hf; omega⟩
      simp only [TVal.ok] at hok
      have hsz : fieldsSz fs ≤ f := by simp only [TVal.sz] at hf; omega
      have ih := decFields_enc fs 0 hok f hsz rest
      simp [TVal.wireType, encVal, decVal, ih]
  theorem decItems_enc (ety : Nat) : ∀ (items : List TVal), itemsOk ety items = true → ∀ (fuel : Nat), itemsSz items ≤ fuel →
      ∀ (rest : List Nat), decItems fuel ety items.length (encItems items ++ rest) = some (items, rest)
    | [], _, fuel, hf, rest => by
      obtain ⟨f, rfl⟩ : ∃ f, fuel = f + 1 := ⟨fuel - 1, by simp [itemsSz] at hf; omega⟩
      simp [decItems, encItems]
    | v :: vs, hok, fuel, hf, rest => by
      obtain ⟨f, rfl⟩ : ∃ f, fuel = f + 1 := ⟨fuel - 1, by simp [itemsSz] at hf; omega⟩
      simp only [itemsOk, Bool.and_eq_true, decide_eq_true_eq] at hok
      obtain ⟨⟨hty, hv⟩, hvs⟩ := hok
      have hs1 : v.sz ≤ f := by simp only [itemsSz] at hf; omega
      have hs2 : itemsSz vs ≤ f := by simp only [itemsSz] at hf; omega
      have ih2 := decItems_enc ety vs hvs f hs2 rest
      cases v with
      | bool b =>
        have hety : ety = 1 := by simpa [elemType] using hty.symm
        subst hety
        cases b <;> simp [decItems, encItems, ih2]
      | i8 n =>
        have ih1 := decVal_enc (.i8 n) hv f hs1 (encItems vs ++ rest)
        have hety : ety = 3 := by simpa [elemType, TVal.wireType] using hty.symm
        subst hety
        simp only [TVal.wireType] at ih1
        simp only [List.length_cons, encItems, List.append_assoc]
        unfold decItems
        simp [ih1, ih2]
      | i16 n =>
        have ih1 := decVal_enc (.i16 n) hv f hs1 (encItems vs ++ rest)
        have hety : ety = 4 := by simpa [elemType, TVal.wireType] using hty.symm
        subst hety
        simp only [TVal.wireType] at ih1
        simp only [List.length_cons, encItems, List.append_assoc]
        unfold decItems
        simp [ih1, ih2]
      | i32 n =>
        have ih1 := decVal_enc (.i32 n) hv f hs1 (encItems vs ++ rest)
        have hety : ety = 5 := by simpa [elemType, TVal.wireType] using hty.symm
        subst hety
        simp only [TVal.wireType] at ih1
        simp only [List.length_cons, encItems, List.append_assoc]
        unfold decItems
        simp [ih1, ih2]
      | i64 n =>
        have ih1 := decVal_enc (.i64 n) hv f hs1 (encItems vs ++ rest)
        have hety : ety = 6 := by simpa [elemType, TVal.wireType] using hty.symm
        subst hety
        simp only [TVal.wireType] at ih1
        simp only [List.length_cons, encItems, List.append_assoc]
        unfold decItems
        simp [ih1, ih2]
      | double bits =>
        have ih1 := decVal_enc (.double bits) hv f hs1 (encItems vs ++ rest)
        have hety : ety = 7 := by simpa [elemType, TVal.wireType] using hty.symm
        subst hety
        simp only [TVal.wireType] at ih1
        simp only [List.length_cons, encItems, List.append_assoc]
        unfold decItems
        simp [ih1, ih2]
      | binary bs =>
        have ih1 := decVal_enc (.binary bs) hv f hs1 (encItems vs ++ rest)
        have hety : ety = 8 := by simpa [elemType, TVal.wireType] using hty.symm
        subst hety
        simp only [TVal.wireType] at ih1
        simp only [List.length_cons, encItems, List.append_assoc]
        unfold decItems
        simp [ih1, ih2]
      | list e its =>
        have ih1 := decVal_enc (.list e its) hv f hs1 (encItems vs ++ rest)
        have hety : ety = 9 := by simpa [elemType, TVal.wireType] using hty.symm
        subst hety
        simp only [TVal.wireType] at ih1
        simp only [List.length_cons, encItems, List.append_assoc]
        unfold decItems
        simp [ih1, ih2]
      | struct fs =>
        have ih1 := decVal_enc (.struct fs) hv f hs1 (encItems vs ++ rest)
        have hety : ety = 12 := by simpa [elemType, TVal.wireType] using hty.symm
        subst hety
        simp only [TVal.wireType] at ih1
        simp only [List.length_cons, encItems, List.append_assoc]
        unfold decItems
        simp [ih1, ih2]
  theorem decFields_enc : ∀ (fs : List (Nat × TVal)) (prev : Nat), fieldsOk prev fs = true → ∀ (fuel : Nat), fieldsSz fs ≤ fuel →
      ∀ (rest : List Nat), decFields fuel prev (encFields prev fs ++ rest) = some (fs, rest)
    | [], prev, _, fuel, hf, rest => by
      obtain ⟨f, rfl⟩ : ∃ f, fuel = f + 1 := ⟨fuel - 1, by simp [fieldsSz] at hf; omega⟩
      simp [decFields, encFields]
    | (id, v) :: fs, prev, hok, fuel, hf, rest => by
      obtain ⟨f, rfl⟩ : ∃ f, fuel = f + 1 := ⟨fuel - 1, by simp [fieldsSz] at hf; omega⟩
      simp only [fieldsOk, Bool.and_eq_true, decide_eq_true_eq] at hok
      obtain ⟨⟨hid, hv⟩, hfs⟩ := hok
      have hs1 : v.sz ≤ f := by simp only [fieldsSz] at hf; omega
      have hs2 : fieldsSz fs ≤ f := by simp only [fieldsSz] at hf; omega
      have ih1 := decVal_enc v hv f hs1 (encFields id fs ++ rest)
      have ih2 := decFields_enc fs id hfs f hs2 rest
      obtain ⟨hwt, hwt1⟩ := wireType_lt v
      by_cases hshort : prev < id ∧ id - prev ≤ 15
      · have h1 : ((id - prev) * 16 + v.wireType) % 16 = v.wireType := by omega
        have h2 : ((id - prev) * 16 + v.wireType) / 16 = id - prev := by omega
        have h3 : ¬ (id - prev = 0) := by omega
        have hne : (id - prev) * 16 + v.wireType ≠ 0 := by omega
        have hid' : prev + (id - prev) = id := by omega
        simp only [encFields, hshort, and_self, if_true, List.cons_append, List.nil_append, List.append_assoc]
        unfold decFields
        split
        · rename_i heq; cases heq
        · rename_i heq
          injection heq with ha hb
          exact absurd ha hne
        · rename_i h r hne0 heq
          injection heq with ha hb
          subst ha; subst hb
          simp only [h1, h2, h3, if_false, hid', ih1, ih2]
          simp
      · have h1 : v.wireType % 16 = v.wireType := by omega
        have h2 : v.wireType / 16 = 0 := by omega
        have hne : v.wireType ≠ 0 := by omega
        simp only [encFields, hshort, if_false, List.cons_append, List.append_assoc]
        unfold decFields
        split
        · rename_i heq; cases heq
        · rename_i heq
          injection heq with ha hb
          exact absurd ha hne
        · rename_i h r hne0 heq
          injection heq with ha hb
          subst ha; subst hb
          have hz : (zigzagDec (zigzagEnc (id : Int))).toNat = id := by rw [zigzag_rt]; simp
          simp only [h1, h2, if_true, uvarint_rt, Option.map_some, hz, ih1, ih2]
end

theorem encFields_length_pos (prev : Nat) (fs : List (Nat × TVal)) : 1 ≤ (encFields prev fs).length := by
  cases fs with
  | nil => simp [encFields]
  | cons p r => obtain ⟨id, v⟩ := p; simp only [encFields, List.length_append]; split <;> simp <;> omega

mutual
  /-- fuel the decoder needs is at most twice the encoded length -/
  theorem sz_le : ∀ (v : TVal), v.sz ≤ 2 * (encVal v).length + (match v with | .bool _ => 1 | _ => 0) ∧
      (match v with | .bool _ => True | _ => 1 ≤ (encVal v).length)
    | .bool _ => by simp [TVal.sz, encVal]
    | .i8 _ => by simp [TVal.sz, encVal]
    | .i16 n => by
      have := uvarintEnc_length_pos (zigzagEnc n)
      simp only [TVal.sz, encVal]; omega
    | .i32 n => by
      have := uvarintEnc_length_pos (zigzagEnc n)
      simp only [TVal.sz, encVal]; omega
    | .i64 n => by
      have := uvarintEnc_length_pos (zigzagEnc n)
      simp only [TVal.sz, encVal]; omega
    | .double b => by simp [TVal.sz, encVal, leBytes_length]
    | .binary bs => by
      have := uvarintEnc_length_pos bs.length
      simp only [TVal.sz, encVal, List.length_append]; omega
    | .list ety items => by
      have ih := itemsSz_le items
      simp only [TVal.sz, encVal, List.length_append]
      split <;> simp <;> omega
    | .struct fs => by
      have ih := fieldsSz_le fs 0
      simp only [TVal.sz, encVal]
      omega
  theorem itemsSz_le : ∀ (items : List TVal), itemsSz items ≤ 2 * (encItems items).length + 1
    | [] => by simp [itemsSz, encItems]
    | v :: vs => by
      have ih := itemsSz_le vs
      have hv := sz_le v
      cases v with
      | bool b => simp only [itemsSz, encItems, TVal.sz, List.length_append, List.length_cons, List.length_nil]; omega
      | i8 n => simp only [itemsSz, encItems, List.length_append] at hv ⊢; omega
      | i16 n => simp only [itemsSz, encItems, List.length_append] at hv ⊢; omega
      | i32 n => simp only [itemsSz, encItems, List.length_append] at hv ⊢; omega
      | i64 n => simp only [itemsSz, encItems, List.length_append] at hv ⊢; omega
      | double n => simp only [itemsSz, encItems, List.length_append] at hv ⊢; omega
      | binary n => simp only [itemsSz, encItems, List.length_append] at hv ⊢; omega
      | list e n => simp only [itemsSz, encItems, List.length_append] at hv ⊢; omega
      | struct n => simp only [itemsSz, encItems, List.length_append] at hv ⊢; omega
  theorem fieldsSz_le : ∀ (fs : List (Nat × TVal)) (prev : Nat), fieldsSz fs + 1 ≤ 2 * (encFields prev fs).length
    | [], prev => by simp [fieldsSz, encFields]
    | (id, v) :: rest, prev => by
      have ih := fieldsSz_le rest id
      have hv := sz_le v
      have hpos := encFields_length_pos id rest
      simp only [fieldsSz, encFields, List.length_append]
      cases v <;> (simp only at hv; split <;> simp <;> omega)
end

/-- **Thrift compact protocol round trip** (specification level): every well-formed structure —
    any nesting of structs and lists, any field ids (short and long form headers), any list length
    (short and long form), booleans in fields and in lists, every integer width, binaries, doubles —
    decodes from its encoding to itself, leaving the following bytes untouched. -/
theorem decStruct_enc (fs : List (Nat × TVal)) (hok : fieldsOk 0 fs = true) (rest : List Nat) :
    decStruct (encFields 0 fs ++ rest) = some (.struct fs, rest) := by
  unfold decStruct
  have hsz := fieldsSz_le fs 0
  rw [decFields_enc fs 0 hok _ (by simp only [List.length_append]; omega) rest]
  rfl

end PqV.Spec
