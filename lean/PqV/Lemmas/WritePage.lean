/-
  Lemmas.WritePage — the pages the model of `write_column` lays down (Impl.WritePage) are decoded by the
  specification reader's page functions (`Spec.decodePage` / `decodePages`, the functions `Spec.File` runs on real
  bytes) to exactly the cells that went in, with tight run framing.
-/
import PqV.Impl.WritePage
import PqV.Lemmas.Plain
import PqV.Lemmas.KEncode
import PqV.Lemmas.KPlain
namespace PqV.Impl
open PqV.Spec

/-! ### byte-wide bit packing is the little-endian byte layout (`data.values.tobytes()`) -/

theorem pow256 (k : Nat) : 2 ^ (k * 8) = 256 ^ k := by
  have e : (256 : Nat) = 2 ^ 8 := by norm_num
  rw [e, ← Nat.pow_mul, Nat.mul_comm]

theorem packLE_bytes (k : Nat) (vs : List Nat) (h : ∀ v ∈ vs, v < 256 ^ k) :
    packLE (k * 8) vs = vs.flatMap (leBytes k) := by
  unfold packLE
  have hl : (vs.length * (k * 8) + 7) / 8 = vs.length * k := by
    have : vs.length * (k * 8) = (vs.length * k) * 8 := by ring
    omega
  rw [hl]
  clear hl
  induction vs with
  | nil => simp [leBytes]
  | cons v vs ih =>
    have hv : v < 256 ^ k := h v List.mem_cons_self
    have ih' := ih (fun x hx => h x (List.mem_cons_of_mem _ hx))
    have e1 : (vs.length + 1) * k = k + vs.length * k := by ring
    simp only [List.length_cons, packNat, List.flatMap_cons, e1, pow256]
    rw [leBytes_add]
    congr 1
    · apply leBytes_congr
      rw [Nat.mod_eq_of_lt hv, Nat.add_mul_mod_self_left, Nat.mod_eq_of_lt hv]
    · rw [Nat.mod_eq_of_lt hv, Nat.add_mul_div_left _ _ (Nat.pow_pos (by norm_num)), Nat.div_eq_of_lt hv, Nat.zero_add]
      exact ih'

theorem flatMap_replicate_zero (k m : Nat) : (List.replicate m 0).flatMap (leBytes k) = List.replicate (m * k) 0 := by
  have hz : leBytes k 0 = List.replicate k 0 := by
    induction k with
    | zero => rfl
    | succ k ih => simp [leBytes, ih, List.replicate_succ]
  induction m with
  | zero => simp
  | succ m ih =>
    rw [List.replicate_succ, List.flatMap_cons, ih, hz, List.replicate_append_replicate]
    congr 1; ring

/-- **the layout arithmetic of `encode_dict` and the v1 trailer, as the code has it NOW** (regenerated on every run): width
    byte = 8·itemsize, the run announces ⌈n/8⌉ groups, the zero padding completes the last group in BYTES, a v1 page ends with
    8 zero bytes.  Every theorem below about written pages goes through this lemma, so an edit of that arithmetic that
    changes a value breaks them. -/
theorem write_layout_now (n item : Nat) :
    PqV.Gen.WriteLayout.recognised = true ∧
    (PqV.Gen.WriteLayout.dictWidthByte item).toNat = item * 8 ∧
    (PqV.Gen.WriteLayout.dictHeader n item).toNat = (n + 7) / 8 * 2 + 1 ∧
    (PqV.Gen.WriteLayout.dictPad n item).toNat = ((n + 7) / 8 * 8 - n) * item ∧
    PqV.Gen.WriteLayout.v1Trailer = 8 := by
  refine ⟨by decide, ?_, ?_, ?_, by decide⟩
  · simp only [PqV.Gen.WriteLayout.dictWidthByte]; omega
  · simp only [PqV.Gen.WriteLayout.dictHeader]; omega
  · simp only [PqV.Gen.WriteLayout.dictPad]
    have hk : (((n : Int) + 7) / 8 * 8 - (n : Int)) = (((n + 7) / 8 * 8 - n : Nat) : Int) := by omega
    rw [hk, ← Nat.cast_mul, Int.toNat_natCast]

/-- the two level-block layouts of `make_definitions`, as the code has them NOW: an RLE run `varint(n << 1)` with value byte 1
    when the page has no null, a bit-packed run `varint(len(out) << 1 | 1)` otherwise, a 4-byte length prefix in v1 -/
theorem def_layout_now (n : Nat) :
    (PqV.Gen.WriteLayout.defRleHeader n).toNat = n * 2 ∧ PqV.Gen.WriteLayout.defRleValue.toNat = 1 ∧
    (PqV.Gen.WriteLayout.defBpHeader n).toNat = n * 2 + 1 ∧ PqV.Gen.WriteLayout.defPrefixBytes = 4 := by
  refine ⟨?_, by decide, ?_, by decide⟩
  · simp only [PqV.Gen.WriteLayout.defRleHeader]; omega
  · simp only [PqV.Gen.WriteLayout.defBpHeader]; omega

theorem writerDefBody_eq (bits : List Nat) :
    writerDefBody bits = if bits.all (· == 1) then uvarintEnc (bits.length * 2) ++ [1]
      else uvarintEnc ((writerPackBools bits).length * 2 + 1) ++ writerPackBools bits := by
  simp only [writerDefBody, (def_layout_now bits.length).1, (def_layout_now 0).2.1, (def_layout_now (writerPackBools bits).length).2.2.1]

theorem writerDefBlock_eq (v2 : Bool) (bits : List Nat) :
    writerDefBlock v2 bits = if v2 then writerDefBody bits else leBytes 4 (writerDefBody bits).length ++ writerDefBody bits := by
  simp only [writerDefBlock, (def_layout_now 0).2.2.2]

theorem writerDictData_eq (item : Nat) (codes : List Nat) :
    writerDictData item codes = [item * 8] ++ uvarintEnc ((codes.length + 7) / 8 * 2 + 1) ++ codes.flatMap (leBytes item)
      ++ List.replicate (((codes.length + 7) / 8 * 8 - codes.length) * item) 0 := by
  obtain ⟨_, h1, h2, h3, _⟩ := write_layout_now codes.length item
  simp only [writerDictData, h1, h2, h3]

/-- **`encode_dict` writes one well-formed bit-packed run**: the width byte, then the run of the codes padded with
    zeros to whole groups of 8 (the padding is there in full — the repaired writer) -/
theorem writerDictData_runs (item : Nat) (codes : List Nat) (h : ∀ v ∈ codes, v < 256 ^ item) :
    writerDictData item codes
      = (item * 8) :: encodeRuns (item * 8) [Run.bp (codes ++ List.replicate ((codes.length + 7) / 8 * 8 - codes.length) 0)] := by
  set g := (codes.length + 7) / 8 with hg
  set pad := List.replicate (g * 8 - codes.length) 0 with hpad
  have hlen : (codes ++ pad).length = g * 8 := by simp [hpad]; omega
  have hall : ∀ v ∈ codes ++ pad, v < 256 ^ item := by
    intro v hv
    rcases List.mem_append.mp hv with h1 | h1
    · exact h v h1
    · rw [hpad, List.mem_replicate] at h1; rw [h1.2]; exact Nat.pow_pos (by norm_num)
  rw [writerDictData_eq]
  simp only [encodeRuns, List.flatMap_cons, List.flatMap_nil, List.append_nil, encodeRun, hlen]
  rw [packLE_bytes item _ hall, List.flatMap_append, hpad, flatMap_replicate_zero]
  have : g * 8 / 8 = g := by omega
  simp [this, ← hg, List.append_assoc]

theorem dictRun_wf (item : Nat) (codes : List Nat) (h : ∀ v ∈ codes, v < 256 ^ item) :
    ∀ r ∈ [Run.bp (codes ++ List.replicate ((codes.length + 7) / 8 * 8 - codes.length) 0)], r.wf (item * 8) = true := by
  intro r hr
  simp only [List.mem_cons, List.mem_nil_iff, or_false] at hr
  subst hr
  simp only [Run.wf, Bool.and_eq_true, decide_eq_true_eq, List.all_eq_true, List.length_append, List.length_replicate]
  refine ⟨by omega, ?_⟩
  intro v hv
  rw [pow256]
  rcases List.mem_append.mp hv with h1 | h1
  · exact h v h1
  · rw [List.mem_replicate] at h1; rw [h1.2]; exact Nat.pow_pos (by norm_num)

/-! ### the level block of `make_definitions` is a stream of well-formed runs holding the not-null bits -/

theorem writerDefBody_runs (bits : List Nat) (hb : ∀ v ∈ bits, v < 2) :
    ∃ rs : List Run, writerDefBody bits = encodeRuns 1 rs ∧ (∀ r ∈ rs, r.wf 1 = true) ∧
      bits.length ≤ (rs.flatMap Run.values).length ∧ (rs.flatMap Run.values).take bits.length = bits := by
  rw [writerDefBody_eq]
  by_cases hall : bits.all (· == 1) = true
  · refine ⟨[Run.rle bits.length 1], ?_, ?_, ?_, ?_⟩
    · simp [hall, encodeRuns, encodeRun, leBytes]
    · intro r hr; simp at hr; subst hr; simp [Run.wf]
    · simp [Run.values]
    · simp only [List.flatMap_cons, List.flatMap_nil, List.append_nil, Run.values, List.take_replicate, Nat.min_self]
      symm
      apply List.eq_replicate_iff.mpr
      refine ⟨rfl, ?_⟩
      intro b hbm
      have := List.all_eq_true.mp hall b hbm
      simpa using this
  · set pad := List.replicate (8 - bits.length % 8) 0 with hpad
    have hP8 : (bits ++ pad).length % 8 = 0 := by simp [hpad]; omega
    have hPb : ∀ v ∈ bits ++ pad, v < 2 := by
      intro v hv
      rcases List.mem_append.mp hv with h | h
      · exact hb v h
      · rw [hpad, List.mem_replicate] at h; omega
    have hw : writerPackBools bits = packLE 1 (bits ++ pad) := writerPackBools_eq bits hb
    have hl : (writerPackBools bits).length = (bits ++ pad).length / 8 := by
      rw [hw, packLE_length]; omega
    refine ⟨[Run.bp (bits ++ pad)], ?_, ?_, ?_, ?_⟩
    · simp only [hall, Bool.false_eq_true, if_false, encodeRuns, List.flatMap_cons, List.flatMap_nil, List.append_nil, encodeRun]
      rw [hl, hw]
    · intro r hr
      simp only [List.mem_cons, List.mem_nil_iff, or_false] at hr; subst hr
      simp only [Run.wf, Bool.and_eq_true, decide_eq_true_eq, List.all_eq_true]
      exact ⟨hP8, fun v hv => by simpa using hPb v hv⟩
    · simp [Run.values]
    · simp [Run.values]

/-! ### the values section -/

/-- a non-null cell that `encode_plain` can lay down for this physical type -/
def plainOk (ptype tl : Nat) : Cell → Bool
  | .null => false
  | .int n =>
    if ptype = PT_BOOLEAN then decide (n < 2)
    else if ptype = PT_BYTE_ARRAY ∨ ptype = PT_FLBA then false
    else match fixedWidth ptype tl with
      | some w => decide (n < 256 ^ w)
      | none => false
  | .bytes b =>
    if ptype = PT_BYTE_ARRAY then decide (b.length < 2 ^ 32)
    else if ptype = PT_FLBA then decide (b.length = tl) else false

theorem unpackLE_take (w n m : Nat) (bs : List Nat) (h : n ≤ m) : unpackLE w n bs = (unpackLE w m bs).take n := by
  unfold unpackLE unpackNat
  rw [← List.map_take, List.take_range, Nat.min_eq_left h]

theorem plainFixed_cells (w : Nat) (vals : List Cell) (tail : List Nat)
    (hv : ∀ v ∈ vals, ∃ n, v = Cell.int n ∧ n < 256 ^ w) :
    ∀ acc, plainFixed w false vals.length
      (vals.flatMap (fun c => match c with | .int n => leBytes w n | .bytes b => b | .null => []) ++ tail) acc
        = acc.reverse ++ vals := by
  induction vals with
  | nil => intro acc; simp [plainFixed]
  | cons v vs ih =>
    intro acc
    obtain ⟨n, rfl, hn⟩ := hv v List.mem_cons_self
    have h1 : ∀ r : List Nat, (leBytes w n ++ r).take w = leBytes w n := fun r => List.take_left' (leBytes_length _ _)
    have h2 : ∀ r : List Nat, (leBytes w n ++ r).drop w = r := fun r => List.drop_left' (leBytes_length _ _)
    have h3 : leNat (leBytes w n) = n := by rw [leNat_leBytes]; exact Nat.mod_eq_of_lt hn
    simp only [List.flatMap_cons, List.length_cons, plainFixed, List.append_assoc, h1, h2, h3, Bool.false_eq_true, if_false]
    rw [ih (fun x hx => hv x (List.mem_cons_of_mem _ hx))]
    simp

theorem plainFixed_flba (w : Nat) (vals : List Cell) (tail : List Nat)
    (hv : ∀ v ∈ vals, ∃ b, v = Cell.bytes b ∧ b.length = w) :
    ∀ acc, plainFixed w true vals.length
      (vals.flatMap (fun c => match c with | .int n => leBytes w n | .bytes b => b | .null => []) ++ tail) acc
        = acc.reverse ++ vals := by
  induction vals with
  | nil => intro acc; simp [plainFixed]
  | cons v vs ih =>
    intro acc
    obtain ⟨b, rfl, hb⟩ := hv v List.mem_cons_self
    have h1 : ∀ r : List Nat, (b ++ r).take w = b := fun r => List.take_left' hb
    have h2 : ∀ r : List Nat, (b ++ r).drop w = r := fun r => List.drop_left' hb
    simp only [List.flatMap_cons, List.length_cons, plainFixed, List.append_assoc, h1, h2, if_true]
    rw [ih (fun x hx => hv x (List.mem_cons_of_mem _ hx))]
    simp

theorem plainByteArrays_cells (vals : List Cell) (tail : List Nat)
    (hv : ∀ v ∈ vals, ∃ b, v = Cell.bytes b ∧ b.length < 2 ^ 32) :
    ∀ acc, plainByteArrays vals.length
      (vals.flatMap (fun c => match c with | .bytes b => leBytes 4 b.length ++ b | _ => leBytes 4 0) ++ tail) acc
        = some (acc.reverse ++ vals) := by
  induction vals with
  | nil => intro acc; simp [plainByteArrays]
  | cons v vs ih =>
    intro acc
    obtain ⟨it, rfl, hit⟩ := hv v List.mem_cons_self
    have h4 : (leBytes 4 it.length).length = 4 := leBytes_length _ _
    set rest := vs.flatMap (fun c => match c with | .bytes b => leBytes 4 b.length ++ b | _ => leBytes 4 0) ++ tail
    have hshape : (Cell.bytes it :: vs).flatMap (fun c => match c with | .bytes b => leBytes 4 b.length ++ b | _ => leBytes 4 0) ++ tail
        = leBytes 4 it.length ++ (it ++ rest) := by
      simp [rest, List.append_assoc]
    rw [hshape]
    have hlen : ¬ ((leBytes 4 it.length ++ (it ++ rest)).length < 4) := by simp [h4]
    have h1 : (leBytes 4 it.length ++ (it ++ rest)).take 4 = leBytes 4 it.length := List.take_left' h4
    have h2 : (leBytes 4 it.length ++ (it ++ rest)).drop 4 = it ++ rest := List.drop_left' h4
    have h3 : leNat (leBytes 4 it.length) = it.length := by
      rw [leNat_leBytes]; exact Nat.mod_eq_of_lt (by norm_num at hit ⊢; exact hit)
    have hlen2 : ¬ ((it ++ rest).length < it.length) := by simp
    simp only [List.length_cons, plainByteArrays, hlen, if_false, h1, h2, h3, hlen2, List.take_left' rfl, List.drop_left' rfl]
    rw [ih (fun x hx => hv x (List.mem_cons_of_mem _ hx))]
    simp

theorem flatMap_length_const {α} (f : α → List Nat) (w : Nat) (l : List α) (h : ∀ x ∈ l, (f x).length = w) :
    (l.flatMap f).length = l.length * w := by
  induction l with
  | nil => simp
  | cons x xs ih =>
    simp only [List.flatMap_cons, List.length_append, List.length_cons, h x List.mem_cons_self,
      ih (fun y hy => h y (List.mem_cons_of_mem _ hy))]
    ring

/-- **`encode_plain` is decoded by the specification's PLAIN reader**, whatever follows in the page -/
theorem writerPlain_decodes (ptype tl : Nat) (hpt : ptype ≤ 7) (vals : List Cell) (tail : List Nat)
    (hok : ∀ v ∈ vals, plainOk ptype tl v = true) :
    plainDecode ptype tl vals.length (writerPlain ptype tl vals ++ tail) = some vals := by
  unfold writerPlain plainDecode
  by_cases hb : ptype = PT_BOOLEAN
  · -- booleans: convert's packing = packLE 1 of the bits padded with zeros
    subst hb
    have hints : ∀ v ∈ vals, ∃ n, v = Cell.int n ∧ n < 2 := by
      intro v hv
      have := hok v hv
      cases v with
      | null => simp [plainOk] at this
      | int n => exact ⟨n, rfl, by simpa [plainOk] using this⟩
      | bytes b => simp [plainOk, PT_BOOLEAN, PT_BYTE_ARRAY, PT_FLBA] at this
    set bits := vals.map cellNat with hbits
    have hb2 : ∀ v ∈ bits, v < 2 := by
      intro v hv
      obtain ⟨c, hc, rfl⟩ := List.mem_map.mp hv
      obtain ⟨n, rfl, hn⟩ := hints c hc
      exact hn
    have hback : bits.map Cell.int = vals := by
      rw [hbits, List.map_map]
      conv => rhs; rw [← List.map_id vals]
      apply List.map_congr_left
      intro c hc
      obtain ⟨n, rfl, _⟩ := hints c hc
      rfl
    set pad := List.replicate (8 - bits.length % 8) 0 with hpad
    have hPb : ∀ v ∈ bits ++ pad, v < 2 ^ 1 := by
      intro v hv
      rcases List.mem_append.mp hv with h | h
      · simpa using hb2 v h
      · rw [hpad, List.mem_replicate] at h; omega
    have hw : writerPackBools bits = packLE 1 (bits ++ pad) := writerPackBools_eq bits hb2
    have hlen : vals.length = bits.length := by simp [hbits]
    have hsz : ¬ ((packLE 1 (bits ++ pad) ++ tail).length * 8 < bits.length) := by
      simp only [List.length_append, packLE_length, List.length_replicate, hpad]; omega
    simp only [if_true, hw, hlen, hsz, if_false]
    rw [unpackLE_take 1 bits.length (bits ++ pad).length _ (by simp), unpackLE_packLE_append 1 _ tail hPb]
    simp [hback]
  · by_cases hba : ptype = PT_BYTE_ARRAY
    · subst hba
      have hbs : ∀ v ∈ vals, ∃ b, v = Cell.bytes b ∧ b.length < 2 ^ 32 := by
        intro v hv
        have := hok v hv
        cases v with
        | null => simp [plainOk] at this
        | int n => simp [plainOk, PT_BOOLEAN, PT_BYTE_ARRAY] at this
        | bytes b => exact ⟨b, rfl, by simpa [plainOk] using this⟩
      have := plainByteArrays_cells vals tail hbs []
      simp only [List.reverse_nil, List.nil_append] at this
      simp only [hb, if_false, if_true, plainEncode]
      exact this
    · by_cases hf : ptype = PT_FLBA
      · subst hf
        have hbs : ∀ v ∈ vals, ∃ b, v = Cell.bytes b ∧ b.length = tl := by
          intro v hv
          have := hok v hv
          cases v with
          | null => simp [plainOk] at this
          | int n => simp [plainOk, PT_BOOLEAN, PT_BYTE_ARRAY, PT_FLBA] at this
          | bytes b => exact ⟨b, rfl, by simpa [plainOk, PT_BYTE_ARRAY, PT_FLBA] using this⟩
        have hfw : fixedWidth PT_FLBA tl = some tl := by simp [fixedWidth, PT_FLBA, PT_INT32, PT_FLOAT, PT_INT64, PT_DOUBLE, PT_INT96]
        have hl : (vals.flatMap (fun c => match c with | .int n => leBytes tl n | .bytes b => b | .null => [])).length = vals.length * tl :=
          flatMap_length_const _ tl vals (by
            intro x hx; obtain ⟨b, rfl, hbl⟩ := hbs x hx; exact hbl)
        have := plainFixed_flba tl vals tail hbs []
        simp only [List.reverse_nil, List.nil_append] at this
        simp only [hb, hba, if_false, plainEncode, hfw, Option.getD_some]
        have hsz : ¬ ((vals.flatMap (fun c => match c with | .int n => leBytes tl n | .bytes b => b | .null => []) ++ tail).length < vals.length * tl) := by
          simp only [List.length_append, hl]; omega
        simp only [decide_true]
        exact (if_neg hsz).trans (congrArg some this)
      · -- INT32 / INT64 / INT96 / FLOAT / DOUBLE
        have hex : ∃ w, fixedWidth ptype tl = some w ∧ ∀ v ∈ vals, ∃ n, v = Cell.int n ∧ n < 256 ^ w := by
          cases hfw : fixedWidth ptype tl with
          | none =>
            exfalso
            simp only [PT_BOOLEAN, PT_BYTE_ARRAY, PT_FLBA] at hb hba hf
            have : ptype = 1 ∨ ptype = 2 ∨ ptype = 3 ∨ ptype = 4 ∨ ptype = 5 := by omega
            rcases this with h | h | h | h | h <;> subst h <;> simp [fixedWidth, PT_INT32, PT_FLOAT, PT_INT64, PT_DOUBLE, PT_INT96] at hfw
          | some w =>
            refine ⟨w, rfl, ?_⟩
            intro v hv
            have := hok v hv
            cases v with
            | null => simp [plainOk] at this
            | int n => exact ⟨n, rfl, by simpa [plainOk, hb, hba, hf, hfw] using this⟩
            | bytes b => simp [plainOk, hba, hf] at this
        obtain ⟨w, hfw, hints⟩ := hex
        have hl : (vals.flatMap (fun c => match c with | .int n => leBytes w n | .bytes b => b | .null => [])).length = vals.length * w :=
          flatMap_length_const _ w vals (by
            intro x hx; obtain ⟨n, rfl, _⟩ := hints x hx; exact leBytes_length _ _)
        have := plainFixed_cells w vals tail hints []
        simp only [List.reverse_nil, List.nil_append] at this
        simp only [hb, hba, if_false, plainEncode, hfw, Option.getD_some]
        have hsz : ¬ ((vals.flatMap (fun c => match c with | .int n => leBytes w n | .bytes b => b | .null => []) ++ tail).length < vals.length * w) := by
          simp only [List.length_append, hl]; omega
        simp only [hf, decide_false]
        exact (if_neg hsz).trans (congrArg some this)

/-! ### one page -/

/-- a non-null cell the column can hold: a PLAIN-encodable value, or (categorical) a code of an existing category that
    fits the code width -/
def valOk (c : ColSpec) (ncats : Nat) (v : Cell) : Bool :=
  match c.dictItem with
  | none => plainOk c.ptype c.typeLength v
  | some item => match v with
    | .int n => decide (n < ncats ∧ n < 256 ^ item)
    | _ => false

/-- what the writer is asked to put on one page -/
structure PageOk (c : ColSpec) (ncats : Nat) (cells : List Cell) : Prop where
  vals_ok : ∀ v ∈ nonNull cells, valOk c ncats v = true
  no_nulls : c.hasNulls = false → ∀ v ∈ cells, v ≠ Cell.null
  fits : (writerDefBody (notNullBits cells)).length < 2 ^ 32

/-- the levels the reader should see -/
def levelsOf (c : ColSpec) (cells : List Cell) : List Nat :=
  if c.hasNulls then notNullBits cells else List.replicate cells.length 0

/-- the value a reader should see for a non-null cell: itself, or (categorical) the category the code names -/
def render (c : ColSpec) (cats : List Cell) (x : Cell) : Cell :=
  match c.dictItem with
  | none => x
  | some _ => match x with
    | .int i => cats.getD i Cell.null
    | y => y

theorem notNullBits_lt (cells : List Cell) : ∀ v ∈ notNullBits cells, v < 2 := by
  intro v hv
  obtain ⟨c, _, rfl⟩ := List.mem_map.mp hv
  split <;> omega

theorem notNullBits_length (cells : List Cell) : (notNullBits cells).length = cells.length := by simp [notNullBits]

theorem count_levels (c : ColSpec) (cells : List Cell) (hnn : c.hasNulls = false → ∀ v ∈ cells, v ≠ Cell.null) :
    ((levelsOf c cells).filter (· == (leafOf c).maxDef)).length = (nonNull cells).length := by
  unfold levelsOf leafOf nonNull
  by_cases h : c.hasNulls = true
  · simp only [h, if_true, notNullBits]
    induction cells with
    | nil => simp
    | cons x xs ih =>
      have ih' := ih (fun h' => by simp [h] at h')
      by_cases hx : x = Cell.null
      · simp [hx, List.filter_cons] at ih' ⊢; exact ih'
      · simp [hx, List.filter_cons] at ih' ⊢; exact ih'
  · have h' : c.hasNulls = false := by simpa using h
    have hall := hnn h'
    simp only [h', Bool.false_eq_true, if_false]
    rw [List.filter_eq_self.mpr (by intro a ha; simp [List.eq_of_mem_replicate ha])]
    rw [List.filter_eq_self.mpr (by intro a ha; simpa using hall a ha)]
    simp

theorem maxRep_zero (c : ColSpec) : (leafOf c).maxRep = 0 := rfl

/-- v1 level block: decoded to the levels, the reader continues right behind it, framing tight -/
theorem levels_v1 (c : ColSpec) (hv : c.v2 = false) (cells : List Cell) (rest : List Nat)
    (hfit : (writerDefBody (notNullBits cells)).length < 2 ^ 32) :
    levelsV1 (leafOf c).maxDef cells.length (writerLevels c cells ++ rest) = some (levelsOf c cells, rest) ∧
    levelsLooseV1 (leafOf c).maxDef cells.length (writerLevels c cells ++ rest) = 0 := by
  unfold writerLevels levelsOf leafOf
  by_cases h : c.hasNulls = true
  · simp only [h, if_true, writerDefBlock_eq, hv, Bool.false_eq_true, if_false]
    obtain ⟨rs, hrs, hwf, hn, htake⟩ := writerDefBody_runs (notNullBits cells) (notNullBits_lt cells)
    have hw : widthFor 1 = 1 := by decide
    rw [notNullBits_length] at hn htake
    constructor
    · have := levelsV1_runs 1 cells.length (by decide) rs rest (by rw [hw]; exact hwf) hn (by rw [hw, ← hrs]; exact hfit)
      rw [hw, ← hrs, htake] at this
      exact this
    · unfold levelsLooseV1
      have h4 : (leBytes 4 (writerDefBody (notNullBits cells)).length).length = 4 := leBytes_length _ _
      have htk : (leBytes 4 (writerDefBody (notNullBits cells)).length ++ writerDefBody (notNullBits cells) ++ rest).take 4
          = leBytes 4 (writerDefBody (notNullBits cells)).length := by rw [List.append_assoc, List.take_left' h4]
      have hdr : (leBytes 4 (writerDefBody (notNullBits cells)).length ++ writerDefBody (notNullBits cells) ++ rest).drop 4
          = writerDefBody (notNullBits cells) ++ rest := by rw [List.append_assoc, List.drop_left' h4]
      have hval : leNat (leBytes 4 (writerDefBody (notNullBits cells)).length) = (writerDefBody (notNullBits cells)).length := by
        rw [leNat_leBytes]; exact Nat.mod_eq_of_lt (by norm_num at hfit ⊢; exact hfit)
      simp only [htk, hdr, hval, List.take_left' rfl, hw]
      have := hybridTight_encodeRuns 1 cells.length rs [] hwf hn
      rw [List.append_nil, ← hrs] at this
      simp [this]
  · have h' : c.hasNulls = false := by simpa using h
    simp [h', levelsV1, levelsLooseV1]

/-- v2 level bytes: decoded to the levels, framing tight -/
theorem levels_v2 (c : ColSpec) (hv : c.v2 = true) (cells : List Cell) :
    (if (leafOf c).maxDef = 0 then List.replicate cells.length 0
      else decodeHybrid (widthFor (leafOf c).maxDef) cells.length (writerLevels c cells)) = levelsOf c cells ∧
    ((leafOf c).maxDef = 0 ∨ hybridTight (widthFor (leafOf c).maxDef) cells.length (writerLevels c cells) = true) := by
  unfold writerLevels levelsOf leafOf
  by_cases h : c.hasNulls = true
  · simp only [h, if_true, writerDefBlock_eq, hv]
    obtain ⟨rs, hrs, hwf, hn, htake⟩ := writerDefBody_runs (notNullBits cells) (notNullBits_lt cells)
    have hw : widthFor 1 = 1 := by decide
    rw [notNullBits_length] at hn htake
    have hd := decodeHybrid_encodeRuns 1 cells.length rs [] hwf hn
    have ht := hybridTight_encodeRuns 1 cells.length rs [] hwf hn
    rw [List.append_nil, ← hrs] at hd ht
    simp [hw, hd, htake, ht]
  · have h' : c.hasNulls = false := by simpa using h
    simp [h']

/-- the values section: decoded to the rendered values, framing tight, whatever follows in the page -/
theorem values_decode (c : ColSpec) (hpt : c.ptype ≤ 7) (cats : List Cell) (dict : Option (List Cell))
    (hdict : c.dictItem.isSome → dict = some cats) (vals : List Cell) (tail : List Nat)
    (hok : ∀ v ∈ vals, valOk c cats.length v = true) :
    decodeValues c.ptype c.typeLength (if c.dictItem.isSome then ENC_RLE_DICTIONARY else ENC_PLAIN) dict vals.length
        (writerValues c vals ++ tail) = some (vals.map (render c cats)) ∧
    valuesLoose c.ptype (if c.dictItem.isSome then ENC_RLE_DICTIONARY else ENC_PLAIN) vals.length (writerValues c vals ++ tail) = 0 := by
  unfold writerValues
  cases hd : c.dictItem with
  | none =>
    have hr : vals.map (render c cats) = vals := by
      conv => rhs; rw [← List.map_id vals]
      apply List.map_congr_left; intro x _; simp [render, hd]
    have hok' : ∀ v ∈ vals, plainOk c.ptype c.typeLength v = true := by
      intro v hv; have := hok v hv; simpa [valOk, hd] using this
    constructor
    · simp only [Option.isSome_none, Bool.false_eq_true, if_false, decodeValues, if_true, hr]
      exact writerPlain_decodes c.ptype c.typeLength hpt vals tail hok'
    · simp [valuesLoose, ENC_PLAIN, ENC_PLAIN_DICTIONARY, ENC_RLE_DICTIONARY, ENC_RLE]
  | some item =>
    have hdict' : dict = some cats := hdict (by simp [hd])
    have hcodes : ∀ v ∈ vals, ∃ n, v = Cell.int n ∧ n < cats.length ∧ n < 256 ^ item := by
      intro v hv
      have := hok v hv
      cases v with
      | null => simp [valOk, hd] at this
      | int n => exact ⟨n, rfl, by simpa [valOk, hd] using this⟩
      | bytes b => simp [valOk, hd] at this
    set codes := vals.map cellNat with hcd
    have hc256 : ∀ v ∈ codes, v < 256 ^ item := by
      intro v hv
      obtain ⟨x, hx, rfl⟩ := List.mem_map.mp hv
      obtain ⟨n, rfl, _, h2⟩ := hcodes x hx
      exact h2
    have hlen : codes.length = vals.length := by simp [hcd]
    set padded := codes ++ List.replicate ((codes.length + 7) / 8 * 8 - codes.length) 0 with hpd
    have hruns := writerDictData_runs item codes hc256
    have hwf := dictRun_wf item codes hc256
    rw [← hpd] at hruns hwf
    have hn : vals.length ≤ ([Run.bp padded].flatMap Run.values).length := by
      simp [Run.values, hpd, hlen]
    have htake : ([Run.bp padded].flatMap Run.values).take vals.length = codes := by
      simp [Run.values, hpd, ← hlen]
    have hix := dictIndices_runs (item * 8) vals.length [Run.bp padded] tail hwf hn
    rw [htake] at hix
    have hin : ∀ i ∈ codes, i < cats.length := by
      intro v hv
      obtain ⟨x, hx, rfl⟩ := List.mem_map.mp hv
      obtain ⟨n, rfl, h1, _⟩ := hcodes x hx
      exact h1
    have hrender : codes.map (fun i => cats.getD i Cell.null) = vals.map (render c cats) := by
      rw [hcd, List.map_map]
      apply List.map_congr_left
      intro x hx
      obtain ⟨n, rfl, _, _⟩ := hcodes x hx
      simp [render, hd, cellNat]
    constructor
    · simp only [Option.isSome_some, if_true, decodeValues, hruns, List.cons_append, hdict']
      have h0 : ¬ (ENC_RLE_DICTIONARY = ENC_PLAIN) := by decide
      simp only [h0, if_false, or_true, if_true, hix]
      rw [dict_lookup cats codes hin, hrender]
    · simp only [Option.isSome_some, if_true, valuesLoose, or_true, hruns, List.cons_append]
      have := hybridTight_encodeRuns (item * 8) vals.length [Run.bp padded] tail hwf hn
      simp [this]

@[simp] theorem leafOf_ptype (c : ColSpec) : (leafOf c).ptype = c.ptype := rfl
@[simp] theorem leafOf_tl (c : ColSpec) : (leafOf c).typeLength = c.typeLength := rfl
@[simp] theorem leafOf_maxRep (c : ColSpec) : (leafOf c).maxRep = 0 := rfl

/-- the accumulator after a data page of `cells` -/
def accAfter (c : ColSpec) (cats : List Cell) (acc : PageAcc) (cells : List Cell) : PageAcc :=
  { acc with defs := acc.defs ++ levelsOf c cells, reps := acc.reps ++ List.replicate cells.length 0,
             vals := acc.vals ++ (nonNull cells).map (render c cats), count := acc.count + cells.length }

theorem written_page_v1 (c : ColSpec) (hv : c.v2 = false) (hpt : c.ptype ≤ 7) (cats cells : List Cell) (acc : PageAcc)
    (hdict : c.dictItem.isSome → acc.dict = some cats) (hok : PageOk c cats.length cells) :
    decodePage (leafOf c) acc (writerPageInfo c cells) (writerPageBody c cells) = .ok (accAfter c cats acc cells) := by
  have hL := levels_v1 c hv cells (writerValues c (nonNull cells) ++ List.replicate 8 0) hok.fits
  have hC := count_levels c cells hok.no_nulls
  have hV := values_decode c hpt cats acc.dict hdict (nonNull cells) (List.replicate 8 0) hok.vals_ok
  have hbody : writerPageBody c cells = writerLevels c cells ++ (writerValues c (nonNull cells) ++ List.replicate 8 0) := by
    simp [writerPageBody, hv, (write_layout_now 0 0).2.2.2.2]
  have hrep : ∀ bs : List Nat, levelsV1 0 cells.length bs = some (List.replicate cells.length 0, bs) := by
    intro bs; simp [levelsV1]
  have hrl : ∀ bs : List Nat, levelsLooseV1 0 cells.length bs = 0 := by intro bs; simp [levelsLooseV1]
  unfold decodePage
  simp only [writerPageInfo, hv, Bool.false_eq_true, if_false, ne_eq, not_true_eq_false, leafOf_maxRep, leafOf_ptype, leafOf_tl,
    hrep, hrl, show (0 : Nat) ≠ 2 from by decide, if_true]
  rw [hbody, hL.1]
  simp only [hC, hV.1, hL.2, hV.2, accAfter, Nat.add_zero]

theorem written_page_v2 (c : ColSpec) (hv : c.v2 = true) (hpt : c.ptype ≤ 7) (cats cells : List Cell) (acc : PageAcc)
    (hdict : c.dictItem.isSome → acc.dict = some cats) (hok : PageOk c cats.length cells) :
    decodePage (leafOf c) acc (writerPageInfo c cells) (writerPageBody c cells) = .ok (accAfter c cats acc cells) := by
  have hL := levels_v2 c hv cells
  have hC := count_levels c cells hok.no_nulls
  have hV := values_decode c hpt cats acc.dict hdict (nonNull cells) [] hok.vals_ok
  rw [List.append_nil] at hV
  have hbody : writerPageBody c cells = writerLevels c cells ++ writerValues c (nonNull cells) := by
    simp [writerPageBody, hv]
  have hlv : (levelsOf c cells).length = cells.length := by
    unfold levelsOf; split <;> simp [notNullBits_length]
  unfold decodePage
  simp only [writerPageInfo, hv, if_true, ne_eq, not_true_eq_false, if_false, leafOf_maxRep, leafOf_ptype, leafOf_tl,
    show (3 : Nat) ≠ 2 from by decide, show (3 : Nat) ≠ 0 from by decide, List.take_zero, List.drop_zero, Nat.zero_add]
  rw [hbody, List.take_left' rfl, List.drop_left' rfl, hL.1]
  have hT : ((leafOf c).maxDef = 0 ∨ hybridTight (widthFor (leafOf c).maxDef) cells.length (writerLevels c cells) = true) := hL.2
  simp only [hlv, List.length_replicate, ne_eq, not_true_eq_false, or_self, if_false, hC, Nat.lt_irrefl, false_and, gt_iff_lt,
    hV.1, hV.2, hT, if_true, true_or, accAfter, Nat.add_zero]

/-- **one data page**, either page version -/
theorem written_page_decodes (c : ColSpec) (hpt : c.ptype ≤ 7) (cats cells : List Cell) (acc : PageAcc)
    (hdict : c.dictItem.isSome → acc.dict = some cats) (hok : PageOk c cats.length cells) :
    decodePage (leafOf c) acc (writerPageInfo c cells) (writerPageBody c cells) = .ok (accAfter c cats acc cells) := by
  cases hv : c.v2
  · exact written_page_v1 c hv hpt cats cells acc hdict hok
  · exact written_page_v2 c hv hpt cats cells acc hdict hok

/-! ### the whole chunk -/

theorem accAfter_dict (c : ColSpec) (cats : List Cell) (acc : PageAcc) (cells : List Cell) :
    (accAfter c cats acc cells).dict = acc.dict := rfl

theorem written_pages_decode (c : ColSpec) (hpt : c.ptype ≤ 7) (cats : List Cell) (pages : List (List Cell)) :
    ∀ (acc : PageAcc), (c.dictItem.isSome → acc.dict = some cats) → (∀ p ∈ pages, PageOk c cats.length p) →
    decodePages (leafOf c) acc (pages.map fun cells => (writerPageInfo c cells, writerPageBody c cells))
      = .ok (pages.foldl (accAfter c cats) acc) := by
  induction pages with
  | nil => intro acc _ _; simp [decodePages]
  | cons p ps ih =>
    intro acc hdict hok
    simp only [List.map_cons, decodePages, List.foldl_cons]
    rw [written_page_decodes c hpt cats p acc hdict (hok p List.mem_cons_self)]
    exact ih _ (fun h => by rw [accAfter_dict]; exact hdict h) (fun q hq => hok q (List.mem_cons_of_mem _ hq))

theorem foldl_accAfter (c : ColSpec) (cats : List Cell) (pages : List (List Cell)) : ∀ (acc : PageAcc),
    pages.foldl (accAfter c cats) acc =
      { acc with defs := acc.defs ++ pages.flatMap (levelsOf c), reps := acc.reps ++ List.replicate pages.flatten.length 0,
                 vals := acc.vals ++ pages.flatMap (fun p => (nonNull p).map (render c cats)),
                 count := acc.count + pages.flatten.length } := by
  induction pages with
  | nil => intro acc; simp
  | cons p ps ih =>
    intro acc
    rw [List.foldl_cons, ih]
    simp only [accAfter, List.flatMap_cons, List.append_assoc, List.flatten_cons, List.length_append, Nat.add_assoc,
      List.replicate_append_replicate]

theorem render_null (c : ColSpec) (cats : List Cell) : render c cats Cell.null = Cell.null := by
  unfold render; split <;> rfl

/-- null scatter over one page's levels gives back the page's cells (categorical: codes replaced by categories) -/
theorem scatter_page (c : ColSpec) (cats cells : List Cell) (hnn : c.hasNulls = false → ∀ v ∈ cells, v ≠ Cell.null) :
    scatter (leafOf c).maxDef (levelsOf c cells) ((nonNull cells).map (render c cats)) = cells.map (render c cats) := by
  unfold levelsOf leafOf nonNull
  by_cases h : c.hasNulls = true
  · simp only [h, if_true, notNullBits]
    induction cells with
    | nil => simp [scatter]
    | cons x xs ih =>
      have ih' := ih (fun h' => by simp [h] at h')
      by_cases hx : x = Cell.null
      · subst hx
        simp only [List.map_cons, if_true, scatter, show (0 : Nat) ≠ 1 from by decide, if_false, render_null, List.filter_cons,
          ne_eq, not_true_eq_false, decide_false, Bool.false_eq_true]
        rw [ih']
      · simp only [List.map_cons, hx, if_false, scatter, if_true, List.filter_cons, ne_eq, not_false_eq_true, decide_true]
        rw [ih']
  · have h' : c.hasNulls = false := by simpa using h
    have hall := hnn h'
    simp only [h', Bool.false_eq_true, if_false]
    rw [List.filter_eq_self.mpr (by intro a ha; simpa using hall a ha)]
    clear hall hnn
    induction cells with
    | nil => simp [scatter]
    | cons x xs ih => simp [List.replicate_succ, scatter, ih]

theorem scatter_pages (c : ColSpec) (cats : List Cell) (pages : List (List Cell))
    (hnn : ∀ p ∈ pages, c.hasNulls = false → ∀ v ∈ p, v ≠ Cell.null) :
    scatter (leafOf c).maxDef (pages.flatMap (levelsOf c)) (pages.flatMap fun p => (nonNull p).map (render c cats))
      = pages.flatten.map (render c cats) := by
  induction pages with
  | nil => simp [scatter]
  | cons p ps ih =>
    simp only [List.flatMap_cons, List.flatten_cons, List.map_append]
    rw [scatter_append _ _ _ _ _ (by
      rw [List.length_map]
      have := count_levels c p (hnn p List.mem_cons_self)
      simpa [countMax] using this.symm),
      scatter_page c cats p (hnn p List.mem_cons_self), ih (fun q hq => hnn q (List.mem_cons_of_mem _ hq))]

/-- the dictionary page -/
theorem written_dict_page (c : ColSpec) (hpt : c.ptype ≤ 7) (cats : List Cell) (acc : PageAcc)
    (hcats : ∀ x ∈ cats, plainOk c.ptype c.typeLength x = true) :
    decodePage (leafOf c) acc (writerDictInfo c cats) (writerDictBody c cats) = .ok { acc with dict := some cats } := by
  have := writerPlain_decodes c.ptype c.typeLength hpt cats [] hcats
  rw [List.append_nil] at this
  unfold decodePage
  simp [writerDictInfo, writerDictBody, this]

/-- **the whole column chunk `write_column` lays down is decoded by the specification reader to the cells that went
    in**: any number of pages cut anywhere, v1 or v2, with or without definition levels, PLAIN or dictionary-encoded. -/
theorem written_chunk (c : ColSpec) (hpt : c.ptype ≤ 7) (cats : List Cell) (pages : List (List Cell))
    (hcats : c.dictItem.isSome → ∀ x ∈ cats, plainOk c.ptype c.typeLength x = true)
    (hok : ∀ p ∈ pages, PageOk c cats.length p) :
    ∃ acc, decodePages (leafOf c) {} (writerChunk c cats pages) = .ok acc ∧
      scatter (leafOf c).maxDef acc.defs acc.vals = pages.flatten.map (render c cats) ∧
      acc.count = pages.flatten.length ∧ acc.loose = 0 ∧ acc.reps = List.replicate pages.flatten.length 0 := by
  have hnn : ∀ p ∈ pages, c.hasNulls = false → ∀ v ∈ p, v ≠ Cell.null := fun p hp => (hok p hp).no_nulls
  unfold writerChunk
  cases hd : c.dictItem with
  | none =>
    simp only [Option.isSome_none, Bool.false_eq_true, if_false, List.nil_append]
    rw [written_pages_decode c hpt cats pages {} (by simp [hd]) hok, foldl_accAfter]
    exact ⟨_, rfl, by simpa using scatter_pages c cats pages hnn, by simp, rfl, by simp⟩
  | some item =>
    simp only [Option.isSome_some, if_true, List.cons_append, List.nil_append, decodePages]
    rw [written_dict_page c hpt cats {} (hcats (by simp [hd]))]
    simp only []
    rw [written_pages_decode c hpt cats pages _ (by intro _; rfl) hok, foldl_accAfter]
    exact ⟨_, rfl, by simpa using scatter_pages c cats pages hnn, by simp, rfl, by simp⟩

/-! ### chunk metadata: `encodings` and `encoding_stats` describe the pages present -/

theorem chunk_page_kinds (c : ColSpec) (cats : List Cell) (pages : List (List Cell)) :
    (writerChunk c cats pages).map (fun x => (x.1.ptypeTag, x.1.encoding))
      = (if c.dictItem.isSome then [(2, ENC_PLAIN)] else [])
        ++ List.replicate pages.length (if c.v2 then 3 else 0, if c.dictItem.isSome then ENC_RLE_DICTIONARY else ENC_PLAIN) := by
  unfold writerChunk
  rw [List.map_append, List.map_map]
  congr 1
  · split <;> simp [writerDictInfo]
  · induction pages with
    | nil => simp
    | cons p ps ih =>
      rw [List.map_cons, ih, List.length_cons, List.replicate_succ]
      simp [writerPageInfo]

theorem filter_replicate_self {α} [BEq α] [LawfulBEq α] (n : Nat) (a : α) : ((List.replicate n a).filter (· == a)).length = n := by
  rw [List.filter_eq_self.mpr (by intro x hx; rw [List.eq_of_mem_replicate hx]; simp)]
  simp

theorem filter_replicate_ne {α} [BEq α] [LawfulBEq α] (n : Nat) (a b : α) (h : a ≠ b) : ((List.replicate n a).filter (· == b)).length = 0 := by
  rw [List.filter_eq_nil_iff.mpr (by intro x hx; rw [List.eq_of_mem_replicate hx]; simpa using h)]
  simp

/-- **the encodings list and the per-page-kind statistics `write_column` records describe exactly the pages of the
    chunk** (data pages counted under the page type they really have: DATA_PAGE_V2 under v2) -/
theorem written_chunk_meta (c : ColSpec) (cats : List Cell) (pages : List (List Cell)) :
    encodingsProblem (writerEncodings c) (some (writerEncStats c pages.length))
      ((writerChunk c cats pages).map (fun x => (x.1.ptypeTag, x.1.encoding))) = none := by
  rw [chunk_page_kinds]
  unfold encodingsProblem writerEncodings writerEncStats
  cases hd : c.dictItem.isSome <;> cases hv : c.v2 <;>
    simp [ENC_PLAIN, ENC_RLE_DICTIONARY, List.find?_eq_none, List.filter_cons, filter_replicate_self, filter_replicate_ne,
      List.mem_replicate, List.filter_append]

end PqV.Impl
