import PqV.Lemmas.KDelta
import PqV.Lemmas.KVarint
import PqV.Lemmas.KZigzag
import PqV.Lemmas.Delta
/-! Towards `delta_binary_unpack`: the j-loops of one miniblock in list form. -/
namespace PqV.Impl
open PqV.Spec

/-- values the j-loop of one miniblock stores / the running value it leaves, over the deltas `ds` -/
def chainOut (ib : Nat) (md : Int) : Int → List Nat → List Nat
  | _, [] => []
  | v, d :: ds => wrapU ib v :: chainOut ib md (wrapS 64 (v + md + (d : Int))) ds
def chainVal (md : Int) : Int → List Nat → Int
  | v, [] => v
  | v, d :: ds => chainVal md (wrapS 64 (v + md + (d : Int))) ds

theorem chainOut_length (ib : Nat) (md : Int) (v : Int) (ds : List Nat) : (chainOut ib md v ds).length = ds.length := by
  induction ds generalizing v with
  | nil => rfl
  | cons d t ih => simp [chainOut, ih]

def DOut.L (o : DOut) : List Nat := o.slots.toList

theorem DOut.write_in (o : DOut) (v : Nat) (h : o.pos < o.slots.size) :
    (o.write v).L = o.L.set o.pos v ∧ (o.write v).pos = o.pos + 1 ∧ (o.write v).slots.size = o.slots.size := by
  simp [DOut.write, h, DOut.L]

theorem DOut.read_in (o : DOut) (h : o.pos < o.slots.size) :
    o.read = (o.L[o.pos]'(by simpa [DOut.L] using h), { o with pos := o.pos + 1 }) := by
  simp [DOut.read, h, DOut.L]

theorem wrapU_small (ib d : Nat) (h : d < 2 ^ ib) : wrapU ib (d : Int) = d := by
  unfold wrapU
  have hm : ((d : Int) % ((2 ^ ib : Nat) : Int)) = d := by
    apply Int.emod_eq_of_lt (by omega)
    exact_mod_cast h
  rw [hm]; simp

theorem wrapS_small (ib d : Nat) (hib : 1 ≤ ib) (h : d < 2 ^ (ib - 1)) : wrapS ib (d : Int) = d := by
  have h2 : (2 : Nat) ^ ib = 2 * 2 ^ (ib - 1) := by
    obtain ⟨k, rfl⟩ : ∃ k, ib = k + 1 := ⟨ib - 1, by omega⟩
    simp [Nat.pow_succ, Nat.mul_comm]
  unfold wrapS
  rw [wrapU_small ib d (by omega)]
  simp only [h, if_true]


theorem set_split (L : List Nat) (p x : Nat) (h : p < L.length) : L.set p x = L.take p ++ x :: L.drop (p + 1) := by
  exact List.set_eq_take_append_cons_drop.trans (by simp [h])

theorem set_take_succ (L : List Nat) (p x : Nat) (h : p < L.length) : (L.set p x).take (p + 1) = L.take p ++ [x] := by
  rw [set_split L p x h]
  have hl : (L.take p).length = p := by simp; omega
  have ht : (L.take p).take (p + 1) = L.take p := List.take_of_length_le (by rw [hl]; omega)
  rw [List.take_append, hl, ht]
  simp

theorem set_drop_after (L : List Nat) (p x k : Nat) (h : p < L.length) : (L.set p x).drop (p + 1 + k) = L.drop (p + 1 + k) := by
  rw [set_split L p x h]
  have hl : (L.take p).length = p := by simp; omega
  rw [List.drop_append, hl]
  have e1 : p + 1 + k - p = k + 1 := by omega
  have e2 : (L.take p).drop (p + 1 + k) = [] := by simp; omega
  rw [e1, e2, List.nil_append, List.drop_succ_cons, List.drop_drop]

/-- the j-loop of a miniblock whose deltas sit in the output: it replaces them by the running values -/
theorem deltaMini_run (ib : Nat) (hib : 1 ≤ ib) (md : Int) : ∀ (n : Nat) (o : DOut) (value : Int) (c : Nat) (ds : List Nat),
    ds.length = n → 1 ≤ c → o.pos + min n c ≤ o.slots.size →
    (∀ j, j < min n c → o.L[o.pos + j]? = some (ds.getD j 0)) → (∀ d ∈ ds, d < 2 ^ (ib - 1)) →
    ∃ o', deltaMini ib md n o value (c : Int)
        = (o', chainVal md value (ds.take (min n c)), (c : Int) - (min n c : Nat), decide (c ≤ n)) ∧
      o'.L = o.L.take o.pos ++ chainOut ib md value (ds.take (min n c)) ++ o.L.drop (o.pos + min n c) ∧
      o'.pos = o.pos + min n c ∧ o'.slots.size = o.slots.size := by
  intro n
  induction n with
  | zero =>
    intro o value c ds hl hc _ _ _
    refine ⟨o, ?_, ?_, ?_, rfl⟩
    · have : ¬ (c ≤ 0) := by omega
      simp [deltaMini, chainVal, this]
    · simp [chainOut]
    · simp
  | succ n ih =>
    intro o value c ds hl hc hroom hslots hsmall
    obtain ⟨d, ds', rfl⟩ : ∃ d ds', ds = d :: ds' := by
      cases ds with
      | nil => simp at hl
      | cons d t => exact ⟨d, t, rfl⟩
    have hl' : ds'.length = n := by simpa using hl
    have hmin1 : 1 ≤ min (n + 1) c := by omega
    have hin : o.pos < o.slots.size := by omega
    have hLlen : o.L.length = o.slots.size := by simp [DOut.L]
    have h0 := hslots 0 (by omega)
    simp only [Nat.add_zero, List.getD_cons_zero] at h0
    have hget : o.L[o.pos]'(by rw [hLlen]; exact hin) = d := by
      have := List.getElem?_eq_getElem (l := o.L) (i := o.pos) (by rw [hLlen]; exact hin)
      rw [this] at h0; injection h0
    have hd : d < 2 ^ (ib - 1) := hsmall d List.mem_cons_self
    obtain ⟨w1, w2, w3⟩ := DOut.write_in { o with pos := o.pos } (wrapU ib value) hin
    simp only [deltaMini, DOut.read_in o hin, hget, wrapS_small ib d hib hd, hin, if_true, Nat.add_sub_cancel]
    by_cases hc1 : c = 1
    · subst hc1
      have hm : min (n + 1) 1 = 1 := by omega
      refine ⟨{ o with pos := o.pos }.write (wrapU ib value), ?_, ?_, ?_, ?_⟩
      · simp [hm, chainVal]
      · rw [hm, w1]
        simp only [List.take_succ_cons, List.take_zero, chainOut]
        have := set_take_succ o.L o.pos (wrapU ib value) (by rw [hLlen]; exact hin)
        rw [← List.take_append_drop (o.pos + 1) (o.L.set o.pos (wrapU ib value)), this]
        have hd0 := set_drop_after o.L o.pos (wrapU ib value) 0 (by rw [hLlen]; exact hin)
        simp only [Nat.add_zero] at hd0
        rw [hd0]
      · rw [hm, w2]
      · exact w3
    · have hc2 : 2 ≤ c := by omega
      have hcnt : ¬ ((c : Int) - 1 ≤ 0) := by omega
      simp only [hcnt, if_false]
      have hcast : ((c : Int) - 1) = ((c - 1 : Nat) : Int) := by omega
      rw [hcast]
      have hmin : min (n + 1) c = min n (c - 1) + 1 := by omega
      obtain ⟨o', e1, e2, e3, e4⟩ := ih ({ o with pos := o.pos }.write (wrapU ib value)) (wrapS 64 (value + md + (d : Int))) (c - 1) ds' hl'
        (by omega) (by rw [w2, w3]; omega)
        (by
          intro j hj
          rw [w1, w2]
          have hne : o.pos ≠ o.pos + 1 + j := by omega
          rw [List.getElem?_set_ne hne]
          have := hslots (j + 1) (by omega)
          simp only [List.getD_cons_succ] at this
          have e : o.pos + 1 + j = o.pos + (j + 1) := by omega
          rw [e]; exact this)
        (fun x hx => hsmall x (List.mem_cons_of_mem _ hx))
      refine ⟨o', ?_, ?_, ?_, ?_⟩
      · rw [e1, hmin]
        simp only [List.take_succ_cons, chainVal]
        have hA : ((c - 1 : Nat) : Int) - ((min n (c - 1) : Nat) : Int) = (c : Int) - ((min n (c - 1) + 1 : Nat) : Int) := by
          push_cast; omega
        have hB : decide (c - 1 ≤ n) = decide (c ≤ n + 1) := by
          apply decide_eq_decide.mpr; omega
        rw [hA, hB]
      · rw [e2, w1, w2, hmin]
        simp only [List.take_succ_cons, chainOut]
        rw [set_take_succ o.L o.pos (wrapU ib value) (by rw [hLlen]; exact hin)]
        have : (o.L.set o.pos (wrapU ib value)).drop (o.pos + 1 + min n (c - 1)) = o.L.drop (o.pos + (min n (c - 1) + 1)) := by
          rw [set_drop_after o.L o.pos (wrapU ib value) _ (by rw [hLlen]; exact hin)]
          congr 1; omega
        rw [this]
        simp [List.append_assoc]
      · rw [e3, w2, hmin]; omega
      · rw [e4, w3]


/-- the j-loop of a width-0 miniblock: the running value advances by `min_delta` only -/
theorem deltaZero_run (ib : Nat) (md : Int) : ∀ (n : Nat) (o : DOut) (value : Int) (c : Nat),
    1 ≤ c → o.pos + min n c ≤ o.slots.size →
    ∃ o', deltaZero ib md n o value (c : Int)
        = (o', chainVal md value (List.replicate (min n c) 0), (c : Int) - (min n c : Nat), decide (c ≤ n)) ∧
      o'.L = o.L.take o.pos ++ chainOut ib md value (List.replicate (min n c) 0) ++ o.L.drop (o.pos + min n c) ∧
      o'.pos = o.pos + min n c ∧ o'.slots.size = o.slots.size := by
  intro n
  induction n with
  | zero =>
    intro o value c hc _
    refine ⟨o, ?_, ?_, ?_, rfl⟩
    · have : ¬ (c ≤ 0) := by omega
      simp [deltaZero, chainVal, this]
    · simp [chainOut]
    · simp
  | succ n ih =>
    intro o value c hc hroom
    have hin : o.pos < o.slots.size := by omega
    have hLlen : o.L.length = o.slots.size := by simp [DOut.L]
    obtain ⟨w1, w2, w3⟩ := DOut.write_in o (wrapU ib value) hin
    simp only [deltaZero]
    by_cases hc1 : c = 1
    · subst hc1
      have hm : min (n + 1) 1 = 1 := by omega
      refine ⟨o.write (wrapU ib value), ?_, ?_, ?_, ?_⟩
      · simp [hm, chainVal]
      · rw [hm, w1]
        simp only [List.replicate_one, chainOut]
        have := set_take_succ o.L o.pos (wrapU ib value) (by rw [hLlen]; exact hin)
        rw [← List.take_append_drop (o.pos + 1) (o.L.set o.pos (wrapU ib value)), this]
        have hd0 := set_drop_after o.L o.pos (wrapU ib value) 0 (by rw [hLlen]; exact hin)
        simp only [Nat.add_zero] at hd0
        rw [hd0]
      · rw [hm, w2]
      · exact w3
    · have hc2 : 2 ≤ c := by omega
      have hcnt : ¬ ((c : Int) - 1 ≤ 0) := by omega
      simp only [hcnt, if_false]
      have hcast : ((c : Int) - 1) = ((c - 1 : Nat) : Int) := by omega
      rw [hcast]
      have hmin : min (n + 1) c = min n (c - 1) + 1 := by omega
      obtain ⟨o', e1, e2, e3, e4⟩ := ih (o.write (wrapU ib value)) (wrapS 64 (value + md)) (c - 1)
        (by omega) (by rw [w2, w3]; omega)
      refine ⟨o', ?_, ?_, ?_, ?_⟩
      · rw [e1, hmin]
        simp only [List.replicate_succ, chainVal, Int.natCast_zero, Int.add_zero]
        have hA : ((c - 1 : Nat) : Int) - ((min n (c - 1) : Nat) : Int) = (c : Int) - ((min n (c - 1) + 1 : Nat) : Int) := by
          push_cast; omega
        have hB : decide (c - 1 ≤ n) = decide (c ≤ n + 1) := by
          apply decide_eq_decide.mpr; omega
        rw [hA, hB]
      · rw [e2, w1, w2, hmin]
        simp only [List.replicate_succ, chainOut, Int.natCast_zero, Int.add_zero]
        rw [set_take_succ o.L o.pos (wrapU ib value) (by rw [hLlen]; exact hin)]
        have : (o.L.set o.pos (wrapU ib value)).drop (o.pos + 1 + min n (c - 1)) = o.L.drop (o.pos + (min n (c - 1) + 1)) := by
          rw [set_drop_after o.L o.pos (wrapU ib value) _ (by rw [hLlen]; exact hin)]
          congr 1; omega
        rw [this]
        simp [List.append_assoc]
      · rw [e3, w2, hmin]; omega
      · rw [e4, w3]

/-- storing the unpacked deltas: the first `min vals.length (size - pos)` slots from `pos` on -/
theorem unpack_store (ib : Nat) : ∀ (vals : List Nat) (o : DOut), o.pos ≤ o.slots.size →
    let o' := vals.foldl (fun (o : DOut) v => o.write (v % 2 ^ ib)) o
    o'.slots.size = o.slots.size ∧
    o'.L = o.L.take o.pos ++ (vals.take (o.slots.size - o.pos)).map (· % 2 ^ ib) ++ o.L.drop (o.pos + min vals.length (o.slots.size - o.pos)) := by
  intro vals
  induction vals with
  | nil => intro o _; simp
  | cons v t ih =>
    intro o hp
    simp only [List.foldl_cons]
    have hLlen : o.L.length = o.slots.size := by simp [DOut.L]
    by_cases hin : o.pos < o.slots.size
    · obtain ⟨w1, w2, w3⟩ := DOut.write_in o (v % 2 ^ ib) hin
      obtain ⟨i1, i2⟩ := ih (o.write (v % 2 ^ ib)) (by rw [w2, w3]; omega)
      refine ⟨by rw [i1, w3], ?_⟩
      rw [i2, w1, w2, w3]
      rw [set_take_succ o.L o.pos _ (by rw [hLlen]; exact hin)]
      obtain ⟨k, hk⟩ : ∃ k, o.slots.size - o.pos = k + 1 := ⟨o.slots.size - o.pos - 1, by omega⟩
      have hk' : o.slots.size - (o.pos + 1) = k := by omega
      rw [hk, hk', List.take_succ_cons, List.map_cons]
      have : (o.L.set o.pos (v % 2 ^ ib)).drop (o.pos + 1 + min t.length k) = o.L.drop (o.pos + min (t.length + 1) (k + 1)) := by
        rw [set_drop_after o.L o.pos _ _ (by rw [hLlen]; exact hin)]
        congr 1; omega
      rw [this]
      simp [List.append_assoc]
    · have hw : o.write (v % 2 ^ ib) = o := by simp [DOut.write, hin]
      rw [hw]
      obtain ⟨i1, i2⟩ := ih o hp
      refine ⟨i1, ?_⟩
      rw [i2]
      have hz : o.slots.size - o.pos = 0 := by omega
      simp [hz]


theorem bitField_lt (w i S : Nat) : bitField w i S < 2 ^ w := by
  unfold bitField; exact Nat.mod_lt _ (Nat.two_pow_pos w)

/-- **one miniblock of `delta_binary_unpack`** (width 1..28, at least two values still to come, output
    sized to the announced count): the `vpm` deltas are unpacked into the output behind the values
    written so far, then replaced one by one by the running values; the loop goes on to the next
    miniblock with `vpm` fewer values to write, or stops after the last value. -/
theorem deltaBlockLoop_step (buf : List Nat) (hbytes : ∀ b ∈ buf, b < 256) (ib vpm : Nat) (hib : 32 ≤ ib) (md : Int)
    (bwLoc k i loc w : Nat) (o : DOut) (value : Int) (c : Nat)
    (hw : buf[bwLoc + i]? = some w) (hw1 : 1 ≤ w) (hw28 : w ≤ 28)
    (hbuf : loc + (vpm * w + 7) / 8 ≤ buf.length) (hc : 2 ≤ c) (hroom : o.pos + c = o.slots.size) :
    ∃ o', o'.L = o.L.take o.pos
              ++ chainOut ib md value (((List.range vpm).map (fun j => bitField w j (streamOf buf loc))).take (min vpm c))
              ++ o.L.drop (o.pos + min vpm c) ∧
      o'.pos = o.pos + min vpm c ∧ o'.slots.size = o.slots.size ∧
      deltaBlockLoop buf ib vpm md bwLoc (k + 1) i loc o value (c : Int) =
        (if c ≤ vpm then
          .ok (loc + (vpm * w + 7) / 8, o',
            chainVal md value (((List.range vpm).map (fun j => bitField w j (streamOf buf loc))).take (min vpm c)),
            (c : Int) - (min vpm c : Nat), true)
        else deltaBlockLoop buf ib vpm md bwLoc k (i + 1) (loc + (vpm * w + 7) / 8) o'
            (chainVal md value (((List.range vpm).map (fun j => bitField w j (streamOf buf loc))).take (min vpm c)))
            ((c : Int) - (min vpm c : Nat))) := by
  set vals := (List.range vpm).map (fun j => bitField w j (streamOf buf loc)) with hvals
  have hvl : vals.length = vpm := by simp [hvals]
  have hsmall : ∀ d ∈ vals, d < 2 ^ (ib - 1) := by
    intro d hd
    simp only [hvals, List.mem_map] at hd
    obtain ⟨j, _, rfl⟩ := hd
    have h1 := bitField_lt w j (streamOf buf loc)
    have h2 : (2 : Nat) ^ w ≤ 2 ^ (ib - 1) := Nat.pow_le_pow_right (by norm_num) (by omega)
    omega
  have hmod : ∀ d ∈ vals, d % 2 ^ ib = d := by
    intro d hd
    have h1 := hsmall d hd
    have h2 : (2 : Nat) ^ (ib - 1) ≤ 2 ^ ib := Nat.pow_le_pow_right (by norm_num) (by omega)
    exact Nat.mod_eq_of_lt (by omega)
  -- the unpack phase
  have hrb := deltaReadBitpacked_ok buf hbytes loc w vpm hw1 hw28 hbuf
  rw [← hvals] at hrb
  obtain ⟨s1, s2⟩ := unpack_store ib vals o (by omega)
  set o1 := vals.foldl (fun (o : DOut) v => o.write (v % 2 ^ ib)) o with ho1
  have hmap : (vals.take (o.slots.size - o.pos)).map (· % 2 ^ ib) = vals.take (o.slots.size - o.pos) := by
    have : ∀ l : List Nat, (∀ d ∈ l, d % 2 ^ ib = d) → l.map (· % 2 ^ ib) = l := by
      intro l hl
      induction l with
      | nil => rfl
      | cons a t iht =>
        simp only [List.map_cons, hl a List.mem_cons_self, iht (fun d hd => hl d (List.mem_cons_of_mem _ hd))]
    exact this _ (fun d hd => hmod d (List.mem_of_mem_take hd))
  rw [hmap, hvl] at s2
  have hcs : o.slots.size - o.pos = c := by omega
  rw [hcs] at s2
  have hLlen : o.L.length = o.slots.size := by simp [DOut.L]
  -- the j-loop, from the old position
  set o2 : DOut := { o1 with pos := o.pos } with ho2
  have ho2L : o2.L = o1.L := rfl
  have ho2s : o2.slots.size = o.slots.size := s1
  obtain ⟨o', e1, e2, e3, e4⟩ := deltaMini_run ib (by omega) md vpm o2 value c vals hvl (by omega)
    (by show o.pos + min vpm c ≤ o2.slots.size; rw [ho2s]; omega)
    (by
      intro j hj
      show o2.L[o.pos + j]? = _
      rw [ho2L, s2, List.append_assoc, List.getElem?_append_right (by simp)]
      have hl : (o.L.take o.pos).length = o.pos := by simp; omega
      rw [hl, Nat.add_sub_cancel_left, List.getElem?_append_left (by simp [hvl]; omega)]
      rw [List.getElem?_take_of_lt (by omega), List.getD_eq_getElem?_getD]
      have : j < vals.length := by omega
      rw [List.getElem?_eq_getElem this]; rfl)
    hsmall
  refine ⟨o', ?_, ?_, ?_, ?_⟩
  · rw [e2]
    show o1.L.take o.pos ++ _ ++ o1.L.drop (o.pos + min vpm c) = _
    rw [s2]
    have hl : (o.L.take o.pos).length = o.pos := by simp; omega
    have ht : (o.L.take o.pos ++ vals.take c ++ o.L.drop (o.pos + min vpm c)).take o.pos = o.L.take o.pos := by
      rw [List.append_assoc, List.take_append_of_le_length (by omega), List.take_of_length_le (by omega)]
    rw [ht]
    congr 1
    have hlen2 : (o.L.take o.pos ++ vals.take c).length = o.pos + min vpm c := by
      simp [hl, hvl]; omega
    rw [List.drop_append_of_le_length (by rw [hlen2]), ← hlen2, List.drop_length, List.nil_append]
  · exact e3
  · rw [e4]; exact ho2s
  · conv => lhs; unfold deltaBlockLoop
    have hrd : rd buf (bwLoc + i) = .ok w := by simp [rd, hw]
    have hne : w ≠ 0 := by omega
    have hgt : ((c : Int) > 1) := by omega
    simp only [hrd, bind, Except.bind, hne, ne_eq, not_false_eq_true, if_true, hgt, hrb, ← ho1]
    show (match (deltaMini ib md vpm o2 value c) with | (o, value, count, done) => _) = _
    rw [e1]
    by_cases hcv : c ≤ vpm
    · simp [hcv]
    · simp [hcv]


/-- a width-0 miniblock in the block loop -/
theorem deltaBlockLoop_step_zero (buf : List Nat) (ib vpm : Nat) (md : Int)
    (bwLoc k i loc : Nat) (o : DOut) (value : Int) (c : Nat)
    (hw : buf[bwLoc + i]? = some 0) (hc : 1 ≤ c) (hroom : o.pos + c = o.slots.size) :
    ∃ o', o'.L = o.L.take o.pos ++ chainOut ib md value (List.replicate (min vpm c) 0) ++ o.L.drop (o.pos + min vpm c) ∧
      o'.pos = o.pos + min vpm c ∧ o'.slots.size = o.slots.size ∧
      deltaBlockLoop buf ib vpm md bwLoc (k + 1) i loc o value (c : Int) =
        (if c ≤ vpm then
          .ok (loc, o', chainVal md value (List.replicate (min vpm c) 0), (c : Int) - (min vpm c : Nat), true)
        else deltaBlockLoop buf ib vpm md bwLoc k (i + 1) loc o'
            (chainVal md value (List.replicate (min vpm c) 0)) ((c : Int) - (min vpm c : Nat))) := by
  obtain ⟨o', e1, e2, e3, e4⟩ := deltaZero_run ib md vpm o value c hc (by omega)
  refine ⟨o', e2, e3, e4, ?_⟩
  conv => lhs; unfold deltaBlockLoop
  have hrd : rd buf (bwLoc + i) = .ok 0 := by simp [rd, hw]
  simp only [hrd, bind, Except.bind, ne_eq, not_true_eq_false, if_false]
  show (match (deltaZero ib md vpm o value c) with | (o, value, count, done) => _) = _
  rw [e1]
  by_cases hcv : c ≤ vpm
  · simp [hcv]
  · simp [hcv]

/-- the last value, in a miniblock of non-zero width: nothing is unpacked, the value is stored, done -/
theorem deltaBlockLoop_step_last (buf : List Nat) (ib vpm : Nat) (md : Int)
    (bwLoc k i loc w : Nat) (o : DOut) (value : Int)
    (hw : buf[bwLoc + i]? = some w) (hw1 : w ≠ 0) (hvpm : 1 ≤ vpm) (hroom : o.pos + 1 = o.slots.size) :
    ∃ o' value', o'.L = o.L.take o.pos ++ [wrapU ib value] ++ o.L.drop (o.pos + 1) ∧
      o'.pos = o.pos + 1 ∧ o'.slots.size = o.slots.size ∧
      deltaBlockLoop buf ib vpm md bwLoc (k + 1) i loc o value 1 = .ok (loc, o', value', 0, true) := by
  obtain ⟨n, rfl⟩ : ∃ n, vpm = n + 1 := ⟨vpm - 1, by omega⟩
  have hin : o.pos < o.slots.size := by omega
  have hLlen : o.L.length = o.slots.size := by simp [DOut.L]
  obtain ⟨w1, w2, w3⟩ := DOut.write_in { o with pos := o.pos } (wrapU ib value) hin
  refine ⟨{ o with pos := o.pos }.write (wrapU ib value),
    wrapS 64 (value + md + wrapS ib ((o.L[o.pos]'(by rw [hLlen]; exact hin) : Nat) : Int)), ?_, w2, w3, ?_⟩
  · rw [w1]
    have h1 := set_take_succ o.L o.pos (wrapU ib value) (by rw [hLlen]; exact hin)
    have h2 := set_drop_after o.L o.pos (wrapU ib value) 0 (by rw [hLlen]; exact hin)
    simp only [Nat.add_zero] at h2
    rw [← List.take_append_drop (o.pos + 1) (o.L.set o.pos (wrapU ib value)), h1, h2]
  · conv => lhs; unfold deltaBlockLoop
    have hrd : rd buf (bwLoc + i) = .ok w := by simp [rd, hw]
    have hgt : ¬ ((1 : Int) > 1) := by omega
    simp only [hrd, bind, Except.bind, hw1, ne_eq, not_false_eq_true, if_true, hgt, if_false]
    simp only [deltaMini, DOut.read_in o hin, hin, if_true, Nat.add_sub_cancel]
    simp


abbrev Mini := Nat × List Nat

def miniBytes (vpm : Nat) (m : Mini) : Nat := if m.1 = 0 then 0 else (vpm * m.1 + 7) / 8

/-- the buffer holds the widths at `bwLoc + i ..` and the packed miniblocks from `loc` on -/
def Layout (buf : List Nat) (vpm bwLoc : Nat) : Nat → Nat → List Mini → Prop
  | _, _, [] => True
  | i, loc, m :: rest =>
    buf[bwLoc + i]? = some m.1 ∧ m.1 ≤ 28 ∧ m.2.length = vpm ∧
    (m.1 = 0 → m.2 = List.replicate vpm 0) ∧
    (m.1 ≠ 0 → loc + (vpm * m.1 + 7) / 8 ≤ buf.length ∧
      (List.range vpm).map (fun j => bitField m.1 j (streamOf buf loc)) = m.2) ∧
    Layout buf vpm bwLoc (i + 1) (loc + miniBytes vpm m) rest

/-- what the miniblocks of one block stand for: (values stored, running value, values still to come, done) -/
def absRun (ib : Nat) (md : Int) (vpm : Nat) : List Mini → Int → Nat → (List Nat × Int × Nat × Bool)
  | [], v, c => ([], v, c, false)
  | m :: rest, v, c =>
    let r := min vpm c
    let outs := chainOut ib md v (m.2.take r)
    let v' := chainVal md v (m.2.take r)
    if c ≤ vpm then (outs, v', c - r, true)
    else
      let t := absRun ib md vpm rest v' (c - r)
      (outs ++ t.1, t.2.1, t.2.2.1, t.2.2.2)

theorem splice_splice (L X Y : List Nat) (p r k : Nat) (hX : X.length = r) (hp : p + r ≤ L.length) :
    (L.take p ++ X ++ L.drop (p + r)).take (p + r) ++ Y ++ (L.take p ++ X ++ L.drop (p + r)).drop (p + r + k)
      = L.take p ++ (X ++ Y) ++ L.drop (p + (r + k)) := by
  have hl : (L.take p ++ X).length = p + r := by simp [hX]; omega
  rw [List.take_append_of_le_length (by rw [hl]), List.take_of_length_le (by rw [hl])]
  rw [List.drop_append, hl]
  have e1 : (L.take p ++ X).drop (p + r + k) = [] := by
    apply List.drop_eq_nil_of_le; rw [hl]; omega
  have e2 : p + r + k - (p + r) = k := by omega
  rw [e1, e2, List.nil_append, List.drop_drop]
  have e3 : p + r + k = p + (r + k) := by omega
  rw [e3]
  simp [List.append_assoc]


/-- **one block of `delta_binary_unpack`**: its miniblocks one after the other (any mixture of widths
    0..28) until the announced count is reached or the block ends -/
theorem deltaBlockLoop_run (buf : List Nat) (hbytes : ∀ b ∈ buf, b < 256) (ib vpm : Nat) (hib : 32 ≤ ib) (hvpm : 1 ≤ vpm) (md : Int)
    (bwLoc : Nat) : ∀ (ms : List Mini) (i loc : Nat) (o : DOut) (value : Int) (c : Nat),
    Layout buf vpm bwLoc i loc ms → 1 ≤ c → o.pos + c = o.slots.size →
    ∃ loc' o' value', deltaBlockLoop buf ib vpm md bwLoc ms.length i loc o value (c : Int)
        = .ok (loc', o', value', ((absRun ib md vpm ms value c).2.2.1 : Int), (absRun ib md vpm ms value c).2.2.2) ∧
      o'.L = o.L.take o.pos ++ (absRun ib md vpm ms value c).1 ++ o.L.drop (o.pos + (absRun ib md vpm ms value c).1.length) ∧
      o'.pos = o.pos + (absRun ib md vpm ms value c).1.length ∧ o'.slots.size = o.slots.size ∧
      (absRun ib md vpm ms value c).1.length + (absRun ib md vpm ms value c).2.2.1 = c ∧
      ((absRun ib md vpm ms value c).2.2.2 = false →
        value' = (absRun ib md vpm ms value c).2.1 ∧ loc' = loc + (ms.map (miniBytes vpm)).sum ∧
        1 ≤ (absRun ib md vpm ms value c).2.2.1) := by
  intro ms
  induction ms with
  | nil =>
    intro i loc o value c _ hc hroom
    refine ⟨loc, o, value, ?_, ?_, ?_, rfl, ?_, ?_⟩
    · simp [deltaBlockLoop, absRun]
    · simp [absRun]
    · simp [absRun]
    · simp [absRun]
    · intro _; simp [absRun]; exact hc
  | cons m rest ih =>
    intro i loc o value c hlay hc hroom
    obtain ⟨hw, hw28, hlen, hzero, hdata, hrest⟩ := hlay
    have hLlen : o.L.length = o.slots.size := by simp [DOut.L]
    simp only [List.length_cons]
    -- the three kinds of step all have this shape
    have key : ∀ (o1 : DOut) (v1 : Int) (loc1 : Nat),
        o1.L = o.L.take o.pos ++ chainOut ib md value (m.2.take (min vpm c)) ++ o.L.drop (o.pos + min vpm c) →
        o1.pos = o.pos + min vpm c → o1.slots.size = o.slots.size →
        loc1 = loc + miniBytes vpm m →
        (¬ c ≤ vpm → v1 = chainVal md value (m.2.take (min vpm c))) →
        deltaBlockLoop buf ib vpm md bwLoc (rest.length + 1) i loc o value (c : Int) =
          (if c ≤ vpm then .ok (loc1, o1, v1, (c : Int) - (min vpm c : Nat), true)
           else deltaBlockLoop buf ib vpm md bwLoc rest.length (i + 1) loc1 o1 v1 ((c : Int) - (min vpm c : Nat))) →
        ∃ loc' o' value', deltaBlockLoop buf ib vpm md bwLoc (rest.length + 1) i loc o value (c : Int)
            = .ok (loc', o', value', ((absRun ib md vpm (m :: rest) value c).2.2.1 : Int), (absRun ib md vpm (m :: rest) value c).2.2.2) ∧
          o'.L = o.L.take o.pos ++ (absRun ib md vpm (m :: rest) value c).1 ++ o.L.drop (o.pos + (absRun ib md vpm (m :: rest) value c).1.length) ∧
          o'.pos = o.pos + (absRun ib md vpm (m :: rest) value c).1.length ∧ o'.slots.size = o.slots.size ∧
          (absRun ib md vpm (m :: rest) value c).1.length + (absRun ib md vpm (m :: rest) value c).2.2.1 = c ∧
          ((absRun ib md vpm (m :: rest) value c).2.2.2 = false →
            value' = (absRun ib md vpm (m :: rest) value c).2.1 ∧ loc' = loc + ((m :: rest).map (miniBytes vpm)).sum ∧
            1 ≤ (absRun ib md vpm (m :: rest) value c).2.2.1) := by
      intro o1 v1 loc1 l1 p1 s1 hloc1 hv1 e1
      have hco : (chainOut ib md value (m.2.take (min vpm c))).length = min vpm c := by
        rw [chainOut_length, List.length_take, hlen]; omega
      by_cases hcv : c ≤ vpm
      · rw [if_pos hcv] at e1
        have hmin : min vpm c = c := by omega
        refine ⟨loc1, o1, v1, ?_, ?_, ?_, s1, ?_, ?_⟩
        · rw [e1]; simp only [absRun, hcv, if_true, hmin]; simp
        · simp only [absRun, hcv, if_true, hco]; exact l1
        · simp only [absRun, hcv, if_true, hco]; exact p1
        · simp only [absRun, hcv, if_true, hco]; omega
        · simp only [absRun, hcv, if_true]; intro h; cases h
      · rw [if_neg hcv] at e1
        have hmin : min vpm c = vpm := by omega
        have hcast : ((c : Int) - ((min vpm c : Nat) : Int)) = ((c - min vpm c : Nat) : Int) := by omega
        rw [hcast] at e1
        rw [hloc1] at e1
        have hrest' := hrest
        obtain ⟨loc', o', value', r1, r2, r3, r4, r5, r6⟩ := ih (i + 1) (loc + miniBytes vpm m) o1 v1 (c - min vpm c) hrest'
          (by omega) (by rw [p1, s1]; omega)
        have hv := hv1 hcv
        rw [hv] at r1 r2 r3 r5 r6 e1
        refine ⟨loc', o', value', ?_, ?_, ?_, ?_, ?_, ?_⟩
        · rw [e1, r1]; simp only [absRun, hcv, if_false]
        · rw [r2, l1, p1]
          simp only [absRun, hcv, if_false, List.length_append, hco]
          exact splice_splice o.L _ _ o.pos (min vpm c) _ hco (by rw [hLlen]; omega)
        · rw [r3, p1]; simp only [absRun, hcv, if_false, List.length_append, hco]; omega
        · rw [r4, s1]
        · simp only [absRun, hcv, if_false, List.length_append, hco]; omega
        · simp only [absRun, hcv, if_false]
          intro hd
          obtain ⟨a, b, c'⟩ := r6 hd
          refine ⟨a, ?_, c'⟩
          rw [b]; simp [List.sum_cons, Nat.add_assoc]
    by_cases hw0 : m.1 = 0
    · rw [hw0] at hw
      obtain ⟨o1, l1, p1, s1, e1⟩ := deltaBlockLoop_step_zero buf ib vpm md bwLoc rest.length i loc o value c hw hc hroom
      have hm2 := hzero hw0
      have hmb : miniBytes vpm m = 0 := by simp [miniBytes, hw0]
      have htk : m.2.take (min vpm c) = List.replicate (min vpm c) 0 := by
        rw [hm2, List.take_replicate, Nat.min_eq_left (Nat.min_le_left vpm c)]
      rw [← htk] at l1 e1
      exact key o1 _ loc l1 p1 s1 (by rw [hmb]; rfl) (fun _ => rfl) e1
    · by_cases hc1 : c = 1
      · subst hc1
        obtain ⟨o1, v1, l1, p1, s1, e1⟩ := deltaBlockLoop_step_last buf ib vpm md bwLoc rest.length i loc m.1 o value hw hw0 hvpm hroom
        have hmin : min vpm 1 = 1 := by omega
        have htk : chainOut ib md value (m.2.take (min vpm 1)) = [wrapU ib value] := by
          rw [hmin]
          cases hm : m.2 with
          | nil => rw [hm] at hlen; simp at hlen; omega
          | cons d t => simp [chainOut]
        have hle : (1 : Nat) ≤ vpm := hvpm
        -- c = 1 ≤ vpm: done after this value; the bytes of the miniblock are not consumed, which no longer matters
        have hcv : (1 : Nat) ≤ vpm := hvpm
        refine ⟨loc, o1, v1, ?_, ?_, ?_, s1, ?_, ?_⟩
        · have e1' : deltaBlockLoop buf ib vpm md bwLoc (rest.length + 1) i loc o value ((1 : Nat) : Int) = .ok (loc, o1, v1, 0, true) := by
            simpa using e1
          rw [e1']; simp only [absRun, hcv, if_true, hmin]; simp
        · simp only [absRun, hcv, if_true, htk]; simpa using l1
        · simp only [absRun, hcv, if_true, htk]; simpa using p1
        · simp only [absRun, hcv, if_true]
          rw [htk, hmin]; rfl
        · simp only [absRun, hcv, if_true]; intro h; cases h
      · -- width 1..28, at least two values to come
        have hc2 : 2 ≤ c := by omega
        obtain ⟨hb, hvals⟩ := hdata hw0
        obtain ⟨o1, l1, p1, s1, e1⟩ := deltaBlockLoop_step buf hbytes ib vpm hib md bwLoc rest.length i loc m.1 o value c
          hw (by omega) hw28 hb hc2 hroom
        rw [hvals] at l1 e1
        have hmb : miniBytes vpm m = (vpm * m.1 + 7) / 8 := by simp [miniBytes, hw0]
        exact key o1 _ (loc + (vpm * m.1 + 7) / 8) l1 p1 s1 (by rw [hmb]) (fun _ => rfl) e1


abbrev Block := Int × List Mini

/-- the buffer holds, from `loc` on, the blocks: zigzag varint of the minimum delta, `mpb` width bytes,
    the packed miniblocks -/
def BlockLayout (buf : List Nat) (vpm mpb : Nat) : Nat → List Block → Prop
  | _, [] => True
  | loc, b :: rest =>
    ∃ u len, readUvarint buf loc = .ok (u, loc + len) ∧ zigzagLong u = b.1 ∧ b.2.length = mpb ∧
      Layout buf vpm (loc + len) 0 (loc + len + mpb) b.2 ∧
      BlockLayout buf vpm mpb (loc + len + mpb + (b.2.map (miniBytes vpm)).sum) rest

/-- all blocks: the values stored -/
def absBlocks (ib vpm : Nat) : List Block → Int → Nat → List Nat
  | [], _, _ => []
  | b :: rest, v, c =>
    if (absRun ib b.1 vpm b.2 v c).2.2.2 then (absRun ib b.1 vpm b.2 v c).1
    else (absRun ib b.1 vpm b.2 v c).1 ++ absBlocks ib vpm rest (absRun ib b.1 vpm b.2 v c).2.1 (absRun ib b.1 vpm b.2 v c).2.2.1

theorem layout_len (buf : List Nat) (vpm bwLoc : Nat) : ∀ (ms : List Mini) (i loc : Nat), Layout buf vpm bwLoc i loc ms →
    ∀ m ∈ ms, m.2.length = vpm := by
  intro ms
  induction ms with
  | nil => intro i loc _ m hm; cases hm
  | cons a rest ih =>
    intro i loc h m hm
    obtain ⟨_, _, hl, _, _, hr⟩ := h
    rcases List.mem_cons.mp hm with rfl | hm'
    · exact hl
    · exact ih _ _ hr m hm'

theorem absRun_facts (ib : Nat) (md : Int) (vpm : Nat) (hvpm : 1 ≤ vpm) : ∀ (ms : List Mini) (v : Int) (c : Nat),
    (∀ m ∈ ms, m.2.length = vpm) → 1 ≤ c →
    ((absRun ib md vpm ms v c).2.2.2 = true → (absRun ib md vpm ms v c).2.2.1 = 0) ∧
    ((absRun ib md vpm ms v c).2.2.2 = false → (absRun ib md vpm ms v c).1.length = vpm * ms.length) := by
  intro ms
  induction ms with
  | nil => intro v c _ _; simp [absRun]
  | cons m rest ih =>
    intro v c hl hc
    have hco : (chainOut ib md v (m.2.take (min vpm c))).length = min vpm c := by
      rw [chainOut_length, List.length_take, hl m List.mem_cons_self]; omega
    by_cases hcv : c ≤ vpm
    · simp only [absRun, hcv, if_true]
      constructor
      · intro _; omega
      · intro h; cases h
    · simp only [absRun, hcv, if_false]
      obtain ⟨a, b⟩ := ih (chainVal md v (m.2.take (min vpm c))) (c - min vpm c) (fun x hx => hl x (List.mem_cons_of_mem _ hx)) (by omega)
      constructor
      · exact a
      · intro h
        rw [List.length_append, hco, b h, List.length_cons]
        have : min vpm c = vpm := by omega
        rw [this]; ring

theorem deltaOuter_run (buf : List Nat) (hbytes : ∀ b ∈ buf, b < 256) (ib vpm mpb : Nat) (hib : 32 ≤ ib) (hvpm : 1 ≤ vpm)
    (hmpb : 1 ≤ mpb) : ∀ (blocks : List Block) (fuel loc : Nat) (o : DOut) (value : Int) (c : Nat),
    BlockLayout buf vpm mpb loc blocks → blocks.length < fuel → 1 ≤ c → c ≤ vpm * mpb * blocks.length →
    o.pos + c = o.slots.size →
    ∃ loc' o', deltaOuter buf ib mpb vpm fuel loc o value (c : Int) = .ok (loc', o') ∧
      o'.L = o.L.take o.pos ++ absBlocks ib vpm blocks value c ++ o.L.drop (o.pos + c) ∧
      (absBlocks ib vpm blocks value c).length = c := by
  intro blocks
  induction blocks with
  | nil => intro fuel loc o value c _ _ hc hle _; simp at hle; omega
  | cons b rest ih =>
    intro fuel loc o value c hlay hfuel hc hle hroom
    obtain ⟨f, rfl⟩ : ∃ f, fuel = f + 1 := ⟨fuel - 1, by simp at hfuel; omega⟩
    obtain ⟨u, len, hrd, hzz, hlen, hl, hrest⟩ := hlay
    obtain ⟨loc1, o1, v1, r1, r2, r3, r4, r5, r6⟩ :=
      deltaBlockLoop_run buf hbytes ib vpm hib hvpm b.1 (loc + len) b.2 0 (loc + len + mpb) o value c hl hc hroom
    rw [hlen] at r1
    obtain ⟨fa, fb⟩ := absRun_facts ib b.1 vpm hvpm b.2 value c (layout_len buf vpm _ b.2 _ _ hl) hc
    have hmp : ¬ (mpb < 1) := by omega
    have hstep : deltaOuter buf ib mpb vpm (f + 1) loc o value (c : Int) =
        (if (absRun ib b.1 vpm b.2 value c).2.2.2 then .ok (loc1, o1)
         else deltaOuter buf ib mpb vpm f loc1 o1 v1 ((absRun ib b.1 vpm b.2 value c).2.2.1 : Int)) := by
      conv => lhs; unfold deltaOuter
      simp only [hrd, bind, Except.bind, hzz, hmp, if_false, r1]
    rw [hstep]
    cases hdone : (absRun ib b.1 vpm b.2 value c).2.2.2 with
    | true =>
      simp only [if_true]
      have hc0 := fa hdone
      have hlenc : (absRun ib b.1 vpm b.2 value c).1.length = c := by omega
      refine ⟨loc1, o1, rfl, ?_, ?_⟩
      · simp only [absBlocks, hdone, if_true]
        rw [r2, hlenc]
      · simp only [absBlocks, hdone, if_true]; exact hlenc
    | false =>
      simp only [Bool.false_eq_true, if_false]
      obtain ⟨hv1, hloc1, hc1⟩ := r6 hdone
      have hl1 := fb hdone
      rw [hlen] at hl1
      have hc' : (absRun ib b.1 vpm b.2 value c).2.2.1 = c - vpm * mpb := by omega
      have hmul : vpm * mpb * (rest.length + 1) = vpm * mpb * rest.length + vpm * mpb := by ring
      obtain ⟨loc', o', e1, e2, e3⟩ := ih f loc1 o1 v1 (absRun ib b.1 vpm b.2 value c).2.2.1
        (by rw [hloc1]; exact hrest) (by simp at hfuel; omega) hc1
        (by rw [hc']; simp only [List.length_cons] at hle; rw [hmul] at hle; omega)
        (by rw [r3, r4]; omega)
      refine ⟨loc', o', e1, ?_, ?_⟩
      · rw [e2, r2, r3]
        simp only [absBlocks, hdone, Bool.false_eq_true, if_false]
        rw [hv1]
        have hLlen : o.L.length = o.slots.size := by simp [DOut.L]
        have := splice_splice o.L (absRun ib b.1 vpm b.2 value c).1
          (absBlocks ib vpm rest (absRun ib b.1 vpm b.2 value c).2.1 (absRun ib b.1 vpm b.2 value c).2.2.1)
          o.pos (absRun ib b.1 vpm b.2 value c).1.length (absRun ib b.1 vpm b.2 value c).2.2.1 rfl (by rw [hLlen]; omega)
        rw [this]
        congr 2
        omega
      · simp only [absBlocks, hdone, Bool.false_eq_true, if_false, List.length_append]
        rw [← hv1, e3]; omega


theorem wrapS64_small (n : Nat) (h : n < 2 ^ 63) : wrapS 64 (n : Int) = n :=
  wrapS_small 64 n (by norm_num) (by simpa using h)

/-- **`delta_binary_unpack` on a whole stream (kernel side)**: header (block size, miniblocks per
    block, count, first value), then blocks of miniblocks of any widths 0..28 — the output array holds
    the running values of the abstract chain semantics `absBlocks`, nothing else, no fault. -/
theorem deltaBinaryUnpack_abs (buf : List Nat) (hbytes : ∀ b ∈ buf, b < 256) (loc0 l1 l2 l3 l4 : Nat) (longval : Bool)
    (blockSize mpb cnt v0 : Nat) (blocks : List Block)
    (h1 : readUvarint buf loc0 = .ok (blockSize, l1)) (h2 : readUvarint buf l1 = .ok (mpb, l2))
    (h3 : readUvarint buf l2 = .ok (cnt, l3)) (h4 : readUvarint buf l3 = .ok (v0, l4))
    (hmpb : 1 ≤ mpb) (hvpm : 1 ≤ blockSize / mpb) (hcnt1 : 1 ≤ cnt) (hcnt : cnt < 2 ^ 63)
    (hlay : BlockLayout buf (blockSize / mpb) mpb l4 blocks) (hfuel : blocks.length ≤ buf.length)
    (hroom : cnt ≤ blockSize / mpb * mpb * blocks.length) :
    ∃ slots loc', deltaBinaryUnpack buf loc0 cnt longval = .ok (slots, loc') ∧
      slots.toList = absBlocks (if longval then 64 else 32) (blockSize / mpb) blocks (zigzagLong v0) cnt := by
  have hib : 32 ≤ (if longval then 64 else 32) := by split <;> omega
  have hm0 : ¬ (mpb = 0) := by omega
  obtain ⟨loc', o', e1, e2, e3⟩ := deltaOuter_run buf hbytes (if longval then 64 else 32) (blockSize / mpb) mpb hib hvpm hmpb
    blocks (buf.length + 2) l4 { slots := Array.replicate cnt 0, pos := 0 } (zigzagLong v0) cnt hlay (by omega) hcnt1 hroom
    (by simp)
  refine ⟨o'.slots, loc', ?_, ?_⟩
  · simp only [deltaBinaryUnpack, h1, h2, h3, h4, bind, Except.bind, hm0, if_false, wrapS64_small cnt hcnt, e1]
  · have : o'.L = o'.slots.toList := rfl
    rw [← this, e2]
    simp only [DOut.L, List.take_zero, List.nil_append, Nat.zero_add]
    have hl : (Array.replicate cnt 0 : Array Nat).toList.length = cnt := by simp
    rw [List.drop_of_length_le (by rw [hl]), List.append_nil]


/-- a miniblock as a conforming writer emits it -/
structure MiniOk (vpm : Nat) (m : Mini) : Prop where
  w28 : m.1 ≤ 28
  len : m.2.length = vpm
  zero : m.1 = 0 → m.2 = List.replicate vpm 0
  small : ∀ d ∈ m.2, d < 2 ^ m.1

def encMini (m : Mini) : List Nat := if m.1 = 0 then [] else packLE m.1 m.2

theorem encMini_length (vpm : Nat) (m : Mini) (h : MiniOk vpm m) : (encMini m).length = miniBytes vpm m := by
  unfold encMini miniBytes
  split
  · rfl
  · rw [packLE_length, h.len]

theorem mid_drop_take (P X S : List Nat) : ((P ++ X ++ S).drop P.length).take X.length = X := by
  rw [List.append_assoc, List.drop_left' rfl, List.take_left' rfl]

theorem mid_getElem? (P X S : List Nat) (j : Nat) (hj : j < X.length) : (P ++ X ++ S)[P.length + j]? = X[j]? := by
  rw [List.append_assoc, List.getElem?_append_right (by omega), Nat.add_sub_cancel_left, List.getElem?_append_left hj]

theorem layout_concrete (vpm : Nat) (A Z : List Nat) (all : List Mini) (hok : ∀ m ∈ all, MiniOk vpm m) :
    ∀ (todo done : List Mini), all = done ++ todo →
      Layout (A ++ all.map (·.1) ++ all.flatMap encMini ++ Z) vpm A.length done.length
        (A.length + all.length + (done.flatMap encMini).length) todo := by
  intro todo
  induction todo with
  | nil => intro done _; trivial
  | cons m rest ih =>
    intro done hall
    have hm : MiniOk vpm m := hok m (by rw [hall]; simp)
    set buf := A ++ all.map (·.1) ++ all.flatMap encMini ++ Z with hbuf
    refine ⟨?_, hm.w28, hm.len, hm.zero, ?_, ?_⟩
    · -- the width byte
      have hW : (all.map (·.1))[done.length]? = some m.1 := by
        rw [hall, List.map_append, List.getElem?_append_right (by simp)]
        simp
      have := mid_getElem? A (all.map (·.1)) (all.flatMap encMini ++ Z) done.length (by rw [hall]; simp)
      rw [hbuf, List.append_assoc (A ++ all.map (·.1)), this, hW]
    · intro hw0
      -- the packed values sit at `loc`
      have hD : all.flatMap encMini = done.flatMap encMini ++ encMini m ++ rest.flatMap encMini := by
        rw [hall]; simp [List.flatMap_append, List.append_assoc]
      have hpre : (A ++ all.map (·.1) ++ done.flatMap encMini).length = A.length + all.length + (done.flatMap encMini).length := by
        simp [List.length_append]; omega
      have hb2 : buf = (A ++ all.map (·.1) ++ done.flatMap encMini) ++ encMini m ++ (rest.flatMap encMini ++ Z) := by
        rw [hbuf, hD]; simp [List.append_assoc]
      have henc : encMini m = packLE m.1 m.2 := by simp [encMini, hw0]
      have hlen : (encMini m).length = (vpm * m.1 + 7) / 8 := by rw [henc, packLE_length, hm.len]
      constructor
      · rw [hb2, ← hpre]
        simp only [List.length_append, hlen]
        omega
      · have hdt := mid_drop_take (A ++ all.map (·.1) ++ done.flatMap encMini) (encMini m) (rest.flatMap encMini ++ Z)
        rw [← hb2, hpre, hlen] at hdt
        rw [stream_values_eq_unpackLE buf _ m.1 vpm ((vpm * m.1 + 7) / 8)
          (by rw [hb2, ← hpre]; simp only [List.length_append, hlen]; omega) (by omega)]
        rw [hdt, henc]
        have := unpackLE_packLE m.1 m.2 hm.small
        rw [hm.len] at this
        exact this
    · have := ih (done ++ [m]) (by rw [hall]; simp)
      have e1 : (done ++ [m]).length = done.length + 1 := by simp
      have e2 : ((done ++ [m]).flatMap encMini).length = (done.flatMap encMini).length + miniBytes vpm m := by
        simp [List.flatMap_append, encMini_length vpm m hm]
      rw [e1, e2] at this
      rw [← Nat.add_assoc] at this
      exact this


def okI64 (n : Int) : Prop := -(2 ^ 63 : Int) ≤ n ∧ n < (2 ^ 63 : Int)

theorem zz_lt64 (n : Int) (h : okI64 n) : zigzagEnc n < 2 ^ 64 := by
  unfold zigzagEnc
  obtain ⟨h1, h2⟩ := h
  split
  · have : 2 * n < 2 ^ 64 := by omega
    omega
  · omega

theorem zz_back64 (n : Int) (h : okI64 n) : zigzagLong (zigzagEnc n) = n := by
  rw [zigzagLong_eq _ (zz_lt64 n h), zigzag_rt]

def encBlockP (b : Block) : List Nat := uvarintEnc (zigzagEnc b.1) ++ b.2.map (·.1) ++ b.2.flatMap encMini

structure BlockOk (vpm mpb : Nat) (b : Block) : Prop where
  md : okI64 b.1
  len : b.2.length = mpb
  minis : ∀ m ∈ b.2, MiniOk vpm m

theorem flatMap_encMini_length (vpm : Nat) (ms : List Mini) (h : ∀ m ∈ ms, MiniOk vpm m) :
    (ms.flatMap encMini).length = (ms.map (miniBytes vpm)).sum := by
  induction ms with
  | nil => rfl
  | cons m t ih =>
    simp only [List.flatMap_cons, List.length_append, List.map_cons, List.sum_cons,
      encMini_length vpm m (h m List.mem_cons_self), ih (fun x hx => h x (List.mem_cons_of_mem _ hx))]

/-- the blocks as bytes ⇒ the layout the kernel theorem needs -/
theorem blockLayout_concrete (vpm mpb : Nat) (post : List Nat) : ∀ (blocks : List Block) (pre : List Nat),
    (∀ b ∈ blocks, BlockOk vpm mpb b) →
    BlockLayout (pre ++ blocks.flatMap encBlockP ++ post) vpm mpb pre.length blocks := by
  intro blocks
  induction blocks with
  | nil => intro pre _; trivial
  | cons b rest ih =>
    intro pre hok
    have hb := hok b List.mem_cons_self
    set x := zigzagEnc b.1 with hx
    have hx64 : x < 2 ^ 64 := zz_lt64 b.1 hb.md
    have hbuf : pre ++ (b :: rest).flatMap encBlockP ++ post
        = (pre ++ uvarintEnc x) ++ b.2.map (·.1) ++ b.2.flatMap encMini ++ (rest.flatMap encBlockP ++ post) := by
      simp [List.flatMap_cons, encBlockP, List.append_assoc, hx]
    have hbuf2 : pre ++ (b :: rest).flatMap encBlockP ++ post
        = pre ++ uvarintEnc x ++ (b.2.map (·.1) ++ b.2.flatMap encMini ++ (rest.flatMap encBlockP ++ post)) := by
      rw [hbuf]; simp [List.append_assoc]
    refine ⟨x, uvarintLen x, ?_, zz_back64 b.1 hb.md, hb.len, ?_, ?_⟩
    · rw [hbuf2]; exact readUvarint_enc x hx64 pre _
    · have := layout_concrete vpm (pre ++ uvarintEnc x) (rest.flatMap encBlockP ++ post) b.2 hb.minis b.2 [] rfl
      rw [← hbuf] at this
      simp only [List.length_append, List.length_nil, List.flatMap_nil, Nat.add_zero, hb.len] at this
      exact this
    · have := ih (pre ++ encBlockP b) (fun y hy => hok y (List.mem_cons_of_mem _ hy))
      have e1 : pre ++ encBlockP b ++ rest.flatMap encBlockP ++ post = pre ++ (b :: rest).flatMap encBlockP ++ post := by
        simp [List.flatMap_cons, List.append_assoc]
      have e2 : (pre ++ encBlockP b).length = pre.length + uvarintLen x + mpb + (b.2.map (miniBytes vpm)).sum := by
        simp only [encBlockP, List.length_append, List.length_map, hb.len, flatMap_encMini_length vpm b.2 hb.minis, ← hx]
        unfold uvarintLen; omega
      rw [e1, e2] at this
      exact this


/-- a DELTA_BINARY_PACKED stream as bytes: header, then blocks -/
def encStreamP (blockSize mpb cnt : Nat) (first : Int) (blocks : List Block) : List Nat :=
  uvarintEnc blockSize ++ uvarintEnc mpb ++ uvarintEnc cnt ++ uvarintEnc (zigzagEnc first) ++ blocks.flatMap encBlockP

theorem bytes_lt_of_parts (pre mid post : List Nat) (h1 : ∀ b ∈ pre, b < 256) (h2 : ∀ b ∈ mid, b < 256) (h3 : ∀ b ∈ post, b < 256) :
    ∀ b ∈ pre ++ mid ++ post, b < 256 := by
  intro b hb
  rcases List.mem_append.mp hb with h | h
  · rcases List.mem_append.mp h with h | h
    · exact h1 b h
    · exact h2 b h
  · exact h3 b h

/-- **`delta_binary_unpack` on every stream a conforming writer can emit with miniblock widths ≤ 28**
    (any block shape, any mixture of widths incl. 0, any count that the blocks cover, anywhere in a
    buffer, whatever follows): no fault, and the output holds the running values `absBlocks`. -/
theorem deltaBinaryUnpack_concrete (pre post : List Nat) (longval : Bool) (blockSize mpb cnt : Nat) (first : Int) (blocks : List Block)
    (hbs : blockSize < 2 ^ 64) (hmpb64 : mpb < 2 ^ 64) (hfirst : okI64 first)
    (hmpb : 1 ≤ mpb) (hvpm : 1 ≤ blockSize / mpb) (hcnt1 : 1 ≤ cnt) (hcnt : cnt < 2 ^ 63)
    (hblocks : ∀ b ∈ blocks, BlockOk (blockSize / mpb) mpb b)
    (hroom : cnt ≤ blockSize / mpb * mpb * blocks.length)
    (hbytes : ∀ b ∈ pre ++ encStreamP blockSize mpb cnt first blocks ++ post, b < 256) :
    ∃ slots loc', deltaBinaryUnpack (pre ++ encStreamP blockSize mpb cnt first blocks ++ post) pre.length cnt longval = .ok (slots, loc') ∧
      slots.toList = absBlocks (if longval then 64 else 32) (blockSize / mpb) blocks first cnt := by
  set buf := pre ++ encStreamP blockSize mpb cnt first blocks ++ post with hbuf
  have e1 : buf = pre ++ uvarintEnc blockSize ++ (uvarintEnc mpb ++ uvarintEnc cnt ++ uvarintEnc (zigzagEnc first) ++ blocks.flatMap encBlockP ++ post) := by
    simp [hbuf, encStreamP, List.append_assoc]
  have e2 : buf = (pre ++ uvarintEnc blockSize) ++ uvarintEnc mpb ++ (uvarintEnc cnt ++ uvarintEnc (zigzagEnc first) ++ blocks.flatMap encBlockP ++ post) := by
    simp [hbuf, encStreamP, List.append_assoc]
  have e3 : buf = (pre ++ uvarintEnc blockSize ++ uvarintEnc mpb) ++ uvarintEnc cnt ++ (uvarintEnc (zigzagEnc first) ++ blocks.flatMap encBlockP ++ post) := by
    simp [hbuf, encStreamP, List.append_assoc]
  have e4 : buf = (pre ++ uvarintEnc blockSize ++ uvarintEnc mpb ++ uvarintEnc cnt) ++ uvarintEnc (zigzagEnc first) ++ (blocks.flatMap encBlockP ++ post) := by
    simp [hbuf, encStreamP, List.append_assoc]
  have e5 : buf = (pre ++ uvarintEnc blockSize ++ uvarintEnc mpb ++ uvarintEnc cnt ++ uvarintEnc (zigzagEnc first)) ++ blocks.flatMap encBlockP ++ post := by
    simp [hbuf, encStreamP, List.append_assoc]
  have r1 := readUvarint_enc blockSize hbs pre (uvarintEnc mpb ++ uvarintEnc cnt ++ uvarintEnc (zigzagEnc first) ++ blocks.flatMap encBlockP ++ post)
  rw [← e1] at r1
  have r2 := readUvarint_enc mpb hmpb64 (pre ++ uvarintEnc blockSize) (uvarintEnc cnt ++ uvarintEnc (zigzagEnc first) ++ blocks.flatMap encBlockP ++ post)
  rw [← e2] at r2
  have r3 := readUvarint_enc cnt (by omega) (pre ++ uvarintEnc blockSize ++ uvarintEnc mpb) (uvarintEnc (zigzagEnc first) ++ blocks.flatMap encBlockP ++ post)
  rw [← e3] at r3
  have r4 := readUvarint_enc (zigzagEnc first) (zz_lt64 first hfirst) (pre ++ uvarintEnc blockSize ++ uvarintEnc mpb ++ uvarintEnc cnt) (blocks.flatMap encBlockP ++ post)
  rw [← e4] at r4
  have hlay := blockLayout_concrete (blockSize / mpb) mpb post blocks
    (pre ++ uvarintEnc blockSize ++ uvarintEnc mpb ++ uvarintEnc cnt ++ uvarintEnc (zigzagEnc first)) hblocks
  rw [← e5] at hlay
  have hl1 : (pre ++ uvarintEnc blockSize).length = pre.length + uvarintLen blockSize := by simp [uvarintLen]
  have hl2 : (pre ++ uvarintEnc blockSize ++ uvarintEnc mpb).length = pre.length + uvarintLen blockSize + uvarintLen mpb := by
    simp [uvarintLen]; omega
  have hl3 : (pre ++ uvarintEnc blockSize ++ uvarintEnc mpb ++ uvarintEnc cnt).length
      = pre.length + uvarintLen blockSize + uvarintLen mpb + uvarintLen cnt := by simp [uvarintLen]; omega
  have hl4 : (pre ++ uvarintEnc blockSize ++ uvarintEnc mpb ++ uvarintEnc cnt ++ uvarintEnc (zigzagEnc first)).length
      = pre.length + uvarintLen blockSize + uvarintLen mpb + uvarintLen cnt + uvarintLen (zigzagEnc first) := by simp [uvarintLen]; omega
  rw [hl1] at r2
  rw [hl2] at r3
  rw [hl3] at r4
  rw [hl4] at hlay
  -- every block takes at least one byte, so there are no more blocks than bytes
  have hfuel : blocks.length ≤ buf.length := by
    have gen : ∀ bl : List Block, bl.length ≤ (bl.flatMap encBlockP).length := by
      intro bl
      induction bl with
      | nil => simp
      | cons b t ih =>
        simp only [List.flatMap_cons, List.length_append, List.length_cons, encBlockP]
        have := uvarintEnc_length_pos (zigzagEnc b.1)
        omega
    have := gen blocks
    rw [e5]; simp only [List.length_append]; omega
  obtain ⟨slots, loc', k1, k2⟩ := deltaBinaryUnpack_abs buf hbytes pre.length _ _ _ _ longval blockSize mpb cnt (zigzagEnc first) blocks
    r1 r2 r3 r4 hmpb hvpm hcnt1 hcnt hlay hfuel hroom
  rw [zz_back64 first hfirst] at k2
  exact ⟨slots, loc', k1, k2⟩


/-- the deltas of a stream in order, each with the minimum delta of its block -/
def flatMinis (md : Int) (ms : List Mini) : List (Int × Nat) := ms.flatMap (fun m => m.2.map (fun d => (md, d)))
def flatE (blocks : List Block) : List (Int × Nat) := blocks.flatMap (fun b => flatMinis b.1 b.2)

/-- the kernel's running values over a delta sequence: stored value, then 64-bit wrapping add -/
def kernChainP (ib : Nat) : Int → List (Int × Nat) → List Nat
  | _, [] => []
  | v, e :: es => wrapU ib v :: kernChainP ib (wrapS 64 (v + e.1 + (e.2 : Int))) es
def kernValP : Int → List (Int × Nat) → Int
  | v, [] => v
  | v, e :: es => kernValP (wrapS 64 (v + e.1 + (e.2 : Int))) es

theorem kernChainP_append (ib : Nat) (v : Int) (a b : List (Int × Nat)) :
    kernChainP ib v (a ++ b) = kernChainP ib v a ++ kernChainP ib (kernValP v a) b := by
  induction a generalizing v with
  | nil => rfl
  | cons e t ih => simp [kernChainP, kernValP, ih]

theorem kernValP_append (v : Int) (a b : List (Int × Nat)) : kernValP v (a ++ b) = kernValP (kernValP v a) b := by
  induction a generalizing v with
  | nil => rfl
  | cons e t ih => simp [kernValP, ih]

theorem chainOut_eq (ib : Nat) (md : Int) (v : Int) (ds : List Nat) :
    chainOut ib md v ds = kernChainP ib v (ds.map (fun d => (md, d))) := by
  induction ds generalizing v with
  | nil => rfl
  | cons d t ih => simp [chainOut, kernChainP, ih]

theorem chainVal_eq (md : Int) (v : Int) (ds : List Nat) : chainVal md v ds = kernValP v (ds.map (fun d => (md, d))) := by
  induction ds generalizing v with
  | nil => rfl
  | cons d t ih => simp [chainVal, kernValP, ih]

theorem take_append_long {α} (A B : List α) (c : Nat) (h : A.length ≤ c) : (A ++ B).take c = A ++ B.take (c - A.length) := by
  rw [List.take_append, List.take_of_length_le h]

theorem absRun_flat (ib : Nat) (md : Int) (vpm : Nat) (hvpm : 1 ≤ vpm) : ∀ (ms : List Mini) (v : Int) (c : Nat),
    (∀ m ∈ ms, m.2.length = vpm) → 1 ≤ c →
    (absRun ib md vpm ms v c).1 = kernChainP ib v ((flatMinis md ms).take c) ∧
    ((absRun ib md vpm ms v c).2.2.2 = false →
      (absRun ib md vpm ms v c).2.1 = kernValP v (flatMinis md ms) ∧
      (absRun ib md vpm ms v c).2.2.1 = c - vpm * ms.length ∧ vpm * ms.length < c) := by
  intro ms
  induction ms with
  | nil =>
    intro v c _ hc
    simp [absRun, flatMinis, kernChainP, kernValP]; omega
  | cons m rest ih =>
    intro v c hl hc
    have hm : m.2.length = vpm := hl m List.mem_cons_self
    have hflat : flatMinis md (m :: rest) = m.2.map (fun d => (md, d)) ++ flatMinis md rest := by
      simp [flatMinis]
    have hlenA : (m.2.map (fun d => (md, d))).length = vpm := by simp [hm]
    by_cases hcv : c ≤ vpm
    · have hmin : min vpm c = c := by omega
      simp only [absRun, hcv, if_true, hmin]
      refine ⟨?_, fun h => by cases h⟩
      rw [chainOut_eq, hflat, List.take_append_of_le_length (by rw [hlenA]; exact hcv), List.map_take]
    · have hmin : min vpm c = vpm := by omega
      simp only [absRun, hcv, if_false, hmin]
      obtain ⟨i1, i2⟩ := ih (chainVal md v (m.2.take vpm)) (c - vpm) (fun x hx => hl x (List.mem_cons_of_mem _ hx)) (by omega)
      have htk : m.2.take vpm = m.2 := List.take_of_length_le (by omega)
      rw [htk] at i1 i2 ⊢
      constructor
      · rw [i1, chainOut_eq, chainVal_eq, hflat, take_append_long _ _ c (by rw [hlenA]; omega), hlenA, kernChainP_append]
      · intro hd
        obtain ⟨a, b, c'⟩ := i2 hd
        refine ⟨?_, ?_, ?_⟩
        · rw [a, chainVal_eq, hflat, kernValP_append]
        · rw [b, List.length_cons]; 
          have : vpm * (rest.length + 1) = vpm * rest.length + vpm := by ring
          rw [this]; omega
        · rw [List.length_cons]
          have : vpm * (rest.length + 1) = vpm * rest.length + vpm := by ring
          rw [this]; omega

theorem absRun_sum (ib : Nat) (md : Int) (vpm : Nat) : ∀ (ms : List Mini) (v : Int) (c : Nat),
    (∀ m ∈ ms, m.2.length = vpm) → (absRun ib md vpm ms v c).1.length + (absRun ib md vpm ms v c).2.2.1 = c := by
  intro ms
  induction ms with
  | nil => intro v c _; simp [absRun]
  | cons m rest ih =>
    intro v c hl
    have hco : (chainOut ib md v (m.2.take (min vpm c))).length = min vpm c := by
      rw [chainOut_length, List.length_take, hl m List.mem_cons_self]; omega
    by_cases hcv : c ≤ vpm
    · simp only [absRun, hcv, if_true, hco]; omega
    · simp only [absRun, hcv, if_false, List.length_append, hco]
      have := ih (chainVal md v (m.2.take (min vpm c))) (c - min vpm c) (fun x hx => hl x (List.mem_cons_of_mem _ hx))
      omega

theorem flatMinis_length (md : Int) (vpm : Nat) (ms : List Mini) (h : ∀ m ∈ ms, m.2.length = vpm) :
    (flatMinis md ms).length = vpm * ms.length := by
  induction ms with
  | nil => simp [flatMinis]
  | cons m t ih =>
    have := ih (fun x hx => h x (List.mem_cons_of_mem _ hx))
    simp only [flatMinis, List.flatMap_cons, List.length_append, List.length_map, h m List.mem_cons_self, List.length_cons] at this ⊢
    rw [this]; ring

/-- **the values the kernel stores are the running values over the stream's delta sequence** -/
theorem absBlocks_flat (ib vpm mpb : Nat) (hvpm : 1 ≤ vpm) : ∀ (blocks : List Block) (v : Int) (c : Nat),
    (∀ b ∈ blocks, b.2.length = mpb ∧ ∀ m ∈ b.2, m.2.length = vpm) → 1 ≤ c →
    absBlocks ib vpm blocks v c = kernChainP ib v ((flatE blocks).take c) := by
  intro blocks
  induction blocks with
  | nil => intro v c _ _; simp [absBlocks, flatE, kernChainP]
  | cons b rest ih =>
    intro v c hb hc
    obtain ⟨hlen, hm⟩ := hb b List.mem_cons_self
    obtain ⟨r1, r2⟩ := absRun_flat ib b.1 vpm hvpm b.2 v c hm hc
    have hfl : flatE (b :: rest) = flatMinis b.1 b.2 ++ flatE rest := by simp [flatE]
    have hA := flatMinis_length b.1 vpm b.2 hm
    simp only [absBlocks]
    cases hd : (absRun ib b.1 vpm b.2 v c).2.2.2 with
    | true =>
      simp only [if_true]
      obtain ⟨fa, _⟩ := absRun_facts ib b.1 vpm hvpm b.2 v c hm hc
      have hc0 := fa hd
      -- done inside this block: c ≤ its number of deltas
      have hle : c ≤ (flatMinis b.1 b.2).length := by
        have h1 : (absRun ib b.1 vpm b.2 v c).1.length = (kernChainP ib v ((flatMinis b.1 b.2).take c)).length := by rw [r1]
        have hk : ∀ (w : Int) (l : List (Int × Nat)), (kernChainP ib w l).length = l.length := by
          intro w l; induction l generalizing w with
          | nil => rfl
          | cons e t iht => simp [kernChainP, iht]
        rw [hk, List.length_take] at h1
        -- outs.length + c' = c with c' = 0 (from the block run lemma's bookkeeping)
        have hsum : (absRun ib b.1 vpm b.2 v c).1.length + (absRun ib b.1 vpm b.2 v c).2.2.1 = c := absRun_sum ib b.1 vpm b.2 v c hm
        omega
      rw [r1, hfl, List.take_append_of_le_length hle]
    | false =>
      simp only [Bool.false_eq_true, if_false]
      obtain ⟨a, b', c'⟩ := r2 hd
      rw [r1, a, b', ih _ _ (fun x hx => hb x (List.mem_cons_of_mem _ hx)) (by omega), hfl,
        take_append_long _ _ c (by rw [hA]; omega), hA, kernChainP_append, List.take_of_length_le (by rw [hA]; omega)]


def flatD (ms : List Mini) : List Nat := ms.flatMap (·.2)

theorem unpackLE_zero (n : Nat) (bs : List Nat) : unpackLE 0 n bs = List.replicate n 0 := by
  unfold unpackLE unpackNat bitField
  apply List.ext_getElem
  · simp
  · intro i h1 h2; simp [Nat.mod_one]

theorem encMini_unpack (vpm : Nat) (h8 : vpm % 8 = 0) (m : Mini) (hm : MiniOk vpm m) (tail : List Nat) :
    unpackLE m.1 vpm ((encMini m ++ tail).take (vpm * m.1 / 8)) = m.2 ∧ (encMini m ++ tail).drop (vpm * m.1 / 8) = tail := by
  by_cases hw : m.1 = 0
  · have e : encMini m = [] := by simp [encMini, hw]
    rw [hw, e]
    simp only [Nat.mul_zero, Nat.zero_div, List.take_zero, List.nil_append, List.drop_zero, unpackLE_zero, and_true]
    exact (hm.zero hw).symm
  · have e : encMini m = packLE m.1 m.2 := by simp [encMini, hw]
    have hl : (encMini m).length = vpm * m.1 / 8 := by
      rw [e, packLE_length, hm.len]
      have : vpm * m.1 % 8 = 0 := by
        rw [Nat.mul_mod, h8]; simp
      omega
    rw [List.take_left' hl, List.drop_left' hl, e]
    have := unpackLE_packLE m.1 m.2 hm.small
    rw [hm.len] at this
    exact ⟨this, rfl⟩

/-- the specification's miniblock loop on concrete bytes -/
theorem deltaMinis_concrete (bits vpm : Nat) (hvpm : 1 ≤ vpm) (h8 : vpm % 8 = 0) (md : Int) : ∀ (ms : List Mini) (need : Nat) (last : Int) (acc : List Int) (tail : List Nat),
    (∀ m ∈ ms, MiniOk vpm m) →
    ∃ rest', deltaMinis bits vpm md (ms.map (·.1)) (ms.flatMap encMini ++ tail) need last acc
        = (acc ++ reconRel bits md last ((flatD ms).take need), lastAfter bits md last ((flatD ms).take need),
            need - min need (vpm * ms.length), rest') ∧
      (vpm * ms.length ≤ need → rest' = tail) := by
  intro ms
  induction ms with
  | nil =>
    intro need last acc tail _
    exact ⟨tail, by simp [deltaMinis, flatD, reconRel, lastAfter], fun _ => rfl⟩
  | cons m rest ih =>
    intro need last acc tail hok
    have hm := hok m List.mem_cons_self
    have hmul : vpm * (rest.length + 1) = vpm * rest.length + vpm := by ring
    by_cases hn : need = 0
    · subst hn
      refine ⟨(m :: rest).flatMap encMini ++ tail, ?_, ?_⟩
      · simp [deltaMinis, reconRel, lastAfter]
      · intro h; simp only [List.length_cons] at h; rw [hmul] at h; omega
    · obtain ⟨u1, u2⟩ := encMini_unpack vpm h8 m hm (rest.flatMap encMini ++ tail)
      have hbs : (m :: rest).flatMap encMini ++ tail = encMini m ++ (rest.flatMap encMini ++ tail) := by
        simp [List.flatMap_cons, List.append_assoc]
      obtain ⟨rest', i1, i2⟩ := ih (need - min need vpm)
        (lastAfter bits md last (m.2.take (min need vpm))) (acc ++ reconRel bits md last (m.2.take (min need vpm))) tail
        (fun x hx => hok x (List.mem_cons_of_mem _ hx))
      refine ⟨rest', ?_, ?_⟩
      · simp only [List.map_cons, deltaMinis, hn, if_false, hbs, u1, u2, fold_recon, i1]
        have hfd : flatD (m :: rest) = m.2 ++ flatD rest := by simp [flatD]
        have htake : (flatD (m :: rest)).take need = m.2.take (min need vpm) ++ (flatD rest).take (need - min need vpm) := by
          rw [hfd, List.take_append, hm.len]
          congr 1
          · by_cases h : need ≤ vpm
            · rw [Nat.min_eq_left h]
            · rw [Nat.min_eq_right (by omega), List.take_of_length_le (by rw [hm.len]; omega), List.take_of_length_le (by rw [hm.len])]
          · congr 1; omega
        rw [htake, reconRel_append, lastAfter_append, List.append_assoc]
        congr 2
        · congr 1
          simp only [List.length_cons]; rw [hmul]; omega
      · intro h
        apply i2
        simp only [List.length_cons] at h; rw [hmul] at h; omega


/-- the specification's running values over a delta sequence (arithmetic modulo 2^bits, signed) -/
def specChainP (bits : Nat) : Int → List (Int × Nat) → List Int
  | _, [] => []
  | last, e :: es => wrapSg bits (last + e.1 + (e.2 : Int)) :: specChainP bits (wrapSg bits (last + e.1 + (e.2 : Int))) es
def specLastP (bits : Nat) : Int → List (Int × Nat) → Int
  | last, [] => last
  | last, e :: es => specLastP bits (wrapSg bits (last + e.1 + (e.2 : Int))) es

theorem specChainP_append (bits : Nat) (v : Int) (a b : List (Int × Nat)) :
    specChainP bits v (a ++ b) = specChainP bits v a ++ specChainP bits (specLastP bits v a) b := by
  induction a generalizing v with
  | nil => rfl
  | cons e t ih => simp [specChainP, specLastP, ih]

theorem specLastP_append (bits : Nat) (v : Int) (a b : List (Int × Nat)) :
    specLastP bits v (a ++ b) = specLastP bits (specLastP bits v a) b := by
  induction a generalizing v with
  | nil => rfl
  | cons e t ih => simp [specLastP, ih]

theorem reconRel_eq (bits : Nat) (md : Int) (last : Int) (ds : List Nat) :
    reconRel bits md last ds = specChainP bits last (ds.map (fun d => (md, d))) := by
  induction ds generalizing last with
  | nil => rfl
  | cons d t ih => simp [reconRel, specChainP, ih]

theorem lastAfter_eq (bits : Nat) (md : Int) (last : Int) (ds : List Nat) :
    lastAfter bits md last ds = specLastP bits last (ds.map (fun d => (md, d))) := by
  induction ds generalizing last with
  | nil => rfl
  | cons d t ih => simp [lastAfter, specLastP, ih]

theorem flatMinis_eq (md : Int) (ms : List Mini) : flatMinis md ms = (flatD ms).map (fun d => (md, d)) := by
  induction ms with
  | nil => rfl
  | cons m t ih =>
    simp only [flatMinis, flatD, List.flatMap_cons, List.map_append] at ih ⊢
    rw [ih]

/-- the specification's block loop on concrete bytes -/
theorem deltaBlocks_concrete (bits vpm mpb : Nat) (hvpm : 1 ≤ vpm) (hmpb : 1 ≤ mpb) (h8 : vpm % 8 = 0) (post : List Nat) :
    ∀ (blocks : List Block) (fuel need : Nat) (last : Int) (acc : List Int),
    (∀ b ∈ blocks, BlockOk vpm mpb b) → blocks.length < fuel → need ≤ (flatE blocks).length →
    ∃ rest', deltaBlocks bits mpb vpm fuel (blocks.flatMap encBlockP ++ post) need last acc
        = some (acc ++ specChainP bits last ((flatE blocks).take need), rest') := by
  intro blocks
  induction blocks with
  | nil =>
    intro fuel need last acc _ hf hn
    obtain ⟨f, rfl⟩ : ∃ f, fuel = f + 1 := ⟨fuel - 1, by omega⟩
    have : need = 0 := by simpa [flatE] using hn
    subst this
    exact ⟨[].flatMap encBlockP ++ post, by simp [deltaBlocks, specChainP]⟩
  | cons b rest ih =>
    intro fuel need last acc hok hf hn
    obtain ⟨f, rfl⟩ : ∃ f, fuel = f + 1 := ⟨fuel - 1, by omega⟩
    have hb := hok b List.mem_cons_self
    by_cases hn0 : need = 0
    · subst hn0
      exact ⟨(b :: rest).flatMap encBlockP ++ post, by simp [deltaBlocks, specChainP]⟩
    · have hbs : (b :: rest).flatMap encBlockP ++ post
          = uvarintEnc (zigzagEnc b.1) ++ (b.2.map (·.1) ++ (b.2.flatMap encMini ++ (rest.flatMap encBlockP ++ post))) := by
        simp [List.flatMap_cons, encBlockP, List.append_assoc]
      have hwl : (b.2.map (·.1)).length = mpb := by simp [hb.len]
      obtain ⟨rest1, m1, m2⟩ := deltaMinis_concrete bits vpm hvpm h8 b.1 b.2 need last acc (rest.flatMap encBlockP ++ post) hb.minis
      have hfl : flatE (b :: rest) = flatMinis b.1 b.2 ++ flatE rest := by simp [flatE]
      have hlenM : (flatMinis b.1 b.2).length = vpm * mpb := by
        rw [flatMinis_length b.1 vpm b.2 (fun m hm => (hb.minis m hm).len), hb.len]
      have hlenD : (flatD b.2).length = vpm * mpb := by
        have := hlenM; rw [flatMinis_eq, List.length_map] at this; exact this
      rw [hb.len] at m1 m2
      simp only [deltaBlocks, hn0, if_false, hbs, zzVar_enc, List.take_left' hwl, List.drop_left' hwl, m1]
      by_cases hle : need ≤ vpm * mpb
      · -- everything wanted is in this block
        have hmin : min need (vpm * mpb) = need := by omega
        rw [hmin, Nat.sub_self]
        obtain ⟨g, rfl⟩ : ∃ g, f = g + 1 := ⟨f - 1, by simp at hf; omega⟩
        refine ⟨rest1, ?_⟩
        simp only [deltaBlocks, if_true]
        rw [hfl, List.take_append_of_le_length (by rw [hlenM]; exact hle), flatMinis_eq, ← List.map_take, reconRel_eq]
      · have hmin : min need (vpm * mpb) = vpm * mpb := by omega
        have hr := m2 (by omega)
        rw [hmin, hr]
        have htk : (flatD b.2).take need = flatD b.2 := List.take_of_length_le (by rw [hlenD]; omega)
        rw [htk]
        obtain ⟨rest', i1⟩ := ih f (need - vpm * mpb) (lastAfter bits b.1 last (flatD b.2)) (acc ++ reconRel bits b.1 last (flatD b.2))
          (fun x hx => hok x (List.mem_cons_of_mem _ hx)) (by simp at hf; omega)
          (by rw [hfl, List.length_append, hlenM] at hn; omega)
        refine ⟨rest', ?_⟩
        rw [i1, hfl, take_append_long _ _ need (by rw [hlenM]; omega), hlenM, specChainP_append, reconRel_eq, lastAfter_eq,
          ← flatMinis_eq, List.append_assoc]


theorem ofSigned_eq_wrapU (bits : Nat) (x : Int) : ofSigned bits x = wrapU bits x := rfl

theorem wrapU_congr (bits : Nat) (a b : Int) (h : a % ((2 ^ bits : Nat) : Int) = b % ((2 ^ bits : Nat) : Int)) :
    wrapU bits a = wrapU bits b := by
  unfold wrapU; rw [h]

theorem wrapU_mod_iff (bits : Nat) (a b : Int) (h : wrapU bits a = wrapU bits b) :
    a % ((2 ^ bits : Nat) : Int) = b % ((2 ^ bits : Nat) : Int) := by
  unfold wrapU at h
  have hM : (0 : Int) < ((2 ^ bits : Nat) : Int) := by exact_mod_cast Nat.two_pow_pos bits
  have h1 := Int.emod_nonneg a (ne_of_gt hM)
  have h2 := Int.emod_nonneg b (ne_of_gt hM)
  have := congrArg (fun n : Nat => (n : Int)) h
  simp only [Int.toNat_of_nonneg h1, Int.toNat_of_nonneg h2] at this
  exact this

theorem wrapS_mod (bits : Nat) (hb : 1 ≤ bits) (x : Int) : wrapS bits x % ((2 ^ bits : Nat) : Int) = x % ((2 ^ bits : Nat) : Int) := by
  have hM : (0 : Int) < ((2 ^ bits : Nat) : Int) := by exact_mod_cast Nat.two_pow_pos bits
  have h1 := Int.emod_nonneg x (ne_of_gt hM)
  unfold wrapS wrapU
  simp only [Int.toNat_of_nonneg h1]
  split
  · exact Int.emod_emod_of_dvd x (dvd_refl _)
  · rw [Int.sub_emod, Int.emod_self, Int.sub_zero, Int.emod_emod_of_dvd _ (dvd_refl _), Int.emod_emod_of_dvd _ (dvd_refl _)]

/-- reducing a 64-bit wrapped value to `bits ≤ 64` bits forgets the 64-bit wrap -/
theorem wrapU_wrapS64 (bits : Nat) (hb : bits ≤ 64) (x : Int) : wrapU bits (wrapS 64 x) = wrapU bits x := by
  apply wrapU_congr
  have hd : (((2 ^ bits : Nat) : Int)) ∣ (((2 ^ 64 : Nat) : Int)) := by
    have : (2 : Nat) ^ bits ∣ 2 ^ 64 := Nat.pow_dvd_pow 2 hb
    exact_mod_cast this
  have h64 := wrapS_mod 64 (by norm_num) x
  rw [← Int.emod_emod_of_dvd (wrapS 64 x) hd, h64, Int.emod_emod_of_dvd x hd]

theorem wrapU_add_congr (bits : Nat) (a b c : Int) (h : wrapU bits a = wrapU bits b) : wrapU bits (a + c) = wrapU bits (b + c) := by
  apply wrapU_congr
  have := wrapU_mod_iff bits a b h
  rw [Int.add_emod, this, ← Int.add_emod]

/-- **the kernel's stored values are the specification's values** (as unsigned `bits`-bit patterns),
    for `bits` = 32 or 64 or any width up to 64: the kernel uses one more delta, for the value it never stores -/
theorem chains_agree (bits : Nat) (hb : bits ≤ 64) : ∀ (es : List (Int × Nat)) (s V : Int) (x : Int × Nat),
    wrapU bits s = wrapU bits V →
    ofSigned bits s :: (specChainP bits s es).map (ofSigned bits) = kernChainP bits V (es ++ [x]) := by
  intro es
  induction es with
  | nil => intro s V x h; simp [specChainP, kernChainP, ofSigned_eq_wrapU, h]
  | cons e t ih =>
    intro s V x h
    simp only [specChainP, List.map_cons, List.cons_append, kernChainP]
    rw [ofSigned_eq_wrapU, h]
    congr 1
    apply ih
    -- residues agree after the step
    have h1 : wrapU bits (wrapSg bits (s + e.1 + (e.2 : Int))) = wrapU bits (s + e.1 + (e.2 : Int)) :=
      wrapU_congr bits _ _ (wrapSg_mod bits _)
    have h2 : wrapU bits (wrapS 64 (V + e.1 + (e.2 : Int))) = wrapU bits (V + e.1 + (e.2 : Int)) := wrapU_wrapS64 bits hb _
    rw [h1, h2, Int.add_assoc, Int.add_assoc]
    exact wrapU_add_congr bits s V _ h


theorem flatE_length (vpm mpb : Nat) (blocks : List Block) (h : ∀ b ∈ blocks, BlockOk vpm mpb b) :
    (flatE blocks).length = vpm * mpb * blocks.length := by
  induction blocks with
  | nil => simp [flatE]
  | cons b t ih =>
    have hb := h b List.mem_cons_self
    have hl := flatMinis_length b.1 vpm b.2 (fun m hm => (hb.minis m hm).len)
    have := ih (fun x hx => h x (List.mem_cons_of_mem _ hx))
    simp only [flatE, List.flatMap_cons, List.length_append, List.length_cons] at this ⊢
    rw [this, hl, hb.len]; ring

/-- **`delta_binary_unpack` = `Spec.decodeDelta`** on every stream a conforming writer can emit with
    miniblock widths ≤ 28: any block size / miniblock count (values per miniblock a multiple of 8), any
    mixture of widths incl. 0, INT32 and INT64, any count covered by the blocks, at any buffer position,
    whatever follows the stream.  The kernel does not fault, and the output array holds exactly the
    specification's values (as unsigned patterns of the item width). -/
theorem deltaKernel_eq_spec (pre post : List Nat) (longval : Bool) (blockSize mpb cnt : Nat) (first : Int) (blocks : List Block)
    (hbs : blockSize < 2 ^ 64) (hmpb64 : mpb < 2 ^ 64) (hfirst : okI64 first)
    (hmpb : 1 ≤ mpb) (hvpm : 1 ≤ blockSize / mpb) (h8 : blockSize / mpb % 8 = 0) (hcnt1 : 1 ≤ cnt) (hcnt : cnt < 2 ^ 63)
    (hblocks : ∀ b ∈ blocks, BlockOk (blockSize / mpb) mpb b)
    (hroom : cnt ≤ blockSize / mpb * mpb * blocks.length)
    (hbytes : ∀ b ∈ pre ++ encStreamP blockSize mpb cnt first blocks ++ post, b < 256) :
    ∃ vals rest slots loc',
      decodeDelta (if longval then 64 else 32) (encStreamP blockSize mpb cnt first blocks ++ post) = some (vals, rest) ∧
      deltaBinaryUnpack (pre ++ encStreamP blockSize mpb cnt first blocks ++ post) pre.length cnt longval = .ok (slots, loc') ∧
      slots.toList = vals.map (ofSigned (if longval then 64 else 32)) := by
  set bits := (if longval then 64 else 32) with hbits
  have hb64 : bits ≤ 64 := by rw [hbits]; split <;> omega
  set vpm := blockSize / mpb with hvpmdef
  obtain ⟨slots, loc', k1, k2⟩ := deltaBinaryUnpack_concrete pre post longval blockSize mpb cnt first blocks hbs hmpb64 hfirst
    hmpb hvpm hcnt1 hcnt hblocks hroom hbytes
  rw [← hbits, ← hvpmdef] at k2
  have hE := flatE_length vpm mpb blocks hblocks
  have hlens : ∀ b ∈ blocks, b.2.length = mpb ∧ ∀ m ∈ b.2, m.2.length = vpm :=
    fun b hb => ⟨(hblocks b hb).len, fun m hm => ((hblocks b hb).minis m hm).len⟩
  rw [absBlocks_flat bits vpm mpb hvpm blocks first cnt hlens hcnt1] at k2
  -- the specification decoder
  have hblen : blocks.length < (encStreamP blockSize mpb cnt first blocks ++ post).length + 1 := by
    have gen : ∀ bl : List Block, bl.length ≤ (bl.flatMap encBlockP).length := by
      intro bl
      induction bl with
      | nil => simp
      | cons b t ih =>
        simp only [List.flatMap_cons, List.length_append, List.length_cons, encBlockP]
        have := uvarintEnc_length_pos (zigzagEnc b.1)
        omega
    have := gen blocks
    simp only [encStreamP, List.length_append]; omega
  obtain ⟨rest', d1⟩ := deltaBlocks_concrete bits vpm mpb hvpm hmpb h8 post blocks
    ((encStreamP blockSize mpb cnt first blocks ++ post).length + 1) (cnt - 1) (wrapSg bits first) [wrapSg bits first]
    hblocks hblen (by rw [hE]; omega)
  have hdec : decodeDelta bits (encStreamP blockSize mpb cnt first blocks ++ post)
      = some ([wrapSg bits first] ++ specChainP bits (wrapSg bits first) ((flatE blocks).take (cnt - 1)), rest') := by
    have hm0 : ¬ (mpb = 0) := by omega
    have hc0 : ¬ (cnt = 0) := by omega
    have hstream : encStreamP blockSize mpb cnt first blocks ++ post
        = uvarintEnc blockSize ++ (uvarintEnc mpb ++ (uvarintEnc cnt ++ (uvarintEnc (zigzagEnc first) ++ (blocks.flatMap encBlockP ++ post)))) := by
      simp [encStreamP, List.append_assoc]
    rw [hstream] at d1 ⊢
    unfold decodeDelta
    simp only [uvarint_rt, zzVar_enc, bind, Option.bind, hm0, hc0, if_false]
    exact d1
  refine ⟨_, rest', slots, loc', hdec, k1, ?_⟩
  rw [k2]
  have hlt : cnt - 1 < (flatE blocks).length := by rw [hE]; omega
  have htake : (flatE blocks).take cnt = (flatE blocks).take (cnt - 1) ++ [(flatE blocks)[cnt - 1]] := by
    have : cnt = (cnt - 1) + 1 := by omega
    conv => lhs; rw [this]
    rw [List.take_add_one]
    simp [List.getElem?_eq_getElem hlt]
  rw [htake]
  have hres : wrapU bits (wrapSg bits first) = wrapU bits first := wrapU_congr bits _ _ (wrapSg_mod bits first)
  have := chains_agree bits hb64 ((flatE blocks).take (cnt - 1)) (wrapSg bits first) first ((flatE blocks)[cnt - 1]) hres
  simp only [List.singleton_append, List.map_cons]
  exact this.symm

end PqV.Impl
