import PqV.Lemmas.KDelta
/-! Towards `delta_binary_unpack`: the j-loops of one miniblock in list form. -/
namespace PqV.Impl
open PqV.Spec

/-- values the j-loop of one miniblock stores / the running value it leaves, over the deltas `ds` -/
def chainOut (ib : Nat) (md : Int) : Int → List Nat → List Nat
  | _, [] => []
  | v, d :: ds => wrapU ib v :: chainOut ib md (wrapS 64 (v + md + (d : Int))) ds
def chainVal (md : Int) : Int → List Nat → Int
  | v, [] => v
  | v, d :: ds => chainVal md (wrapS 64 (v + md + (d : Int))) ds

theorem chainOut_length (ib : Nat) (md : Int) (v : Int) (ds : List Nat) : (chainOut ib md v ds).length = ds.length := by
  induction ds generalizing v with
  | nil => rfl
  | cons d t ih => simp [chainOut, ih]

def DOut.L (o : DOut) : List Nat := o.slots.toList

theorem DOut.write_in (o : DOut) (v : Nat) (h : o.pos < o.slots.size) :
    (o.write v).L = o.L.set o.pos v ∧ (o.write v).pos = o.pos + 1 ∧ (o.write v).slots.size = o.slots.size := by
  simp [DOut.write, h, DOut.L]

theorem DOut.read_in (o : DOut) (h : o.pos < o.slots.size) :
    o.read = (o.L[o.pos]'(by simpa [DOut.L] using h), { o with pos := o.pos + 1 }) := by
  simp [DOut.read, h, DOut.L]

theorem wrapU_small (ib d : Nat) (h : d < 2 ^ ib) : wrapU ib (d : Int) = d := by
  unfold wrapU
  have hm : ((d : Int) % ((2 ^ ib : Nat) : Int)) = d := by
    apply Int.emod_eq_of_lt (by omega)
    exact_mod_cast h
  rw [hm]; simp

theorem wrapS_small (ib d : Nat) (hib : 1 ≤ ib) (h : d < 2 ^ (ib - 1)) : wrapS ib (d : Int) = d := by
  have h2 : (2 : Nat) ^ ib = 2 * 2 ^ (ib - 1) := by
    obtain ⟨k, rfl⟩ : ∃ k, ib = k + 1 := ⟨ib - 1, by omega⟩
    simp [Nat.pow_succ, Nat.mul_comm]
  unfold wrapS
  rw [wrapU_small ib d (by omega)]
  simp only [h, if_true]


theorem set_split (L : List Nat) (p x : Nat) (h : p < L.length) : L.set p x = L.take p ++ x :: L.drop (p + 1) := by
  exact List.set_eq_take_append_cons_drop.trans (by simp [h])

theorem set_take_succ (L : List Nat) (p x : Nat) (h : p < L.length) : (L.set p x).take (p + 1) = L.take p ++ [x] := by
  rw [set_split L p x h]
  have hl : (L.take p).length = p := by simp; omega
  have ht : (L.take p).take (p + 1) = L.take p := List.take_of_length_le (by rw [hl]; omega)
  rw [List.take_append, hl, ht]
  simp

theorem set_drop_after (L : List Nat) (p x k : Nat) (h : p < L.length) : (L.set p x).drop (p + 1 + k) = L.drop (p + 1 + k) := by
  rw [set_split L p x h]
  have hl : (L.take p).length = p := by simp; omega
  rw [List.drop_append, hl]
  have e1 : p + 1 + k - p = k + 1 := by omega
  have e2 : (L.take p).drop (p + 1 + k) = [] := by simp; omega
  rw [e1, e2, List.nil_append, List.drop_succ_cons, List.drop_drop]

/-- the j-loop of a miniblock whose deltas sit in the output: it replaces them by the running values -/
theorem deltaMini_run (ib : Nat) (hib : 1 ≤ ib) (md : Int) : ∀ (n : Nat) (o : DOut) (value : Int) (c : Nat) (ds : List Nat),
    ds.length = n → 1 ≤ c → o.pos + min n c ≤ o.slots.size →
    (∀ j, j < min n c → o.L[o.pos + j]? = some (ds.getD j 0)) → (∀ d ∈ ds, d < 2 ^ (ib - 1)) →
    ∃ o', deltaMini ib md n o value (c : Int)
        = (o', chainVal md value (ds.take (min n c)), (c : Int) - (min n c : Nat), decide (c ≤ n)) ∧
      o'.L = o.L.take o.pos ++ chainOut ib md value (ds.take (min n c)) ++ o.L.drop (o.pos + min n c) ∧
      o'.pos = o.pos + min n c ∧ o'.slots.size = o.slots.size := by
  intro n
  induction n with
  | zero =>
    intro o value c ds hl hc _ _ _
    refine ⟨o, ?_, ?_, ?_, rfl⟩
    · have : ¬ (c ≤ 0) := by omega
      simp [deltaMini, chainVal, this]
    · simp [chainOut]
    · simp
  | succ n ih =>
    intro o value c ds hl hc hroom hslots hsmall
    obtain ⟨d, ds', rfl⟩ : ∃ d ds', ds = d :: ds' := by
      cases ds with
      | nil => simp at hl
      | cons d t => exact ⟨d, t, rfl⟩
    have hl' : ds'.length = n := by simpa using hl
    have hmin1 : 1 ≤ min (n + 1) c := by omega
    have hin : o.pos < o.slots.size := by omega
    have hLlen : o.L.length = o.slots.size := by simp [DOut.L]
    have h0 := hslots 0 (by omega)
    simp only [Nat.add_zero, List.getD_cons_zero] at h0
    have hget : o.L[o.pos]'(by rw [hLlen]; exact hin) = d := by
      have := List.getElem?_eq_getElem (l := o.L) (i := o.pos) (by rw [hLlen]; exact hin)
      rw [this] at h0; injection h0
    have hd : d < 2 ^ (ib - 1) := hsmall d List.mem_cons_self
    obtain ⟨w1, w2, w3⟩ := DOut.write_in { o with pos := o.pos } (wrapU ib value) hin
    simp only [deltaMini, DOut.read_in o hin, hget, wrapS_small ib d hib hd, hin, if_true, Nat.add_sub_cancel]
    by_cases hc1 : c = 1
    · subst hc1
      have hm : min (n + 1) 1 = 1 := by omega
      refine ⟨{ o with pos := o.pos }.write (wrapU ib value), ?_, ?_, ?_, ?_⟩
      · simp [hm, chainVal]
      · rw [hm, w1]
        simp only [List.take_succ_cons, List.take_zero, chainOut]
        have := set_take_succ o.L o.pos (wrapU ib value) (by rw [hLlen]; exact hin)
        rw [← List.take_append_drop (o.pos + 1) (o.L.set o.pos (wrapU ib value)), this]
        have hd0 := set_drop_after o.L o.pos (wrapU ib value) 0 (by rw [hLlen]; exact hin)
        simp only [Nat.add_zero] at hd0
        rw [hd0]
      · rw [hm, w2]
      · exact w3
    · have hc2 : 2 ≤ c := by omega
      have hcnt : ¬ ((c : Int) - 1 ≤ 0) := by omega
      simp only [hcnt, if_false]
      have hcast : ((c : Int) - 1) = ((c - 1 : Nat) : Int) := by omega
      rw [hcast]
      have hmin : min (n + 1) c = min n (c - 1) + 1 := by omega
      obtain ⟨o', e1, e2, e3, e4⟩ := ih ({ o with pos := o.pos }.write (wrapU ib value)) (wrapS 64 (value + md + (d : Int))) (c - 1) ds' hl'
        (by omega) (by rw [w2, w3]; omega)
        (by
          intro j hj
          rw [w1, w2]
          have hne : o.pos ≠ o.pos + 1 + j := by omega
          rw [List.getElem?_set_ne hne]
          have := hslots (j + 1) (by omega)
          simp only [List.getD_cons_succ] at this
          have e : o.pos + 1 + j = o.pos + (j + 1) := by omega
          rw [e]; exact this)
        (fun x hx => hsmall x (List.mem_cons_of_mem _ hx))
      refine ⟨o', ?_, ?_, ?_, ?_⟩
      · rw [e1, hmin]
        simp only [List.take_succ_cons, chainVal]
        have hA : ((c - 1 : Nat) : Int) - ((min n (c - 1) : Nat) : Int) = (c : Int) - ((min n (c - 1) + 1 : Nat) : Int) := by
          push_cast; omega
        have hB : decide (c - 1 ≤ n) = decide (c ≤ n + 1) := by
          apply decide_eq_decide.mpr; omega
        rw [hA, hB]
      · rw [e2, w1, w2, hmin]
        simp only [List.take_succ_cons, chainOut]
        rw [set_take_succ o.L o.pos (wrapU ib value) (by rw [hLlen]; exact hin)]
        have : (o.L.set o.pos (wrapU ib value)).drop (o.pos + 1 + min n (c - 1)) = o.L.drop (o.pos + (min n (c - 1) + 1)) := by
          rw [set_drop_after o.L o.pos (wrapU ib value) _ (by rw [hLlen]; exact hin)]
          congr 1; omega
        rw [this]
        simp [List.append_assoc]
      · rw [e3, w2, hmin]; omega
      · rw [e4, w3]


/-- the j-loop of a width-0 miniblock: the running value advances by `min_delta` only -/
theorem deltaZero_run (ib : Nat) (md : Int) : ∀ (n : Nat) (o : DOut) (value : Int) (c : Nat),
    1 ≤ c → o.pos + min n c ≤ o.slots.size →
    ∃ o', deltaZero ib md n o value (c : Int)
        = (o', chainVal md value (List.replicate (min n c) 0), (c : Int) - (min n c : Nat), decide (c ≤ n)) ∧
      o'.L = o.L.take o.pos ++ chainOut ib md value (List.replicate (min n c) 0) ++ o.L.drop (o.pos + min n c) ∧
      o'.pos = o.pos + min n c ∧ o'.slots.size = o.slots.size := by
  intro n
  induction n with
  | zero =>
    intro o value c hc _
    refine ⟨o, ?_, ?_, ?_, rfl⟩
    · have : ¬ (c ≤ 0) := by omega
      simp [deltaZero, chainVal, this]
    · simp [chainOut]
    · simp
  | succ n ih =>
    intro o value c hc hroom
    have hin : o.pos < o.slots.size := by omega
    have hLlen : o.L.length = o.slots.size := by simp [DOut.L]
    obtain ⟨w1, w2, w3⟩ := DOut.write_in o (wrapU ib value) hin
    simp only [deltaZero]
    by_cases hc1 : c = 1
    · subst hc1
      have hm : min (n + 1) 1 = 1 := by omega
      refine ⟨o.write (wrapU ib value), ?_, ?_, ?_, ?_⟩
      · simp [hm, chainVal]
      · rw [hm, w1]
        simp only [List.replicate_one, chainOut]
        have := set_take_succ o.L o.pos (wrapU ib value) (by rw [hLlen]; exact hin)
        rw [← List.take_append_drop (o.pos + 1) (o.L.set o.pos (wrapU ib value)), this]
        have hd0 := set_drop_after o.L o.pos (wrapU ib value) 0 (by rw [hLlen]; exact hin)
        simp only [Nat.add_zero] at hd0
        rw [hd0]
      · rw [hm, w2]
      · exact w3
    · have hc2 : 2 ≤ c := by omega
      have hcnt : ¬ ((c : Int) - 1 ≤ 0) := by omega
      simp only [hcnt, if_false]
      have hcast : ((c : Int) - 1) = ((c - 1 : Nat) : Int) := by omega
      rw [hcast]
      have hmin : min (n + 1) c = min n (c - 1) + 1 := by omega
      obtain ⟨o', e1, e2, e3, e4⟩ := ih (o.write (wrapU ib value)) (wrapS 64 (value + md)) (c - 1)
        (by omega) (by rw [w2, w3]; omega)
      refine ⟨o', ?_, ?_, ?_, ?_⟩
      · rw [e1, hmin]
        simp only [List.replicate_succ, chainVal, Int.natCast_zero, Int.add_zero]
        have hA : ((c - 1 : Nat) : Int) - ((min n (c - 1) : Nat) : Int) = (c : Int) - ((min n (c - 1) + 1 : Nat) : Int) := by
          push_cast; omega
        have hB : decide (c - 1 ≤ n) = decide (c ≤ n + 1) := by
          apply decide_eq_decide.mpr; omega
        rw [hA, hB]
      · rw [e2, w1, w2, hmin]
        simp only [List.replicate_succ, chainOut, Int.natCast_zero, Int.add_zero]
        rw [set_take_succ o.L o.pos (wrapU ib value) (by rw [hLlen]; exact hin)]
        have : (o.L.set o.pos (wrapU ib value)).drop (o.pos + 1 + min n (c - 1)) = o.L.drop (o.pos + (min n (c - 1) + 1)) := by
          rw [set_drop_after o.L o.pos (wrapU ib value) _ (by rw [hLlen]; exact hin)]
          congr 1; omega
        rw [this]
        simp [List.append_assoc]
      · rw [e3, w2, hmin]; omega
      · rw [e4, w3]

/-- storing the unpacked deltas: the first `min vals.length (size - pos)` slots from `pos` on -/
theorem unpack_store (ib : Nat) : ∀ (vals : List Nat) (o : DOut), o.pos ≤ o.slots.size →
    let o' := vals.foldl (fun (o : DOut) v => o.write (v % 2 ^ ib)) o
    o'.slots.size = o.slots.size ∧
    o'.L = o.L.take o.pos ++ (vals.take (o.slots.size - o.pos)).map (· % 2 ^ ib) ++ o.L.drop (o.pos + min vals.length (o.slots.size - o.pos)) := by
  intro vals
  induction vals with
  | nil => intro o _; simp
  | cons v t ih =>
    intro o hp
    simp only [List.foldl_cons]
    have hLlen : o.L.length = o.slots.size := by simp [DOut.L]
    by_cases hin : o.pos < o.slots.size
    · obtain ⟨w1, w2, w3⟩ := DOut.write_in o (v % 2 ^ ib) hin
      obtain ⟨i1, i2⟩ := ih (o.write (v % 2 ^ ib)) (by rw [w2, w3]; omega)
      refine ⟨by rw [i1, w3], ?_⟩
      rw [i2, w1, w2, w3]
      rw [set_take_succ o.L o.pos _ (by rw [hLlen]; exact hin)]
      obtain ⟨k, hk⟩ : ∃ k, o.slots.size - o.pos = k + 1 := ⟨o.slots.size - o.pos - 1, by omega⟩
      have hk' : o.slots.size - (o.pos + 1) = k := by omega
      rw [hk, hk', List.take_succ_cons, List.map_cons]
      have : (o.L.set o.pos (v % 2 ^ ib)).drop (o.pos + 1 + min t.length k) = o.L.drop (o.pos + min (t.length + 1) (k + 1)) := by
        rw [set_drop_after o.L o.pos _ _ (by rw [hLlen]; exact hin)]
        congr 1; omega
      rw [this]
      simp [List.append_assoc]
    · have hw : o.write (v % 2 ^ ib) = o := by simp [DOut.write, hin]
      rw [hw]
      obtain ⟨i1, i2⟩ := ih o hp
      refine ⟨i1, ?_⟩
      rw [i2]
      have hz : o.slots.size - o.pos = 0 := by omega
      simp [hz]


theorem bitField_lt (w i S : Nat) : bitField w i S < 2 ^ w := by
  unfold bitField; exact Nat.mod_lt _ (Nat.two_pow_pos w)

/-- **one miniblock of `delta_binary_unpack`** (width 1..28, at least two values still to come, output
    sized to the announced count): the `vpm` deltas are unpacked into the output behind the values
    written so far, then replaced one by one by the running values; the loop goes on to the next
    miniblock with `vpm` fewer values to write, or stops after the last value. -/
theorem deltaBlockLoop_step (buf : List Nat) (hbytes : ∀ b ∈ buf, b < 256) (ib vpm : Nat) (hib : 32 ≤ ib) (md : Int)
    (bwLoc k i loc w : Nat) (o : DOut) (value : Int) (c : Nat)
    (hw : buf[bwLoc + i]? = some w) (hw1 : 1 ≤ w) (hw28 : w ≤ 28)
    (hbuf : loc + (vpm * w + 7) / 8 ≤ buf.length) (hc : 2 ≤ c) (hroom : o.pos + c = o.slots.size) :
    ∃ o', o'.L = o.L.take o.pos
              ++ chainOut ib md value (((List.range vpm).map (fun j => bitField w j (streamOf buf loc))).take (min vpm c))
              ++ o.L.drop (o.pos + min vpm c) ∧
      o'.pos = o.pos + min vpm c ∧ o'.slots.size = o.slots.size ∧
      deltaBlockLoop buf ib vpm md bwLoc (k + 1) i loc o value (c : Int) =
        (if c ≤ vpm then
          .ok (loc + (vpm * w + 7) / 8, o',
            chainVal md value (((List.range vpm).map (fun j => bitField w j (streamOf buf loc))).take (min vpm c)),
            (c : Int) - (min vpm c : Nat), true)
        else deltaBlockLoop buf ib vpm md bwLoc k (i + 1) (loc + (vpm * w + 7) / 8) o'
            (chainVal md value (((List.range vpm).map (fun j => bitField w j (streamOf buf loc))).take (min vpm c)))
            ((c : Int) - (min vpm c : Nat))) := by
  set vals := (List.range vpm).map (fun j => bitField w j (streamOf buf loc)) with hvals
  have hvl : vals.length = vpm := by simp [hvals]
  have hsmall : ∀ d ∈ vals, d < 2 ^ (ib - 1) := by
    intro d hd
    simp only [hvals, List.mem_map] at hd
    obtain ⟨j, _, rfl⟩ := hd
    have h1 := bitField_lt w j (streamOf buf loc)
    have h2 : (2 : Nat) ^ w ≤ 2 ^ (ib - 1) := Nat.pow_le_pow_right (by norm_num) (by omega)
    omega
  have hmod : ∀ d ∈ vals, d % 2 ^ ib = d := by
    intro d hd
    have h1 := hsmall d hd
    have h2 : (2 : Nat) ^ (ib - 1) ≤ 2 ^ ib := Nat.pow_le_pow_right (by norm_num) (by omega)
    exact Nat.mod_eq_of_lt (by omega)
  -- the unpack phase
  have hrb := deltaReadBitpacked_ok buf hbytes loc w vpm hw1 hw28 hbuf
  rw [← hvals] at hrb
  obtain ⟨s1, s2⟩ := unpack_store ib vals o (by omega)
  set o1 := vals.foldl (fun (o : DOut) v => o.write (v % 2 ^ ib)) o with ho1
  have hmap : (vals.take (o.slots.size - o.pos)).map (· % 2 ^ ib) = vals.take (o.slots.size - o.pos) := by
    have : ∀ l : List Nat, (∀ d ∈ l, d % 2 ^ ib = d) → l.map (· % 2 ^ ib) = l := by
      intro l hl
      induction l with
      | nil => rfl
      | cons a t iht =>
        simp only [List.map_cons, hl a List.mem_cons_self, iht (fun d hd => hl d (List.mem_cons_of_mem _ hd))]
    exact this _ (fun d hd => hmod d (List.mem_of_mem_take hd))
  rw [hmap, hvl] at s2
  have hcs : o.slots.size - o.pos = c := by omega
  rw [hcs] at s2
  have hLlen : o.L.length = o.slots.size := by simp [DOut.L]
  -- the j-loop, from the old position
  set o2 : DOut := { o1 with pos := o.pos } with ho2
  have ho2L : o2.L = o1.L := rfl
  have ho2s : o2.slots.size = o.slots.size := s1
  obtain ⟨o', e1, e2, e3, e4⟩ := deltaMini_run ib (by omega) md vpm o2 value c vals hvl (by omega)
    (by show o.pos + min vpm c ≤ o2.slots.size; rw [ho2s]; omega)
    (by
      intro j hj
      show o2.L[o.pos + j]? = _
      rw [ho2L, s2, List.append_assoc, List.getElem?_append_right (by simp)]
      have hl : (o.L.take o.pos).length = o.pos := by simp; omega
      rw [hl, Nat.add_sub_cancel_left, List.getElem?_append_left (by simp [hvl]; omega)]
      rw [List.getElem?_take_of_lt (by omega), List.getD_eq_getElem?_getD]
      have : j < vals.length := by omega
      rw [List.getElem?_eq_getElem this]; rfl)
    hsmall
  refine ⟨o', ?_, ?_, ?_, ?_⟩
  · rw [e2]
    show o1.L.take o.pos ++ _ ++ o1.L.drop (o.pos + min vpm c) = _
    rw [s2]
    have hl : (o.L.take o.pos).length = o.pos := by simp; omega
    have ht : (o.L.take o.pos ++ vals.take c ++ o.L.drop (o.pos + min vpm c)).take o.pos = o.L.take o.pos := by
      rw [List.append_assoc, List.take_append_of_le_length (by omega), List.take_of_length_le (by omega)]
    rw [ht]
    congr 1
    have hlen2 : (o.L.take o.pos ++ vals.take c).length = o.pos + min vpm c := by
      simp [hl, hvl]; omega
    rw [List.drop_append_of_le_length (by rw [hlen2]), ← hlen2, List.drop_length, List.nil_append]
  · exact e3
  · rw [e4]; exact ho2s
  · conv => lhs; unfold deltaBlockLoop
    have hrd : rd buf (bwLoc + i) = .ok w := by simp [rd, hw]
    have hne : w ≠ 0 := by omega
    have hgt : ((c : Int) > 1) := by omega
    simp only [hrd, bind, Except.bind, hne, ne_eq, not_false_eq_true, if_true, hgt, hrb, ← ho1]
    show (match (deltaMini ib md vpm o2 value c) with | (o, value, count, done) => _) = _
    rw [e1]
    by_cases hcv : c ≤ vpm
    · simp [hcv]
    · simp [hcv]

end PqV.Impl
