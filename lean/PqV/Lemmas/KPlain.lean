import PqV.Lemmas.KBitpacked
import PqV.Lemmas.KDeltaLoop
import PqV.Spec.Plain
/-! Kernel refinements for PLAIN values: `read_bitpacked1` / `read_plain_boolean`, `unpack_byte_array`,
and the writer's boolean packing (`convert`, bool branch: pad, reshape, packbits). -/
namespace PqV.Impl
open PqV.Spec

theorem rd_ok (buf : List Nat) (i : Nat) (h : i < buf.length) : rd buf i = .ok buf[i] := by
  simp [rd, h]

theorem bp1_bytes (buf : List Nat) (ip : Nat) : ∀ (k i : Nat) (acc : List Nat), ip + i + k ≤ buf.length →
    readBitpacked1.bytes buf ip k i acc = .ok (acc ++ (buf.drop (ip + i)).take k) := by
  intro k
  induction k with
  | zero => intro i acc _; simp [readBitpacked1.bytes]
  | succ k ih =>
    intro i acc h
    have hlt : ip + i < buf.length := by omega
    simp only [readBitpacked1.bytes, rd_ok buf (ip + i) hlt, bind, Except.bind]
    rw [ih (i + 1) (acc ++ [buf[ip + i]]) (by omega)]
    congr 1
    rw [List.append_assoc]
    congr 1
    have : buf.drop (ip + i) = buf[ip + i] :: buf.drop (ip + (i + 1)) := by
      rw [← Nat.add_assoc]; exact List.drop_eq_getElem_cons hlt
    rw [this, List.take_succ_cons]
    rfl

theorem and_one (x : Nat) : x &&& 1 = x % 2 := by
  exact Nat.and_one_is_mod x

/-- **`read_bitpacked1` refines the specification**: with room for `count` items and the
    `⌈count/8⌉` bytes present, the kernel appends exactly the first `count` bits (LSB first) of the
    byte stream and advances the input by `⌈count/8⌉`. -/
theorem readBitpacked1_refines (buf : List Nat) (hbytes : ∀ b ∈ buf, b < 256) (ip count : Nat) (o : Out)
    (hcap : count ≤ o.cap) (hlen : ip + (count + 7) / 8 ≤ buf.length) :
    readBitpacked1 buf ip count o
      = .ok ({ items := o.items ++ unpackNat 1 count (streamOf buf ip), cap := o.cap - count }, ip + (count + 7) / 8) := by
  have hc : ¬ (count > o.cap) := by omega
  have hnb : count / 8 + (if count % 8 = 0 then 0 else 1) = (count + 7) / 8 := by split <;> omega
  simp only [readBitpacked1, hc, if_false, hnb]
  rw [bp1_bytes buf ip _ 0 [] (by omega)]
  simp only [bind, Except.bind, List.nil_append, Nat.add_zero]
  congr 3
  simp only [unpackNat]
  congr 1
  apply List.map_congr_left
  intro j hj
  have hj' : j < count := by simpa using hj
  have hL : j / 8 < (count + 7) / 8 := by omega
  have hlt : ip + j / 8 < buf.length := by omega
  have hget : ((buf.drop ip).take ((count + 7) / 8)).getD (j / 8) 0 = buf[ip + j / 8] := by
    rw [List.getD_eq_getElem?_getD, List.getElem?_take, if_pos hL, List.getElem?_drop,
      List.getElem?_eq_getElem hlt]
    rfl
  rw [hget, ← stream_byte buf hbytes ip (j / 8) hlt, and_one, Nat.shiftRight_eq_div_pow, bitField]
  have e8 : (256 : Nat) = 2 ^ 8 := by norm_num
  have hm := mod_div_mod (streamOf buf ip / 2 ^ (8 * (j / 8))) 8 (j % 8) 1 (by omega)
  simp only [Nat.pow_one] at hm ⊢
  rw [e8, hm, Nat.div_div_eq_div_mul, ← Nat.pow_add]
  have : 8 * (j / 8) + j % 8 = j * 1 := by omega
  rw [this]

/-- **PLAIN booleans through the kernel**: what the specification packs, `read_plain_boolean` unpacks -/
theorem readPlainBoolean_roundtrip (bits tail : List Nat) (hb : ∀ v ∈ bits, v < 2) (ht : ∀ b ∈ tail, b < 256) :
    readPlainBoolean (packLE 1 bits ++ tail) bits.length = .ok bits := by
  have hbytes : ∀ b ∈ packLE 1 bits ++ tail, b < 256 := by
    intro b hb'
    rcases List.mem_append.mp hb' with h | h
    · exact leBytes_lt _ _ b h
    · exact ht b h
  have hlen : 0 + (bits.length + 7) / 8 ≤ (packLE 1 bits ++ tail).length := by
    rw [List.length_append, packLE_length]; simp
  simp only [readPlainBoolean]
  rw [readBitpacked1_refines _ hbytes 0 bits.length { items := [], cap := bits.length } (Nat.le_refl _) hlen]
  simp only [bind, Except.bind, List.nil_append]
  rw [List.take_of_length_le (by simp [unpackNat])]
  have := unpackLE_packLE 1 bits (by simpa using hb)
  rw [unpackLE] at this
  conv => rhs; rw [← this]
  -- the stream of (packed ++ tail) and of packed alone agree on the first bits.length bits
  simp only [unpackNat]
  congr 1
  apply List.map_congr_left
  intro j hj
  have hj' : j < bits.length := by simpa using hj
  simp only [bitField, streamOf, List.drop_zero, leNat_append, packLE_length, Nat.mul_one]
  have e : (256 : Nat) ^ ((bits.length + 7) / 8) = 2 ^ (j + 1) * 2 ^ (8 * ((bits.length + 7) / 8) - (j + 1)) := by
    rw [← Nat.pow_add]
    have : (256 : Nat) = 2 ^ 8 := by norm_num
    rw [this, ← Nat.pow_mul]
    congr 1; omega
  rw [e, Nat.mul_assoc]
  have h2 : ∀ a c : Nat, (a + 2 ^ (j + 1) * c) / 2 ^ j % 2 = a / 2 ^ j % 2 := by
    intro a c
    rw [Nat.pow_succ, Nat.mul_assoc, Nat.add_mul_div_left _ _ (Nat.two_pow_pos j)]
    omega
  exact h2 _ _


/-- **`unpack_byte_array` inverts `pack_byte_array`** at any position of a buffer, whatever follows:
    every item shorter than 2^31 bytes (the kernel's `int32` length) comes back, in order. -/
theorem unpackByteArray_roundtrip (items : List (List Nat)) (hl : ∀ it ∈ items, it.length < 2 ^ 31) :
    ∀ (pre tail : List Nat),
      unpackByteArray (pre ++ packByteArray items ++ tail) pre.length items.length = .ok items := by
  induction items with
  | nil => intro pre tail; simp [unpackByteArray]
  | cons it rest ih =>
    intro pre tail
    have hit : it.length < 2 ^ 31 := hl it List.mem_cons_self
    have hpack : packByteArray (it :: rest) = leBytes 4 it.length ++ it ++ packByteArray rest := by
      simp [packByteArray]
    have hraw : pre ++ packByteArray (it :: rest) ++ tail
        = (pre ++ leBytes 4 it.length ++ it) ++ packByteArray rest ++ tail := by
      rw [hpack]; simp [List.append_assoc]
    have hlen4 : (leBytes 4 it.length).length = 4 := leBytes_length 4 _
    have hdrop : (pre ++ packByteArray (it :: rest) ++ tail).drop pre.length
        = leBytes 4 it.length ++ (it ++ packByteArray rest ++ tail) := by
      rw [hpack]
      simp [List.append_assoc]
    have hlenraw : (pre ++ packByteArray (it :: rest) ++ tail).length
        = pre.length + 4 + it.length + (packByteArray rest ++ tail).length := by
      rw [hpack]; simp only [List.length_append, hlen4]; omega
    have hlenval : leNat (((pre ++ packByteArray (it :: rest) ++ tail).drop pre.length).take 4) = it.length := by
      rw [hdrop, List.take_left' hlen4, leNat_leBytes]
      apply Nat.mod_eq_of_lt
      have : (2 : Nat) ^ 31 < 256 ^ 4 := by norm_num
      omega
    have hdrop4 : (pre ++ packByteArray (it :: rest) ++ tail).drop (pre.length + 4)
        = it ++ (packByteArray rest ++ tail) := by
      rw [← List.drop_drop, hdrop, List.drop_left' hlen4, List.append_assoc]
    simp only [List.length_cons, unpackByteArray]
    have c1 : ¬ ((pre ++ packByteArray (it :: rest) ++ tail).length ≤ pre.length) := by rw [hlenraw]; omega
    have c2 : ¬ ((pre ++ packByteArray (it :: rest) ++ tail).length < pre.length + 4) := by rw [hlenraw]; omega
    simp only [c1, c2, if_false, hlenval]
    have c3 : ¬ (it.length ≥ 2 ^ 31) := by omega
    have c4 : ¬ ((pre ++ packByteArray (it :: rest) ++ tail).length < pre.length + 4 + it.length) := by rw [hlenraw]; omega
    simp only [c3, c4, if_false]
    have hrec := ih (fun x hx => hl x (List.mem_cons_of_mem _ hx)) (pre ++ leBytes 4 it.length ++ it) tail
    have hpl : (pre ++ leBytes 4 it.length ++ it).length = pre.length + 4 + it.length := by
      simp only [List.length_append, hlen4]
    rw [hpl, ← hraw] at hrec
    rw [hrec]
    simp only [bind, Except.bind, hdrop4, List.take_left' rfl]


theorem leBytes_getElem (k n g : Nat) (hg : g < k) : (leBytes k n)[g]'(by rw [leBytes_length]; exact hg) = n / 256 ^ g % 256 := by
  induction k generalizing n g with
  | zero => omega
  | succ k ih =>
    cases g with
    | zero => simp [leBytes]
    | succ g =>
      simp only [leBytes, List.getElem_cons_succ]
      rw [ih (n / 256) g (by omega), Nat.div_div_eq_div_mul, Nat.pow_succ, Nat.mul_comm]

theorem byte_from_bits (x : Nat) :
    x % 256 = x % 2 + 2 * (x / 2 % 2) + 4 * (x / 4 % 2) + 8 * (x / 8 % 2) + 16 * (x / 16 % 2) + 32 * (x / 32 % 2)
      + 64 * (x / 64 % 2) + 128 * (x / 128 % 2) := by omega

theorem ite_bit (b j : Nat) (h : b < 2) : (if b ≠ 0 then 2 ^ j else 0) = 2 ^ j * b := by
  have : b = 0 ∨ b = 1 := by omega
  rcases this with rfl | rfl <;> simp

/-- **the writer's boolean / definition-level packing is the specification's bit packing** of the
    values padded with `8 - n % 8` zeros (so a whole extra zero byte when `n` is a multiple of 8). -/
theorem writerPackBools_eq (vals : List Nat) (hb : ∀ v ∈ vals, v < 2) :
    writerPackBools vals = packLE 1 (vals ++ List.replicate (8 - vals.length % 8) 0) := by
  set P := vals ++ List.replicate (8 - vals.length % 8) 0 with hP
  have hPb : ∀ v ∈ P, v < 2 := by
    intro v hv
    rcases List.mem_append.mp hv with h | h
    · exact hb v h
    · rw [List.mem_replicate] at h; omega
  have hlen : P.length = 8 * (P.length / 8) := by
    have : P.length = vals.length + (8 - vals.length % 8) := by simp [hP]
    omega
  have hk : (P.length * 1 + 7) / 8 = P.length / 8 := by omega
  simp only [writerPackBools, ← hP, packLE, hk]
  apply List.ext_getElem
  · simp [leBytes_length]
  · intro g h1 h2
    have hg : g < P.length / 8 := by simpa using h1
    rw [leBytes_getElem _ _ g hg]
    simp only [List.getElem_map, List.getElem_range]
    -- bits of the packed number
    have hbit : ∀ j, j < 8 → packNat 1 P / 256 ^ g / 2 ^ j % 2 = P.getD (g * 8 + j) 0 := by
      intro j hj
      have hi : g * 8 + j < P.length := by omega
      have := bitField_packNat 1 P (g * 8 + j) hi
      simp only [bitField, Nat.mul_one, Nat.pow_one] at this
      have e : (256 : Nat) ^ g = 2 ^ (g * 8) := by
        have : (256 : Nat) = 2 ^ 8 := by norm_num
        rw [this, ← Nat.pow_mul, Nat.mul_comm]
      rw [e, Nat.div_div_eq_div_mul, ← Nat.pow_add, this]
      have hv := hPb P[g * 8 + j] (List.getElem_mem hi)
      rw [List.getD_eq_getElem?_getD, List.getElem?_eq_getElem hi]
      simp only [Option.getD_some]
      omega
    rw [byte_from_bits]
    have h0 := hbit 0 (by omega); have h1' := hbit 1 (by omega); have h2' := hbit 2 (by omega); have h3 := hbit 3 (by omega)
    have h4 := hbit 4 (by omega); have h5 := hbit 5 (by omega); have h6 := hbit 6 (by omega); have h7 := hbit 7 (by omega)
    simp only [Nat.pow_zero, Nat.div_one, Nat.add_zero] at h0
    norm_num at h1' h2' h3 h4 h5 h6 h7
    rw [h0, h1', h2', h3, h4, h5, h6, h7]
    have hb' : ∀ j, j < 8 → P.getD (g * 8 + j) 0 < 2 := by
      intro j hj
      have hi : g * 8 + j < P.length := by omega
      rw [List.getD_eq_getElem?_getD, List.getElem?_eq_getElem hi]
      exact hPb _ (List.getElem_mem hi)
    have r8 : List.range 8 = [0, 1, 2, 3, 4, 5, 6, 7] := by decide
    simp only [r8, List.foldl_cons, List.foldl_nil, Nat.add_zero, Nat.zero_add]
    rw [ite_bit _ 0 (by simpa using hb' 0 (by omega)), ite_bit _ 1 (hb' 1 (by omega)), ite_bit _ 2 (hb' 2 (by omega)),
      ite_bit _ 3 (hb' 3 (by omega)), ite_bit _ 4 (hb' 4 (by omega)), ite_bit _ 5 (hb' 5 (by omega)),
      ite_bit _ 6 (hb' 6 (by omega)), ite_bit _ 7 (hb' 7 (by omega))]
    norm_num


theorem widthFor_step (n : Nat) (h : 1 ≤ n) : widthFor n = widthFor (n / 2) + 1 := by
  obtain ⟨k, rfl⟩ : ∃ k, n = k + 1 := ⟨n - 1, by omega⟩
  simp only [widthFor]
  by_cases h2 : 2 ≤ k + 1
  · rw [Nat.log2_def, if_pos h2]
    obtain ⟨j, hj⟩ : ∃ j, (k + 1) / 2 = j + 1 := ⟨(k + 1) / 2 - 1, by omega⟩
    rw [hj]
  · have : k = 0 := by omega
    subst this
    simp [widthFor, Nat.log2_def]

theorem widthLoop_eq : ∀ (f i n : Nat), n < 2 ^ f → widthLoop (f + 1) i (n : Int) = i + widthFor n := by
  intro f
  induction f with
  | zero =>
    intro i n hn
    have : n = 0 := by simpa using hn
    subst this; simp [widthLoop, widthFor]
  | succ f ih =>
    intro i n hn
    by_cases h0 : n = 0
    · subst h0; simp [widthLoop, widthFor]
    · have hne : ¬ ((n : Int) = 0) := by exact_mod_cast h0
      have hdiv : ((n : Int) / 2) = ((n / 2 : Nat) : Int) := by simp
      have hlt : n / 2 < 2 ^ f := by
        rw [Nat.pow_succ] at hn; omega
      conv => lhs; unfold widthLoop
      simp only [hne, if_false, hdiv]
      rw [ih (i + 1) (n / 2) hlt, widthFor_step n (by omega)]
      omega

/-- **`width_from_max_int` = the specification's level width** for every maximum level below 2^63 -/
theorem widthFromMaxInt_eq (n : Nat) (h : n < 2 ^ 63) : widthFromMaxInt (n : Int) = widthFor n := by
  unfold widthFromMaxInt
  rw [wrapS64_small n h, widthLoop_eq 63 0 n h]
  simp

end PqV.Impl
