import PqV.Gen.Filter
import Mathlib.Tactic.Linarith
/-! Soundness of the interval tests *as regenerated from `fastparquet/api.py`*. -/
namespace PqV.Filter
open PqV.Py PqV.Gen.Filter

/-- Predicate semantics of one condition on a non-null scalar cell `x`. -/
def sat (op : String) (val : Int) (vals : List Int) (x : Int) : Bool :=
  if op == "==" || op == "=" then x == val
  else if op == "!=" then x != val
  else if op == "<" then decide (x < val)
  else if op == "<=" then decide (x ≤ val)
  else if op == ">" then decide (x > val)
  else if op == ">=" then decide (x ≥ val)
  else if op == "in" then vals.contains x
  else if op == "not in" then !vals.contains x
  else false

/-- `x` lies within the recorded bounds (each bound optional). -/
def inBounds (vmin vmax : Option Int) (x : Int) : Prop :=
  (∀ m, vmin = some m → m ≤ x) ∧ (∀ M, vmax = some M → x ≤ M)

theorem mem_insertSorted (a x : Int) (l : List Int) : x ∈ insertSorted a l ↔ x = a ∨ x ∈ l := by
  induction l with
  | nil => simp [insertSorted]
  | cons y ys ih =>
    simp only [insertSorted]
    split
    · simp
    · simp only [List.mem_cons, ih]; constructor <;> (intro h; rcases h with h | h | h <;> simp [h])

theorem mem_pySorted (x : Int) (l : List Int) : x ∈ pySorted l ↔ x ∈ l := by
  induction l with
  | nil => simp [pySorted]
  | cons y ys ih =>
    have : pySorted (y :: ys) = insertSorted y (pySorted ys) := rfl
    rw [this, mem_insertSorted, ih]; simp

theorem sorted_insertSorted (a : Int) (l : List Int) (h : l.Pairwise (· ≤ ·)) :
    (insertSorted a l).Pairwise (· ≤ ·) := by
  induction l with
  | nil => simp [insertSorted]
  | cons y ys ih =>
    simp only [insertSorted]
    rw [List.pairwise_cons] at h
    split
    · rename_i hle
      refine List.pairwise_cons.mpr ⟨?_, List.pairwise_cons.mpr h⟩
      intro z hz
      rcases List.mem_cons.mp hz with rfl | hz
      · exact hle
      · exact Int.le_trans hle (h.1 z hz)
    · rename_i hnle
      refine List.pairwise_cons.mpr ⟨?_, ih h.2⟩
      intro z hz
      rcases (mem_insertSorted a z ys).mp hz with rfl | hz
      · omega
      · exact h.1 z hz

theorem sorted_pySorted (l : List Int) : (pySorted l).Pairwise (· ≤ ·) := by
  induction l with
  | nil => simp [pySorted]
  | cons y ys ih => exact sorted_insertSorted y _ ih

theorem head_le_all (l : List Int) (a : Int) (t : List Int) (h : pySorted l = a :: t) :
    ∀ y ∈ l, a ≤ y := by
  intro y hy
  have hs := sorted_pySorted l
  rw [h] at hs
  have hm : y ∈ a :: t := by rw [← h]; exact (mem_pySorted y l).mpr hy
  rcases List.mem_cons.mp hm with rfl | hm
  · exact Int.le_refl _
  · exact (List.pairwise_cons.mp hs).1 y hm

theorem pairwise_le_getLast (l : List Int) (hs : l.Pairwise (· ≤ ·)) (hne : l ≠ []) :
    ∀ y ∈ l, y ≤ l.getLast hne := by
  induction l with
  | nil => exact absurd rfl hne
  | cons a t ih =>
    intro y hy
    rw [List.pairwise_cons] at hs
    by_cases ht : t = []
    · subst ht; simp at hy; simp [hy]
    · rw [List.getLast_cons ht]
      rcases List.mem_cons.mp hy with rfl | hy
      · exact hs.1 _ (List.getLast_mem ht)
      · exact ih hs.2 ht y hy

theorem filter_len_eq_imp {α} (p q : α → Bool) (l : List α) (hpq : ∀ a, p a = true → q a = true)
    (hlen : (l.filter p).length = (l.filter q).length) : ∀ a ∈ l, q a = true → p a = true := by
  induction l with
  | nil => simp
  | cons b t ih =>
    have hle : ∀ (t : List α), (t.filter p).length ≤ (t.filter q).length := by
      intro t
      induction t with
      | nil => simp
      | cons c u ihu =>
        simp only [List.filter_cons]
        by_cases hp : p c = true
        · simp [hp, hpq c hp]; exact ihu
        · by_cases hq : q c = true <;> simp [hp, hq] <;> omega
    intro a ha hqa
    simp only [List.filter_cons] at hlen
    by_cases hp : p b = true
    · have hq := hpq b hp
      simp only [hp, hq, if_true, List.length_cons] at hlen
      rcases List.mem_cons.mp ha with rfl | ha
      · exact hp
      · exact ih (by omega) a ha hqa
    · by_cases hq : q b = true
      · simp only [hp, hq, if_true, List.length_cons] at hlen
        have := hle t
        simp at hlen; omega
      · simp only [hp, hq] at hlen
        rcases List.mem_cons.mp ha with rfl | ha
        · exact absurd hqa hq
        · exact ih (by simpa using hlen) a ha hqa

end PqV.Filter
