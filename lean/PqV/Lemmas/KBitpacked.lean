import PqV.Impl.Kernels
import PqV.Lemmas.Bits
import Mathlib.Tactic.Ring
namespace PqV.Impl
open PqV.Spec

/-- the LSB-first bit stream of the buffer from `ip0` on -/
def streamOf (buf : List Nat) (ip0 : Nat) : Nat := leNat (buf.drop ip0)

theorem leNat_byte (bs : List Nat) (h : ∀ b ∈ bs, b < 256) (i : Nat) (hi : i < bs.length) :
    leNat bs / 256 ^ i % 256 = bs[i] := by
  induction bs generalizing i with
  | nil => simp at hi
  | cons b bs ih =>
    have hb : b < 256 := h b (List.mem_cons_self)
    cases i with
    | zero =>
      simp only [leNat, Nat.pow_zero, Nat.div_one, List.getElem_cons_zero]
      omega
    | succ j =>
      simp only [leNat, List.getElem_cons_succ, Nat.pow_succ]
      rw [Nat.mul_comm (256 ^ j) 256, ← Nat.div_div_eq_div_mul]
      have : (b + 256 * leNat bs) / 256 = leNat bs := by omega
      rw [this]
      exact ih (fun x hx => h x (List.mem_cons_of_mem _ hx)) j (by simpa using hi)

theorem stream_byte (buf : List Nat) (h : ∀ b ∈ buf, b < 256) (ip0 L : Nat) (hL : ip0 + L < buf.length) :
    streamOf buf ip0 / 2 ^ (8 * L) % 256 = buf[ip0 + L] := by
  have e : (2 : Nat) ^ (8 * L) = 256 ^ L := by
    rw [Nat.pow_mul]
  rw [e, streamOf]
  have hlen : L < (buf.drop ip0).length := by simp; omega
  rw [leNat_byte (buf.drop ip0) (fun b hb => h b (List.mem_of_mem_drop hb)) L hlen]
  simp

theorem mod_div_pow (x a r : Nat) (h : r ≤ a) : x % 2 ^ a / 2 ^ r = x / 2 ^ r % 2 ^ (a - r) := by
  have e : (2 : Nat) ^ a = 2 ^ r * 2 ^ (a - r) := by rw [← Nat.pow_add]; congr 1; omega
  rw [e, Nat.mod_mul_right_div_self]

theorem mod_div_mod (x a r w : Nat) (h : r + w ≤ a) : x % 2 ^ a / 2 ^ r % 2 ^ w = x / 2 ^ r % 2 ^ w := by
  rw [mod_div_pow x a r (by omega)]
  have e : (2 : Nat) ^ (a - r) = 2 ^ w * 2 ^ (a - r - w) := by rw [← Nat.pow_add]; congr 1; omega
  rw [e, Nat.mod_mul_right_mod]

theorem mod_pow_add8 (x l : Nat) : x % 2 ^ (l + 8) = x % 2 ^ l + 2 ^ l * (x / 2 ^ l % 256) := by
  rw [Nat.pow_add, Nat.mod_mul]

theorem wrapU_nat (bits m : Nat) (h : m < 2 ^ bits) : wrapU bits (m : Int) = m := by
  unfold wrapU
  have : ((m : Int) % ((2 ^ bits : Nat) : Int)) = (m : Int) := Int.emod_eq_of_lt (by omega) (by exact_mod_cast h)
  rw [this]; simp

theorem maskForBits_eq (w : Nat) (h : w ≤ 31) : maskForBits w = 2 ^ w - 1 := by
  unfold maskForBits
  have hpos : 1 ≤ 2 ^ w := Nat.one_le_two_pow
  have e : (2 : Int) ^ w - 1 = ((2 ^ w - 1 : Nat) : Int) := by
    rw [Int.natCast_sub hpos]; push_cast; ring
  rw [e, wrapU_nat]
  have : 2 ^ w ≤ 2 ^ 31 := Nat.pow_le_pow_right (by norm_num) h
  omega

theorem and_ff (b : Nat) (h : b < 256) : b &&& 0xff = b := by
  have : b &&& (2 ^ 8 - 1) = b % 2 ^ 8 := Nat.and_two_pow_sub_one_eq_mod b 8
  simp at this
  omega

theorem or_shift (d b l : Nat) (h : d < 2 ^ l) : d ||| (b <<< l) = d + b * 2 ^ l := by
  rw [Nat.or_comm, ← Nat.shiftLeft_add_eq_or_of_lt h, Nat.shiftLeft_eq]; omega


/-- loop invariant of `read_bitpacked`: `L` bytes loaded, `B` of them already shifted out, `k` values emitted -/
structure BpInv (S ip0 w n capItems : Nat) (s : BP) (L B k : Nat) : Prop where
  ip_eq : s.ip = ip0 + L
  L_pos : 1 ≤ L
  B_le : B ≤ L
  left_eq : s.left = 8 * (L - B)
  left_le : s.left ≤ 32
  right_eq : s.right + 8 * B = k * w
  right_le : s.right ≤ s.left
  data_eq : s.data = S / 2 ^ (8 * B) % 2 ^ s.left
  count_eq : s.count + k = n
  emitted_eq : s.emitted = (List.range (min k capItems)).map (fun i => bitField w i S)
  hi : L = 1 ∨ 8 * (L - 1) < n * w

def mu (w : Nat) (s : BP) : Nat := 9 * s.count + (s.right - 1) / 8 + (w + 7 - (s.left - s.right)) / 8

theorem bpStep_inv (buf : List Nat) (hbytes : ∀ b ∈ buf, b < 256) (ip0 w n capItems : Nat) (hw : w ≤ 24)
    (hbuf : ip0 + (n * w + 7) / 8 ≤ buf.length)
    (s : BP) (L B k : Nat) (inv : BpInv (streamOf buf ip0) ip0 w n capItems s L B k) (hc : s.count ≠ 0) :
    ∃ s' L' B' k', bpStep buf w 4 capItems s = .ok s' ∧ BpInv (streamOf buf ip0) ip0 w n capItems s' L' B' k' ∧ mu w s' < mu w s := by
  obtain ⟨ip_eq, L_pos, B_le, left_eq, left_le, right_eq, right_le, data_eq, count_eq, emitted_eq, hi⟩ := inv
  have hkn : k + 1 ≤ n := by omega
  have hXY : k * w + w ≤ n * w := by
    have := Nat.mul_le_mul_right w hkn
    rw [Nat.add_mul, Nat.one_mul] at this; exact this
  unfold bpStep
  by_cases hA : s.right > 8
  · -- shift one byte out
    simp only [hA, if_true]
    have hl16 : s.left ≥ 16 := by omega
    have e1 : wrapU 8 ((s.left : Int) - 8) = s.left - 8 := by
      have : (s.left : Int) - 8 = ((s.left - 8 : Nat) : Int) := by omega
      rw [this, wrapU_nat]; omega
    refine ⟨_, L, B + 1, k, rfl, ⟨ip_eq, L_pos, by omega, by simp only [e1]; omega, by simp only [e1]; omega, by simp only; omega,
      by simp only [e1]; omega, ?_, count_eq, emitted_eq, hi⟩, ?_⟩
    · simp only [e1]
      rw [data_eq]
      have h8 : (256 : Nat) = 2 ^ 8 := by norm_num
      rw [h8, mod_div_pow _ _ 8 (by omega), Nat.div_div_eq_div_mul, ← Nat.pow_add]
      have : 8 * B + 8 = 8 * (B + 1) := by ring
      rw [this]
    · simp only [mu, e1]; omega
  · simp only [hA, if_false]
    by_cases hB : (s.left : Int) - s.right < w
    · -- load one byte
      simp only [hB, if_true]
      have hl24 : s.left ≤ 24 := by omega
      have hnf : ¬ (s.left ≥ 32) := by omega
      have hL : ip0 + L < buf.length := by omega
      have hrd : rd buf s.ip = .ok buf[ip0 + L] := by simp [rd, ip_eq, hL]
      have hb : buf[ip0 + L] < 256 := hbytes _ (List.getElem_mem hL)
      have e1 : wrapU 8 ((s.left : Int) + 8) = s.left + 8 := by
        have : (s.left : Int) + 8 = ((s.left + 8 : Nat) : Int) := by omega
        rw [this, wrapU_nat]; omega
      simp only [hnf, if_false, hrd, bind, Except.bind, and_ff _ hb]
      refine ⟨_, L + 1, B, k, rfl, ⟨by simp only [ip_eq]; omega, by omega, by omega, by simp only [e1]; omega, by simp only [e1]; omega,
        right_eq, by simp only [e1]; omega, ?_, count_eq, emitted_eq, by right; omega⟩, ?_⟩
      · simp only [e1]
        have hd : s.data < 2 ^ s.left := by rw [data_eq]; exact Nat.mod_lt _ (Nat.two_pow_pos _)
        rw [or_shift _ _ _ hd, mod_pow_add8 (streamOf buf ip0 / 2 ^ (8 * B)) s.left]
        have hbyte := stream_byte buf hbytes ip0 L hL
        have e2 : streamOf buf ip0 / 2 ^ (8 * B) / 2 ^ s.left = streamOf buf ip0 / 2 ^ (8 * L) := by
          rw [Nat.div_div_eq_div_mul, ← Nat.pow_add]; congr 2; omega
        rw [e2, hbyte, ← data_eq]
        have hlt : s.data + buf[ip0 + L] * 2 ^ s.left < 2 ^ 32 := by
          have h1 : s.data + buf[ip0 + L] * 2 ^ s.left < 2 ^ s.left * 256 := by
            have : buf[ip0 + L] * 2 ^ s.left ≤ 255 * 2 ^ s.left := Nat.mul_le_mul_right _ (by omega)
            omega
          have h2 : 2 ^ s.left * 256 ≤ 2 ^ 32 := by
            have : (256 : Nat) = 2 ^ 8 := by norm_num
            rw [this, ← Nat.pow_add]
            exact Nat.pow_le_pow_right (by norm_num) (by omega)
          omega
        rw [Nat.mod_eq_of_lt hlt]; ring
      · simp only [mu, e1]; omega
    · -- emit one value
      simp only [hB, if_false]
      have hr32 : ¬ (s.right ≥ 32) := by omega
      have e1 : wrapU 8 ((s.right : Int) + w) = s.right + w := by
        have : (s.right : Int) + w = ((s.right + w : Nat) : Int) := by omega
        rw [this, wrapU_nat]; omega
      simp only [hr32, if_false]
      have hval : (s.data >>> s.right) &&& maskForBits w = bitField w k (streamOf buf ip0) := by
        rw [maskForBits_eq w (by omega), Nat.and_two_pow_sub_one_eq_mod, Nat.shiftRight_eq_div_pow, data_eq,
          mod_div_mod _ _ _ _ (by omega), Nat.div_div_eq_div_mul, ← Nat.pow_add, bitField]
        congr 3
        omega
      refine ⟨_, L, B, k + 1, rfl, ⟨ip_eq, L_pos, B_le, left_eq, left_le, by simp only [e1]; rw [Nat.add_mul, Nat.one_mul]; omega,
        by simp only [e1]; omega, data_eq, by simp only; omega, ?_, hi⟩, ?_⟩
      · have hlen : s.emitted.length = min k capItems := by rw [emitted_eq]; simp
        by_cases hk : k < capItems
        · have h1 : min k capItems = k := by omega
          have h2 : min (k + 1) capItems = k + 1 := by omega
          have hl' : s.emitted.length < capItems := by omega
          simp only [hl', if_true, h2]
          rw [emitted_eq, h1]
          simp [List.range_succ, hval]
        · have h1 : min k capItems = capItems := by omega
          have h2 : min (k + 1) capItems = capItems := by omega
          have hl' : ¬ (s.emitted.length < capItems) := by omega
          simp only [hl', if_false, h2]
          rw [emitted_eq, h1]
      · simp only [mu, e1]; omega


theorem bpLoop_inv (buf : List Nat) (hbytes : ∀ b ∈ buf, b < 256) (ip0 w n capItems : Nat) (hw : w ≤ 24)
    (hbuf : ip0 + (n * w + 7) / 8 ≤ buf.length) :
    ∀ (fuel : Nat) (s : BP) (L B k : Nat), BpInv (streamOf buf ip0) ip0 w n capItems s L B k → mu w s ≤ fuel →
      ∃ s' L' B', bpLoop buf w 4 capItems fuel s = .ok s' ∧ BpInv (streamOf buf ip0) ip0 w n capItems s' L' B' n ∧ s'.count = 0 := by
  intro fuel
  induction fuel with
  | zero =>
    intro s L B k inv hmu
    have hc : s.count = 0 := by simp only [mu] at hmu; omega
    have hk : k = n := by have := inv.count_eq; omega
    subst hk
    exact ⟨s, L, B, by simp [bpLoop, hc], inv, hc⟩
  | succ fuel ih =>
    intro s L B k inv hmu
    by_cases hc : s.count = 0
    · have hk : k = n := by have := inv.count_eq; omega
      subst hk
      exact ⟨s, L, B, by simp [bpLoop, hc], inv, hc⟩
    · obtain ⟨s1, L1, B1, k1, hstep, inv1, hlt⟩ := bpStep_inv buf hbytes ip0 w n capItems hw hbuf s L B k inv hc
      obtain ⟨s', L', B', hl, inv', hc'⟩ := ih s1 L1 B1 k1 inv1 (by omega)
      refine ⟨s', L', B', ?_, inv', hc'⟩
      simp only [bpLoop, hc, if_false, hstep, bind, Except.bind]
      exact hl

/-- **`read_bitpacked` refines the specification for every bit width up to 24**, any number of groups, any
    buffer position: it stores exactly the `groups*8` values of the LSB-first bit stream (as many as fit the output), consumes exactly
    the run's bytes (at least one: the first load is unconditional) and never faults. -/
theorem readBitpacked_ok (buf : List Nat) (hbytes : ∀ b ∈ buf, b < 256) (ip0 header w : Nat) (o : Out) (hw : w ≤ 24)
    (h0 : ip0 < buf.length) (hbuf : ip0 + (header / 2 * 8 * w + 7) / 8 ≤ buf.length) :
    readBitpacked buf ip0 header w o 4
      = .ok ({ items := o.items ++ (List.range (min (header / 2 * 8) (o.cap / 4))).map (fun i => bitField w i (streamOf buf ip0)),
               cap := o.cap - (min (header / 2 * 8) (o.cap / 4)) * 4 },
             ip0 + max 1 ((header / 2 * 8 * w + 7) / 8)) := by
  unfold readBitpacked
  have h14 : ¬ (w = 1 ∧ (4 : Nat) = 1) := by omega
  have h32 : ¬ (w ≥ 31) := by omega
  have hrd : rd buf ip0 = .ok buf[ip0] := by simp [rd, h0]
  have hb : buf[ip0] < 256 := hbytes _ (List.getElem_mem h0)
  simp only [h14, if_false, h32, hrd, bind, Except.bind, and_ff _ hb]
  set n := header / 2 * 8 with hn
  have inv0 : BpInv (streamOf buf ip0) ip0 w n (o.cap / 4)
      { ip := ip0 + 1, data := buf[ip0], left := 8, right := 0, count := n, emitted := [] } 1 0 0 := by
    refine ⟨rfl, by omega, by omega, by simp, by simp, by simp, by simp, ?_, by simp, by simp, Or.inl rfl⟩
    have := stream_byte buf hbytes ip0 0 (by simpa using h0)
    simp at this ⊢
    omega
  obtain ⟨s', L', B', hl, inv', hc'⟩ := bpLoop_inv buf hbytes ip0 w n (o.cap / 4) hw hbuf
    (n * (w + 12) + 16) _ 1 0 0 inv0 (by simp only [mu]; rw [Nat.mul_add]; omega)
  rw [hl]
  obtain ⟨ip_eq, L_pos, B_le, left_eq, left_le, right_eq, right_le, data_eq, count_eq, emitted_eq, hi⟩ := inv'
  simp only [emitted_eq, List.length_map, List.length_range, ip_eq]
  congr 2
  have : max 1 ((n * w + 7) / 8) = L' := by omega
  rw [this]


theorem bitField_prefix (bs : List Nat) (m w i : Nat) (hm : m ≤ bs.length) (hi : (i + 1) * w ≤ 8 * m) :
    bitField w i (leNat bs) = bitField w i (leNat (bs.take m)) := by
  have hsplit : leNat bs = leNat (bs.take m) + 256 ^ m * leNat (bs.drop m) := by
    have := leNat_append (bs.take m) (bs.drop m)
    rw [List.take_append_drop, List.length_take, Nat.min_eq_left hm] at this
    exact this
  have hiw : i * w + w ≤ 8 * m := by rw [Nat.add_mul, Nat.one_mul] at hi; exact hi
  have e : (256 : Nat) ^ m = 2 ^ (i * w) * (2 ^ w * 2 ^ (8 * m - i * w - w)) := by
    have : (256 : Nat) = 2 ^ 8 := by norm_num
    rw [this, ← Nat.pow_mul, ← Nat.pow_add, ← Nat.pow_add]; congr 1; omega
  unfold bitField
  rw [hsplit, e, Nat.mul_assoc, Nat.add_mul_div_left _ _ (Nat.two_pow_pos _), Nat.mul_assoc, Nat.add_mul_mod_self_left]

/-- the values `read_bitpacked` stores are the specification's `unpackLE` of the run's own bytes -/
theorem stream_values_eq_unpackLE (buf : List Nat) (ip0 w n m : Nat) (hm : ip0 + m ≤ buf.length) (hnm : n * w ≤ 8 * m) :
    (List.range n).map (fun i => bitField w i (streamOf buf ip0)) = unpackLE w n ((buf.drop ip0).take m) := by
  unfold unpackLE unpackNat streamOf
  apply List.map_congr_left
  intro i hi
  have hi' : i < n := by simpa using hi
  apply bitField_prefix
  · simp; omega
  · have : (i + 1) * w ≤ n * w := Nat.mul_le_mul_right w (by omega)
    omega

end PqV.Impl
